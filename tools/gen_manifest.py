#!/usr/bin/env python3
"""Regenerates MANIFEST.json from the table below (single source of truth)."""
import json, os
HERE = os.path.dirname(os.path.dirname(os.path.abspath(__file__)))
ALL = ['C%02d' % i for i in range(1, 21)]

CHECKS = {
 'C10': dict(
   text='Lean 4 proofs over a hand-written model of Namespace.encode/_parse, metadata_util.merge_* and the datastores\' update_metadata: round trip and injectivity of the namespace codec for every namespace without a component ending in a backslash (the full statement is refuted by a kernel-checked witness = known finding), merge is sorted last-writer-wins for all inputs, a failed update changes nothing, and every history of updates/creations/deletions refines the abstract last-writer-wins map (induction over histories, no bound). Tied to the code on every run by a correspondence check (codec on adversarial alphabets, merge functions, update histories through the real service on RAM and SQLite vs the model driver).',
   design_ref='DESIGN.md 6/C10',
   note='Trusted: Lean kernel + 3 standard axioms; the hand-written model (values opaque; proto Any packing not modelled); the correspondence harness and shims. Trial ids in updates are canonical decimals. The known finding (trailing backslash) is reported from a replay on the real code.',
   technique='Lean 4 theorem proving (induction / refinement) + model-vs-code correspondence check'),
 'C01': dict(
   text='Lean 4 proofs over M1 (Model/Service.lean: every RPC body of vizier_service.py over a datastore state, the algorithm\'s outcome being a parameter of each request): for every history and every variant flag, every call evolves each study\'s trials legally (only REQUESTED->ACTIVE->(STOPPING->)SUCCEEDED|INFEASIBLE, parameters fixed, completed trials frozen up to metadata, worker fixed after hand-out, fresh unique ids) — induction over histories with a datastore invariant; a failing call leaves all stored data unchanged; the documented error class for missing/inactive studies and missing/immutable trials. M1 is the sequential reference model of the property: a correspondence check replays stateful generated histories on the real servicer (RAM + SQLite) and on the model and compares every response and per-step snapshot; the Lean predicates judge the real snapshots.',
   design_ref='DESIGN.md 6/C01',
   note='Trusted: Lean kernel + 3 standard axioms; M1 is hand-written (protobuf copy semantics, deepcopy, SQLAlchemy modelled as values; timestamps, messages, ListOptimalTrials content not modelled); harness, shims, scripted Pythia. Local-context semantics of handle_exception (raise); the gRPC path is C08.',
   technique='Lean 4 theorem proving (invariant by induction over RPC histories) + model-vs-code correspondence check'),
 'C02': dict(
   text='Lean 4 proofs over M1\'s SuggestTrials (own-active, queue, algorithm stages; algorithm answer arbitrary): hands out exactly min(N, own+queued+delivered) trials, all ACTIVE and owned by the caller, in own/queued/new order; with >= N own ACTIVE trials it returns the first N of them and creates nothing (sticky); a trial\'s worker never changes after it left REQUESTED (no double assignment, all histories); surplus suggestions are queued as REQUESTED and nothing is dropped; every new trial id exceeds every existing id. Tied to the code by suggest-heavy stateful histories on RAM and SQLite, model vs real per step, Lean predicates judging the real responses and snapshots.',
   design_ref='DESIGN.md 6/C02',
   note='Trusted as C01. The count formula is judged on real runs only when the worker has no unfinished operation and the algorithm\'s metadata delta is accepted. Client-layer suggest (clients.py) is exercised in C08.',
   technique='Lean 4 theorem proving + model-vs-code correspondence check'),
 'C06': dict(
   text='Lean 4 proofs over M1 with the algorithm outcome arbitrary (raises RpcError / any other exception / delivers 0..N+k): for every history the repaired service never leaves an unfinished suggestion operation (invariant by induction), every SuggestTrials answer is a new finished operation, an algorithm exception is reported as an operation error, a short delivery is handed out, lifecycle invariants survive the failure, an early-stopping exception finishes the trial\'s record; kernel-checked counterexamples for the pinned-commit variants (wedged operation / IndexError / early-stop record stuck ACTIVE) identify regressions. Tie: 45%-failure histories model vs real, plus fault injection through the real PythiaServicer in-process and behind a real gRPC Pythia server with eight exception types at first/k-th/every call, and the client polling loop with a poll bound.',
   design_ref='DESIGN.md 6/C06',
   note='Trusted as C01; gRPC transport (remote exception arrives as RpcError). Early-stopping decisions that omit the requested trial leave its record ACTIVE (policy contract says this does not happen; not claimed). Defects D1 and the early-stop wedge were repaired by fix: commits.',
   technique='Lean 4 theorem proving (invariant over histories with arbitrary failing oracle) + fault-injection correspondence check'),
 'C07': dict(
   text='One Lean service model serves both datastores; the theorems are: equal variant flags give equal responses and stored data for every history (the model is a function of the history), the datastore invariants hold after every history, and each pinned-commit difference between ram_datastore.py and sql_datastore.py (delete_study leaving operation rows; non-atomic RAM update_metadata) yields a kernel-checked observable divergence. That RAM, in-memory SQLite and a SQLite file all correspond to that one model — and to each other, which is the property itself — is checked on every run on stateful histories biased to delete/re-create, failing metadata updates, early-stopping checks and operation lookups, per step, responses and full snapshots.',
   design_ref='DESIGN.md 6/C07',
   note='The representation-level simulation (nested dicts vs SQL tables) is NOT modelled: proof strength is limited to the shared model + flags; the backend equivalence itself rests on the differential check (3 backends pairwise, every step). Trusted: SQLite row order, SQLAlchemy. Both divergences found were repaired by fix: commits.',
   technique='Lean 4 model shared by both backends + three-backend differential correspondence check'),
 'C08': dict(
   text='Lean 4 proofs over M4 (Model/Deploy.lean: how each servicer outcome of M1 reaches a caller through the in-process path and through gRPC, and the client layer of clients.py on top): for every servicer outcome and hence for every history the error class seen by a caller is the same in all three deployments; an algorithm failure is reported identically whether Pythia runs in-process (raw exception) or behind gRPC (RpcError); the promised exceptions (ResourceNotFoundError for a missing trial/study, [] for a finished study) are produced in every deployment; kernel-checked counterexamples for the pinned commit (UNKNOWN instead of NOT_FOUND over gRPC; handle_exception not stopping the servicer behind gRPC, so a refused CompleteTrial overwrites a completed trial). Tie/property on every run: stateful RPC histories and client-level programs replayed against the in-process servicer, a real gRPC server and a real gRPC server with a separate gRPC Pythia server, compared per step on responses (errors by class) and full datastore snapshots.',
   design_ref='DESIGN.md 6/C08',
   note='Trusted: the two gRPC transport rules (an uncaught servicer exception arrives as UNKNOWN; context.abort(code) arrives as that code), loopback only; M1/M4 hand-written. Error classes compared: FAILED_PRECONDITION, NOT_FOUND, ALREADY_EXISTS, other. Two genuine defects repaired by fix: commits (handle_exception aborts; lookup errors mapped + get_trial translation).',
   technique='Lean 4 theorem proving over a transport/client model + three-deployment differential correspondence check'),
 'C05': dict(
   text='Lean 4 proofs over the crash model M3 (Model/Crash.lean: every SQL datastore write call is one transaction, a crash keeps a prefix of the RPC\'s write calls): single-resource RPCs are all-or-nothing; the write list of SuggestTrials replays exactly to M1\'s result (acknowledged = durable); after ANY prefix of SuggestTrials\' writes the trials are a legal evolution of the pre-crash trials (unique increasing ids, legal states, completed trials untouched) and the datastore invariant holds, so C01/C02 apply from the recovered state; any worker without an unfinished operation gets a finished operation after restart and an ACTIVE trial can be completed; kernel-checked witness of the one exception (the crashed worker\'s own abandoned operation = known finding). Tie on every run: SQL statement/commit tracing shows every datastore call is a single transaction, and process death (os._exit in a forked child) is injected before EVERY SQL event of each RPC kind after several prefixes on a SQLite file; the restarted server\'s snapshot must be one of the model\'s crash states, is judged by the Lean predicates, and a continuation (suggest + complete) is run.',
   design_ref='DESIGN.md 6/C05',
   note='Trusted: SQLite rollback-journal atomicity, fsync, file system (crash = process death, not power loss); SQLAlchemy autobegin/commit semantics as traced; M1/M3 hand-written. Early-stopping records left ACTIVE by a crash are outside the property\'s continuation clause (advisory answer).',
   technique='Lean 4 theorem proving (prefix-closed invariant over the write log) + exhaustive crash-point injection on the real SQLite-backed service'),
}

NOT_YET = 'not yet built in this session (machinery in progress; see DESIGN.md section 7 build order)'

def main():
  checks = []
  for pid in ALL:
    if pid in CHECKS:
      c = CHECKS[pid]
      checks.append({
        'property_id': pid,
        'quick_cmd': './check %s --tier quick' % pid,
        'thorough_cmd': './check %s --tier thorough' % pid,
        'evidence_file': 'evidence/%s.json' % pid,
        'replay_cmd_template': './check %s --replay {path}' % pid,
        'engine': 'lean-model+correspondence',
        'level_claimed': {'category': 'proof', 'text': c['text'], 'design_ref': c['design_ref']},
        'level_note': c['note'],
        'technique': c['technique'],
      })
  m = {
    'version': 1,
    'setup_cmd': 'cd lean && lake build',
    'hooks': {
      'guard': 'VIZIER_VERIF',
      'enable': 'no source hooks in /repo: all instrumentation is injected from the harness process (./check exports VIZIER_VERIF=1 for uniformity)',
      'baseline_off_cmd': 'cd /repo && env -u VIZIER_VERIF /venv/bin/python -m pytest -ra -q -p no:cacheprovider --timeout=900 --continue-on-collection-errors',
      'source_commits': [],
      'add_only': True,
    },
    'engines': [{
      'name': 'lean-model+correspondence', 'path': 'lean/ + harness/',
      'serves_properties': sorted(CHECKS),
      'kind_free_text': 'Lean 4 models and theorems (lake project lean/, no Mathlib in models), axiom audit, JSON line-protocol drivers (lake env lean --run), Python correspondence harness driving the real code in-process',
    }],
    'checks': checks,
    'notes': 'Exit 2 = infrastructure failure (never a verdict). known_findings.json lists recorded defects; fixed defects are listed there as "fixed:" lines and suppress nothing.',
    'not_applicable': [{'property_id': p, 'reason': NOT_YET} for p in ALL if p not in CHECKS],
  }
  json.dump(m, open(os.path.join(HERE, 'MANIFEST.json'), 'w'), indent=1)
  # root import file of the Lean library: every Props module that is claimed
  mods = []
  for pid in sorted(CHECKS):
    tp = os.path.join(HERE, 'lean', 'theorems', pid + '.json')
    if os.path.exists(tp):
      mods += json.load(open(tp)).get('modules', [])
  extra = ['VizierModel.Driver.SvcJson', 'VizierModel.Driver.Util']
  body = '-- Root of the `VizierModel` library (generated by tools/gen_manifest.py).\n' + ''.join(
      'import %s\n' % m for m in sorted(set(mods + extra)))
  open(os.path.join(HERE, 'lean', 'VizierModel.lean'), 'w').write(body)

if __name__ == '__main__':
  main()
