#!/bin/sh
# tools/eval_daemon.sh — processes /tmp/evalq/todo (lines "Cxx tag [Cyy]") one at a time; log in /tmp/evalq/log
mkdir -p /tmp/evalq; touch /tmp/evalq/todo /tmp/evalq/done
cd /verif
while true; do
  line=$(grep -vxFf /tmp/evalq/done /tmp/evalq/todo | head -1)
  if [ -z "$line" ]; then sleep 5; continue; fi
  set -- $line
  echo "=== $line" >> /tmp/evalq/log
  if [ -n "$3" ]; then extra="--also $3"; else extra=""; fi
  python3 tools/eval_seed.py $1 $2 $extra 2>&1 | grep -v 'WARNING conda' | cut -c1-260 >> /tmp/evalq/log
  git -C /repo worktree remove --force /tmp/seed_$1_$2 >> /tmp/evalq/log 2>&1
  echo "$line" >> /tmp/evalq/done
done
