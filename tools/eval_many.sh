#!/bin/sh
# tools/eval_many.sh "C18 b" "C11 b" … — evaluate finished seeding worktrees one after the other, remove each worktree
cd /verif
for x in "$@"; do
  set -- $x
  echo "=== $1 $2"
  python3 tools/eval_seed.py $1 $2 2>&1 | grep -v 'WARNING conda' | cut -c1-260
  git -C /repo worktree remove --force /tmp/seed_$1_$2
done
