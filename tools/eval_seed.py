#!/usr/bin/env python3
"""tools/eval_seed.py <Cxx> <tag> [--tier quick|thorough] [--also Cyy ...]
Confirms a seeded change (demo PASS on /repo, FAIL on the worktree), runs the checks against the
worktree (VERIF_REPO) and stores patch, demo and meta.json under /verif/seeded/<Cxx>_<tag>/."""
import json, os, shutil, subprocess, sys, time
pid, tag = sys.argv[1], sys.argv[2]
tier = 'quick'
also = []
args = sys.argv[3:]
while args:
  a = args.pop(0)
  if a == '--tier': tier = args.pop(0)
  elif a == '--also': also.append(args.pop(0))
wt = '/tmp/seed_%s_%s' % (pid, tag)
out = '/verif/seeded/%s_%s' % (pid, tag)
os.makedirs(out, exist_ok=True)
demo = os.path.join(wt, 'demo_%s.py' % pid)
def run(cmd, env=None, timeout=3600, cwd=None):
  e = dict(os.environ); e.update(env or {})
  p = subprocess.run(cmd, capture_output=True, text=True, env=e, timeout=timeout, cwd=cwd)
  return p.returncode, (p.stdout + p.stderr)
if not os.path.isdir(os.path.join(wt, 'vizier')) or not os.path.exists(demo):
  sys.exit('no worktree %s with a demo: re-create it with tools/reseed.sh' % wt)
old = {}
if os.path.exists(os.path.join(out, 'meta.json')):
  try: old = json.load(open(os.path.join(out, 'meta.json')))
  except ValueError: old = {}
meta = {'property': pid, 'tag': tag, 'worktree': wt}
if old.get('notes'): meta['notes'] = old['notes']
# every evaluation is kept: a change first missed and caught after strengthening shows both
meta['evaluations'] = old.get('evaluations', [])
if old.get('checks') and not meta['evaluations']:
  meta['evaluations'].append({'caught_by': old.get('caught_by', []), 'exits': {k: v['exit'] for k, v in old['checks'].items()}})
# refresh patch from the worktree (source only)
rc, diff = run(['git', '-C', wt, 'diff', '--', 'vizier'])
open(os.path.join(out, 'patch.diff'), 'w').write(diff)
shutil.copy(demo, os.path.join(out, os.path.basename(demo)))
rc0, o0 = run(['/venv/bin/python', demo, '/repo'])
rc1, o1 = run(['/venv/bin/python', demo, wt])
meta['demo_on_repo'] = {'exit': rc0, 'tail': o0.strip().splitlines()[-3:]}
meta['demo_on_change'] = {'exit': rc1, 'tail': [l for l in o1.strip().splitlines() if 'WARNING' not in l][-6:]}
meta['confirmed'] = (rc0 == 0 and rc1 != 0)
results = {}
import glob
GEN = '/verif/lean/VizierModel/Generated'


def gen_snapshot():
  return {f: open(f).read() for f in glob.glob(GEN + '/*.lean')}


for chk in [pid] + also:
  ev = '/verif/evidence/%s.json' % chk
  ev_backup = open(ev).read() if os.path.exists(ev) else None
  gen_backup = gen_snapshot()      # the older translators regenerate their table in place: facts of a changed tree must not stay
  t0 = time.time()
  rc, o = run(['/verif/check', chk, '--tier', tier], env={'VERIF_REPO': wt}, cwd='/verif')
  lines = [l for l in o.splitlines() if l.startswith('VIOLATION') or l.startswith('  ') or l.startswith('KNOWN-FINDING')]
  results[chk] = {'tier': tier, 'exit': rc, 'wall_s': round(time.time() - t0, 1),
                  'violations': [l[:400] for l in lines if not l.startswith('KNOWN')][:8]}
  if ev_backup is not None:
    open(ev, 'w').write(ev_backup)      # evidence must come from runs against /repo itself
  for f, txt in gen_backup.items():
    if not os.path.exists(f) or open(f).read() != txt:
      open(f, 'w').write(txt)
  print(chk, tier, 'exit', rc, '%.0fs' % (time.time() - t0))
  for l in results[chk]['violations'][:4]: print('   ', l[:220])
meta['checks'] = results
# caught = exit 1 WITH a VIOLATION line (a crash of the check also exits non-zero and is a miss, not a catch)
meta['caught_by'] = [c for c, r in results.items() if r['exit'] == 1 and any(v.startswith('VIOLATION') for v in r['violations'])]
meta['crashed'] = [c for c, r in results.items() if r['exit'] != 0 and not any(v.startswith('VIOLATION') for v in r['violations'])]
meta['evaluations'].append({'at': time.strftime('%Y-%m-%dT%H:%M:%SZ', time.gmtime()), 'caught_by': meta['caught_by'],
                            'exits': {k: v['exit'] for k, v in results.items()}})
json.dump(meta, open(os.path.join(out, 'meta.json'), 'w'), indent=1)
print('confirmed', meta['confirmed'], 'caught_by', meta['caught_by'])
# regenerate any generated Lean files from /repo again
subprocess.run(['/venv/bin/python', '-c', "import sys; sys.path.insert(0,'/verif/harness'); from translators import servicer_shape, error_table, sql_txn; servicer_shape.write('/repo','/verif/lean'); error_table.write('/repo','/verif/lean'); sql_txn.write('/repo','/verif/lean')"], capture_output=True)
