#!/usr/bin/env python3
"""tools/seed_table.py — renders /verif/seeded/*/meta.json as the markdown table of DESIGN.md section 11.4
(between the markers <!-- seed-table --> … <!-- /seed-table -->)."""
import json, os, re, glob
HERE = os.path.dirname(os.path.dirname(os.path.abspath(__file__)))
rows = []
for d in sorted(glob.glob(os.path.join(HERE, 'seeded', '*'))):
  mp = os.path.join(d, 'meta.json')
  if not os.path.exists(mp):
    continue
  m = json.load(open(mp))
  diff = open(os.path.join(d, 'patch.diff')).read()
  files = sorted(set(os.path.basename(f) for f in re.findall(r'^\+\+\+ b/(\S+)', diff, re.M)))
  funcs = sorted(set(re.findall(r'^@@.*@@\s*(?:def|class)\s+(\w+)', diff, re.M)))
  first = ''
  for chk, r in m.get('checks', {}).items():
    if r['exit'] == 1 and r['violations']:
      v = r['violations']
      first = (v[1].strip() if len(v) > 1 else v[0]).replace('|', '/')[:150]
      nf = 'no-failing-input-found' in v[0]
      first = ('[%s%s] ' % (chk, ', correspondence only' if nf else '')) + first
      break
  evs = m.get('evaluations', [])
  missed_first = bool(evs) and not evs[0].get('caught_by') and bool(m.get('caught_by'))
  status = ', '.join(m.get('caught_by', [])) or ('superseded by a repair of /repo (see notes)' if m.get('superseded') else 'MISSED')
  if missed_first or (m.get('notes') and 'first evaluation' in m['notes']):
    status += ' (after strengthening)'
  rows.append('| %s | %s%s | %s | %s | %s |' % (os.path.basename(d), ', '.join(files), (' (' + ', '.join(funcs[:2]) + ')') if funcs else '',
                                          'yes' if m.get('confirmed') else 'NO', status, first))
table = ['| change | site | demo confirmed | caught by | first reported violation |', '|---|---|---|---|---|'] + rows
out = '\n'.join(table)
path = os.path.join(HERE, 'DESIGN.md')
text = open(path).read()
if '<!-- seed-table -->' in text:
  text = re.sub(r'<!-- seed-table -->.*?<!-- /seed-table -->', '<!-- seed-table -->\n' + out + '\n<!-- /seed-table -->', text, flags=re.S)
  open(path, 'w').write(text)
print(out)

# ---- section 11.3: recorded findings and repaired defects, from known_findings.json
k = json.load(open(os.path.join(HERE, 'known_findings.json')))
rows = ['| property | key | what fails | why recorded, not repaired |', '|---|---|---|---|']
for f in k['findings']:
  rows.append('| %s | `%s` | %s | %s |' % (f['property'], f['key'], (f.get('what') or '').replace('|', '/').replace('\n', ' ')[:420],
                                        (f.get('why_not_fixed') or f.get('why') or '').replace('|', '/').replace('\n', ' ')[:300]))
ftab = '\n'.join(rows)
rows = ['| property | commit | what failed before the repair |', '|---|---|---|']
for f in k['fixed']:
  m = re.match(r'fixed: property=(C\d\d) (\w+) (.*)', f, re.S)
  if m:
    rows.append('| %s | %s | %s |' % (m.group(1), m.group(2), m.group(3).replace('|', '/').replace('\n', ' ')[:330]))
xtab = '\n'.join(rows)
text = open(path).read()
text = re.sub(r'<!-- fix-count -->\d+<!-- /fix-count -->', '<!-- fix-count -->%d<!-- /fix-count -->' % len(k['fixed']), text)
for tag, body in (('findings-table', ftab), ('fixed-table', xtab)):
  if '<!-- %s -->' % tag in text:
    text = re.sub(r'<!-- %s -->.*?<!-- /%s -->' % (tag, tag), lambda _: '<!-- %s -->\n%s\n<!-- /%s -->' % (tag, body, tag), text, flags=re.S)
open(path, 'w').write(text)
