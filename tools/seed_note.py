#!/usr/bin/env python3
"""tools/seed_note.py <Cxx_tag> "<note>" — records in seeded/<id>/meta.json what a first evaluation missed and what was strengthened."""
import json, sys
p = '/verif/seeded/%s/meta.json' % sys.argv[1]
m = json.load(open(p)); m['notes'] = sys.argv[2]
json.dump(m, open(p, 'w'), indent=1)
