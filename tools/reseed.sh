#!/bin/sh
# tools/reseed.sh <Cxx> <tag> [eval_seed args…] — re-create the scratch worktree of a stored seeded change,
# re-evaluate it (tools/eval_seed.py) and remove the worktree again.
set -e
P=$1; T=$2; shift 2
WT=/tmp/seed_${P}_${T}
git -C /repo worktree remove --force $WT 2>/dev/null || true
git -C /repo worktree add --detach $WT HEAD >/dev/null 2>&1
cp /verif/seeded/${P}_${T}/patch.diff /tmp/reseed_$$.diff
git -C $WT apply /tmp/reseed_$$.diff
rm -f /tmp/reseed_$$.diff
cp /verif/seeded/${P}_${T}/demo_${P}.py $WT/
python3 /verif/tools/eval_seed.py $P $T "$@" 2>&1 | grep -v 'WARNING conda'
git -C /repo worktree remove --force $WT
