#!/usr/bin/env python3
"""tools/regen_generated.py — regenerate every lean/VizierModel/Generated/*.lean from /repo (the unchanged tree).

The four older translators write their table in place; a seed evaluation (VERIF_REPO=<mutant>) leaves the mutant's
facts there until the next clean run (tools/eval_seed.py restores them, but a commit made DURING an evaluation could
pick them up).  Run this before committing; it prints which files changed."""
import os
import sys
sys.path.insert(0, '/verif/harness')
os.environ['VERIF_REPO'] = '/repo'
from vcheck import core  # noqa: E402
from translators import client_shape, error_table, pythia_shape, rng_provenance, servicer_shape, sql_txn, sql_where  # noqa: E402

gen = os.path.join(core.LEAN_DIR, 'VizierModel', 'Generated')
before = {f: open(os.path.join(gen, f)).read() for f in os.listdir(gen) if f.endswith('.lean')}
assert core.REPO == '/repo', core.REPO
for mod in (client_shape, error_table, pythia_shape, servicer_shape, sql_txn, sql_where):
  mod.write(core.REPO, core.LEAN_DIR)
rng_provenance.generate(core.REPO, core.LEAN_DIR)
changed = [f for f in sorted(before) if open(os.path.join(gen, f)).read() != before[f]]
print('regenerated from /repo; changed:', changed or 'nothing')
sys.exit(0)
