#!/usr/bin/env python3
"""tools/make_seed_prompt.py <Cxx> <tag> [hint] — writes tools/seed_prompts/<Cxx>_<tag>.txt for a seeding
sub-agent (property text only; nothing from /verif) and prints it."""
import json, os, re, sys
pid, tag = sys.argv[1], sys.argv[2]
hint = sys.argv[3] if len(sys.argv) > 3 else ''
props = {json.loads(l)['id']: json.loads(l) for l in open('/verif/properties.jsonl')}
p = props[pid]
anchors = list(p.get('anchors', {}).get('files', []))
# earlier seeded changes for this property: tell the agent which sites are taken
taken = []
for d in sorted(os.listdir('/verif/seeded')):
  if d.startswith(pid + '_'):
    diff = open('/verif/seeded/%s/patch.diff' % d).read()
    files = re.findall(r'^\+\+\+ b/(\S+)', diff, re.M)
    funcs = sorted(set(re.findall(r'^@@.*@@\s*(?:def|class)\s+(\w+)', diff, re.M)))
    taken.append('%s (%s)' % (', '.join(files), ', '.join(funcs) or 'module level'))
wt = '/tmp/seed_%s_%s' % (pid, tag)
txt = f'''You are a software engineer helping to evaluate a verification effort for the Python repository google/vizier (a black-box optimization service). Your task is to write ONE realistic, subtle code change ("seeded defect") to google/vizier that BREAKS the following behavioural property while the code still imports/compiles and the existing pinned test suite still passes, and to demonstrate it.

## The property ({pid}: {p['title']})
{p['statement']}

It must hold for: {p['quantifier']}

## Your workspace
* Create your own scratch git worktree and work ONLY there: `git -C /repo worktree add {wt} HEAD` (never edit /repo itself, never commit anything, never look at or use anything under /verif).
* How to run vizier in this sandbox (missing protoc etc.) is explained in /tmp/seedtools/README.md — read it first. Use /venv/bin/python.
* The code most relevant to this property: {', '.join(anchors)}

## What to produce
1. A change to the worktree's source (a few lines, in the style of a plausible refactoring slip, off-by-one, wrong variable, dropped condition, reordered statements, narrowed exception, missing lock, stale cache, etc.) that makes the property false. Prefer a change that needs something SPECIFIC to manifest — a particular interleaving, a crash or fault at a particular point, a multi-step sequence of operations, an unusual input, or two cooperating sites that each look fine alone — NOT something every ordinary use would expose at once (e.g. do not make every call fail). {hint}
{('Earlier changes for this property already touched: ' + '; '.join(taken) + '. Choose a DIFFERENT site and mechanism.') if taken else ''}
2. A demonstration: a small standalone Python program `{wt}/demo_{pid}.py` taking the repo path as argv[1] (it must set VERIF_REPO to that path before importing the shim, as in the README) that exits 0 and prints PASS when the property holds on the scenario and exits 1 and prints FAIL (with what went wrong) when it is violated. It must print PASS on the unmodified repo (`/repo`) and FAIL on your modified worktree.
3. Confirm yourself: (a) `python demo_{pid}.py /repo` → PASS; (b) `python demo_{pid}.py {wt}` → FAIL; (c) the pinned test suite (command in the README) still reports 131 passed in your worktree.
4. Save the change as `{wt}/patch.diff` (`git -C {wt} diff > patch.diff`, source files only — not the demo).

## Side findings
If, while exploring, you notice that the UNMODIFIED /repo already violates the property on some input, operation sequence or schedule, say so at the end of your report under the heading 'Side finding', with a minimal reproduction you actually ran against /repo and its output. Do not go looking for these at the expense of the main task.

## Final answer
Report: the diff, what the change does and why it breaks the property, what exactly is needed for it to manifest, and the outputs of the three confirmation runs. Leave the worktree in place (do not remove it). Do not ask questions; work autonomously.'''
open('/verif/tools/seed_prompts/%s_%s.txt' % (pid, tag), 'w').write(txt)
print(txt)
