#!/usr/bin/env python3
"""tools/undefined_names.py [files…] — poor man's pyflakes for the harness: a name read in a scope but bound neither
in that scope, nor in an enclosing function / class, nor at module level, nor a builtin.  Failure paths of a check
are not executed on the clean tree; a NameError there turns a VIOLATION into an infrastructure error."""
import ast, builtins, sys, glob, os
HERE = os.path.dirname(os.path.dirname(os.path.abspath(__file__)))
files = sys.argv[1:] or sorted(glob.glob(os.path.join(HERE, 'harness', '**', '*.py'), recursive=True) + glob.glob(os.path.join(HERE, 'tools', '*.py')))
SCOPES = (ast.FunctionDef, ast.AsyncFunctionDef, ast.Lambda, ast.ClassDef)


def local_bindings(node):
  """names bound directly in this scope (not inside nested function / class scopes; comprehensions count as the
  enclosing scope here, which only makes the check more lenient)"""
  out = set()
  if isinstance(node, (ast.FunctionDef, ast.AsyncFunctionDef, ast.Lambda)):
    a = node.args
    for x in a.posonlyargs + a.args + a.kwonlyargs + ([a.vararg] if a.vararg else []) + ([a.kwarg] if a.kwarg else []):
      out.add(x.arg)
  stack = list(ast.iter_child_nodes(node))
  while stack:
    n = stack.pop()
    if isinstance(n, (ast.FunctionDef, ast.AsyncFunctionDef, ast.ClassDef)):
      out.add(n.name)
      continue
    if isinstance(n, ast.Lambda):
      continue
    if isinstance(n, (ast.Import, ast.ImportFrom)):
      for al in n.names:
        out.add((al.asname or al.name).split('.')[0])
    elif isinstance(n, ast.Name) and isinstance(n.ctx, (ast.Store, ast.Del)):
      out.add(n.id)
    elif isinstance(n, ast.ExceptHandler) and n.name:
      out.add(n.name)
    elif isinstance(n, (ast.Global, ast.Nonlocal)):
      out.update(n.names)
    stack.extend(ast.iter_child_nodes(n))
  return out


def check(node, env, rel, report):
  env = env | local_bindings(node)
  stack = list(ast.iter_child_nodes(node))
  if isinstance(node, (ast.FunctionDef, ast.AsyncFunctionDef)):
    # decorators and defaults are evaluated outside; lenient: checked with the inner env
    pass
  while stack:
    n = stack.pop()
    if isinstance(n, SCOPES):
      check(n, env, rel, report)
      continue
    if isinstance(n, ast.Name) and isinstance(n.ctx, ast.Load) and n.id not in env:
      report.append('%s:%d: undefined name %r' % (rel, n.lineno, n.id))
    stack.extend(ast.iter_child_nodes(n))


bad = []
for f in files:
  try:
    tree = ast.parse(open(f).read())
  except SyntaxError as e:
    bad.append('%s: SYNTAX %s' % (f, e)); continue
  check(tree, set(dir(builtins)) | {'__file__', '__name__', '__doc__'}, os.path.relpath(f, HERE), bad)
print('\n'.join(sorted(set(bad))))
sys.exit(1 if bad else 0)
