"""Stand-alone reproduction of the two client-layer findings on the UNMODIFIED tree (no model, no harness logic:
only the environment shim, the real in-process servicer on RAM and the real clients.Study / clients.Trial).

  /venv/bin/python /verif/corpus/Client/findings_demo.py          (VERIF_REPO=<tree> to point at another checkout)

1. client_abc.TrialInterface.complete documents "Raises ValueError: If neither `measurement` nor `infeasible_reason`
   is provided but the trial does not contain any intermediate measurements."  The servicer raises that ValueError
   through grpc_util.handle_exception, which turns it into status UNKNOWN; VizierClient / clients.Trial pass the
   grpc.RpcError on.  A caller written against the interface (`except ValueError`) does not catch it.
2. client_abc.TrialInterface.check_early_stopping documents "If the algorithm decides that the trial is not worth
   continuing, Vizier service moves it into STOPPING state.  Then, this method returns True if the Trial is in
   STOPPING state."  CheckTrialEarlyStoppingState only records the decision; the trial stays ACTIVE while the
   method returns True.
"""
import os, sys
sys.path.insert(0, os.path.join(os.path.dirname(os.path.abspath(__file__)), '..', '..', 'harness'))
os.environ.setdefault('GRPC_VERBOSITY', 'NONE')
import shim
shim.install()
import logging
logging.disable(logging.CRITICAL)
import grpc
from vizier import pythia
from vizier.service import clients, pyvizier as vz
from vizier._src.service import vizier_client, vizier_service, pythia_service


class StopEverything(pythia.Policy):
  def __init__(self, supporter):
    self._s = supporter

  def suggest(self, request):
    return pythia.SuggestDecision(suggestions=[vz.TrialSuggestion({'x': 0.5}) for _ in range(request.count)])

  def early_stop(self, request):
    return pythia.EarlyStopDecisions(decisions=[pythia.EarlyStopDecision(id=i, reason='r', should_stop=True) for i in request.trial_ids])

  @property
  def should_be_cached(self):
    return False


servicer = vizier_service.VizierServicer(database_url=None)
servicer.default_pythia_service = pythia_service.PythiaServicer(
    servicer, policy_factory=lambda problem_statement, algorithm, policy_supporter, study_name: StopEverything(policy_supporter))
vizier_client.create_vizier_servicer_or_stub = lambda: servicer
vizier_client._create_local_vizier_servicer = lambda: servicer

sc = vz.StudyConfig()
sc.search_space.root.add_float_param('x', 0.0, 1.0)
sc.metric_information.append(vz.MetricInformation('obj', goal=vz.ObjectiveMetricGoal.MAXIMIZE))
sc.algorithm = 'RANDOM_SEARCH'
study = clients.Study.from_study_config(sc, owner='o', study_id='findings')
t1, t2 = study.suggest(count=2, client_id='w')
bad = 0

try:
  t1.complete()
  print('1. complete() returned: not reproduced')
except ValueError as e:
  print('1. complete() raised ValueError as documented: not reproduced')
except grpc.RpcError as e:
  bad += 1
  print('1. REPRODUCED: Trial.complete() with nothing to select raised %s (code %s), not ValueError' % (type(e).__name__, e.code().name))

r = t2.check_early_stopping()
state = t2.materialize().status.name
if r and state != 'STOPPING':
  bad += 1
  print('2. REPRODUCED: Trial.check_early_stopping() returned True, the trial is %s (documented: STOPPING)' % state)
else:
  print('2. check_early_stopping() -> %s, trial %s: not reproduced' % (r, state))
sys.exit(1 if bad else 0)
