"""Environment shims (trusted base, see DESIGN.md 1.1): proto descriptors without
protoc, and jax/equinox compatibility.  `import shim` must precede any import of
vizier service/designer modules.  Nothing in /repo is modified."""
import os, sys, types

REPO = os.environ.get('VERIF_REPO', '/repo')
if REPO not in sys.path:
  sys.path.insert(0, REPO)
os.environ.setdefault('JAX_PLATFORMS', 'cpu')
os.environ.setdefault('TF_CPP_MIN_LOG_LEVEL', '3')
os.environ.setdefault('ABSL_MIN_LOG_LEVEL', '3')

_installed = {}


def install_proto():
  if 'proto' in _installed:
    return
  import grpc
  from . import protoshim
  from google.protobuf import message_factory

  def make_grpc_module(svcdesc, modname):
    g = types.ModuleType(modname)
    full = svcdesc.full_name
    methods = [(m.name, message_factory.GetMessageClass(m.input_type),
                message_factory.GetMessageClass(m.output_type)) for m in svcdesc.methods]

    class Stub(object):
      def __init__(self, channel):
        for name, inp, out in methods:
          setattr(self, name, channel.unary_unary(
              '/%s/%s' % (full, name), request_serializer=inp.SerializeToString,
              response_deserializer=out.FromString))

    class Servicer(object):
      pass

    def _unimpl(name):
      def f(self, request, context):
        context.set_code(grpc.StatusCode.UNIMPLEMENTED)
        context.set_details('Method not implemented!')
        raise NotImplementedError('Method not implemented!')
      f.__name__ = name
      return f
    for name, _, _ in methods:
      setattr(Servicer, name, _unimpl(name))

    def add_to_server(servicer, server):
      handlers = {name: grpc.unary_unary_rpc_method_handler(
          getattr(servicer, name), request_deserializer=inp.FromString,
          response_serializer=out.SerializeToString) for name, inp, out in methods}
      server.add_generic_rpc_handlers((grpc.method_handlers_generic_handler(full, handlers),))
    Stub.__name__ = svcdesc.name + 'Stub'
    Servicer.__name__ = svcdesc.name + 'Servicer'
    setattr(g, svcdesc.name + 'Stub', Stub)
    setattr(g, svcdesc.name + 'Servicer', Servicer)
    setattr(g, 'add_%sServicer_to_server' % svcdesc.name, add_to_server)
    return g

  mods, pool, fds = protoshim.build(os.path.join(REPO, 'vizier/_src/service'))
  for k, v in mods.items():
    sys.modules[k] = v
  import vizier._src.service as pkg
  for k, v in mods.items():
    setattr(pkg, k.rsplit('.', 1)[1], v)
  for base in ('vizier_service', 'pythia_service'):
    pb2 = mods['vizier._src.service.%s_pb2' % base]
    for sname, sdesc in pb2.DESCRIPTOR.services_by_name.items():
      name = 'vizier._src.service.%s_pb2_grpc' % base
      g = make_grpc_module(sdesc, name)
      sys.modules[name] = g
      setattr(pkg, name.rsplit('.', 1)[1], g)
  _installed['proto'] = fds


def install_jax():
  if 'jax' in _installed:
    return
  import jax, jax.core, jax.extend.core, jax._src.core as jc
  import jax.interpreters.batching as pub_batching
  import jax._src.interpreters.batching as src_batching
  for n in ('Primitive', 'ClosedJaxpr', 'Jaxpr', 'find_top_trace'):
    if n not in jax.core.__dict__:
      v = getattr(jax.extend.core, n, None) or getattr(jc, n, None)
      if v is not None:
        setattr(jax.core, n, v)
  if 'NotMapped' not in pub_batching.__dict__:
    pub_batching.NotMapped = src_batching.NotMapped
  if 'jaxlib.xla_extension' not in sys.modules:
    try:
      import jaxlib.xla_extension  # noqa
    except Exception:
      m = types.ModuleType('jaxlib.xla_extension')
      m.Device = jax.Device
      sys.modules['jaxlib.xla_extension'] = m
  _installed['jax'] = True


def install(jax=True):
  install_proto()
  if jax:
    install_jax()


def proto_files():
  install_proto()
  return _installed['proto']
