"""Scratch feasibility prototype: build vizier *_pb2 modules without protoc."""
import re, sys, types, os
from google.protobuf import descriptor_pb2, descriptor_pool, message_factory
from google.protobuf.internal import enum_type_wrapper

FDP = descriptor_pb2.FieldDescriptorProto
SCALARS = {
    'double': FDP.TYPE_DOUBLE, 'float': FDP.TYPE_FLOAT, 'int64': FDP.TYPE_INT64,
    'uint64': FDP.TYPE_UINT64, 'int32': FDP.TYPE_INT32, 'bool': FDP.TYPE_BOOL,
    'string': FDP.TYPE_STRING, 'bytes': FDP.TYPE_BYTES, 'uint32': FDP.TYPE_UINT32,
}

TOK = re.compile(r'\s*(?:(//[^\n]*|/\*.*?\*/)|("(?:[^"\\]|\\.)*")|([A-Za-z_][\w.]*)|(-?\d+)|(.))', re.S)

def tokenize(src):
  out = []
  pos = 0
  while pos < len(src):
    m = TOK.match(src, pos)
    if not m: break
    pos = m.end()
    if m.group(1): continue
    t = m.group(2) or m.group(3) or m.group(4) or m.group(5)
    if t is not None and t.strip() != '':
      out.append(t)
  return out

class P:
  def __init__(self, toks): self.t = toks; self.i = 0
  def peek(self): return self.t[self.i] if self.i < len(self.t) else None
  def next(self): x = self.t[self.i]; self.i += 1; return x
  def expect(self, x):
    y = self.next()
    assert y == x, (x, y, self.t[self.i-5:self.i+5])
  def skip_balanced(self, open_, close):
    depth = 1
    while depth:
      x = self.next()
      if x == open_: depth += 1
      elif x == close: depth -= 1
  def skip_option_stmt(self):
    # after 'option'
    while True:
      x = self.next()
      if x == '{': self.skip_balanced('{', '}')
      if x == ';': return
  def skip_field_opts(self):
    if self.peek() == '[':
      self.next(); self.skip_balanced('[', ']')

def parse_file(name, src):
  p = P(tokenize(src))
  fd = descriptor_pb2.FileDescriptorProto(name=name, syntax='proto3')
  while p.peek() is not None:
    x = p.next()
    if x == 'syntax': p.expect('='); p.next(); p.expect(';')
    elif x == 'package': fd.package = p.next(); p.expect(';')
    elif x == 'import':
      dep = p.next().strip('"'); p.expect(';'); fd.dependency.append(dep)
    elif x == 'option': p.skip_option_stmt()
    elif x == 'message': parse_message(p, fd.message_type.add())
    elif x == 'enum': parse_enum(p, fd.enum_type.add())
    elif x == 'service': parse_service(p, fd.service.add())
    elif x == ';': pass
    else: raise ValueError(x)
  return fd

def parse_enum(p, ed):
  ed.name = p.next(); p.expect('{')
  while p.peek() != '}':
    x = p.next()
    if x == 'option': p.skip_option_stmt(); continue
    p.expect('='); num = int(p.next()); p.skip_field_opts(); p.expect(';')
    ed.value.add(name=x, number=num)
  p.expect('}')

def parse_service(p, sd):
  sd.name = p.next(); p.expect('{')
  while p.peek() != '}':
    x = p.next()
    if x == 'option': p.skip_option_stmt(); continue
    assert x == 'rpc', x
    m = sd.method.add(name=p.next())
    p.expect('('); m.input_type = p.next(); p.expect(')')
    p.expect('returns'); p.expect('('); m.output_type = p.next(); p.expect(')')
    if p.peek() == '{': p.next(); p.skip_balanced('{', '}')
    else: p.expect(';')
  p.expect('}')

def parse_field(p, md, first, oneof_index=None):
  label = FDP.LABEL_OPTIONAL; proto3_optional = False
  typ = first
  if first == 'repeated': label = FDP.LABEL_REPEATED; typ = p.next()
  elif first == 'optional': proto3_optional = True; typ = p.next()
  name = p.next(); p.expect('='); num = int(p.next()); p.skip_field_opts(); p.expect(';')
  f = md.field.add(name=name, number=num, label=label)
  # json_name left default
  if typ in SCALARS: f.type = SCALARS[typ]
  else: f.type_name = typ  # resolved later
  if oneof_index is not None: f.oneof_index = oneof_index
  if proto3_optional:
    f.proto3_optional = True
    md._synthetic.append(f) if hasattr(md, '_synthetic') else None
  return f

def parse_message(p, md):
  md.name = p.next(); p.expect('{')
  synthetic = []
  while p.peek() != '}':
    x = p.next()
    if x == 'option': p.skip_option_stmt()
    elif x == 'message': parse_message(p, md.nested_type.add())
    elif x == 'enum': parse_enum(p, md.enum_type.add())
    elif x == 'reserved':
      while p.next() != ';': pass
    elif x == 'oneof':
      od = md.oneof_decl.add(name=p.next()); idx = len(md.oneof_decl) - 1
      p.expect('{')
      while p.peek() != '}':
        y = p.next()
        if y == 'option': p.skip_option_stmt(); continue
        parse_field(p, md, y, idx)
      p.expect('}')
    elif x == ';': pass
    else:
      f = parse_field(p, md, x)
      if f.proto3_optional: synthetic.append(f)
  p.expect('}')
  # synthetic oneofs must come after real ones
  for f in synthetic:
    md.oneof_decl.add(name='_' + f.name)
    f.oneof_index = len(md.oneof_decl) - 1

def resolve(fd, pool, all_fds):
  """Resolve type names to fully qualified and set TYPE_MESSAGE / TYPE_ENUM."""
  # symbol table: fully-qualified -> kind
  table = {}
  def walk(prefix, msgs, enums):
    for e in enums: table[prefix + '.' + e.name] = 'enum'
    for m in msgs:
      fq = prefix + '.' + m.name
      table[fq] = 'msg'
      walk(fq, m.nested_type, m.enum_type)
  for f in all_fds:
    walk('.' + f.package if f.package else '', f.message_type, f.enum_type)
  def lookup(scope, name):
    if name.startswith('.'):
      return name
    parts = scope.split('.')
    first = name.split('.')[0]
    while True:
      cand = '.'.join(parts + [name]) if parts != [''] else '.' + name
      cand_first = '.'.join(parts + [first]) if parts != [''] else '.' + first
      if cand in table: return cand
      # external (well-known) types
      try:
        pool.FindMessageTypeByName(cand.lstrip('.')); return cand
      except KeyError: pass
      try:
        pool.FindEnumTypeByName(cand.lstrip('.')); return cand
      except KeyError: pass
      if not parts or parts == ['']: break
      parts = parts[:-1]
    raise KeyError((scope, name))
  def kind(fq):
    if fq in table: return table[fq]
    try: pool.FindMessageTypeByName(fq.lstrip('.')); return 'msg'
    except KeyError: return 'enum'
  def fix_msg(scope, m):
    fq = scope + '.' + m.name
    for f in m.field:
      if f.type_name:
        r = lookup(fq, f.type_name)
        f.type_name = r
        f.type = FDP.TYPE_MESSAGE if kind(r) == 'msg' else FDP.TYPE_ENUM
    for n in m.nested_type: fix_msg(fq, n)
  scope = '.' + fd.package if fd.package else ''
  for m in fd.message_type: fix_msg(scope, m)
  for s in fd.service:
    for me in s.method:
      me.input_type = lookup(scope, me.input_type)
      me.output_type = lookup(scope, me.output_type)

def build(proto_dir):
  pool = descriptor_pool.Default()
  # ensure deps loaded
  import google.protobuf.any_pb2, google.protobuf.timestamp_pb2, google.protobuf.duration_pb2
  import google.protobuf.struct_pb2, google.protobuf.wrappers_pb2, google.protobuf.empty_pb2
  import google.api.annotations_pb2, google.api.client_pb2, google.api.field_behavior_pb2
  import google.api.resource_pb2, google.longrunning.operations_pb2
  order = ['key_value', 'study', 'vizier_oss', 'vizier_service', 'pythia_service']
  fds = []
  for n in order:
    src = open(os.path.join(proto_dir, n + '.proto')).read()
    fds.append(parse_file(n + '.proto', src))
  mods = {}
  for fd in fds:
    resolve(fd, pool, fds)
    pool.Add(fd) if hasattr(pool, 'Add') else pool.AddSerializedFile(fd.SerializeToString())
  for fd in fds:
    fdesc = pool.FindFileByName(fd.name)
    modname = 'vizier._src.service.' + fd.name[:-6] + '_pb2'
    mod = types.ModuleType(modname)
    mod.DESCRIPTOR = fdesc
    for mname, mdesc in fdesc.message_types_by_name.items():
      setattr(mod, mname, message_factory.GetMessageClass(mdesc))
    for ename, edesc in fdesc.enum_types_by_name.items():
      setattr(mod, ename, enum_type_wrapper.EnumTypeWrapper(edesc))
    mods[modname] = mod
  return mods, pool, fds

if __name__ == '__main__':
  mods, pool, fds = build('/repo/vizier/_src/service')
  for k, v in mods.items():
    print(k, [a for a in dir(v) if not a.startswith('_')][:50])
