"""Translator (C07 / C12 / C01): the KEYS of every SQL query of SQLDataStore, from the AST of sql_datastore.py.

The representation model (Model/Stores.lean, namespace `Sql`) rests on one premise about the code: every query
selects rows by EQUALITY on the columns that identify the addressed resource - a study by `study_name` (or
`owner_id` + `study_id`), a trial by `trial_name`, an operation by `operation_name` (or owner / study / client
columns) - and every insert fills those columns from the parsed name of the inserted proto.  This translator
enumerates, per method of `SQLDataStore`, the queries it EXECUTES (`<connection>.execute(q)` /
`self._write_or_rollback(q)`, in source order of the execution sites) as

  (table, kind in {select, exist, insert, update, delete}, conjuncts, values)

  conjunct = (column, relation, source)      relation: eq | other "<text>"        (never dropped)
  value    = (column, source)                `.values(col=...)` of inserts / updates
  source   = arg <param> | field <param>.<attr> | parsed <Resource> <of: source> <attr path> | other "<text>"

by a small symbolic evaluation of each method body (local names are followed through assignments; branches are
merged; `resources.XResource.from_name(v)` and what is derived from it by attribute access / method calls is
`parsed`).  Local names, comments, logging and the order of `.where` calls do not matter: conjuncts and values are
sorted, texts are rendered with local names replaced by what they stand for (or `_`).  Everything that is not
recognised goes to `unknown` (raw `sqla.text`, queries without a table, executions of things that are not queries,
queries that are built but not executed through a recognised route, joins, `**kwargs` in `values`, ...).

The table schema (`sqla.Table(...)` in `__init__`: columns and primary keys) is extracted too.
Output: lean/VizierModel/Generated/SqlWhere.lean; Props/SqlKeys.lean decides the criteria by the kernel."""
import ast
import copy
import os

SRC_FILE = 'vizier/_src/service/sql_datastore.py'
TABLE_CTOR = {'owners': 'owners', 'studies': 'studies', 'trials': 'trials',
              'suggestion_operations': 'sugOps', 'early_stopping_operations': 'esOps'}
EXEC_ATTRS = ('execute', 'scalar', 'scalars', 'exec_driver_sql', '_write_or_rollback')
# query methods that do not change which rows are addressed
NEUTRAL_QUERY_METHODS = ('select', 'limit', 'order_by', 'distinct', 'with_for_update', 'execution_options',
                         'returning', 'offset', 'group_by', 'prefix_with', 'compile', 'label', 'scalar_subquery',
                         'subquery', 'alias', 'cte', 'self_group', 'correlate', 'params')
NEUTRAL_COL_METHODS = ('label', 'asc', 'desc', 'cast', 'collate', 'self_group', 'nulls_first', 'nulls_last')


def _src(node):
  return ast.unparse(node)


# ---------------------------------------------------------------- symbolic values (all hashable tuples)
#   ('arg', name) ('field', param, attr) ('parsed', resource, of, path) ('other', text)      sources
#   ('table', t) ('tablec', t) ('col', t, c) ('colexpr', (tables...), text)
#   ('query', lineage, table|None, kind, conj, vals)   conj = ((table, col, rel, src), ...)   rel = ('eq',)|('other', text)
#   ('cond', conj) ('dictof', value) ('ambig', (v1, v2, ...)) ('opaque', text)

def is_dotted(node):
  while isinstance(node, ast.Attribute):
    node = node.value
  return isinstance(node, ast.Name)


def is_exec_site(call):
  """`<x>.execute(q)`, `self._write_or_rollback(q)`, `<x>.scalar(q)`; not `<result>.scalar()`"""
  f = call.func
  if not (isinstance(f, ast.Attribute) and f.attr in EXEC_ATTRS):
    return False
  return not (f.attr in ('scalar', 'scalars') and not call.args)


def render_source(s):
  if s[0] == 'arg':
    return s[1]
  if s[0] == 'field':
    return '%s.%s' % (s[1], s[2])
  if s[0] == 'parsed':
    return '%s(%s)%s' % (s[1], render_source(s[2]), ('.' + s[3]) if s[3] else '')
  return s[1]


class Method:
  def __init__(self, fn, tables, unknown, visited):
    self.fn = fn
    self.tables = tables            # attribute name on self -> table constructor / name
    self.unknown = unknown
    self.visited = visited          # ids of execution-site Call nodes seen
    self.params = [a.arg for a in fn.args.posonlyargs + fn.args.args + fn.args.kwonlyargs if a.arg != 'self']
    if fn.args.vararg or fn.args.kwarg:
      self.params += [a.arg for a in (fn.args.vararg, fn.args.kwarg) if a]
    self.locals = set()
    for node in ast.walk(fn):
      if isinstance(node, ast.Name) and isinstance(node.ctx, (ast.Store, ast.Del)):
        self.locals.add(node.id)
      elif isinstance(node, ast.ExceptHandler) and node.name:
        self.locals.add(node.name)
      elif isinstance(node, (ast.FunctionDef, ast.Lambda)) and node is not fn:
        args = node.args
        for a in args.posonlyargs + args.args + args.kwonlyargs:
          self.locals.add(a.arg)
    self.env = {}
    self.lineage = 0
    self.executed = []              # queries in source order of their execution sites
    self.lineage_state = {}         # lineage -> 'built' | 'used' | 'executed'
    self.lineage_text = {}

  def warn(self, text):
    self.unknown.append('%s: %s' % (self.fn.name, text))

  # ------------------------------------------------------------ side-effect free resolution of names / attributes
  def peek(self, node):
    if isinstance(node, ast.Name):
      if node.id in self.env:
        return self.env[node.id]
      if node.id in self.params:
        return ('arg', node.id)
      return ('opaque', node.id)
    if isinstance(node, ast.Attribute):
      if isinstance(node.value, ast.Name) and node.value.id == 'self':
        if node.attr in self.tables:
          return ('table', self.tables[node.attr])
        return ('opaque', _src(node))
      v = self.peek(node.value)
      return self.attr_of(v, node.attr, node)
    if isinstance(node, ast.Subscript):
      v = self.peek(node.value)
      if v[0] == 'tablec' and isinstance(node.slice, ast.Constant) and isinstance(node.slice.value, str):
        return ('col', v[1], node.slice.value)
      if v[0] == 'dictof':
        return v[1]
    return ('opaque', None)

  def attr_of(self, v, attr, node):
    if v[0] == 'table':
      if attr in ('c', 'columns'):
        return ('tablec', v[1])
      return ('opaque', None)
    if v[0] == 'tablec':
      return ('col', v[1], attr)
    if v[0] == 'arg':
      return ('field', v[1], attr)
    if v[0] == 'field':
      return ('field', v[1], v[2] + '.' + attr)
    if v[0] == 'parsed':
      return ('parsed', v[1], v[2], (v[3] + '.' + attr) if v[3] else attr)
    return ('opaque', None)

  def norm(self, node):
    """text of an expression with tables / columns / local names replaced by what they stand for"""
    me = self

    class T(ast.NodeTransformer):
      def visit_Attribute(self, n):
        v = me.peek(n)
        if v[0] == 'col':
          return ast.Name(id='%s.%s' % (v[1], v[2]), ctx=ast.Load())
        if v[0] == 'table':
          return ast.Name(id=v[1], ctx=ast.Load())
        if v[0] in ('field', 'parsed'):
          return ast.Name(id=render_source(v), ctx=ast.Load())
        return self.generic_visit(n)

      def visit_Name(self, n):
        if n.id in me.locals:
          v = me.env.get(n.id, ('opaque', None))
          if v[0] in ('arg', 'field', 'parsed'):
            return ast.Name(id=render_source(v), ctx=ast.Load())
          if v[0] == 'col':
            return ast.Name(id='%s.%s' % (v[1], v[2]), ctx=ast.Load())
          if v[0] == 'table':
            return ast.Name(id=v[1], ctx=ast.Load())
          return ast.Name(id='_', ctx=ast.Load())
        return n

    try:
      return ast.unparse(T().visit(copy.deepcopy(node)))
    except Exception:                                    # pragma: no cover
      return _src(node)

  def source_of(self, v, node):
    if v[0] in ('arg', 'field', 'parsed'):
      return v
    return ('other', self.norm(node))

  def cols_in(self, node):
    out = []
    for n in ast.walk(node):
      if isinstance(n, (ast.Attribute, ast.Subscript, ast.Name)):
        v = self.peek(n)
        if v[0] == 'col' and (v[1], v[2]) not in out:
          out.append((v[1], v[2]))
    return out

  def tables_in(self, node):
    out = []
    for n in ast.walk(node):
      if isinstance(n, (ast.Attribute, ast.Name, ast.Subscript)):
        v = self.peek(n)
        for t in (v[1] if v[0] == 'colexpr' else (v[1],) if v[0] in ('table', 'col') else ()):
          if t not in out:
            out.append(t)
    return out

  def other_cond(self, node, arg_node=None):
    cols = self.cols_in(node)
    t, c = cols[0] if cols else (None, '?')
    src = ('other', '')
    if arg_node is not None:
      src = self.source_of(self.peek(arg_node), arg_node)
    return ('cond', ((t, c, ('other', self.norm(node)), src),))

  # ------------------------------------------------------------ queries
  def new_query(self, table, kind, conj=(), vals=(), node=None):
    self.lineage += 1
    self.lineage_state[self.lineage] = 'built'
    self.lineage_text[self.lineage] = self.norm(node)[:70] if node is not None else kind
    return ('query', self.lineage, table, kind, tuple(conj), tuple(vals))

  def use(self, q, state):
    order = {'built': 0, 'used': 1, 'executed': 2}
    if order[state] > order[self.lineage_state.get(q[1], 'built')]:
      self.lineage_state[q[1]] = state

  def add_where(self, q, arg_nodes):
    conj = list(q[4])
    for a in arg_nodes:
      v = self.eval(a)
      if v[0] != 'cond':
        v = self.other_cond(a)
      conj.extend(v[1])
    table = q[2]
    if table is None:
      ts = [c[0] for c in conj if c[0] is not None]
      table = ts[0] if ts else None
    return ('query', q[1], table, q[3], tuple(conj), q[5])

  def add_values(self, q, call):
    vals = list(q[5])
    for a in call.args:
      if isinstance(a, ast.Dict) and all(k is not None for k in a.keys):
        for k, val in zip(a.keys, a.values):
          kv = self.peek(k)
          if isinstance(k, ast.Constant) and isinstance(k.value, str):
            col = k.value
          elif kv[0] == 'col':
            col = kv[2]
          else:
            self.warn('values(): key %s not recognised' % self.norm(k))
            col = '?'
          vals.append((col, self.source_of(self.eval(val), val)))
      else:
        self.eval(a)
        self.warn('values(%s): not keyword arguments or a literal dict' % self.norm(a)[:60])
    for kw in call.keywords:
      if kw.arg is None:
        self.eval(kw.value)
        self.warn('values(**%s)' % self.norm(kw.value)[:60])
      else:
        vals.append((kw.arg, self.source_of(self.eval(kw.value), kw.value)))
    return ('query', q[1], q[2], q[3], q[4], tuple(vals))

  def table_from_args(self, call, what):
    """the single table mentioned by the arguments of sqla.select / update / delete / insert"""
    ts = []
    for a in list(call.args) + [k.value for k in call.keywords]:
      for t in self.tables_in(a):
        if t not in ts:
          ts.append(t)
    if len(ts) == 1:
      return ts[0]
    if len(ts) > 1:
      self.warn('%s over several tables: %s' % (what, self.norm(call)[:80]))
      return ts[0]
    return None

  def record_execution(self, call, arg_nodes):
    self.visited.add((call.lineno, call.col_offset))
    if not arg_nodes:
      self.warn('execution without a query: %s' % self.norm(call)[:80])
      return
    v = self.eval(arg_nodes[0])
    alts = v[1] if v[0] == 'ambig' else (v,)
    for alt in alts:
      if alt[0] != 'query':
        self.warn('executes something that is not a recognised query: %s' % self.norm(arg_nodes[0])[:80])
        continue
      q = alt
      for extra in arg_nodes[1:]:
        # execute(query, {col: value}): parameters of an insert / update
        if isinstance(extra, ast.Dict):
          fake = ast.Call(func=ast.Name(id='values', ctx=ast.Load()), args=[extra], keywords=[])
          q = self.add_values(q, fake)
        else:
          self.eval(extra)
          self.warn('execute() with parameters that are not a literal dict: %s' % self.norm(extra)[:60])
      self.use(q, 'executed')
      entry = ((call.lineno, call.col_offset),) + q[2:]
      if entry not in self.executed:                     # loop bodies are walked twice
        self.executed.append(entry)

  # ------------------------------------------------------------ expressions
  def eval(self, node):
    if node is None:
      return ('opaque', None)
    m = getattr(self, 'eval_' + type(node).__name__, None)
    if m is not None:
      return m(node)
    for ch in ast.iter_child_nodes(node):
      if isinstance(ch, ast.expr):
        self.eval(ch)
    return ('opaque', None)

  def eval_Name(self, node):
    return self.peek(node)

  def eval_Constant(self, node):
    return ('opaque', None)

  def eval_Attribute(self, node):
    if isinstance(node.value, ast.Name):
      return self.peek(node)
    v = self.eval(node.value)
    return self.attr_of(v, node.attr, node)

  def eval_Subscript(self, node):
    v = self.eval(node.value)
    self.eval(node.slice)
    if v[0] == 'tablec' and isinstance(node.slice, ast.Constant) and isinstance(node.slice.value, str):
      return ('col', v[1], node.slice.value)
    if v[0] == 'dictof':
      return v[1]
    return ('opaque', None)

  def _comp(self, node, elts):
    saved = dict(self.env)
    for g in node.generators:
      self.eval(g.iter)
      self.bind(g.target, ('opaque', None))
      for c in g.ifs:
        self.eval(c)
    vals = [self.eval(e) for e in elts]
    self.env = saved
    return vals

  def eval_DictComp(self, node):
    vals = self._comp(node, [node.key, node.value])
    return ('dictof', vals[1])

  def eval_ListComp(self, node):
    self._comp(node, [node.elt])
    return ('opaque', None)

  eval_SetComp = eval_ListComp
  eval_GeneratorExp = eval_ListComp

  def eval_Lambda(self, node):
    self.eval(node.body)
    return ('opaque', None)

  def eval_Compare(self, node):
    l = self.eval(node.left)
    rs = [self.eval(c) for c in node.comparators]
    if len(node.ops) == 1:
      r = rs[0]
      if l[0] == 'col' and r[0] == 'col':
        return self.other_cond(node)
      if l[0] == 'col' or r[0] == 'col':
        col, val, vnode = (l, r, node.comparators[0]) if l[0] == 'col' else (r, l, node.left)
        if isinstance(node.ops[0], ast.Eq):
          return ('cond', ((col[1], col[2], ('eq',), self.source_of(val, vnode)),))
        return self.other_cond(node, vnode)
    if self.cols_in(node):
      return self.other_cond(node)
    return ('opaque', None)

  def eval_BinOp(self, node):
    l, r = self.eval(node.left), self.eval(node.right)
    if isinstance(node.op, ast.BitAnd) and l[0] == 'cond' and r[0] == 'cond':
      return ('cond', l[1] + r[1])
    if l[0] == 'cond' or r[0] == 'cond' or self.cols_in(node):
      return self.other_cond(node)
    return ('opaque', None)

  def eval_UnaryOp(self, node):
    v = self.eval(node.operand)
    if v[0] == 'cond' or (v[0] == 'col' and isinstance(node.op, ast.Invert)):
      return self.other_cond(node)
    return ('opaque', None)

  def eval_BoolOp(self, node):
    vs = [self.eval(v) for v in node.values]
    if any(v[0] == 'cond' for v in vs):
      return self.other_cond(node)
    return ('opaque', None)

  def eval_IfExp(self, node):
    self.eval(node.test)
    a, b = self.eval(node.body), self.eval(node.orelse)
    return a if a == b else ('ambig', (a, b))

  def eval_Call(self, node):
    f = node.func
    # ---- execution sites
    if isinstance(f, ast.Attribute) and is_exec_site(node):
      base = self.eval(f.value)
      if base[0] != 'query':
        if f.attr == 'exec_driver_sql':
          self.visited.add((node.lineno, node.col_offset))
          for a in node.args:
            self.eval(a)
          self.warn('raw SQL: %s' % self.norm(node)[:80])
        else:
          self.record_execution(node, list(node.args))
        for kw in node.keywords:
          self.eval(kw.value)
        return ('opaque', None)
    # ---- sqla.<constructor>
    if isinstance(f, ast.Attribute):
      ftext = _src(f)
      root = ftext.split('.')[0]
      if root in ('sqla', 'sqlalchemy', 'sa') and root not in self.locals and is_dotted(f):
        return self.sqla_call(node, ftext.split('.', 1)[1])
      if f.attr == 'from_name' and isinstance(f.value, (ast.Attribute, ast.Name)) and _src(f.value).split('.')[-1].endswith('Resource'):
        res = _src(f.value).split('.')[-1]
        if len(node.args) == 1 and not node.keywords:
          a = self.eval(node.args[0])
          return ('parsed', res, self.source_of(a, node.args[0]), '')
      base = self.eval(f.value)
      if base[0] == 'query':
        return self.query_method(base, f.attr, node)
      if base[0] == 'table':
        return self.table_method(base[1], f.attr, node)
      if base[0] == 'col':
        for a in node.args:
          self.eval(a)
        for kw in node.keywords:
          self.eval(kw.value)
        if f.attr in NEUTRAL_COL_METHODS:
          return ('colexpr', (base[1],), self.norm(node))
        return self.other_cond(node, node.args[0] if node.args else None)
      if base[0] == 'parsed':
        args = [self.norm(a) for a in node.args] + ['%s=%s' % (k.arg, self.norm(k.value)) for k in node.keywords]
        for a in node.args:
          self.eval(a)
        for kw in node.keywords:
          self.eval(kw.value)
        seg = '%s(%s)' % (f.attr, ', '.join(args))
        return ('parsed', base[1], base[2], (base[3] + '.' + seg) if base[3] else seg)
      if base[0] == 'ambig' and any(a[0] in ('query', 'table') for a in base[1]):
        outs = []
        for a in base[1]:
          if a[0] == 'query':
            outs.append(self.query_method(a, f.attr, node))
          elif a[0] == 'table':
            outs.append(self.table_method(a[1], f.attr, node))
          else:
            outs.append(('opaque', None))
        return outs[0] if all(o == outs[0] for o in outs) else ('ambig', tuple(outs))
    else:
      self.eval(f)
    # ---- anything else: evaluate the arguments (they may contain executions); a query handed to an unknown
    # function escapes
    for a in list(node.args) + [k.value for k in node.keywords]:
      v = self.eval(a)
      for alt in (v[1] if v[0] == 'ambig' else (v,)):
        if alt[0] == 'query' and self.lineage_state.get(alt[1]) == 'built':
          self.lineage_text[alt[1]] += '  [passed to %s]' % self.norm(f)[:40]
    return ('opaque', None)

  def sqla_call(self, node, name):
    args = node.args
    if name in ('select', 'sql.select', 'future.select'):
      vals = [self.eval(a) for a in args]
      for kw in node.keywords:
        self.eval(kw.value)
      for v in vals:
        if v[0] == 'query' and v[3] == 'exist':
          return v
        if v[0] == 'query':
          self.use(v, 'used')
          self.warn('select over a subquery: %s' % self.norm(node)[:80])
      table = self.table_from_args(node, 'select')
      return self.new_query(table, 'select', node=node)
    if name in ('exists', 'sql.exists'):
      vals = [self.eval(a) for a in args]
      for v in vals:
        if v[0] == 'query' and v[3] in ('select', 'exist'):
          self.use(v, 'used')
          return self.new_query(v[2], 'exist', v[4], (), node=node)
        if v[0] == 'ambig':
          self.warn('exists over a query that depends on a branch: %s' % self.norm(node)[:80])
      table = self.table_from_args(node, 'exists')
      return self.new_query(table, 'exist', node=node)
    if name in ('update', 'delete', 'insert', 'sql.update', 'sql.delete', 'sql.insert'):
      for a in args:
        self.eval(a)
      kind = name.split('.')[-1]
      table = self.table_from_args(node, kind)
      q = self.new_query(table, kind, node=node)
      return self.legacy_kwargs(q, node, skip=1)
    if name in ('and_', 'sql.and_', 'sql.expression.and_'):
      conj = ()
      for a in args:
        v = self.eval(a)
        if v[0] != 'cond':
          v = self.other_cond(a)
        conj += v[1]
      return ('cond', conj)
    if name in ('or_', 'not_', 'sql.or_', 'sql.not_', 'sql.expression.or_', 'sql.expression.not_'):
      for a in args:
        self.eval(a)
      return self.other_cond(node)
    if name in ('text', 'sql.text', 'literal_column', 'sql.expression.text'):
      for a in args:
        self.eval(a)
      self.warn('raw SQL: %s' % self.norm(node)[:80])
      return ('opaque', None)
    # sqla.func.max(col, ...), sqla.cast(col, ...), sqla.literal(x), ... : a column expression or a plain value
    for a in list(args) + [k.value for k in node.keywords]:
      self.eval(a)
    ts = self.tables_in(node)
    if ts:
      return ('colexpr', tuple(ts), self.norm(node))
    return ('opaque', None)

  def legacy_kwargs(self, q, node, skip=0):
    """`table.update(whereclause, values)` / `sqla.delete(table, whereclause)` of SQLAlchemy 1.x"""
    extra = list(node.args[skip:])
    if extra:
      q = self.add_where(q, extra[:1])
      for e in extra[1:]:
        self.warn('positional argument %s of %s not recognised' % (self.norm(e)[:40], self.norm(node.func)))
    for kw in node.keywords:
      if kw.arg == 'whereclause':
        q = self.add_where(q, [kw.value])
      elif kw.arg == 'values' and isinstance(kw.value, ast.Dict):
        fake = ast.Call(func=node.func, args=[kw.value], keywords=[])
        q = self.add_values(q, fake)
      else:
        self.eval(kw.value)
        self.warn('keyword %s of %s not recognised' % (kw.arg, self.norm(node.func)))
    return q

  def table_method(self, table, attr, node):
    if attr in ('insert', 'update', 'delete', 'select'):
      q = self.new_query(table, attr, node=node)
      return self.legacy_kwargs(q, node)
    for a in list(node.args) + [k.value for k in node.keywords]:
      self.eval(a)
    if attr in ('alias',):
      return ('table', table)
    return ('opaque', None)

  def query_method(self, q, attr, node):
    if attr in ('where', 'filter', 'having'):
      for kw in node.keywords:
        self.eval(kw.value)
        self.warn('%s(%s=...)' % (attr, kw.arg))
      return self.add_where(q, list(node.args))
    if attr == 'filter_by':
      conj = list(q[4])
      for kw in node.keywords:
        v = self.eval(kw.value)
        conj.append((q[2], kw.arg or '?', ('eq',) if kw.arg else ('other', self.norm(kw.value)), self.source_of(v, kw.value)))
      return ('query', q[1], q[2], q[3], tuple(conj), q[5])
    if attr == 'values':
      return self.add_values(q, node)
    if attr == 'select_from':
      for a in node.args:
        self.eval(a)
      t = self.table_from_args(node, 'select_from')
      if q[2] is not None and t is not None and t != q[2]:
        self.warn('select_from(%s) on a query over %s' % (t, q[2]))
      return ('query', q[1], q[2] if q[2] is not None else t, q[3], q[4], q[5])
    for a in list(node.args) + [k.value for k in node.keywords]:
      self.eval(a)
    if attr in NEUTRAL_QUERY_METHODS:
      return q
    self.warn('query method .%s(...) not recognised: %s' % (attr, self.norm(node)[:80]))
    return q

  # ------------------------------------------------------------ statements
  def bind(self, target, v):
    if isinstance(target, ast.Name):
      self.env[target.id] = v
    elif isinstance(target, (ast.Tuple, ast.List)):
      for e in target.elts:
        self.bind(e, ('opaque', None))
    elif isinstance(target, ast.Starred):
      self.bind(target.value, ('opaque', None))
    else:
      for ch in ast.iter_child_nodes(target):
        if isinstance(ch, ast.expr):
          self.eval(ch)

  def merge(self, envs):
    keys = set()
    for e in envs:
      keys |= set(e)
    out = {}
    for k in keys:
      vs = []
      for e in envs:
        v = e.get(k, ('opaque', None))
        for alt in (v[1] if v[0] == 'ambig' else (v,)):
          if alt not in vs:
            vs.append(alt)
      out[k] = vs[0] if len(vs) == 1 else ('ambig', tuple(vs))
    return out

  def block(self, stmts):
    for st in stmts:
      self.stmt(st)

  def branch(self, blocks, include_skip=False):
    start = dict(self.env)
    outs = [dict(start)] if include_skip else []
    for b in blocks:
      self.env = dict(start)
      self.block(b)
      outs.append(self.env)
    self.env = self.merge(outs)

  def stmt(self, st):
    if isinstance(st, ast.Assign):
      v = self.eval(st.value)
      for t in st.targets:
        self.bind(t, v)
    elif isinstance(st, ast.AnnAssign):
      v = self.eval(st.value) if st.value is not None else ('opaque', None)
      self.bind(st.target, v)
    elif isinstance(st, ast.AugAssign):
      self.eval(st.value)
      self.bind(st.target, ('opaque', None))
    elif isinstance(st, (ast.Expr, ast.Return)):
      self.eval(st.value)
    elif isinstance(st, ast.Raise):
      self.eval(st.exc)
      self.eval(st.cause)
    elif isinstance(st, ast.Assert):
      self.eval(st.test)
    elif isinstance(st, ast.If):
      self.eval(st.test)
      self.branch([st.body, st.orelse])
    elif isinstance(st, (ast.For, ast.AsyncFor)):
      self.eval(st.iter)
      self.bind(st.target, ('opaque', None))
      # twice, so that what the body leaves behind is seen by the body
      self.branch([st.body], include_skip=True)
      self.branch([st.body], include_skip=True)
      self.block(st.orelse)
    elif isinstance(st, ast.While):
      self.eval(st.test)
      self.branch([st.body], include_skip=True)
      self.branch([st.body], include_skip=True)
      self.block(st.orelse)
    elif isinstance(st, (ast.With, ast.AsyncWith)):
      for item in st.items:
        self.eval(item.context_expr)
        if item.optional_vars is not None:
          self.bind(item.optional_vars, ('opaque', None))
      self.block(st.body)
    elif isinstance(st, ast.Try) or type(st).__name__ == 'TryStar':
      self.block(st.body)
      if st.handlers:
        self.branch([h.body for h in st.handlers], include_skip=True)
      self.block(st.orelse)
      self.block(st.finalbody)
    elif isinstance(st, (ast.FunctionDef, ast.AsyncFunctionDef)):
      saved = dict(self.env)
      for a in st.args.posonlyargs + st.args.args + st.args.kwonlyargs:
        self.env[a.arg] = ('opaque', None)
      self.block(st.body)
      self.env = saved
    elif isinstance(st, ast.Match):
      self.eval(st.subject)
      self.branch([c.body for c in st.cases], include_skip=True)
    elif isinstance(st, (ast.Pass, ast.Import, ast.ImportFrom, ast.Global, ast.Nonlocal, ast.Break, ast.Continue)):
      pass
    elif isinstance(st, ast.Delete):
      for t in st.targets:
        self.bind(t, ('opaque', None))
    else:
      self.warn('statement %s' % type(st).__name__)

  # ------------------------------------------------------------ result
  def run(self):
    self.block(self.fn.body)
    out = []
    for site, table, kind, conj, vals in self.executed:
      if table is None:
        self.warn('line %d: query without a recognisable table' % site[0])
      for c in conj:
        if c[0] is not None and table is not None and c[0] != table:
          self.warn('query over %s constrains a column of %s (join / correlated subquery)' % (table, c[0]))
      cj = sorted(set((c[1], c[2], c[3]) for c in conj), key=lambda c: (c[0], c[1], render_key(c[2])))
      vs = sorted(set(vals), key=lambda v: (v[0], render_key(v[1])))
      if kind in ('select', 'exist', 'delete') and vs:
        self.warn('%s with values()' % kind)
      out.append({'table': table or '?', 'kind': kind, 'conj': cj, 'vals': vs})
    for lin, state in sorted(self.lineage_state.items()):
      if state == 'built':
        self.warn('query built but not executed through a recognised route: %s' % self.lineage_text.get(lin, '?'))
    return out


def render_key(s):
  return (s[0],) + tuple(render_key(x) if isinstance(x, tuple) else x for x in s[1:])


def schema_of(cls, unknown):
  """`self._X = sqla.Table('name', metadata, sqla.Column('col', type, primary_key=True), ...)` in __init__"""
  tables, schema = {}, {}
  init = next((n for n in cls.body if isinstance(n, ast.FunctionDef) and n.name == '__init__'), None)
  if init is None:
    unknown.append('__init__ not found')
    return tables, schema
  for node in ast.walk(init):
    if not (isinstance(node, ast.Assign) and isinstance(node.value, ast.Call)):
      continue
    ftext = _src(node.value.func)
    if not ftext.endswith('.Table') and ftext != 'Table':
      continue
    call = node.value
    tgt = node.targets[0]
    if not (len(node.targets) == 1 and isinstance(tgt, ast.Attribute) and isinstance(tgt.value, ast.Name) and tgt.value.id == 'self'
            and call.args and isinstance(call.args[0], ast.Constant) and isinstance(call.args[0].value, str)):
      unknown.append('__init__: table definition not recognised: %s' % _src(node)[:80])
      continue
    name = call.args[0].value
    cols = []
    for a in call.args[1:]:
      if isinstance(a, ast.Call) and _src(a.func).split('.')[-1] == 'Column':
        if a.args and isinstance(a.args[0], ast.Constant) and isinstance(a.args[0].value, str):
          pk = any(k.arg == 'primary_key' and isinstance(k.value, ast.Constant) and k.value.value is True for k in a.keywords)
          if any(k.arg == 'primary_key' and not isinstance(k.value, ast.Constant) for k in a.keywords):
            unknown.append('__init__: primary_key of %s.%s is not a literal' % (name, a.args[0].value))
          cols.append((a.args[0].value, pk))
        else:
          unknown.append('__init__: column of %s not recognised: %s' % (name, _src(a)[:60]))
      elif isinstance(a, ast.Call):
        # PrimaryKeyConstraint / UniqueConstraint / Index ... would change what identifies a row
        unknown.append('__init__: table %s has a table-level argument %s' % (name, _src(a)[:60]))
    tables[tgt.attr] = TABLE_CTOR.get(name, name)
    schema[TABLE_CTOR.get(name, name)] = cols
  return tables, schema


def extract(repo):
  """-> (table: {method: [query dict]}, schema: {table: [(column, primary_key)]}, unknown: [text])"""
  unknown = []
  path = os.path.join(repo, SRC_FILE)
  tree = ast.parse(open(path).read())
  cls = next((n for n in tree.body if isinstance(n, ast.ClassDef) and n.name == 'SQLDataStore'), None)
  if cls is None:
    return {}, {}, ['class SQLDataStore not found']
  tables, schema = schema_of(cls, unknown)
  visited = set()
  table = {}
  for fn in cls.body:
    if not isinstance(fn, ast.FunctionDef) or fn.name in ('__init__', '_write_or_rollback'):
      continue
    m = Method(fn, tables, unknown, visited)
    try:
      table[fn.name] = m.run()
    except RecursionError:                                # pragma: no cover
      unknown.append('%s: too deep' % fn.name)
      table[fn.name] = []
  # every execution site of the module must have been visited (but the one inside the helper, whose form
  # sql_txn.py checks, and the ones in __init__ - there are none today)
  helper = next((n for n in cls.body if isinstance(n, ast.FunctionDef) and n.name == '_write_or_rollback'), None)
  helper_sites = set()
  if helper is not None:
    for n in ast.walk(helper):
      if isinstance(n, ast.Call) and is_exec_site(n):
        if len(n.args) == 1 and isinstance(n.args[0], ast.Name) and n.args[0].id in [a.arg for a in helper.args.args]:
          helper_sites.add((n.lineno, n.col_offset))
  for n in ast.walk(tree):
    if isinstance(n, ast.Call) and is_exec_site(n):
      key = (n.lineno, n.col_offset)
      if key not in visited and key not in helper_sites:
        unknown.append('line %d: execution site outside the translated methods: %s' % (n.lineno, _src(n)[:70]))
  return table, schema, unknown


# ---------------------------------------------------------------- Lean rendering
def lean_str(s):
  out = []
  for ch in s:
    if ch == '"':
      out.append('\\"')
    elif ch == '\\':
      out.append('\\\\')
    elif ch == '\n':
      out.append('\\n')
    elif ch == '\t':
      out.append('\\t')
    elif ord(ch) < 32 or ord(ch) > 126:
      out.append('\\u{%x}' % ord(ch))
    else:
      out.append(ch)
  return '"' + ''.join(out) + '"'


def lean_table(t):
  return '.' + t if t in TABLE_CTOR.values() else '(.other %s)' % lean_str(t)


def lean_source(s):
  if s[0] == 'arg':
    return '.arg %s' % lean_str(s[1])
  if s[0] == 'field':
    return '.field %s %s' % (lean_str(s[1]), lean_str(s[2]))
  if s[0] == 'parsed':
    return '.parsed %s (%s) %s' % (lean_str(s[1]), lean_source(s[2]), lean_str(s[3]))
  return '.other %s' % lean_str(s[1])


def lean_rel(r):
  return '.eq' if r[0] == 'eq' else '(.other %s)' % lean_str(r[1])


def lean_query(q):
  cj = ', '.join('⟨%s, %s, %s⟩' % (lean_str(c[0]), lean_rel(c[1]), lean_source(c[2])) for c in q['conj'])
  vs = ', '.join('(%s, %s)' % (lean_str(v[0]), lean_source(v[1])) for v in q['vals'])
  return '⟨%s, .%s, [%s], [%s]⟩' % (lean_table(q['table']), q['kind'], cj, vs)


HEADER = '''/- GENERATED by harness/translators/sql_where.py from vizier/_src/service/sql_datastore.py - do not edit:
   rewritten on every run of the checks that use it (C07 / C12). -/
namespace VizierModel.Generated.SqlWhere

inductive Table where
  | owners | studies | trials | sugOps | esOps | other (name : String)
  deriving DecidableEq, Repr

/-- `exist` is `sqla.exists(<select>)` -/
inductive Kind where
  | select | exist | insert | update | delete
  deriving DecidableEq, Repr

inductive Rel where
  | eq | other (text : String)
  deriving DecidableEq, Repr

/-- where the compared / stored value comes from: a method parameter as is, an attribute of a parameter
(`trial.name`), an attribute (path) of `resources.<resource>.from_name(<of>)`, anything else -/
inductive Source where
  | arg (name : String)
  | field (param attr : String)
  | parsed (resource : String) (of : Source) (attr : String)
  | other (text : String)
  deriving DecidableEq, Repr

structure Conj where
  col : String
  rel : Rel
  src : Source
  deriving DecidableEq, Repr

/-- one executed query: `conj` the `.where(...)` conjuncts, `vals` the `.values(...)` (both sorted) -/
structure Query where
  table : Table
  kind : Kind
  conj : List Conj
  vals : List (String × Source)
  deriving DecidableEq, Repr
'''


def lean_text(table, schema):
  lines = [HEADER,
           '/-- `sqla.Table(...)` in `__init__`: per table its columns with `primary_key=True` or not -/',
           'def sqlSchema : List (Table × List (String × Bool)) := [']
  rows = []
  for t in sorted(schema):
    rows.append('  (%s, [%s])' % (lean_table(t), ', '.join('(%s, %s)' % (lean_str(c), 'true' if pk else 'false') for c, pk in schema[t])))
  lines.append(',\n'.join(rows))
  lines += [']', '', '/-- per method: the queries it executes, in source order of the execution sites -/',
            'def sqlWhere : List (String × List Query) := [']
  rows = []
  for name in sorted(table):
    qs = ',\n    '.join(lean_query(q) for q in table[name])
    rows.append('  (%s, [\n    %s])' % (lean_str(name), qs) if table[name] else '  (%s, [])' % lean_str(name))
  lines.append(',\n'.join(rows))
  lines += [']', '', 'end VizierModel.Generated.SqlWhere', '']
  return '\n'.join(lines)


def write(repo, lean_dir):
  table, schema, unknown = extract(repo)
  path = os.path.join(lean_dir, 'VizierModel', 'Generated', 'SqlWhere.lean')
  text = lean_text(table, schema)
  old = open(path).read() if os.path.exists(path) else None
  if old != text:
    tmp = path + '.tmp%d' % os.getpid()
    with open(tmp, 'w') as f:
      f.write(text)
    os.replace(tmp, path)
  return table, schema, unknown


def brief(table):
  """one line per query, for evidence and for people"""
  out = {}
  for name in sorted(table):
    rows = []
    for q in table[name]:
      cj = ' & '.join('%s %s %s' % (c[0], '==' if c[1][0] == 'eq' else 'OTHER[%s]' % c[1][1], render_source(c[2])) for c in q['conj'])
      vs = ', '.join('%s=%s' % (v[0], render_source(v[1])) for v in q['vals'])
      rows.append('%s %s%s%s' % (q['kind'], q['table'], (' WHERE ' + cj) if cj else '', (' VALUES ' + vs) if vs else ''))
    out[name] = rows
  return out


if __name__ == '__main__':
  import sys
  t, s, u = extract(sys.argv[1] if len(sys.argv) > 1 else '/repo')
  for k, rows in brief(t).items():
    print(k)
    for r in rows:
      print('   ', r)
  print('schema', s)
  print('unknown', u)
