"""Translator (Pythia glue; used by C08 / C12 / C06): what the policy supporter asks of Vizier and what leaves PythiaServicer.

From the AST of `vizier/_src/service/service_policy_supporter.py` it extracts, for every public method / property of
`ServicePolicySupporter`,

  * the Vizier RPCs the method can issue - `<service>.<Rpc>(...)` calls in evaluation order, `<service>` being
    `self._vizier_service` or a local bound to it - each tagged
      once   on the straight line of the method,
      cond   inside an `if` / `match` branch, an `except` handler, a `try ... else`, the non-first operand of `and` / `or`,
             a conditional expression, or anywhere after a `return` that precedes it in the source (early return),
      loop   inside a `while` / `for` / comprehension (any number of times, zero included; `loop` absorbs `cond`);
    helper methods (`self.<method>(...)`, `self.<property>`) and module-level functions are inlined, recursively;
  * the exception classes caught anywhere inside the method (every `except` clause and every `contextlib.suppress(...)`,
    helpers included; the last component of a dotted name, `BaseException` for a bare `except:`).

From `vizier/_src/service/pythia_service.py`, for `PythiaServicer.Suggest` / `PythiaServicer.EarlyStop`: the `except` clauses
that guard the call of the policy (`<policy>.suggest(...)` / `<policy>.early_stop(...)`, `<policy>` being a local bound to
`self._policy_factory(...)`), innermost `try` first, in order, as (caught classes, action) with action one of

  reraiseAs <Class>   the handler's straight line ends in `raise <Class>(...)` (with or without `from`),
  reraise             ... ends in a bare `raise` / `raise <the bound exception>`,
  swallow             the handler contains no `raise` at all,
  other <text>        anything else (a `raise` under a condition, several raises, a raise of a computed object).

Normalised away: local names, comments, logging, messages, every statement without an RPC / handler, the order of the
methods in the file (tables are sorted by name).  Kept: RPC names, their order, tags, duplicates, handler order.

Whatever is not understood goes to `unknown` (a failed obligation, never dropped): an RPC-named call on an unrecognised
receiver, the service object escaping (passed to anything but the supporter's constructor, returned, stored), an unknown
attribute of the service, RPCs inside nested functions / lambdas, recursion among helpers, a helper with several RPCs called
in a loop, a caught class that is not a name, no / several / a conditional policy call, a `try` in Suggest / EarlyStop that
does not guard the policy call, a Vizier RPC issued by PythiaServicer itself.

Output: `lean/VizierModel/Generated/PythiaShape.lean` (`supporterShape`, `supporterCatches`, `pythiaHandlers`), written
atomically and only when its text changes."""
import ast
import os

RPCS = ['CreateStudy', 'GetStudy', 'ListStudies', 'DeleteStudy', 'SetStudyState', 'SuggestTrials', 'GetOperation',
        'CreateTrial', 'GetTrial', 'ListTrials', 'AddTrialMeasurement', 'CompleteTrial', 'DeleteTrial',
        'CheckTrialEarlyStoppingState', 'StopTrial', 'ListOptimalTrials', 'UpdateMetadata']
WRITING = ['CreateStudy', 'DeleteStudy', 'SetStudyState', 'SuggestTrials', 'CreateTrial', 'AddTrialMeasurement',
           'CompleteTrial', 'DeleteTrial', 'CheckTrialEarlyStoppingState', 'StopTrial', 'UpdateMetadata']
ONCE, COND, LOOP = 'once', 'cond', 'loop'
SUPPORTER_FILE = 'vizier/_src/service/service_policy_supporter.py'
PYTHIA_FILE = 'vizier/_src/service/pythia_service.py'
SUPPORTER_CLASS = 'ServicePolicySupporter'
PYTHIA_CLASS = 'PythiaServicer'
SERVICE_ATTR = '_vizier_service'
FACTORY_ATTR = '_policy_factory'
POLICY_CALL = {'Suggest': 'suggest', 'EarlyStop': 'early_stop'}
REQUIRED_SUPPORTER = ['GetStudyConfig', 'GetTrials']
SERVICE_SINKS = {SUPPORTER_CLASS}          # constructors the service object may be handed to (they only store it)
CATCH_ALL = ('Exception', 'BaseException')
DOCUMENTED_FAILURE = 'reraiseAs RuntimeError'


def join(a, b):
  if LOOP in (a, b):
    return LOOP
  if COND in (a, b):
    return COND
  return ONCE


def _is_self_attr(node, attr):
  return (isinstance(node, ast.Attribute) and node.attr == attr and isinstance(node.value, ast.Name)
          and node.value.id in ('self', 'cls'))


def _is_property(fn):
  for d in fn.decorator_list:
    if isinstance(d, ast.Name) and d.id in ('property', 'cached_property'):
      return True
    if isinstance(d, ast.Attribute) and d.attr in ('cached_property', 'getter'):
      return True
  return False


def _is_abstract(fn):
  return any((isinstance(d, ast.Attribute) and d.attr == 'abstractmethod') or (isinstance(d, ast.Name) and d.id == 'abstractmethod')
             for d in fn.decorator_list)


def _last_name(node):
  """`X` / `a.b.X` -> 'X'; None for anything else"""
  if isinstance(node, ast.Name):
    return node.id
  if isinstance(node, ast.Attribute) and _last_name(node.value) is not None:
    return node.attr
  return None


def _call_short(node):
  """last component of the callee of a Call when it is a (dotted) name"""
  return _last_name(node.func)


def caught_classes(type_node):
  """the classes of one `except` clause -> (names, problems)"""
  if type_node is None:
    return ['BaseException'], []
  nodes = list(type_node.elts) if isinstance(type_node, ast.Tuple) else [type_node]
  names, bad = [], []
  for n in nodes:
    nm = _last_name(n)
    if nm is None:
      names.append('?')
      bad.append('caught class is not a name: %s' % ast.dump(n)[:60])
    else:
      names.append(nm)
  return names, bad


class Scope:
  """the functions that can be inlined while analysing one class: its own methods / properties and the module's functions"""

  def __init__(self, module, cls):
    self.cls = cls
    self.cls_name = cls.name if cls is not None else None
    self.methods = {}
    self.props = set()
    if cls is not None:
      for fn in cls.body:
        if isinstance(fn, (ast.FunctionDef, ast.AsyncFunctionDef)):
          self.methods[fn.name] = fn
          if _is_property(fn):
            self.props.add(fn.name)
    self.functions = {fn.name: fn for fn in module.body if isinstance(fn, (ast.FunctionDef, ast.AsyncFunctionDef))}
    self.cache = {}


class Analyzer:
  """events of ONE function: [(rpc, tag)] in evaluation order, and the exception classes it catches"""

  def __init__(self, scope, fn, where, stack=()):
    self.scope, self.fn, self.where, self.stack = scope, fn, where, tuple(stack)
    self.events = []
    self.catches = []
    self.unknown = []
    self.exited = False
    self.aliases = set()
    self.aliases = self._aliases(fn)

  # ------------------------------------------------------------------ receivers
  def _is_target_expr(self, node):
    """does the expression denote the Vizier service object"""
    if _is_self_attr(node, SERVICE_ATTR):
      return True
    if isinstance(node, ast.Name) and node.id in self.aliases:
      return True
    return False

  def _aliases(self, fn):
    """locals bound by a plain assignment to the service object (flow-insensitive; to a fixpoint for `a = b`)"""
    changed = True
    while changed:
      changed = False
      for node in ast.walk(fn):
        tgt = val = None
        if isinstance(node, ast.Assign) and len(node.targets) == 1:
          tgt, val = node.targets[0], node.value
        elif isinstance(node, ast.AnnAssign) and node.value is not None:
          tgt, val = node.target, node.value
        elif isinstance(node, ast.NamedExpr):
          tgt, val = node.target, node.value
        if isinstance(tgt, ast.Name) and val is not None and tgt.id not in self.aliases and self._is_target_expr(val):
          self.aliases.add(tgt.id)
          changed = True
    return self.aliases

  # ------------------------------------------------------------------ bookkeeping
  def _ctx(self, ctx):
    return join(ctx, COND) if self.exited else ctx

  def emit(self, name, ctx):
    self.events.append((name, self._ctx(ctx)))

  def unk(self, what, node=None):
    self.unknown.append('%s: %s%s' % (self.where, what, ' (line %d)' % node.lineno if node is not None and hasattr(node, 'lineno') else ''))

  def inline(self, fn, name, ctx, node):
    if name in self.stack or fn is self.fn:
      self.unk('recursion through helper %s' % name, node)
      return
    if name not in self.scope.cache:
      sub = Analyzer(self.scope, fn, '%s>%s' % (self.where, name), self.stack + (name,))
      sub.run()
      self.scope.cache[name] = (sub.events, sub.catches, [u.split(': ', 1)[1] for u in sub.unknown])
    events, catches, unknown = self.scope.cache[name]
    for u in unknown:
      self.unk('in helper %s: %s' % (name, u))
    c = self._ctx(ctx)
    if c == LOOP and len(events) > 1:
      self.unk('helper %s with %d RPCs is called in a loop (not expressible as a flat sequence)' % (name, len(events)), node)
    for ename, tag in events:
      self.events.append((ename, join(c, tag)))
    self.catches += catches

  def _has_events(self, node):
    probe = Analyzer(self.scope, self.fn, self.where, self.stack)
    probe.aliases = self.aliases
    for child in ast.iter_child_nodes(node):
      if isinstance(child, ast.stmt):
        probe.stmt(child, ONCE)
      elif isinstance(child, ast.expr):
        probe.expr(child, ONCE)
    return bool(probe.events) or bool(probe.unknown) or bool(probe.catches)

  # ------------------------------------------------------------------ statements
  def run(self):
    self.block(self.fn.body, ONCE)
    return self

  def block(self, stmts, ctx):
    for st in stmts:
      self.stmt(st, ctx)

  def stmt(self, st, ctx):
    if isinstance(st, (ast.FunctionDef, ast.AsyncFunctionDef, ast.ClassDef)):
      if self._has_events(st):
        self.unk('RPCs / handlers inside the nested definition %s (deferred execution)' % st.name, st)
      return
    if isinstance(st, ast.Return):
      if st.value is not None:
        if self._is_target_expr(st.value):
          self.unk('the service object is returned', st)
        else:
          self.expr(st.value, ctx)
      self.exited = True
      return
    if isinstance(st, ast.If):
      self.expr(st.test, ctx)
      self.block(st.body, join(ctx, COND))
      self.block(st.orelse, join(ctx, COND))
      return
    if isinstance(st, ast.While):
      self.expr(st.test, LOOP)
      self.block(st.body, LOOP)
      self.block(st.orelse, join(ctx, COND))
      return
    if isinstance(st, (ast.For, ast.AsyncFor)):
      self.expr(st.iter, ctx)
      self.block(st.body, LOOP)
      self.block(st.orelse, join(ctx, COND))
      return
    if isinstance(st, (ast.Try,) + ((ast.TryStar,) if hasattr(ast, 'TryStar') else ())):
      self.block(st.body, ctx)
      for h in st.handlers:
        names, bad = caught_classes(h.type)
        self.catches += names
        for b in bad:
          self.unk(b, h)
        if h.type is not None:
          self.expr(h.type, join(ctx, COND))
        self.block(h.body, join(ctx, COND))
      self.block(st.orelse, join(ctx, COND))
      self.block(st.finalbody, ctx)
      return
    if isinstance(st, (ast.With, ast.AsyncWith)):
      for item in st.items:
        ce = item.context_expr
        if isinstance(ce, ast.Call) and _call_short(ce) == 'suppress':
          for a in ce.args:
            names, bad = caught_classes(a)
            self.catches += names
            for b in bad:
              self.unk(b, ce)
        self.expr(ce, ctx)
      self.block(st.body, ctx)
      return
    if hasattr(ast, 'Match') and isinstance(st, ast.Match):
      self.expr(st.subject, ctx)
      for case in st.cases:
        if case.guard is not None:
          self.expr(case.guard, join(ctx, COND))
        self.block(case.body, join(ctx, COND))
      return
    if isinstance(st, ast.Assign):
      self._assigned(st.value, st.targets, ctx, st)
      return
    if isinstance(st, ast.AnnAssign):
      if st.value is not None:
        self._assigned(st.value, [st.target], ctx, st)
      return
    if isinstance(st, ast.AugAssign):
      self.expr(st.value, ctx)
      self.expr(st.target, ctx)
      return
    for child in ast.iter_child_nodes(st):
      if isinstance(child, ast.expr):
        self.expr(child, ctx)
      elif isinstance(child, ast.stmt):
        self.stmt(child, ctx)

  def _assigned(self, value, targets, ctx, st):
    if self._is_target_expr(value):
      if not all(isinstance(t, ast.Name) for t in targets):
        self.unk('the service object is stored in %s' % ast.dump(targets[0])[:50], st)
    else:
      self.expr(value, ctx)
    for t in targets:
      if _is_self_attr(t, SERVICE_ATTR):
        if self.fn.name != '__init__':
          self.unk('the service object is replaced', st)
      elif not isinstance(t, ast.Name):
        self.expr(t, ctx)

  # ------------------------------------------------------------------ expressions
  def expr(self, node, ctx):
    if node is None:
      return
    if isinstance(node, ast.Call):
      return self.call(node, ctx)
    if isinstance(node, ast.IfExp):
      self.expr(node.test, ctx)
      self.expr(node.body, join(ctx, COND))
      self.expr(node.orelse, join(ctx, COND))
      return
    if isinstance(node, ast.BoolOp):
      self.expr(node.values[0], ctx)
      for v in node.values[1:]:
        self.expr(v, join(ctx, COND))
      return
    if isinstance(node, (ast.ListComp, ast.SetComp, ast.GeneratorExp, ast.DictComp)):
      gens = node.generators
      self.expr(gens[0].iter, LOOP if isinstance(node, ast.GeneratorExp) else ctx)
      for i, g in enumerate(gens):
        if i:
          self.expr(g.iter, LOOP)
        for cond in g.ifs:
          self.expr(cond, LOOP)
      if isinstance(node, ast.DictComp):
        self.expr(node.key, LOOP)
        self.expr(node.value, LOOP)
      else:
        self.expr(node.elt, LOOP)
      return
    if isinstance(node, ast.Lambda):
      if self._has_events(node):
        self.unk('RPCs inside a lambda (deferred execution)', node)
      return
    if isinstance(node, ast.Attribute):
      if isinstance(node.value, ast.Name) and node.value.id in ('self', 'cls') and node.attr in self.scope.props:
        self.inline(self.scope.methods[node.attr], node.attr, ctx, node)
        return
      if self._is_target_expr(node):
        self.unk('the service object is used other than as the receiver of a call', node)
        return
      if self._is_target_expr(node.value):
        self.unk('attribute %s of the service object' % node.attr, node)
        return
      self.expr(node.value, ctx)
      return
    if isinstance(node, ast.Name):
      if node.id in self.aliases and isinstance(node.ctx, ast.Load):
        self.unk('the service object (local alias) is used other than as the receiver of a call', node)
      return
    for child in ast.iter_child_nodes(node):
      if isinstance(child, ast.expr):
        self.expr(child, ctx)
      elif isinstance(child, ast.comprehension):
        self.expr(child.iter, LOOP)

  def _args(self, node, ctx):
    short = _call_short(node)
    for a in list(node.args) + [k.value for k in node.keywords]:
      inner = a.value if isinstance(a, ast.Starred) else a
      if self._is_target_expr(inner) and short in SERVICE_SINKS:
        continue
      self.expr(inner, ctx)

  def call(self, node, ctx):
    f = node.func
    sc = self.scope
    if isinstance(f, ast.Attribute) and self._is_target_expr(f.value):
      self._args(node, ctx)
      if f.attr in RPCS:
        self.emit(f.attr, ctx)
      else:
        self.unk('service method %s is not a known RPC' % f.attr, node)
      return
    if isinstance(f, ast.Attribute) and isinstance(f.value, ast.Name) and f.value.id in ('self', 'cls', sc.cls_name) and f.attr in sc.methods:
      self._args(node, ctx)
      self.inline(sc.methods[f.attr], f.attr, ctx, node)
      return
    if isinstance(f, ast.Name) and f.id in sc.functions:
      self._args(node, ctx)
      self.inline(sc.functions[f.id], f.id, ctx, node)
      return
    if isinstance(f, ast.Attribute):
      if f.attr in RPCS:
        self.expr(f.value, ctx)
        self._args(node, ctx)
        self.emit(f.attr, ctx)
        self.unk('RPC %s is called on an unrecognised receiver %s' % (f.attr, ast.dump(f.value)[:60]), node)
        return
      self.expr(f.value, ctx)
    elif not isinstance(f, ast.Name):
      self.expr(f, ctx)
    self._args(node, ctx)


def _public(name):
  return not name.startswith('_')


def _parse(repo, rel):
  with open(os.path.join(repo, rel)) as f:
    return ast.parse(f.read())


def _dedup(xs):
  seen, out = set(), []
  for x in xs:
    if x not in seen:
      seen.add(x)
      out.append(x)
  return out


def extract_supporter(repo):
  """-> (shape {method: [(rpc, tag)]}, catches {method: [class]}, unknown)"""
  tree = _parse(repo, SUPPORTER_FILE)
  cls = next((n for n in tree.body if isinstance(n, ast.ClassDef) and n.name == SUPPORTER_CLASS), None)
  if cls is None:
    return {}, {}, ['class %s not found in %s' % (SUPPORTER_CLASS, SUPPORTER_FILE)]
  sc = Scope(tree, cls)
  shape, catches, unknown = {}, {}, []
  for name, fn in sc.methods.items():
    if _public(name):
      a = Analyzer(sc, fn, name).run()
      shape[name] = a.events
      catches[name] = _dedup(a.catches)
      unknown += a.unknown
  reached = set(sc.cache)
  # nothing else of the file may talk to the service: private / dunder methods nobody inlines, other classes, functions
  for name, fn in sc.methods.items():
    if not _public(name) and name not in reached:
      a = Analyzer(sc, fn, name).run()
      if a.events or a.unknown:
        unknown.append('%s: private method with RPCs that no public method reaches%s' % (name, ' (%s)' % '; '.join(a.unknown[:2]) if a.unknown else ''))
  fscope = Scope(tree, None)
  for node in tree.body:
    if isinstance(node, (ast.FunctionDef, ast.AsyncFunctionDef)) and node.name not in reached:
      a = Analyzer(fscope, node, node.name).run()
      if a.events or a.unknown:
        unknown.append('%s: module function with RPCs that no supporter method reaches' % node.name)
    elif isinstance(node, ast.ClassDef) and node is not cls:
      osc = Scope(tree, node)
      for name, fn in osc.methods.items():
        a = Analyzer(osc, fn, '%s.%s' % (node.name, name)).run()
        if a.events or a.unknown:
          unknown.append('%s.%s: RPCs in a class other than %s' % (node.name, name, SUPPORTER_CLASS))
  return shape, catches, unknown


# ---------------------------------------------------------------------------------------------- PythiaServicer
def handler_action(h):
  """the action of one `except` clause (see the module docstring)"""
  raises = [n for n in ast.walk(ast.Module(body=h.body, type_ignores=[])) if isinstance(n, ast.Raise)]
  if not raises:
    return 'swallow'
  last = h.body[-1]
  if len(raises) == 1 and raises[0] is last:
    exc = last.exc
    if exc is None:
      return 'reraise'
    if isinstance(exc, ast.Name) and h.name is not None and exc.id == h.name:
      return 'reraise'
    target = exc.func if isinstance(exc, ast.Call) else exc
    nm = _last_name(target)
    if nm is not None and nm[:1].isupper():
      return 'reraiseAs ' + nm
  text = ' '.join(ast.unparse(ast.Module(body=h.body, type_ignores=[])).split())
  return 'other ' + text[:120]


def _policy_names(fn):
  """locals bound to `self._policy_factory(...)`"""
  names = set()
  for node in ast.walk(fn):
    tgt = val = None
    if isinstance(node, ast.Assign) and len(node.targets) == 1:
      tgt, val = node.targets[0], node.value
    elif isinstance(node, ast.AnnAssign) and node.value is not None:
      tgt, val = node.target, node.value
    elif isinstance(node, ast.NamedExpr):
      tgt, val = node.target, node.value
    if isinstance(tgt, ast.Name) and isinstance(val, ast.Call) and _is_self_attr(val.func, FACTORY_ATTR):
      names.add(tgt.id)
  return names


def _is_policy_call(node, policies, method):
  if not (isinstance(node, ast.Call) and isinstance(node.func, ast.Attribute) and node.func.attr == method):
    return False
  v = node.func.value
  if isinstance(v, ast.Name) and v.id in policies:
    return True
  return isinstance(v, ast.Call) and _is_self_attr(v.func, FACTORY_ATTR)        # self._policy_factory(...).suggest(...)


def extract_handlers_of(fn, method):
  """-> ([(classes, action)], unknown) for one of Suggest / EarlyStop"""
  policies = _policy_names(fn)
  unknown = []
  found = []            # (chain of enclosing statements, call)
  tries = []

  def walk(node, chain):
    for field, value in ast.iter_fields(node):
      items = value if isinstance(value, list) else [value]
      for child in items:
        if not isinstance(child, ast.AST):
          continue
        if isinstance(child, (ast.FunctionDef, ast.AsyncFunctionDef, ast.Lambda, ast.ClassDef)):
          if any(_is_policy_call(n, policies, method) for n in ast.walk(child)):
            unknown.append('%s: the policy is called inside a nested definition (line %d)' % (fn.name, child.lineno))
          continue
        if isinstance(child, ast.Try) or (hasattr(ast, 'TryStar') and isinstance(child, ast.TryStar)):
          tries.append(child)
        if _is_policy_call(child, policies, method):
          found.append((chain + [(node, field, child)], child))
        walk(child, chain + [(node, field, child)])

  walk(fn, [])
  if len(found) != 1:
    unknown.append('%s: %d calls of <policy>.%s found (exactly one expected)' % (fn.name, len(found), method))
    if not found:
      return [], unknown + ['%s: try statement that does not guard a policy call (line %d)' % (fn.name, t.lineno) for t in tries]
  chain, call = found[0]
  guarding = []
  for parent, field, child in chain:
    if isinstance(parent, (ast.If, ast.While, ast.For, ast.AsyncFor)) and field in ('body', 'orelse'):
      unknown.append('%s: the policy is called under a condition / in a loop (line %d)' % (fn.name, call.lineno))
    if hasattr(ast, 'Match') and isinstance(parent, ast.match_case):
      unknown.append('%s: the policy is called under a condition (line %d)' % (fn.name, call.lineno))
    if isinstance(parent, ast.Try) or (hasattr(ast, 'TryStar') and isinstance(parent, ast.TryStar)):
      if field == 'body':
        guarding.append(parent)
      elif field in ('handlers', 'orelse'):
        unknown.append('%s: the policy is called inside an except / else part (line %d)' % (fn.name, call.lineno))
    if isinstance(parent, ast.ExceptHandler):
      unknown.append('%s: the policy is called inside an except clause (line %d)' % (fn.name, call.lineno))
    if isinstance(parent, (ast.With, ast.AsyncWith)):
      for item in parent.items:
        if isinstance(item.context_expr, ast.Call) and _call_short(item.context_expr) == 'suppress':
          unknown.append('%s: the policy is called under contextlib.suppress (line %d)' % (fn.name, call.lineno))
  out = []
  for t in reversed(guarding):            # innermost first
    for h in t.handlers:
      names, bad = caught_classes(h.type)
      unknown += ['%s: %s' % (fn.name, b) for b in bad]
      out.append((names, handler_action(h)))
    if t.finalbody and any(isinstance(n, (ast.Return, ast.Raise)) for s in t.finalbody for n in ast.walk(s)):
      unknown.append('%s: a finally part returns / raises (line %d)' % (fn.name, t.lineno))
  for t in tries:
    if t not in guarding:
      unknown.append('%s: try statement that does not guard the policy call (line %d)' % (fn.name, t.lineno))
  return out, _dedup(unknown)


def extract_pythia(repo):
  """-> (handlers {method: [(classes, action)]}, unknown)"""
  tree = _parse(repo, PYTHIA_FILE)
  cls = next((n for n in tree.body if isinstance(n, ast.ClassDef) and n.name == PYTHIA_CLASS), None)
  if cls is None:
    return {}, ['class %s not found in %s' % (PYTHIA_CLASS, PYTHIA_FILE)]
  sc = Scope(tree, cls)
  handlers, unknown = {}, []
  for method in sorted(POLICY_CALL):
    fn = sc.methods.get(method)
    if fn is None:
      unknown.append('%s.%s not found' % (PYTHIA_CLASS, method))
      continue
    hs, u = extract_handlers_of(fn, POLICY_CALL[method])
    handlers[method] = hs
    unknown += u
    # PythiaServicer itself asks nothing of Vizier: everything goes through the supporter handed to the policy
    a = Analyzer(sc, fn, '%s.%s' % (PYTHIA_CLASS, method)).run()
    unknown += a.unknown
    if a.events:
      unknown.append('%s.%s issues Vizier RPCs itself: %s' % (PYTHIA_CLASS, method, ', '.join(r for r, _ in a.events)))
    # the supporter handed to the policy is the service supporter
    if not any(isinstance(n, ast.Call) and _call_short(n) == SUPPORTER_CLASS for n in ast.walk(fn)):
      unknown.append('%s.%s does not build a %s' % (PYTHIA_CLASS, method, SUPPORTER_CLASS))
  return handlers, unknown


def extract(repo):
  """-> {'shape', 'catches', 'handlers', 'unknown', 'missing'}"""
  unknown = []
  try:
    shape, catches, u = extract_supporter(repo)
    unknown += u
  except (OSError, SyntaxError) as e:
    shape, catches = {}, {}
    unknown.append('%s cannot be read / parsed: %r' % (SUPPORTER_FILE, e))
  try:
    handlers, u = extract_pythia(repo)
    unknown += u
  except (OSError, SyntaxError) as e:
    handlers = {}
    unknown.append('%s cannot be read / parsed: %r' % (PYTHIA_FILE, e))
  missing = [m for m in REQUIRED_SUPPORTER if m not in shape] + ['PythiaServicer.' + m for m in sorted(POLICY_CALL) if m not in handlers]
  return {'shape': shape, 'catches': catches, 'handlers': handlers, 'unknown': _dedup(unknown), 'missing': missing}


# ---------------------------------------------------------------------------------------------- the Lean text
HEADER = ['/- GENERATED by harness/translators/pythia_shape.py from vizier/_src/service/service_policy_supporter.py and',
          '   vizier/_src/service/pythia_service.py.  Do not edit: rewritten on every run that calls pythiashapecheck.translate. -/',
          'import VizierModel.Model.PythiaShape',
          'namespace VizierModel.Generated',
          'open VizierModel.PythiaShape',
          '']


def _lean_str(s):
  out = []
  for ch in s:
    if ch == '\\':
      out.append('\\\\')
    elif ch == '"':
      out.append('\\"')
    elif ch == '\n':
      out.append('\\n')
    elif ch == '\t':
      out.append('\\t')
    elif ord(ch) < 32 or ord(ch) > 126:
      out.append('\\u{%x}' % ord(ch))
    else:
      out.append(ch)
  return '"' + ''.join(out) + '"'


def _shape_rows(table):
  return ',\n'.join('  (%s, [%s])' % (_lean_str(n), ', '.join('(%s, .%s)' % (_lean_str(r), tag) for r, tag in table[n])) for n in sorted(table))


def _catch_rows(table):
  return ',\n'.join('  (%s, [%s])' % (_lean_str(n), ', '.join(_lean_str(x) for x in table[n])) for n in sorted(table))


def _handler_rows(table):
  return ',\n'.join('  (%s, [%s])' % (_lean_str(n), ', '.join('([%s], %s)' % (', '.join(_lean_str(x) for x in cs), _lean_str(act)) for cs, act in table[n]))
                    for n in sorted(table))


def lean_defs(res, shape_name='supporterShape', catches_name='supporterCatches', handlers_name='pythiaHandlers'):
  return '\n'.join([
      '/-- per public method / property of `ServicePolicySupporter`: the Vizier RPCs it issues -/',
      'def %s : List (String × List (String × Mult)) := [' % shape_name, _shape_rows(res['shape']), ']', '',
      '/-- per public method / property of `ServicePolicySupporter`: the exception classes caught inside it -/',
      'def %s : List (String × List String) := [' % catches_name, _catch_rows(res['catches']), ']', '',
      '/-- `PythiaServicer.Suggest` / `EarlyStop`: the `except` clauses guarding the call of the policy, in order -/',
      'def %s : List (String × List (List String × String)) := [' % handlers_name, _handler_rows(res['handlers']), ']', ''])


def render(res):
  return '\n'.join(HEADER) + lean_defs(res) + '\nend VizierModel.Generated\n'


def write(repo, lean_dir):
  res = extract(repo)
  text = render(res)
  path = os.path.join(lean_dir, 'VizierModel', 'Generated', 'PythiaShape.lean')
  os.makedirs(os.path.dirname(path), exist_ok=True)
  old = None
  if os.path.exists(path):
    with open(path) as f:
      old = f.read()
  if old != text:
    tmp = path + '.tmp%d' % os.getpid()
    with open(tmp, 'w') as f:
      f.write(text)
    os.replace(tmp, path)
  res['text'] = text
  return res


def brief(res):
  """compact form for evidence files and reports"""
  mark = {ONCE: '', COND: '?', LOOP: '*'}
  return {'supporter': {m: ', '.join(r + mark[t] for r, t in ev) for m, ev in sorted(res['shape'].items())},
          'supporter_catches': {m: list(v) for m, v in sorted(res['catches'].items())},
          'pythia_handlers': {m: ['%s -> %s' % ('|'.join(cs), act) for cs, act in hs] for m, hs in sorted(res['handlers'].items())}}


if __name__ == '__main__':
  import json
  import sys
  r = extract(sys.argv[1] if len(sys.argv) > 1 else '/repo')
  print(json.dumps(brief(r), indent=1))
  print('unknown', r['unknown'], 'missing', r['missing'])
