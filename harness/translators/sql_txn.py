"""Translator (C05): the TRANSACTION SHAPE of every method of SQLDataStore, from the AST of sql_datastore.py.

The crash model (Model/Crash.lean) rests on one premise about the code: every datastore call is ONE
transaction - its write statements are followed by exactly one `commit()`, and every way out through an
exception happens with nothing pending (an explicit `rollback()`, or the rollback `_write_or_rollback`
performs before it re-raises).  This translator enumerates, per method, the control-flow paths as sequences
of events

  r        connection.execute(<select / exists query>)
  w        connection.execute(<insert / update / delete query>)
  wrb      self._write_or_rollback(<query>) succeeding
  wrbFail  self._write_or_rollback(<query>) failing: rollback() inside the helper, the exception propagates
           (to an enclosing `except`, or out of the method)
  commit, rollback, raise, ret

(`if`: both branches; `for`: 0, 1 and 2 iterations; `try`: the body, and for every `_write_or_rollback` in
it the failing alternative continued in each handler) and writes them as Lean data to
lean/VizierModel/Generated/SqlTxn.lean.  Props/C05Txn.lean decides by the kernel that every path of every
method is transaction-safe (`pathOK`) and that the helper has the assumed form."""
import ast
import os

WRITE_MARKS = ('.insert(', 'sqla.update(', '.delete(', 'sqla.insert(', 'sqla.delete(')
READ_MARKS = ('sqla.select(', 'sqla.exists(', '.select(')
MAX_PATHS = 4000


class Unknown(Exception):
  pass


def _src(node):
  return ast.unparse(node)


class Method:
  def __init__(self, fn, unknown):
    self.fn = fn
    self.unknown = unknown
    self.kinds = {}
    for node in ast.walk(fn):
      if isinstance(node, ast.Assign) and len(node.targets) == 1 and isinstance(node.targets[0], ast.Name):
        name, text = node.targets[0].id, _src(node.value)
        if name in self.kinds:
          continue
        if any(m in text for m in WRITE_MARKS):
          self.kinds[name] = 'w'
        elif any(m in text for m in READ_MARKS):
          self.kinds[name] = 'r'

  def query_kind(self, arg):
    if isinstance(arg, ast.Name) and arg.id in self.kinds:
      return self.kinds[arg.id]
    text = _src(arg)
    if any(m in text for m in WRITE_MARKS):
      return 'w'
    if any(m in text for m in READ_MARKS):
      return 'r'
    self.unknown.append('%s: cannot tell whether the query %s reads or writes' % (self.fn.name, text[:60]))
    return 'w'

  def expr_events(self, node):
    """events of the calls inside an expression, in evaluation (source) order"""
    out = []
    for sub in sorted((n for n in ast.walk(node) if isinstance(n, ast.Call)), key=lambda n: (n.lineno, n.col_offset)):
      f = sub.func
      if isinstance(f, ast.Attribute):
        base = _src(f.value)
        if base == 'self._connection':
          if f.attr == 'execute':
            out.append(self.query_kind(sub.args[0]))
          elif f.attr == 'commit':
            out.append('commit')
          elif f.attr == 'rollback':
            out.append('rollback')
          else:
            self.unknown.append('%s: self._connection.%s' % (self.fn.name, f.attr))
        elif base == 'self' and f.attr == '_write_or_rollback':
          out.append('wrb')
        elif ('engine' in base.lower() or base.endswith('_connection')) and f.attr in ('execute', 'begin', 'connect', 'commit', 'rollback'):
          self.unknown.append('%s: %s.%s' % (self.fn.name, base, f.attr))      # database traffic not through self._connection
    return out

  # a path state: (events, status) with status in {'go', 'done', 'exc'}; 'exc' = an exception from a failed
  # _write_or_rollback is propagating
  def seq(self, stmts, paths):
    for st in stmts:
      nxt = []
      for ev, status in paths:
        if status != 'go':
          nxt.append((ev, status))
        else:
          nxt.extend(self.stmt(st, ev))
      paths = nxt
      if len(paths) > MAX_PATHS:
        raise Unknown('%s: more than %d paths' % (self.fn.name, MAX_PATHS))
    return paths

  def with_expr(self, node, ev):
    """paths after evaluating an expression: success, plus one failing alternative per wrb"""
    out = []
    cur = list(ev)
    for e in self.expr_events(node):
      if e == 'wrb':
        out.append((cur + ['wrbFail'], 'exc'))
      cur = cur + [e]
    out.append((cur, 'go'))
    return out

  def stmt(self, st, ev):
    if isinstance(st, (ast.Expr, ast.Assign, ast.AugAssign, ast.AnnAssign)):
      return self.with_expr(st, ev)
    if isinstance(st, ast.Return):
      res = self.with_expr(st, ev) if st.value is not None else [(ev, 'go')]
      return [(e + ['ret'], 'done') if s == 'go' else (e, s) for e, s in res]
    if isinstance(st, ast.Raise):
      return [(ev + ['raise'], 'done')]
    if isinstance(st, ast.If):
      out = []
      for e, s in self.with_expr(st.test, ev):
        if s != 'go':
          out.append((e, s))
          continue
        out.extend(self.seq(st.body, [(e, 'go')]))
        out.extend(self.seq(st.orelse, [(e, 'go')]))
      return out
    if isinstance(st, ast.For):
      out = []
      for e, s in self.with_expr(st.iter, ev):
        if s != 'go':
          out.append((e, s))
          continue
        paths = [(e, 'go')]
        out.append((e, 'go'))                      # zero iterations
        for _ in range(2):
          paths = self.seq(st.body, [p for p in paths if p[1] == 'go'])
          out.extend(paths)
      return out
    if isinstance(st, ast.With):
      paths = [(ev, 'go')]
      for item in st.items:
        paths = [q for e, s in paths for q in (self.with_expr(item.context_expr, e) if s == 'go' else [(e, s)])]
      return self.seq(st.body, paths)
    if isinstance(st, ast.Try):
      out = []
      for e, s in self.seq(st.body, [(ev, 'go')]):
        if s == 'exc':
          # caught by any handler (over-approximation: every handler may catch it), or not at all
          for h in st.handlers:
            out.extend(self.seq(h.body, [(e, 'go')]))
          if not st.handlers:
            out.append((e, 'exc'))
        else:
          out.append((e, s))
      if st.finalbody:
        out = [q for e, s in out for q in (self.seq(st.finalbody, [(e, 'go')]) if s == 'go' else [(e, s)])]
      return out
    if isinstance(st, (ast.Pass, ast.Import, ast.ImportFrom, ast.FunctionDef, ast.Delete)):
      return [(ev, 'go')]
    if isinstance(st, ast.While):
      self.unknown.append('%s: while loop' % self.fn.name)
      return [(ev, 'go')]
    self.unknown.append('%s: statement %s' % (self.fn.name, type(st).__name__))
    return [(ev, 'go')]

  def paths(self):
    res = []
    for e, s in self.seq(self.fn.body, [([], 'go')]):
      if s == 'go':
        e = e + ['ret']
      elif s == 'exc':
        e = e + ['raise']
      res.append(tuple(e))
    # interesting paths only once, reads squeezed out of the identity
    return sorted(set(res))


def extract(repo):
  unknown = []
  tree = ast.parse(open(os.path.join(repo, 'vizier/_src/service/sql_datastore.py')).read())
  cls = next((n for n in tree.body if isinstance(n, ast.ClassDef) and n.name == 'SQLDataStore'), None)
  if cls is None:
    return {}, {}, ['class SQLDataStore not found']
  table, helper = {}, {}
  for fn in cls.body:
    if not isinstance(fn, ast.FunctionDef) or fn.name == '__init__':
      continue
    if fn.name == '_write_or_rollback':
      # assumed form: try: execute(q)  except <DatabaseError>: rollback(); raise
      ok = False
      if len([s for s in fn.body if not isinstance(s, ast.Expr) or not isinstance(getattr(s, 'value', None), ast.Constant)]) == 1:
        t = [s for s in fn.body if isinstance(s, ast.Try)]
        if t and len(t[0].handlers) == 1:
          body_src = ' '.join(_src(s) for s in t[0].body)
          h_src = [_src(s) for s in t[0].handlers[0].body]
          ok = ('self._connection.execute' in body_src and len(h_src) == 2 and h_src[0] == 'self._connection.rollback()'
                and h_src[1].startswith('raise'))
          helper['catches'] = _src(t[0].handlers[0].type) if t[0].handlers[0].type is not None else 'everything'
      helper['rollsBackThenRaises'] = bool(ok)
      continue
    m = Method(fn, unknown)
    try:
      table[fn.name] = m.paths()
    except Unknown as e:
      unknown.append(str(e))
      table[fn.name] = []
  if 'rollsBackThenRaises' not in helper:
    unknown.append('_write_or_rollback not found')
    helper['rollsBackThenRaises'] = False
  return table, helper, unknown


def lean_text(table, helper):
  lines = ['/- GENERATED by harness/translators/sql_txn.py from vizier/_src/service/sql_datastore.py - do not edit. -/',
           'namespace VizierModel.Generated.SqlTxn', '',
           'inductive TxEv where', '  | r | w | wrb | wrbFail | commit | rollback | raise | ret',
           '  deriving DecidableEq, Repr', '',
           '/-- `_write_or_rollback` is `try: execute(q) except …: rollback(); raise` -/',
           'def helperRollsBackThenRaises : Bool := %s' % ('true' if helper.get('rollsBackThenRaises') else 'false'), '',
           '/-- per method: its control-flow paths as event sequences -/',
           'def sqlTxnPaths : List (String × List (List TxEv)) := [']
  rows = []
  for name in sorted(table):
    ps = ', '.join('[' + ', '.join('.' + e for e in p) + ']' for p in table[name])
    rows.append('  ("%s", [%s])' % (name, ps))
  lines.append(',\n'.join(rows))
  lines += [']', '', 'end VizierModel.Generated.SqlTxn', '']
  return '\n'.join(lines)


def write(repo, lean_dir):
  table, helper, unknown = extract(repo)
  path = os.path.join(lean_dir, 'VizierModel', 'Generated', 'SqlTxn.lean')
  text = lean_text(table, helper)
  old = open(path).read() if os.path.exists(path) else None
  if old != text:
    with open(path, 'w') as f:
      f.write(text)
  return table, helper, unknown


if __name__ == '__main__':
  import sys
  t, h, u = extract(sys.argv[1] if len(sys.argv) > 1 else '/repo')
  for k in sorted(t):
    print(k, len(t[k]))
    for p in t[k]:
      print('   ', ' '.join(p))
  print(h, u)
