"""Translator (client layer; used by C01 / C05 / C06): the RPC shape of the client library.

From the AST of `vizier/_src/service/vizier_client.py` it extracts, for every public method / property of `VizierClient`
and every public module-level function, the sequence of service RPCs the method can issue - `<service>.<Rpc>(...)`
calls in evaluation order, `<service>` being `self._service`, a local bound to it or to
`create_vizier_servicer_or_stub()` - each tagged

  once   on the straight line of the method,
  cond   inside an `if` / `match` branch, an `except` handler, a `try ... else`, the non-first operand of `and` / `or`,
         a conditional expression, or anywhere after a `return` that precedes it in the source (early return),
  loop   inside a `while` / `for` / comprehension (any number of times, zero included; `loop` absorbs `cond`).

Helpers (`self.<method>(...)`, `self.<property>`, module-level functions) are inlined, recursively.  Exceptional exits
(`raise`, an RPC that raises) do not change the tags: a method that raises has issued a PREFIX of an admitted sequence,
which is how the Lean side states conformance.

From `vizier/_src/service/clients.py` it extracts, for every public method / property of every class (`Study`, `Trial`,
`TrialIterable`), the `VizierClient` methods it calls - `self._client.<m>(...)`, `<local bound to self._client or to
vizier_client.VizierClient(...)>.<m>(...)`, `vizier_client.<function>(...)` - with the same tags, calls of the class's own
methods / properties (`self.<m>`, `cls.<m>`) inlined.

Normalised away: local names, comments, logging, every statement without an RPC, the order of the methods in the file
(tables are sorted by name).  Kept: the RPC names, their order, their tags, duplicates.

Whatever is not understood goes to `unknown` (a failed obligation, never dropped): an RPC-named call on an unrecognised
receiver, the service / client object escaping (passed to something other than the known constructors, returned, stored),
an unknown attribute of the service, RPCs inside nested functions / lambdas (deferred execution), recursion among helpers,
a helper with several RPCs called in a loop.

Output: `lean/VizierModel/Generated/ClientShape.lean` (`clientShape`, `facadeShape`), written atomically and only when
its text changes."""
import ast
import os

RPCS = ['CreateStudy', 'GetStudy', 'ListStudies', 'DeleteStudy', 'SetStudyState', 'SuggestTrials', 'GetOperation',
        'CreateTrial', 'GetTrial', 'ListTrials', 'AddTrialMeasurement', 'CompleteTrial', 'DeleteTrial',
        'CheckTrialEarlyStoppingState', 'StopTrial', 'ListOptimalTrials', 'UpdateMetadata']
WRITING = ['CreateStudy', 'DeleteStudy', 'SetStudyState', 'SuggestTrials', 'CreateTrial', 'AddTrialMeasurement',
           'CompleteTrial', 'DeleteTrial', 'CheckTrialEarlyStoppingState', 'StopTrial', 'UpdateMetadata']
SINGLE_RESOURCE = ['complete_trial', 'report_intermediate_objective_value', 'stop_trial', 'delete_trial', 'add_trial',
                   'update_metadata', 'set_study_state', 'delete_study']
ONCE, COND, LOOP = 'once', 'cond', 'loop'
CLIENT_FILE = 'vizier/_src/service/vizier_client.py'
FACADE_FILE = 'vizier/_src/service/clients.py'
SERVICE_FACTORY = 'create_vizier_servicer_or_stub'
CLIENT_CLASS = 'VizierClient'
CLIENT_FACTORY = 'create_or_load_study'           # returns a VizierClient
# constructors the service / client object may be handed to (they only store it)
SERVICE_SINKS = {'VizierClient'}
CLIENT_SINKS = {'Trial', 'Study', 'TrialIterable', 'cls'}


def join(a, b):
  if LOOP in (a, b):
    return LOOP
  if COND in (a, b):
    return COND
  return ONCE


def _is_self_attr(node, attr):
  return (isinstance(node, ast.Attribute) and node.attr == attr and isinstance(node.value, ast.Name)
          and node.value.id in ('self', 'cls'))


def _is_property(fn):
  for d in fn.decorator_list:
    if isinstance(d, ast.Name) and d.id in ('property', 'cached_property'):
      return True
    if isinstance(d, ast.Attribute) and d.attr in ('cached_property', 'getter'):
      return True
  return False


def _call_name(node):
  """name of the callee of a Call when it is a plain name or `module.name`"""
  f = node.func
  if isinstance(f, ast.Name):
    return f.id
  if isinstance(f, ast.Attribute) and isinstance(f.value, ast.Name):
    return f.value.id + '.' + f.attr
  return None


class Scope:
  """the functions that can be inlined while analysing one class: its own methods / properties and the module's functions"""

  def __init__(self, mode, module, cls, client_methods=(), client_functions=(), client_props=(), inert_props=()):
    self.mode = mode                      # 'client' (events are service RPCs) | 'facade' (events are VizierClient methods)
    self.cls = cls
    self.cls_name = cls.name if cls is not None else None
    self.methods = {}
    self.props = set()
    if cls is not None:
      for fn in cls.body:
        if isinstance(fn, (ast.FunctionDef, ast.AsyncFunctionDef)):
          self.methods[fn.name] = fn
          if _is_property(fn):
            self.props.add(fn.name)
    self.functions = {fn.name: fn for fn in module.body if isinstance(fn, (ast.FunctionDef, ast.AsyncFunctionDef))}
    self.client_methods = set(client_methods)       # facade mode: what can be called on a VizierClient
    self.client_props = set(client_props)           # facade mode: properties of VizierClient that issue RPCs
    self.inert_props = set(inert_props)             # ... and those that issue none (reading them is not an event)
    self.client_functions = set(client_functions)   # facade mode: module functions of vizier_client.py
    self.cache = {}


class Analyzer:
  """events of ONE function: [(name, tag)] in evaluation order"""

  def __init__(self, scope, fn, where, stack=()):
    self.scope, self.fn, self.where, self.stack = scope, fn, where, tuple(stack)
    self.events = []
    self.unknown = []
    self.exited = False
    self.aliases = self._aliases(fn)

  # ------------------------------------------------------------------ receivers
  def _is_target_expr(self, node):
    """does the expression denote THE object whose calls are the events (the service / the VizierClient)"""
    m = self.scope.mode
    if m == 'client':
      if _is_self_attr(node, '_service'):
        return True
      if isinstance(node, ast.Call) and _call_name(node) == SERVICE_FACTORY:
        return True
    else:
      if _is_self_attr(node, '_client'):
        return True
      # constructors of a VizierClient: the class itself, and the factory function (which is also an event)
      if isinstance(node, ast.Call) and _call_name(node) in ('vizier_client.' + CLIENT_CLASS, CLIENT_CLASS, 'vizier_client.' + CLIENT_FACTORY):
        return True
    if isinstance(node, ast.Name) and node.id in getattr(self, 'aliases', ()):
      return True
    return False

  def _aliases(self, fn):
    """locals bound by a plain assignment to the target object (flow-insensitive; to a fixpoint for `a = b`)"""
    self.aliases = set()
    changed = True
    while changed:
      changed = False
      for node in ast.walk(fn):
        tgt = val = None
        if isinstance(node, ast.Assign) and len(node.targets) == 1:
          tgt, val = node.targets[0], node.value
        elif isinstance(node, ast.AnnAssign) and node.value is not None:
          tgt, val = node.target, node.value
        elif isinstance(node, ast.NamedExpr):
          tgt, val = node.target, node.value
        if isinstance(tgt, ast.Name) and val is not None and tgt.id not in self.aliases and self._is_target_expr(val):
          self.aliases.add(tgt.id)
          changed = True
    return self.aliases

  # ------------------------------------------------------------------ bookkeeping
  def _ctx(self, ctx):
    return join(ctx, COND) if self.exited else ctx

  def emit(self, name, ctx):
    self.events.append((name, self._ctx(ctx)))

  def unk(self, what, node=None):
    self.unknown.append('%s: %s%s' % (self.where, what, ' (line %d)' % node.lineno if node is not None and hasattr(node, 'lineno') else ''))

  def inline(self, fn, name, ctx, node):
    key = name
    if key in self.stack or fn is self.fn:
      self.unk('recursion through helper %s' % name, node)
      return
    if key not in self.scope.cache:
      sub = Analyzer(self.scope, fn, '%s>%s' % (self.where, name), self.stack + (key,))
      sub.run()
      self.scope.cache[key] = (sub.events, [u.split(': ', 1)[1] for u in sub.unknown])
    events, unknown = self.scope.cache[key]
    for u in unknown:
      self.unk('in helper %s: %s' % (name, u))
    c = self._ctx(ctx)
    if c == LOOP and len(events) > 1:
      self.unk('helper %s with %d RPCs is called in a loop (not expressible as a flat sequence)' % (name, len(events)), node)
    for ename, tag in events:
      self.events.append((ename, join(c, tag)))

  def _has_events(self, node):
    """is there anything inside `node` that would be an event (used for code whose execution is deferred)"""
    probe = Analyzer(self.scope, self.fn, self.where, self.stack)
    probe.aliases = self.aliases
    for child in ast.iter_child_nodes(node):
      if isinstance(child, ast.stmt):
        probe.stmt(child, ONCE)
      elif isinstance(child, ast.expr):
        probe.expr(child, ONCE)
    return bool(probe.events) or bool(probe.unknown)

  # ------------------------------------------------------------------ statements
  def run(self):
    self.block(self.fn.body, ONCE)
    return self

  def block(self, stmts, ctx):
    for st in stmts:
      self.stmt(st, ctx)

  def stmt(self, st, ctx):
    if isinstance(st, (ast.FunctionDef, ast.AsyncFunctionDef, ast.ClassDef)):
      if self._has_events(st):
        self.unk('RPCs inside the nested definition %s (deferred execution)' % st.name, st)
      return
    if isinstance(st, ast.Return):
      if st.value is not None:
        if self._is_target_expr(st.value) and not isinstance(st.value, ast.Call):
          self.unk('the %s object is returned' % ('service' if self.scope.mode == 'client' else 'client'), st)
        else:
          self.expr(st.value, ctx)
      self.exited = True
      return
    if isinstance(st, ast.If):
      self.expr(st.test, ctx)
      self.block(st.body, join(ctx, COND))
      self.block(st.orelse, join(ctx, COND))
      return
    if isinstance(st, ast.While):
      self.expr(st.test, LOOP)
      self.block(st.body, LOOP)
      self.block(st.orelse, join(ctx, COND))
      return
    if isinstance(st, (ast.For, ast.AsyncFor)):
      self.expr(st.iter, ctx)
      self.block(st.body, LOOP)
      self.block(st.orelse, join(ctx, COND))
      return
    if isinstance(st, (ast.Try,) + ((ast.TryStar,) if hasattr(ast, 'TryStar') else ())):
      self.block(st.body, ctx)
      for h in st.handlers:
        if h.type is not None:
          self.expr(h.type, join(ctx, COND))
        self.block(h.body, join(ctx, COND))
      self.block(st.orelse, join(ctx, COND))
      self.block(st.finalbody, ctx)
      return
    if isinstance(st, (ast.With, ast.AsyncWith)):
      for item in st.items:
        self.expr(item.context_expr, ctx)
      self.block(st.body, ctx)
      return
    if hasattr(ast, 'Match') and isinstance(st, ast.Match):
      self.expr(st.subject, ctx)
      for case in st.cases:
        if case.guard is not None:
          self.expr(case.guard, join(ctx, COND))
        self.block(case.body, join(ctx, COND))
      return
    if isinstance(st, ast.Assign):
      self._assigned(st.value, st.targets, ctx, st)
      return
    if isinstance(st, ast.AnnAssign):
      if st.value is not None:
        self._assigned(st.value, [st.target], ctx, st)
      return
    if isinstance(st, ast.AugAssign):
      self.expr(st.value, ctx)
      self.expr(st.target, ctx)
      return
    # Expr, Raise, Assert, Delete, Pass, Break, Continue, Global, Import, ...: their expressions in field order
    for child in ast.iter_child_nodes(st):
      if isinstance(child, ast.expr):
        self.expr(child, ctx)
      elif isinstance(child, ast.stmt):
        self.stmt(child, ctx)

  def _assigned(self, value, targets, ctx, st):
    if self._is_target_expr(value) and not (isinstance(value, ast.Call) and (_call_name(value) or '').endswith('.' + CLIENT_FACTORY)):
      # `x = self._service` / `x = create_vizier_servicer_or_stub()` / `client = vizier_client.VizierClient(...)`: an alias
      if isinstance(value, ast.Call):
        for a in list(value.args) + [k.value for k in value.keywords]:
          self.expr(a, ctx)
      if not all(isinstance(t, ast.Name) for t in targets):
        self.unk('the %s object is stored in %s' % ('service' if self.scope.mode == 'client' else 'client', ast.dump(targets[0])[:50]), st)
    else:
      self.expr(value, ctx)
    for t in targets:
      if not isinstance(t, ast.Name):
        self.expr(t, ctx)

  # ------------------------------------------------------------------ expressions
  def expr(self, node, ctx):
    if node is None:
      return
    if isinstance(node, ast.Call):
      return self.call(node, ctx)
    if isinstance(node, ast.IfExp):
      self.expr(node.test, ctx)
      self.expr(node.body, join(ctx, COND))
      self.expr(node.orelse, join(ctx, COND))
      return
    if isinstance(node, ast.BoolOp):
      self.expr(node.values[0], ctx)
      for v in node.values[1:]:
        self.expr(v, join(ctx, COND))
      return
    if isinstance(node, (ast.ListComp, ast.SetComp, ast.GeneratorExp, ast.DictComp)):
      gens = node.generators
      self.expr(gens[0].iter, LOOP if isinstance(node, ast.GeneratorExp) else ctx)
      for i, g in enumerate(gens):
        if i:
          self.expr(g.iter, LOOP)
        for cond in g.ifs:
          self.expr(cond, LOOP)
      if isinstance(node, ast.DictComp):
        self.expr(node.key, LOOP)
        self.expr(node.value, LOOP)
      else:
        self.expr(node.elt, LOOP)
      return
    if isinstance(node, ast.Lambda):
      if self._has_events(node):
        self.unk('RPCs inside a lambda (deferred execution)', node)
      return
    if isinstance(node, ast.Attribute):
      # self.<property> of the class under analysis: inlined
      if isinstance(node.value, ast.Name) and node.value.id in ('self', 'cls') and node.attr in self.scope.props:
        self.inline(self.scope.methods[node.attr], node.attr, ctx, node)
        return
      if self._is_target_expr(node):
        self.unk('the %s object is used other than as the receiver of a call' % ('service' if self.scope.mode == 'client' else 'client'), node)
        return
      if self._is_target_expr(node.value):
        # attribute (not a call) of the target object
        if self.scope.mode == 'facade' and node.attr in self.scope.client_props:
          self.emit(node.attr, ctx)
        elif self.scope.mode == 'facade' and node.attr in self.scope.inert_props:
          pass
        elif self.scope.mode == 'facade' and node.attr in self.scope.client_methods:
          self.unk('client method %s taken as a value (bound method escapes)' % node.attr, node)
        else:
          self.unk('attribute %s of the %s object' % (node.attr, 'service' if self.scope.mode == 'client' else 'client'), node)
        return
      self.expr(node.value, ctx)
      return
    if isinstance(node, ast.Name):
      if node.id in self.aliases and isinstance(node.ctx, ast.Load):
        self.unk('the %s object (%s) is used other than as the receiver of a call' % ('service' if self.scope.mode == 'client' else 'client', 'local alias'), node)
      return
    for child in ast.iter_child_nodes(node):
      if isinstance(child, ast.expr):
        self.expr(child, ctx)
      elif isinstance(child, ast.comprehension):
        self.expr(child.iter, LOOP)

  def _args(self, node, ctx, sinks=()):
    """arguments of a call in evaluation order; the target object may be handed to the constructors in `sinks`"""
    name = _call_name(node)
    short = name.split('.')[-1] if name else None
    for a in list(node.args) + [k.value for k in node.keywords]:
      inner = a.value if isinstance(a, ast.Starred) else a
      if self._is_target_expr(inner) and not isinstance(inner, ast.Call) and short in sinks:
        continue
      self.expr(inner, ctx)

  def call(self, node, ctx):
    f = node.func
    sc = self.scope
    sinks = SERVICE_SINKS if sc.mode == 'client' else CLIENT_SINKS
    # ---- <target>.<name>(...)
    if isinstance(f, ast.Attribute) and self._is_target_expr(f.value):
      if isinstance(f.value, ast.Call):           # e.g. create_vizier_servicer_or_stub().GetStudy(...)
        self.call_target_ctor(f.value, ctx)
      self._args(node, ctx, sinks)
      if sc.mode == 'client':
        if f.attr in RPCS:
          self.emit(f.attr, ctx)
        else:
          self.unk('service method %s is not a known RPC' % f.attr, node)
      else:
        if f.attr in sc.client_methods:
          self.emit(f.attr, ctx)
        else:
          self.unk('%s is not a public method of %s' % (f.attr, CLIENT_CLASS), node)
      return
    # ---- the expression that denotes the target itself, when it is a call (factory / constructor)
    if self._is_target_expr(node):
      self.call_target_ctor(node, ctx)
      return
    # ---- self.<method>(...) / cls.<method>(...) / <ClassName>.<method>(...): inlined
    if isinstance(f, ast.Attribute) and isinstance(f.value, ast.Name) and f.value.id in ('self', 'cls', sc.cls_name) and f.attr in sc.methods:
      self._args(node, ctx, sinks)
      self.inline(sc.methods[f.attr], f.attr, ctx, node)
      return
    # ---- module-level function of the same file: inlined
    if isinstance(f, ast.Name) and f.id in sc.functions:
      self._args(node, ctx, sinks)
      self.inline(sc.functions[f.id], f.id, ctx, node)
      return
    # ---- facade: vizier_client.<function>(...)
    if sc.mode == 'facade' and isinstance(f, ast.Attribute) and isinstance(f.value, ast.Name) and f.value.id == 'vizier_client' and f.attr in sc.client_functions:
      self._args(node, ctx, sinks)
      self.emit(f.attr, ctx)
      return
    # ---- an event-named call on something else: recorded AND reported
    if isinstance(f, ast.Attribute):
      if sc.mode == 'client' and f.attr in RPCS:
        self.expr(f.value, ctx)
        self._args(node, ctx, sinks)
        self.emit(f.attr, ctx)
        self.unk('RPC %s is called on an unrecognised receiver %s' % (f.attr, ast.dump(f.value)[:60]), node)
        return
      if sc.mode == 'facade' and f.attr in sc.client_methods:
        self.expr(f.value, ctx)
        self._args(node, ctx, sinks)
        self.emit(f.attr, ctx)
        self.unk('client method %s is called on an unrecognised receiver %s' % (f.attr, ast.dump(f.value)[:60]), node)
        return
      self.expr(f.value, ctx)
    elif not isinstance(f, ast.Name):
      self.expr(f, ctx)
    self._args(node, ctx, sinks)

  def call_target_ctor(self, node, ctx):
    """`create_vizier_servicer_or_stub()` (inlined: it issues nothing) / `vizier_client.VizierClient(...)` (stores) /
    `vizier_client.create_or_load_study(...)` (an event of the facade)"""
    name = _call_name(node) or ''
    self._args(node, ctx, SERVICE_SINKS if self.scope.mode == 'client' else CLIENT_SINKS)
    short = name.split('.')[-1]
    if self.scope.mode == 'client' and short in self.scope.functions:
      self.inline(self.scope.functions[short], short, ctx, node)
    elif self.scope.mode == 'facade' and short in self.scope.client_functions:
      self.emit(short, ctx)


def _public(name):
  return not name.startswith('_')


def _parse(repo, rel):
  with open(os.path.join(repo, rel)) as f:
    return ast.parse(f.read())


def extract_client(repo):
  """-> (table {name: [(rpc, tag)]}, unknown, info) for vizier_client.py"""
  tree = _parse(repo, CLIENT_FILE)
  cls = next((n for n in tree.body if isinstance(n, ast.ClassDef) and n.name == CLIENT_CLASS), None)
  unknown = []
  if cls is None:
    return {}, ['class %s not found in %s' % (CLIENT_CLASS, CLIENT_FILE)], {'methods': [], 'functions': [], 'props': [], 'inert_props': []}
  sc = Scope('client', tree, cls)
  table = {}
  for name, fn in sc.methods.items():
    if _public(name):
      a = Analyzer(sc, fn, name).run()
      table[name] = a.events
      unknown += a.unknown
  fscope = Scope('client', tree, None)
  functions = []
  for name, fn in fscope.functions.items():
    if _public(name):
      a = Analyzer(fscope, fn, name).run()
      table[name] = a.events
      unknown += a.unknown
      functions.append(name)
  # nothing else in the file may talk to the service: other classes, private functions that nobody inlines, module code
  reached = set(sc.cache) | set(fscope.cache)
  for node in tree.body:
    if isinstance(node, (ast.FunctionDef, ast.AsyncFunctionDef)) and not _public(node.name) and node.name not in reached:
      a = Analyzer(fscope, node, node.name).run()
      if a.events or a.unknown:
        unknown.append('%s: private function with RPCs that no public method reaches' % node.name)
    elif isinstance(node, ast.ClassDef) and node is not cls:
      osc = Scope('client', tree, node)
      for name, fn in osc.methods.items():
        a = Analyzer(osc, fn, '%s.%s' % (node.name, name)).run()
        if a.events or a.unknown:
          unknown.append('%s.%s: RPCs in a class other than %s' % (node.name, name, CLIENT_CLASS))
  for name, fn in sc.methods.items():
    if not _public(name) and name not in reached:
      a = Analyzer(sc, fn, name).run()
      if a.events or a.unknown:
        unknown.append('%s: private method with RPCs that no public method reaches' % name)
  info = {'methods': sorted(n for n in sc.methods if _public(n) and n not in sc.props),
          'props': sorted(n for n in sc.methods if _public(n) and n in sc.props and table[n]),
          'inert_props': sorted(n for n in sc.methods if _public(n) and n in sc.props and not table[n]),
          'functions': sorted(functions)}
  return table, unknown, info


def extract_facade(repo, info):
  """-> (table {'Class.method': [(client method, tag)]}, unknown) for clients.py"""
  tree = _parse(repo, FACADE_FILE)
  table, unknown = {}, []
  kw = dict(client_methods=info['methods'], client_functions=info['functions'], client_props=info['props'],
            inert_props=info['inert_props'])
  for cls in tree.body:
    if not isinstance(cls, ast.ClassDef):
      continue
    sc = Scope('facade', tree, cls, **kw)
    dunder = lambda n: n.startswith('__') and n.endswith('__')  # noqa: E731
    for name, fn in sc.methods.items():
      if _public(name) or dunder(name):
        a = Analyzer(sc, fn, '%s.%s' % (cls.name, name)).run()
        if _public(name) or a.events or a.unknown:          # e.g. an __iter__ that issues calls is part of the surface
          table['%s.%s' % (cls.name, name)] = a.events
          unknown += a.unknown
    for name, fn in sc.methods.items():
      if not _public(name) and not dunder(name) and name not in sc.cache:
        a = Analyzer(sc, fn, '%s.%s' % (cls.name, name)).run()
        if a.events or a.unknown:
          unknown.append('%s.%s: private method with client calls that no public method reaches' % (cls.name, name))
  fscope = Scope('facade', tree, None, **kw)
  for name, fn in fscope.functions.items():
    a = Analyzer(fscope, fn, name).run()
    if a.events or a.unknown:
      table[name] = a.events
      unknown += a.unknown
  return table, unknown


def extract(repo):
  """-> {'client': {...}, 'facade': {...}, 'unknown': [...], 'missing': [...]}"""
  try:
    client, unknown, info = extract_client(repo)
  except (OSError, SyntaxError) as e:
    return {'client': {}, 'facade': {}, 'unknown': ['%s cannot be read / parsed: %r' % (CLIENT_FILE, e)], 'missing': list(SINGLE_RESOURCE),
            'functions': []}
  try:
    facade, u2 = extract_facade(repo, info)
  except (OSError, SyntaxError) as e:
    facade, u2 = {}, ['%s cannot be read / parsed: %r' % (FACADE_FILE, e)]
  missing = [m for m in SINGLE_RESOURCE + ['get_suggestions', 'create_or_load_study'] if m not in client]
  seen, uniq = set(), []
  for u in unknown + u2:
    if u not in seen:
      seen.add(u)
      uniq.append(u)
  return {'client': client, 'facade': facade, 'unknown': uniq, 'missing': missing, 'functions': info['functions']}


# ---------------------------------------------------------------------------------------------- the Lean text
HEADER = ['/- GENERATED by harness/translators/client_shape.py from vizier/_src/service/vizier_client.py and',
          '   vizier/_src/service/clients.py.  Do not edit: rewritten on every run that calls clientshapecheck.translate. -/',
          'import VizierModel.Model.ClientShape',
          'namespace VizierModel.Generated',
          'open VizierModel.ClientShape',
          '']


def _lean_str(s):
  return '"' + s.replace('\\', '\\\\').replace('"', '\\"') + '"'


def _rows(table):
  rows = []
  for name in sorted(table):
    rows.append('  (%s, [%s])' % (_lean_str(name), ', '.join('(%s, .%s)' % (_lean_str(r), tag) for r, tag in table[name])))
  return ',\n'.join(rows)


def lean_defs(res, client_name='clientShape', facade_name='facadeShape'):
  return '\n'.join([
      '/-- per public method / property of `VizierClient` and public function of vizier_client.py: the service RPCs it issues -/',
      'def %s : List (String × List (String × Mult)) := [' % client_name, _rows(res['client']), ']', '',
      '/-- per public method / property of the classes of clients.py: the `VizierClient` methods / functions it calls -/',
      'def %s : List (String × List (String × Mult)) := [' % facade_name, _rows(res['facade']), ']', ''])


def render(res):
  return '\n'.join(HEADER) + lean_defs(res) + '\nend VizierModel.Generated\n'


def write(repo, lean_dir):
  res = extract(repo)
  text = render(res)
  path = os.path.join(lean_dir, 'VizierModel', 'Generated', 'ClientShape.lean')
  os.makedirs(os.path.dirname(path), exist_ok=True)
  old = None
  if os.path.exists(path):
    with open(path) as f:
      old = f.read()
  if old != text:
    tmp = path + '.tmp%d' % os.getpid()
    with open(tmp, 'w') as f:
      f.write(text)
    os.replace(tmp, path)
  res['text'] = text
  return res


def brief(res):
  """{name: 'Rpc, Rpc*, Rpc?'} for evidence files and reports"""
  mark = {ONCE: '', COND: '?', LOOP: '*'}
  return {'client': {m: ', '.join(r + mark[t] for r, t in ev) for m, ev in sorted(res['client'].items())},
          'facade': {m: ', '.join(r + mark[t] for r, t in ev) for m, ev in sorted(res['facade'].items())}}


if __name__ == '__main__':
  import json
  import sys
  r = extract(sys.argv[1] if len(sys.argv) > 1 else '/repo')
  print(json.dumps(brief(r), indent=1))
  print('unknown', r['unknown'], 'missing', r['missing'])
