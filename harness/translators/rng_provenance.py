"""Translator `rng_provenance` (property C14, DESIGN.md section 6 / C14).

Walks the Python `ast` of the anchored files (plus the helper modules the stored
generators are handed to) and extracts every *site* where a random number generator is
constructed or drawn from, where a seed / key is forwarded to a callee, or where the
clock / pid / OS entropy is read, together with the *provenance* of the seed / key
argument.  The result is written as Lean data (`Generated/RngSites.lean`, only when the
content changed); the obligations about it (`Props/C14Sites.lean`) are decided by the
kernel, so a source change that introduces e.g. `np.random.rand()` or
`seed or int(time.time())` breaks a proof obligation.

Provenance atoms (Model/Provenance.lean): seedArg, constNone, const, problem, history,
globalNumpy, globalPython, globalJax, clock, pid, entropy, derived [..].

Normalisation (what does NOT change the generated facts): names of locals, order of
statements, comments, logging calls, line numbers, how often an identical site occurs.
What is recorded per site: kind (construct / draw / forward / read), the library API or the
callee, the guard (`seed is None` branch or not), the provenance and whether the value
can reach the suggestions (output) or only logs / time stamps (telemetry).

Soundness of the extraction ("these are the sites the code executes") is trusted: RNG use
inside libraries, dynamic dispatch through objects of unknown class, and data flow through
containers are not followed.  Known callees (classes / functions of the analysed files) are
inlined by the Lean function `inlineSites` with the provenance of the seed they are given.
"""
import ast
import json
import os
import re

ANCHORED = [
    'vizier/_src/algorithms/designers/random.py',
    'vizier/_src/algorithms/designers/quasi_random.py',
    'vizier/_src/algorithms/designers/grid.py',
    'vizier/_src/algorithms/designers/eagle_strategy/eagle_strategy.py',
    'vizier/_src/algorithms/evolution/nsga2.py',
    'vizier/_src/algorithms/evolution/numpy_populations.py',
    'vizier/_src/algorithms/evolution/templates.py',
    'vizier/_src/algorithms/designers/gp_bandit.py',
    'vizier/_src/algorithms/designers/gp_ucb_pe.py',
    'vizier/_src/algorithms/optimizers/vectorized_base.py',
    'vizier/_src/algorithms/optimizers/eagle_strategy.py',
    'vizier/_src/benchmarks/runners/benchmark_state.py',
    'vizier/_src/benchmarks/runners/benchmark_runner.py',
    'vizier/_src/algorithms/policies/designer_policy.py',
    # the remaining designers that accept a seed (wrappers that hand it on, and the scalarizing ensemble
    # that draws its weights from it).  BOCS and Harmonica accept no seed at all (they draw from the global
    # numpy generator by design) and are therefore outside the property's quantifier.
    'vizier/_src/algorithms/designers/scalarizing_designer.py',
    'vizier/_src/algorithms/designers/scalarization.py',
    'vizier/_src/algorithms/designers/unsafe_as_infeasible_designer.py',
    'vizier/_src/algorithms/designers/scheduled_designer.py',
    'vizier/_src/algorithms/designers/scheduled_gp_bandit.py',
    'vizier/_src/algorithms/designers/scheduled_gp_ucb_pe.py',
]
# one level of following: the modules the stored generators / seeds are handed to
FOLLOWED = [
    'vizier/_src/algorithms/designers/eagle_strategy/eagle_strategy_utils.py',
    'vizier/_src/algorithms/designers/eagle_strategy/serialization.py',
    'vizier/_src/algorithms/random/random_sample.py',
    'vizier/_src/algorithms/designers/cmaes.py',
]

# designer classes named in the property: must be `allowed` AND must use their seed
DESIGNERS = {
    'RandomDesigner': 'random.RandomDesigner',
    'QuasiRandomDesigner': 'quasi_random.QuasiRandomDesigner',
    'GridSearchDesigner': 'grid.GridSearchDesigner',
    'EagleStrategyDesigner': 'eagle_strategy.EagleStrategyDesigner',
    'NSGA2Designer': 'nsga2.NSGA2Designer',
    'VizierGPBandit': 'gp_bandit.VizierGPBandit',
    'VizierGPUCBPEBandit': 'gp_ucb_pe.VizierGPUCBPEBandit',
    'CMAESDesigner': 'cmaes.CMAESDesigner',
    'GaussianScalarizingEnsemble': 'scalarizing_designer.functions',
}
ALSO_SEED_USED = ['numpy_populations.UniformRandomSampler', 'numpy_populations.LinfMutation',
                  'vectorized_base.VectorizedOptimizer']

# the benchmark chain: (caller table, method) whose forward sites make up one link each
CHAIN = [
    ('benchmark_state.ExperimenterDesignerBenchmarkStateFactory', '__call__', 'DesignerBenchmarkStateFactory.__call__'),
    ('benchmark_state.DesignerBenchmarkStateFactory', '__call__', 'PolicySuggester.from_designer_factory'),
    ('benchmark_state.PolicySuggester', 'from_designer_factory', 'InRamDesignerPolicy.__init__'),
    ('designer_policy._SerializableDesignerPolicyBase', '_initialize_designer', 'designer_factory(problem, seed=...)'),
]
SIDE_LINKS = [
    ('benchmark_state.PolicyBenchmarkStateFactory', '__call__', 'policy_factory(problem, seed)'),
    ('benchmark_runner.EvaluateAndAddPriorStudy', 'run', 'benchmark_state_factory(seed=...)'),
]

ATOMS = ['seedArg', 'constNone', 'const', 'problem', 'history', 'globalNumpy', 'globalPython',
         'globalJax', 'clock', 'pid', 'entropy']
_ORDER = {a: i for i, a in enumerate(ATOMS)}

SEED_NAME = re.compile(r'(^|_)(seed|seeds|rng|rngs|key|keys|prng|prngkey|random_state)($|_)')
NOT_SEED = re.compile(r'trial|candidate|feature|suggestion|(^|_)num_|(^|_)n_|point|label|metric')
RNG_ATTR = re.compile(r'(^|_)(rng|rngs|key|prng|halton|sobol|random_state|generator)($|_)')
HISTORY_NAME = re.compile(r'^(metadata|md|designer_metadata|completed|all_active|active|trials|trial|delta|request|state|'
                          r'prior_state|completed_trials|active_trials|data|prior_data|priors|obj)$')
FACTORY_NAME = re.compile(r'(designer|policy|state)_factory')

NUMPY_CTORS = {'RandomState', 'default_rng', 'Generator', 'SeedSequence', 'PCG64', 'PCG64DXSM', 'MT19937',
               'Philox', 'SFC64', 'BitGenerator'}
CLOCK_FUNCS = {'time.time', 'time.time_ns', 'time.monotonic', 'time.monotonic_ns', 'time.perf_counter',
               'time.perf_counter_ns', 'time.process_time', 'time.process_time_ns', 'time.clock_gettime',
               'time.localtime', 'time.gmtime', 'time.ctime', 'time.asctime', 'time.strftime',
               'datetime.datetime.now', 'datetime.datetime.utcnow', 'datetime.datetime.today',
               'datetime.date.today'}
PID_FUNCS = {'os.getpid', 'os.getppid', 'threading.get_ident', 'threading.get_native_id', 'id', 'hash'}
ENTROPY_PREFIX = ('secrets.', 'uuid.uuid', 'os.urandom', 'os.getrandom', 'random.SystemRandom')
JAX_CTORS = {'PRNGKey', 'key', 'wrap_key_data', 'make_rng'}
QMC_CTORS = {'Halton', 'Sobol', 'LatinHypercube', 'PoissonDisk', 'MultinomialQMC', 'MultivariateNormalQMC'}
CONVERSION = re.compile(r'^(str|int|float|bool|repr|len|min|max|sorted|sum|abs|round|list|tuple|dict|set|print|isinstance|'
                        r'type|enumerate|zip|range|getattr|hasattr|format|sort|copy|deepcopy|asarray|array|int32|int64|uint32|'
                        r'float32|float64|dumps|loads|item|tolist|astype|get|append|extend|update|join)$|'
                        r'^(numpy|jax\.numpy|json|copy|math|functools|dataclasses|jax\.tree_util|jax\.tree|jax\.lax)\.|'
                        r'^jax\.block_until_ready$')
LOGGING_HEADS = ('logging.', 'absl.logging.', 'jax.monitoring.', 'warnings.', 'print')


# ------------------------------------------------------------------ provenance values
def norm(p):
  """canonical form of a provenance expression: atom or ('derived', (children…))."""
  if isinstance(p, str):
    return p
  kids = []

  def add(q):
    q = norm(q) if not isinstance(q, str) else q
    if isinstance(q, str):
      kids.append(q)
    else:
      for r in q[1]:
        kids.append(r)
  for q in p[1]:
    add(q)
  ks = sorted(set(kids), key=lambda a: _ORDER[a])
  if len(ks) > 1 and 'const' in ks:
    ks.remove('const')
  if len(ks) > 1 and 'constNone' in ks:
    ks.remove('constNone')
  if not ks:
    return 'const'
  if len(ks) == 1:
    return ks[0]
  return ('derived', tuple(ks))


def derived(*ps):
  return norm(('derived', tuple(ps)))


def is_clean(p):
  if isinstance(p, str):
    return p in ('seedArg', 'const', 'problem', 'history')
  return all(is_clean(q) for q in p[1])


def mentions_seed(p):
  if isinstance(p, str):
    return p == 'seedArg'
  return any(mentions_seed(q) for q in p[1])


def subst(p, q):
  if isinstance(p, str):
    return q if p == 'seedArg' else p
  return norm(('derived', tuple(subst(r, q) for r in p[1])))


def lean_prov(p):
  if isinstance(p, str):
    return '.' + p
  return '.derived [' + ', '.join(lean_prov(q) for q in p[1]) + ']'


def show_prov(p):
  return p if isinstance(p, str) else 'derived[' + ','.join(show_prov(q) for q in p[1]) + ']'


GUARDS = ('always', 'seedNone', 'seedSome', 'never')


def g_and(a, b):
  if a == 'always':
    return b
  if b == 'always':
    return a
  if a == 'never' or b == 'never':
    return 'never'
  return a if a == b else 'never'


def g_resolve(g, q):
  if g in ('always', 'never'):
    return g
  nn = 'same' if q == 'seedArg' else ('isNone' if q == 'constNone' else 'notNone')
  if nn == 'same':
    return g
  if g == 'seedNone':
    return 'always' if nn == 'isNone' else 'never'
  return 'never' if nn == 'isNone' else 'always'


class V(object):
  """abstract value: provenance per guard, rng-ness, and (for callables) what it refers to."""

  def __init__(self, alts, rng=False, ref=None):
    if isinstance(alts, (str, tuple)):
      alts = {'always': alts}
    self.alts = {g: norm(p) for g, p in alts.items()}
    self.rng = rng
    self.ref = ref

  def items(self):
    """[(guard, prov)] with seedNone/seedSome split where they differ"""
    if 'always' in self.alts and len(self.alts) == 1:
      return [('always', self.alts['always'])]
    base = self.alts.get('always', 'const')
    n = self.alts.get('seedNone', base)
    s = self.alts.get('seedSome', base)
    if n == s:
      return [('always', n)]
    return [('seedNone', n), ('seedSome', s)]

  def under(self, g):
    if g in self.alts:
      return self.alts[g]
    return self.alts.get('always', 'const')


def combine(vals, rng=None):
  """value computed from several values (per guard)"""
  vals = [v for v in vals if v is not None]
  if not vals:
    return V('const')
  if all(len(v.alts) == 1 and 'always' in v.alts for v in vals):
    return V(derived(*[v.alts['always'] for v in vals]), rng=any(v.rng for v in vals) if rng is None else rng)
  out = {}
  for g in ('seedNone', 'seedSome'):
    out[g] = derived(*[v.under(g) for v in vals])
  return V(out, rng=any(v.rng for v in vals) if rng is None else rng)


def seed_like(name):
  n = name.lstrip('_').lower()
  return bool(SEED_NAME.search(n)) and not NOT_SEED.search(n)


def rng_like(name):
  return bool(RNG_ATTR.search(name.lstrip('_').lower()))


# ------------------------------------------------------------------ module model
class Func(object):
  def __init__(self, node, module, cls=None):
    self.node, self.module, self.cls = node, module, cls
    self.name = node.name
    a = node.args
    self.params = [x.arg for x in a.posonlyargs + a.args]
    self.kwonly = [x.arg for x in a.kwonlyargs]
    nd = len(a.defaults)
    self.defaults = {}
    for p, d in zip(self.params[len(self.params) - nd:], a.defaults):
      self.defaults[p] = d
    for p, d in zip(self.kwonly, a.kw_defaults):
      if d is not None:
        self.defaults[p] = d
    self.kwargs = a.kwarg.arg if a.kwarg else None
    decos = [ast.unparse(d) for d in node.decorator_list]
    self.is_classmethod = any('classmethod' in d for d in decos)
    self.is_static = any('staticmethod' in d for d in decos)

  def call_params(self):
    ps = list(self.params)
    if self.cls is not None and not self.is_static and ps:
      ps = ps[1:]
    return ps


class Cls(object):
  def __init__(self, node, module):
    self.node, self.module, self.name = node, module, node.name
    self.methods = {}
    self.fields = []           # attrs/dataclass fields: (name, annotation, default-node/None, factory-node/None, init?)
    self.bases = [ast.unparse(b) for b in node.bases]
    decos = [ast.unparse(d) for d in node.decorator_list]
    self.is_attrs = any(re.search(r'attrs?\.(define|s|frozen|mutable)|dataclass|struct\.dataclass', d) for d in decos)
    for st in node.body:
      if isinstance(st, (ast.FunctionDef, ast.AsyncFunctionDef)):
        self.methods[st.name] = Func(st, module, self)
      elif isinstance(st, ast.AnnAssign) and isinstance(st.target, ast.Name):
        default, factory, init, kw_only = st.value, None, True, False
        if isinstance(st.value, ast.Call) and re.search(r'(attrs?|dataclasses)\.(field|ib)$|^field$', ast.unparse(st.value.func)):
          default = None
          for kw in st.value.keywords:
            if kw.arg == 'default':
              default = kw.value
            elif kw.arg in ('factory', 'default_factory'):
              factory = kw.value
            elif kw.arg == 'init' and isinstance(kw.value, ast.Constant) and kw.value.value is False:
              init = False
        self.fields.append((st.target.id, default, factory, init))

  @property
  def key(self):
    return self.module.short + '.' + self.name


class Module(object):
  def __init__(self, repo, rel):
    self.rel = rel
    self.short = os.path.basename(rel)[:-3]
    if rel.endswith('optimizers/eagle_strategy.py'):
      self.short = 'optimizers_eagle_strategy'
    self.dotted = rel[:-3].replace('/', '.')
    self.src = open(os.path.join(repo, rel)).read()
    self.tree = ast.parse(self.src)
    self.aliases = {}
    self.classes, self.funcs = {}, {}
    for st in self.tree.body:
      if isinstance(st, ast.Import):
        for a in st.names:
          self.aliases[a.asname or a.name.split('.')[0]] = a.name if a.asname else a.name.split('.')[0]
      elif isinstance(st, ast.ImportFrom) and st.module:
        for a in st.names:
          self.aliases[a.asname or a.name] = st.module + '.' + a.name
      elif isinstance(st, ast.ClassDef):
        self.classes[st.name] = Cls(st, self)
      elif isinstance(st, (ast.FunctionDef, ast.AsyncFunctionDef)):
        self.funcs[st.name] = Func(st, self)
      elif isinstance(st, ast.Assign) and len(st.targets) == 1 and isinstance(st.targets[0], ast.Name):
        # module-level alias such as `FireflyPool = eagle_strategy_utils.FireflyPool`
        d = dotted_of(st.value)
        if d:
          head = d.split('.')[0]
          if head in self.aliases:
            self.aliases[st.targets[0].id] = self.aliases[head] + d[len(head):]

  def resolve(self, d):
    """dotted source expression -> dotted name with the import alias expanded"""
    head = d.split('.')[0]
    if head in self.aliases:
      return self.aliases[head] + d[len(head):]
    return d


def dotted_of(node):
  parts = []
  while isinstance(node, ast.Attribute):
    parts.append(node.attr)
    node = node.value
  if isinstance(node, ast.Name):
    parts.append(node.id)
    return '.'.join(reversed(parts))
  return None


# ------------------------------------------------------------------ the walker
class Site(object):
  __slots__ = ('kind', 'api', 'guard', 'prov', 'effect', 'where')

  def __init__(self, kind, api, guard, prov, effect='output', where=''):
    self.kind, self.api, self.guard, self.prov, self.effect, self.where = kind, api, guard, norm(prov), effect, where

  def key(self):
    return (self.kind, self.api, GUARDS.index(self.guard), lean_prov(self.prov), self.effect)

  def allowed(self):
    active = self.effect == 'output' and self.guard in ('always', 'seedSome')
    return (not active) or is_clean(self.prov)

  def as_dict(self):
    return {'kind': self.kind, 'api': self.api, 'guard': self.guard, 'prov': prov_json(self.prov),
            'effect': self.effect, 'where': self.where}


def prov_json(p):
  return p if isinstance(p, str) else {'derived': [prov_json(q) for q in p[1]]}


class Inline(object):
  """reference to a callee table, to be inlined by Lean's `inlineSites guard prov table`."""
  __slots__ = ('guard', 'prov', 'callee', 'where', 'identity')

  def __init__(self, guard, prov, callee, where='', identity=False):
    self.guard, self.prov, self.callee, self.where, self.identity = guard, norm(prov), callee, where, identity

  def key(self):
    return (GUARDS.index(self.guard), lean_prov(self.prov), self.callee)


class Analysis(object):
  def __init__(self, repo):
    self.repo = repo
    self.modules = {}
    for rel in ANCHORED + FOLLOWED:
      p = os.path.join(repo, rel)
      if os.path.exists(p):
        m = Module(repo, rel)
        self.modules[m.dotted] = m
    self.missing = [rel for rel in ANCHORED + FOLLOWED if not os.path.exists(os.path.join(repo, rel))]
    self.tables = {}           # key -> {'sites': [Site], 'inlines': [Inline], 'has_seed': bool, 'methods': {name: ([Site],[Inline])}}
    self.attr_cache = {}

  # ---- lookup of known callees
  def find(self, module, d):
    """resolve a dotted source expression to ('class', Cls) / ('method', Cls, Func) / ('func', Func) / None"""
    if d is None:
      return None
    parts = d.split('.')
    if parts[0] in module.classes:
      c = module.classes[parts[0]]
      if len(parts) == 1:
        return ('class', c)
      if len(parts) == 2 and parts[1] in c.methods:
        return ('method', c, c.methods[parts[1]])
    if len(parts) == 1 and parts[0] in module.funcs:
      return ('func', module.funcs[parts[0]])
    r = module.resolve(d)
    for dotted, m in self.modules.items():
      if r.startswith(dotted + '.'):
        rest = r[len(dotted) + 1:].split('.')
        if rest[0] in m.classes:
          c = m.classes[rest[0]]
          if len(rest) == 1:
            return ('class', c)
          if len(rest) == 2 and rest[1] in c.methods:
            return ('method', c, c.methods[rest[1]])
        if len(rest) == 1 and rest[0] in m.funcs:
          return ('func', m.funcs[rest[0]])
    return None

  def bases_of(self, c):
    out = []
    for b in c.bases:
      b = re.sub(r'\[.*\]$', '', b)
      f = self.find(c.module, b)
      if f and f[0] == 'class':
        out.append(f[1])
    return out

  def init_signature(self, c):
    """(ordered params, defaults{name: node}, kwargs name) of the constructor of class c"""
    if '__init__' in c.methods:
      f = c.methods['__init__']
      return f.call_params() + f.kwonly, f.defaults, f.kwargs
    if c.is_attrs or c.fields:
      ps, ds = [], {}
      for name, default, factory, init in c.fields:
        if not init:
          continue
        pname = name.lstrip('_')
        ps.append(pname)
        if default is not None:
          ds[pname] = default
        elif factory is not None:
          ds[pname] = ast.Call(func=factory, args=[], keywords=[])
      if ps:
        return ps, ds, None
    for b in self.bases_of(c):
      return self.init_signature(b)
    return [], {}, None

  def all_methods(self, c):
    """name -> (defining class, Func), own methods shadowing the bases'"""
    out = {}
    for b in self.bases_of(c):
      out.update(self.all_methods(b))
    for n, f in c.methods.items():
      out[n] = (c, f)
    return out

  def class_has_seed(self, c, seen=None):
    seen = seen or set()
    if c.key in seen:
      return False
    seen.add(c.key)
    ps, _, kw = self.init_signature(c)
    if any(seed_like(p) for p in ps):
      return True
    for f in c.methods.values():
      if any(seed_like(p) for p in f.params + f.kwonly):
        return True
    return any(self.class_has_seed(b, seen) for b in self.bases_of(c))

  # ---- tables
  def table_key(self, kind, obj):
    if kind == 'class':
      return obj.key
    return obj.module.short + '.functions'

  def build(self):
    for m in self.modules.values():
      for c in m.classes.values():
        self.class_table(c)
      self.functions_table(m)
    return self

  def functions_table(self, m):
    key = m.short + '.functions'
    if key in self.tables:
      return self.tables[key]
    t = {'sites': [], 'inlines': [], 'has_seed': False, 'methods': {}, 'file': m.rel, 'per_func': {}}
    self.tables[key] = t
    for f in m.funcs.values():
      w = Walker(self, m, None, f, {})
      w.run()
      t['sites'] += w.sites
      t['inlines'] += w.inlines
      t['per_func'][f.name] = (w.sites, w.inlines)
      t['methods'][f.name] = (w.sites, w.inlines)
      if any(seed_like(p) for p in f.params + f.kwonly):
        t['has_seed'] = True
    return t

  def class_attrs(self, c):
    """provenance of `self.X` as established by the constructor (+ attrs fields), bases first"""
    if c.key in self.attr_cache:
      return self.attr_cache[c.key]
    attrs = {}
    self.attr_cache[c.key] = attrs
    for b in self.bases_of(c):
      attrs.update(self.class_attrs(b))
    pre_sites, pre_inl = [], []
    for name, default, factory, init in c.fields:
      pname = name.lstrip('_')
      if init and seed_like(pname):
        if factory is not None or (default is not None and not (isinstance(default, ast.Constant) and default.value is None)):
          w = Walker(self, c.module, c, None, attrs)
          w.guard = 'seedNone'
          node = ast.Call(func=factory, args=[], keywords=[]) if factory is not None else default
          v = w.expr(node)
          pre_sites += w.sites
          pre_inl += w.inlines
          attrs[name] = V({'seedSome': 'seedArg', 'seedNone': v.under('seedNone')}, rng=rng_like(pname) or v.rng)
        else:
          attrs[name] = V('seedArg', rng=rng_like(pname))
      elif init:
        attrs[name] = V('history' if HISTORY_NAME.match(pname) else 'problem')
    c._field_sites = (pre_sites, pre_inl)
    for mname in ('__init__', '__attrs_post_init__'):
      if mname in c.methods:
        w = Walker(self, c.module, c, c.methods[mname], attrs, collect_attrs=True)
        w.run()
    return attrs

  def class_table(self, c):
    if c.key in self.tables:
      return self.tables[c.key]
    t = {'sites': [], 'inlines': [], 'has_seed': self.class_has_seed(c), 'methods': {}, 'file': c.module.rel,
         'bases': [], 'classmethods': []}
    self.tables[c.key] = t
    attrs = self.class_attrs(c)
    fs, fi = c._field_sites
    t['sites'] += fs
    t['inlines'] += fi
    # non-constructor methods may create further attributes (load); collect them first
    for f in c.methods.values():
      if f.name not in ('__init__', '__attrs_post_init__'):
        w = Walker(self, c.module, c, f, attrs, collect_attrs=True, only_new_attrs=True)
        w.run()
    for f in c.methods.values():
      w = Walker(self, c.module, c, f, attrs)
      w.run()
      t['methods'][f.name] = (w.sites, w.inlines)
      if f.is_classmethod or f.is_static:
        t['classmethods'].append(f.name)
      else:
        t['sites'] += w.sites
        t['inlines'] += w.inlines
    for b in self.bases_of(c):
      self.class_table(b)
      t['bases'].append(b.key)
    return t


class Walker(object):
  """abstract interpretation of one function body."""

  def __init__(self, an, module, cls, func, attrs, collect_attrs=False, only_new_attrs=False):
    self.an, self.module, self.cls, self.func = an, module, cls, func
    self.attrs = attrs
    self.collect_attrs, self.only_new_attrs = collect_attrs, only_new_attrs
    self.env = {}
    self.sites, self.inlines = [], []
    self.guard = 'always'
    self.where = (cls.name + '.' if cls else '') + (func.name if func else '<field>')
    self.has_seed = (an.class_has_seed(cls) if cls else False) or bool(
        func and any(seed_like(p) for p in func.params + func.kwonly))
    self.parents = {}
    self.reload_targets = {}
    if func is not None:
      for p in func.params + func.kwonly + ([func.kwargs] if func.kwargs else []):
        self.env[p] = self.param_value(p, func)
      for n in ast.walk(func.node):
        for ch in ast.iter_child_nodes(n):
          self.parents[ch] = n

  def param_value(self, p, func):
    if p in ('self', 'cls'):
      return V('problem', ref=('selfcls',))
    if p == func.kwargs:
      return V('seedArg') if p and self.cls is not None and 'seed' not in [q for q in func.params + func.kwonly] else V('problem')
    if seed_like(p):
      d = func.defaults.get(p)
      if d is not None and not (isinstance(d, ast.Constant) and d.value is None):
        return V({'seedSome': 'seedArg', 'seedNone': 'const'}, rng=rng_like(p))
      return V('seedArg', rng=rng_like(p))
    if HISTORY_NAME.match(p):
      return V('history')
    return V('problem')

  # ---- emit
  def site(self, kind, api, v, effect='output', extra_guard='always'):
    for g, p in v.items():
      gg = g_and(g_and(self.guard, g), extra_guard)
      if gg != 'never':
        self.sites.append(Site(kind, api, gg, p, effect, self.where))

  def inline(self, callee_key, v, identity=False):
    for g, p in v.items():
      gg = g_and(self.guard, g)
      if gg != 'never':
        self.inlines.append(Inline(gg, p, callee_key, self.where, identity))

  def run(self):
    self.block(self.func.node.body)

  # ---- statements
  def block(self, stmts):
    self.scan_reloads(stmts)
    for st in stmts:
      self.stmt(st)

  def scan_reloads(self, stmts):
    """`T = <call>` followed in the same block by `T.load(..)` or `T.bit_generator.state = ..`:
    the object is (re)seeded from the argument of load / the assigned state."""
    for i, st in enumerate(stmts):
      if isinstance(st, ast.Assign) and len(st.targets) == 1 and isinstance(st.value, ast.Call):
        tgt = ast.unparse(st.targets[0])
        for later in stmts[i + 1:]:
          if isinstance(later, ast.Expr) and isinstance(later.value, ast.Call) and isinstance(later.value.func, ast.Attribute) \
              and later.value.func.attr in ('load', 'set_state', '__setstate__', 'load_state') and ast.unparse(later.value.func.value) == tgt:
            self.reload_targets[id(st.value)] = later.value.args[0] if later.value.args else None
            break
          if isinstance(later, ast.Assign) and len(later.targets) == 1 and ast.unparse(later.targets[0]) in (
              tgt + '.bit_generator.state', tgt + '.state', tgt + '.__setstate__'):
            self.reload_targets[id(st.value)] = later.value
            break

  def seed_test(self, test):
    """(guard of body, guard of orelse) when the test is about the seed being None / falsy"""
    neg = False
    t = test
    if isinstance(t, ast.UnaryOp) and isinstance(t.op, ast.Not):
      neg, t = True, t.operand
    if isinstance(t, ast.Compare) and len(t.ops) == 1 and isinstance(t.comparators[0], ast.Constant) \
        and t.comparators[0].value is None:
      v = self.expr_quiet(t.left)
      if v is not None and self.is_seed_value(v, t.left):
        is_none = isinstance(t.ops[0], (ast.Is, ast.Eq))
        if neg:
          is_none = not is_none
        return ('seedNone', 'seedSome', True) if is_none else ('seedSome', 'seedNone', True)
    if isinstance(t, (ast.Name, ast.Attribute)):
      v = self.expr_quiet(t)
      if v is not None and self.is_seed_value(v, t):
        # truthiness: the falsy branch is also taken for seed 0, i.e. WITH a seed given
        return ('always', 'always', False) if not neg else ('always', 'always', False)
    return None

  def is_seed_value(self, v, node):
    if any(mentions_seed(p) for p in v.alts.values()):
      return True
    d = dotted_of(node)
    return bool(d and seed_like(d.split('.')[-1]))

  def expr_quiet(self, node):
    s, i = len(self.sites), len(self.inlines)
    try:
      return self.expr(node)
    finally:
      del self.sites[s:]
      del self.inlines[i:]

  def stmt(self, st):
    if isinstance(st, (ast.FunctionDef, ast.AsyncFunctionDef)):
      saved = dict(self.env)
      f = Func(st, self.module)
      for p in f.params + f.kwonly:
        self.env[p] = self.param_value(p, f)
      self.block(st.body)
      self.env = saved
      self.env[st.name] = V('problem')
    elif isinstance(st, ast.ClassDef):
      pass
    elif isinstance(st, ast.Return):
      if st.value is not None:
        self.expr(st.value)
    elif isinstance(st, ast.Assign):
      v = self.expr(st.value)
      for t in st.targets:
        self.assign(t, v, st.value)
    elif isinstance(st, ast.AnnAssign):
      if st.value is not None:
        self.assign(st.target, self.expr(st.value), st.value)
    elif isinstance(st, ast.AugAssign):
      v = combine([self.expr(st.target), self.expr(st.value)])
      self.assign(st.target, v, st.value)
    elif isinstance(st, ast.If):
      gt = self.seed_test(st.test)
      self.expr(st.test)
      if gt and gt[2]:
        env0 = dict(self.env)
        g0 = self.guard
        self.guard = g_and(g0, gt[0])
        self.block(st.body)
        env_body = self.env
        self.env = dict(env0)
        self.guard = g_and(g0, gt[1])
        self.block(st.orelse)
        env_else = self.env
        self.guard = g0
        merged = {}
        for k in set(env_body) | set(env_else):
          vb, ve = env_body.get(k), env_else.get(k)
          if vb is ve:
            merged[k] = vb
          elif vb is None or ve is None:
            merged[k] = vb or ve
          else:
            merged[k] = V({gt[0]: vb.under(gt[0]), gt[1]: ve.under(gt[1])}, rng=vb.rng or ve.rng, ref=vb.ref or ve.ref)
        self.env = merged
        if self.collect_attrs:
          pass
      else:
        self.block(st.body)
        self.block(st.orelse)
    elif isinstance(st, (ast.For, ast.AsyncFor)):
      self.assign(st.target, self.expr(st.iter), st.iter)
      self.block(st.body)
      self.block(st.orelse)
    elif isinstance(st, ast.While):
      self.expr(st.test)
      self.block(st.body)
      self.block(st.orelse)
    elif isinstance(st, (ast.With, ast.AsyncWith)):
      for it in st.items:
        v = self.expr(it.context_expr)
        if it.optional_vars is not None:
          self.assign(it.optional_vars, v, it.context_expr)
      self.block(st.body)
    elif isinstance(st, ast.Try):
      self.block(st.body)
      for h in st.handlers:
        self.block(h.body)
      self.block(st.orelse)
      self.block(st.finalbody)
    elif isinstance(st, ast.Expr):
      self.expr(st.value)
    elif isinstance(st, (ast.Raise, ast.Assert)):
      for ch in ast.iter_child_nodes(st):
        if isinstance(ch, ast.expr):
          self.expr_quiet(ch)
    elif isinstance(st, ast.Delete):
      pass
    elif hasattr(ast, 'Match') and isinstance(st, ast.Match):
      self.expr(st.subject)
      for case in st.cases:
        self.block(case.body)

  def assign(self, target, v, value_node):
    if isinstance(target, ast.Name):
      name = target.id
      if seed_like(name) and not any(mentions_seed(p) or not is_clean(p) for p in v.alts.values()) \
          and not isinstance(value_node, ast.Call) and not isinstance(value_node, ast.Constant):
        # a local called seed / rng / key unpacked from loop-carried state or a container
        v = V('seedArg', rng=rng_like(name))
      if self.guard in ('seedNone', 'seedSome') and name in self.env:
        old = self.env[name]
        other = 'seedSome' if self.guard == 'seedNone' else 'seedNone'
        self.env[name] = V({self.guard: v.under(self.guard), other: old.under(other)}, rng=v.rng or old.rng, ref=v.ref or old.ref)
      else:
        self.env[name] = v
    elif isinstance(target, (ast.Tuple, ast.List)):
      for el in target.elts:
        self.assign(el, v, value_node)
    elif isinstance(target, ast.Starred):
      self.assign(target.value, v, value_node)
    elif isinstance(target, ast.Attribute):
      if isinstance(target.value, ast.Name) and target.value.id == 'self' and self.collect_attrs:
        if not (self.only_new_attrs and target.attr in self.attrs):
          if self.guard in ('seedNone', 'seedSome') and target.attr in self.attrs:
            old = self.attrs[target.attr]
            other = 'seedSome' if self.guard == 'seedNone' else 'seedNone'
            self.attrs[target.attr] = V({self.guard: v.under(self.guard), other: old.under(other)}, rng=v.rng or old.rng, ref=v.ref)
          else:
            self.attrs[target.attr] = V(dict(v.alts), rng=v.rng or rng_like(target.attr), ref=v.ref)
    elif isinstance(target, ast.Subscript):
      # container taint: `kwargs['seed'] = seed` makes the container carry the seed
      self.taint(target.value, v)

  def taint(self, container, v):
    if isinstance(container, ast.Name) and container.id in self.env:
      old = self.env[container.id]
      if self.guard in ('seedNone', 'seedSome'):
        other = 'seedSome' if self.guard == 'seedNone' else 'seedNone'
        self.env[container.id] = V({self.guard: derived(old.under(self.guard), v.under(self.guard)),
                                    other: old.under(other)}, rng=old.rng, ref=old.ref)
      else:
        new = combine([old, v])
        new.rng, new.ref = old.rng, old.ref
        self.env[container.id] = new
    elif isinstance(container, ast.Attribute) and isinstance(container.value, ast.Name) and container.value.id == 'self' \
        and self.collect_attrs and container.attr in self.attrs:
      old = self.attrs[container.attr]
      new = combine([old, v])
      new.rng, new.ref = old.rng, old.ref
      self.attrs[container.attr] = new

  # ---- expressions
  def expr(self, node):
    if node is None:
      return V('const')
    m = getattr(self, 'e_' + type(node).__name__, None)
    if m is not None:
      return m(node)
    return combine([self.expr(ch) for ch in ast.iter_child_nodes(node) if isinstance(ch, ast.expr)])

  def e_Constant(self, node):
    return V('constNone' if node.value is None else 'const')

  def e_Name(self, node):
    if node.id in self.env:
      return self.env[node.id]
    f = self.an.find(self.module, node.id)
    if f:
      return V('const', ref=f)
    return V('const')

  def e_Attribute(self, node):
    if isinstance(node.value, ast.Name) and node.value.id == 'self' and 'self' in self.env:
      if node.attr in self.attrs:
        return self.attrs[node.attr]
      if self.cls is not None and node.attr in self.cls.methods:
        return V('const', ref=('method', self.cls, self.cls.methods[node.attr]))
      return V('history', rng=rng_like(node.attr))
    d = dotted_of(node)
    if d:
      f = self.an.find(self.module, d)
      if f:
        return V('const', ref=f)
      head = d.split('.')[0]
      if head in self.env and self.env[head].ref == ('selfcls',) and self.cls is not None:
        # cls.method / cls attribute
        return V('const')
      if head not in self.env:
        return V('const')
    base = self.expr(node.value)
    return V(dict(base.alts), rng=base.rng or rng_like(node.attr))

  def e_Lambda(self, node):
    saved = dict(self.env)
    f_params = [a.arg for a in node.args.args + node.args.kwonlyargs]
    for p in f_params:
      self.env[p] = V('seedArg', rng=rng_like(p)) if seed_like(p) else V('problem')
    v = self.expr(node.body)
    self.env = saved
    return v

  def e_IfExp(self, node):
    gt = self.seed_test(node.test)
    self.expr(node.test)
    if gt and gt[2]:
      g0 = self.guard
      self.guard = g_and(g0, gt[0])
      vb = self.expr(node.body)
      self.guard = g_and(g0, gt[1])
      ve = self.expr(node.orelse)
      self.guard = g0
      return V({gt[0]: vb.under(gt[0]), gt[1]: ve.under(gt[1])}, rng=vb.rng or ve.rng, ref=vb.ref or ve.ref)
    if gt:   # truthiness test of the seed: the else branch is also taken for seed 0
      vb, ve = self.expr(node.body), self.expr(node.orelse)
      return V({'seedNone': derived(vb.under('seedNone'), ve.under('seedNone')),
                'seedSome': derived(vb.under('seedSome'), ve.under('seedSome'))}, rng=vb.rng or ve.rng)
    return combine([self.expr(node.body), self.expr(node.orelse)])

  def e_BoolOp(self, node):
    if isinstance(node.op, ast.Or) and len(node.values) >= 2:
      first = self.expr(node.values[0])
      if self.is_seed_value(first, node.values[0]):
        # `seed or fallback`: without a seed the fallback; WITH a seed the fallback is still
        # reachable (seed 0 is falsy)
        g0 = self.guard
        rest = [self.expr(x) for x in node.values[1:]]
        self.guard = g0
        fb = combine(rest)
        return V({'seedNone': fb.under('seedNone'),
                  'seedSome': derived(first.under('seedSome'), fb.under('seedSome'))}, rng=first.rng or fb.rng)
    vals = [self.expr(x) for x in node.values]
    out = combine(vals)
    out.ref = next((v.ref for v in vals if v.ref), None)
    return out

  def e_NamedExpr(self, node):
    v = self.expr(node.value)
    self.assign(node.target, v, node.value)
    return v

  def e_JoinedStr(self, node):
    return combine([self.expr(x) for x in node.values])

  def e_FormattedValue(self, node):
    return self.expr(node.value)

  def comp(self, node, elts):
    saved = dict(self.env)
    for g in node.generators:
      self.assign(g.target, self.expr(g.iter), g.iter)
      for c in g.ifs:
        self.expr(c)
    v = combine([self.expr(e) for e in elts])
    self.env = saved
    return v

  def e_ListComp(self, node):
    return self.comp(node, [node.elt])

  e_SetComp = e_GeneratorExp = e_ListComp

  def e_DictComp(self, node):
    return self.comp(node, [node.key, node.value])

  # ---- calls
  def telemetry(self, node, depth=0):
    """is the clock value at `node` used for logs / time stamps / durations only?"""
    if depth > 4:
      return False
    par = self.parents.get(node)
    if par is None:
      return False
    if isinstance(par, (ast.FormattedValue, ast.JoinedStr)):
      return True
    if isinstance(par, ast.Call):
      d = dotted_of(par.func) or ''
      r = self.module.resolve(d)
      if node is not par.func and (r.startswith(LOGGING_HEADS) or d.startswith(LOGGING_HEADS) or d in ('str', 'repr')):
        return True
      return False
    if isinstance(par, ast.keyword) or isinstance(par, (ast.Tuple, ast.List)):
      return self.telemetry(par, depth + 1) if not isinstance(par, ast.keyword) else self.telemetry(par, depth)
    if isinstance(par, ast.BinOp) and isinstance(par.op, ast.Sub):
      return self.telemetry(par, depth + 1)
    if isinstance(par, ast.Assign) and len(par.targets) == 1 and isinstance(par.targets[0], ast.Name):
      name = par.targets[0].id
      uses = [n for n in ast.walk(self.func.node) if isinstance(n, ast.Name) and n.id == name and isinstance(n.ctx, ast.Load)]
      stores = [n for n in ast.walk(self.func.node) if isinstance(n, ast.Name) and n.id == name and isinstance(n.ctx, ast.Store)]
      if len(stores) != 1:
        return False
      return all(self.telemetry(u, depth + 1) for u in uses)
    return False

  def callee_signature(self, ref):
    if ref[0] == 'class':
      return self.an.init_signature(ref[1])
    f = ref[2] if ref[0] == 'method' else ref[1]
    return f.call_params() + f.kwonly, f.defaults, f.kwargs

  def seed_passed(self, ref, node, argvals, kwvals, starstar):
    """provenance of what the call hands to the callee's seed-like parameters (or None when
    the callee has none)"""
    ps, defaults, kwargs_name = self.callee_signature(ref)
    seedps = [p for p in ps if seed_like(p)]
    if not seedps:
      if kwargs_name and starstar is not None:
        return starstar
      return None
    got = []
    for sp in seedps:
      v = None
      if sp in kwvals:
        v = kwvals[sp]
      elif sp in ps and ps.index(sp) < len(argvals):
        v = argvals[ps.index(sp)]
      elif starstar is not None and any(mentions_seed(p) for p in starstar.alts.values()):
        v = starstar
      else:
        d = defaults.get(sp)
        if d is None or (isinstance(d, ast.Constant) and d.value is None):
          v = V('constNone')
        else:
          v = V('const')
      got.append(v)
    if len(got) == 1:
      return got[0]
    return combine(got)

  def e_Call(self, node):
    d = dotted_of(node.func)
    r = self.module.resolve(d) if d else None
    head_local = d is not None and d.split('.')[0] in self.env and d.split('.')[0] not in self.module.aliases
    reload_src = self.reload_targets.get(id(node), False)
    # --- argument values (evaluated once)
    argvals = [self.expr(a.value if isinstance(a, ast.Starred) else a) for a in node.args]
    kwvals, starstar = {}, None
    for kw in node.keywords:
      v = self.expr(kw.value)
      if kw.arg is None:
        starstar = v
      else:
        kwvals[kw.arg] = v
    allargs = argvals + list(kwvals.values()) + ([starstar] if starstar else [])

    def seed_arg(names=('seed', 'rng', 'key', 'random_state'), pos=0):
      for n in names:
        if n in kwvals:
          return kwvals[n]
      if len(argvals) > pos:
        return argvals[pos]
      return None

    if r and not head_local:
      # ---- library APIs
      if r.startswith('numpy.random.'):
        fn = r[len('numpy.random.'):]
        if fn.split('.')[0] in NUMPY_CTORS:
          s = seed_arg(('seed', 'bit_generator'))
          if reload_src is not False:
            s = self.expr(reload_src) if reload_src is not None else V('history')
          v = s if s is not None and s.items() != [('always', 'constNone')] else V('entropy')
          self.site('construct', 'np.random.' + fn, v)
          return V(dict(v.alts), rng=True)
        self.site('draw', 'np.random.' + fn, V('globalNumpy'))
        return V('globalNumpy')
      if r == 'random.Random' or r.startswith('random.Random.'):
        s = seed_arg(('x',))
        v = s if s is not None and s.items() != [('always', 'constNone')] else V('entropy')
        self.site('construct', 'random.Random', v)
        return V(dict(v.alts), rng=True)
      if r.startswith(ENTROPY_PREFIX):
        self.site('read', r, V('entropy'))
        return V('entropy', rng=r == 'random.SystemRandom')
      if r.startswith('random.') and r.count('.') == 1:
        self.site('draw', r, V('globalPython'))
        return V('globalPython')
      if r in CLOCK_FUNCS or (r.startswith('datetime.') and r.split('.')[-1] in ('now', 'utcnow', 'today')):
        eff = 'telemetry' if (self.func is not None and self.telemetry(node)) else 'output'
        self.site('read', r, V('clock'), effect=eff)
        return V('clock')
      if r in PID_FUNCS and (r not in ('id', 'hash') or d in ('id', 'hash')):
        if r in ('id', 'hash') and d in self.env:
          pass
        else:
          self.site('read', r, V('pid'))
          return V('pid')
      if r.startswith('jax.random.'):
        fn = r[len('jax.random.'):]
        if fn in JAX_CTORS:
          s = seed_arg(('seed',))
          v = s if s is not None and s.items() != [('always', 'constNone')] else V('entropy')
          self.site('construct', 'jax.random.' + fn, v)
          return V(dict(v.alts), rng=True)
        k = seed_arg(('key',))
        if k is None:
          k = V('constNone')
        if fn == 'fold_in' and len(argvals) > 1:
          k = combine([k, argvals[1]])
        self.site('draw', 'jax.random.' + fn, k)
        return V(dict(k.alts), rng=fn in ('split', 'fold_in', 'clone'))
      if r.startswith('scipy.stats.qmc.') and r.split('.')[-1] in QMC_CTORS:
        s = None
        for n in ('seed', 'rng'):
          if n in kwvals:
            s = kwvals[n]
        if reload_src is not False:
          s = self.expr(reload_src) if reload_src is not None else V('history')
        v = s if s is not None and s.items() != [('always', 'constNone')] else V('entropy')
        self.site('construct', 'qmc.' + r.split('.')[-1], v)
        return V(dict(v.alts), rng=True)
      if r.startswith(LOGGING_HEADS) or (d or '').startswith(LOGGING_HEADS):
        return V('const')

    # ---- known callee (class / classmethod / function of the analysed files)
    if isinstance(node.func, ast.Lambda):
      return self.e_Lambda(node.func)
    fv = self.expr_quiet(node.func)
    ref = fv.ref if fv is not None else None
    inst_seed = None
    if ref and ref[0] == 'instance':
      ref = None
    if isinstance(node.func, ast.Attribute):
      bv = self.expr_quiet(node.func.value)
      if bv is not None and bv.ref and bv.ref[0] == 'instance' and node.func.attr in self.an.all_methods(bv.ref[1]):
        ref = ('method',) + self.an.all_methods(bv.ref[1])[node.func.attr]
        inst_seed = bv.ref[2]
    if d == 'cls' or (d and d.split('.')[0] == 'cls' and self.cls is not None):
      if d == 'cls':
        ref = ('class', self.cls)
      elif d.count('.') == 1 and d.split('.')[1] in self.cls.methods:
        ref = ('method', self.cls, self.cls.methods[d.split('.')[1]])
    if isinstance(node.func, ast.Attribute) and isinstance(node.func.value, ast.Call) and \
        dotted_of(node.func.value.func) == 'super' and self.cls is not None:
      for b in self.an.bases_of(self.cls):
        if node.func.attr in b.methods:
          ref = ('method', b, b.methods[node.func.attr])
    if ref and ref[0] in ('class', 'method', 'func'):
      q = self.seed_passed(ref, node, argvals, kwvals, starstar)
      if reload_src is not False:
        q = self.expr(reload_src) if reload_src is not None else V('history')
        q = V(derived(*[p for p in q.alts.values()]))
      if ref[0] == 'class':
        key = ref[1].key
      elif ref[0] == 'method':
        key = ref[1].key + ('#' + ref[2].name if ref[1] is not self.cls or ref[2].is_classmethod or True else '')
        key = ref[1].key + '#' + ref[2].name
      else:
        key = ref[1].module.short + '.functions#' + ref[1].name
      if q is None:
        # callee without a seed parameter: an instance method runs on the seed its object was
        # constructed with; otherwise the callee's method-level seeds stay what they are
        q = inst_seed if inst_seed is not None else V('seedArg')
        has_seed_param = False
      else:
        has_seed_param = True
      same_class_method = ref[0] == 'method' and ref[1] is self.cls and not ref[2].is_classmethod and inst_seed is None
      if not (same_class_method and ref[2].name in ('__init__',)):
        if not same_class_method or has_seed_param:
          self.inline(key, q, identity=not has_seed_param and inst_seed is None)
      out = combine(allargs + [q]) if has_seed_param else combine(allargs)
      if ref[0] == 'class':
        out.rng = False
        out.ref = ('instance', ref[1], q if has_seed_param else None)
      else:
        fname = ref[2].name if ref[0] == 'method' else ref[1].name
        out.rng = any(v.rng for v in allargs + ([q] if has_seed_param else [])) and bool(
            re.search(r'rng|key|split|generator', fname))
        if ref[0] == 'method' and ref[2].is_classmethod and re.search(r'^from_|^create|^make', fname):
          out.ref = ('instance', ref[1], q if has_seed_param else None)
      return out

    if isinstance(node.func, ast.Attribute) and node.func.attr in ('append', 'extend', 'update', 'setdefault', 'insert', 'add') \
        and allargs:
      self.taint(node.func.value, combine(allargs))
    # ---- method on a stored generator / key:  self._rng.uniform(..), rng.shuffle(..)
    if isinstance(node.func, ast.Attribute):
      base = self.expr(node.func.value)
      if base.rng and node.func.attr not in ('load', 'dump', 'append', 'extend', 'items', 'keys', 'values', 'get'):
        if node.func.attr in ('fast_forward', 'reset', 'seed'):
          return V(dict(base.alts), rng=True)
        self.site('draw', 'rng.' + node.func.attr, base)
        return V(dict(base.alts), rng=node.func.attr in ('spawn', 'split', 'bit_generator'))

    # ---- unknown callee: is a seed / generator handed over (or withheld)?
    callee_name = d.split('.')[-1] if d else (node.func.attr if isinstance(node.func, ast.Attribute) else '<callable>')
    api = self.api_name(node.func, d, r, head_local)
    passed = [v for n, v in kwvals.items() if seed_like(n)]
    passed += [v for a, v in zip(node.args, argvals)
               if v.rng or (isinstance(a, ast.Name) and seed_like(a.id)) or
               (isinstance(a, ast.Attribute) and seed_like(a.attr))]
    if starstar is not None and any(mentions_seed(p) for p in starstar.alts.values()):
      passed.append(starstar)
    if CONVERSION.search(api) or CONVERSION.search(callee_name):
      passed = []
    if passed:
      q = combine(passed)
      if reload_src is not False:
        q = self.expr(reload_src) if reload_src is not None else V('history')
      self.site('forward', api, q)
      out = combine(allargs)
      out.rng = False
      return out
    if FACTORY_NAME.search(callee_name) and self.has_seed:
      q = V('constNone')
      if reload_src is not False:
        q = self.expr(reload_src) if reload_src is not None else V('history')
        q = V(derived(*[p for p in q.alts.values()]))
      self.site('forward', api, q)
    if isinstance(node.func, ast.Attribute):
      base = self.expr(node.func.value)
      return combine(allargs + [base], rng=False)
    return combine(allargs + ([fv] if fv is not None else []), rng=False)

  def api_name(self, func, d, r, head_local):
    if d is None:
      return '.' + func.attr if isinstance(func, ast.Attribute) else '<callable>'
    parts = d.split('.')
    if parts[0] == 'self':
      return d if len(parts) <= 2 else 'self.' + parts[1] + '.' + parts[-1]
    if head_local:
      return '<local>' if len(parts) == 1 else '<local>.' + parts[-1]
    r = r or d
    if r.startswith('vizier.'):
      r = '.'.join(r.split('.')[-2:])
    return r


# ------------------------------------------------------------------ assembling, Lean output
def lean_ident(key):
  s = re.sub(r'[^A-Za-z0-9]', '_', key)
  return s[0].lower() + s[1:]


def dedupe_sites(sites):
  seen, out = set(), []
  for s in sorted(sites, key=lambda s: s.key()):
    if s.key() not in seen:
      seen.add(s.key())
      out.append(s)
  return out


class Result(object):
  pass


def analyse(repo):
  an = Analysis(repo).build()
  res = Result()
  res.analysis = an
  res.missing = an.missing
  # table definitions in dependency order; `T#method` = the sites of one method (used for
  # calls to a specific classmethod / function), `T` = whole class
  defs = {}      # name -> {'sites': [...], 'inlines': [...], 'extends': [...]}
  for key, t in an.tables.items():
    for mname, (sites, inls) in t['methods'].items():
      defs[key + '#' + mname] = {'sites': dedupe_sites(sites), 'inlines': inls, 'extends': []}
  for key, t in an.tables.items():
    if key.endswith('.functions'):
      defs[key] = {'sites': dedupe_sites(t['sites']), 'inlines': t['inlines'], 'extends': []}
    else:
      # instance table: fields + constructor + instance methods (+ bases)
      defs[key] = {'sites': dedupe_sites(t['sites']), 'inlines': t['inlines'], 'extends': list(t['bases'])}
      if t['classmethods']:
        # alternative entry points (`from_problem` …): class = instance table ++ classmethods
        defs[key + '!full'] = {'sites': [], 'inlines': [], 'extends': [key] + [key + '#' + m for m in t['classmethods']]}
  # a method-level def that inlines its own class (cls(...)) refers to the class core
  order, state = [], {}

  def visit(name, stack):
    if state.get(name) == 'done':
      return True
    if state.get(name) == 'active':
      return False
    state[name] = 'active'
    dd = defs[name]
    keep = []
    for i in dd['inlines']:
      callee = i.callee
      if callee not in defs:
        continue
      if visit(callee, stack + [name]):
        keep.append(i)
      else:
        # recursion: keep the hand-over visible as a forward site
        if not i.identity:
          dd['sites'].append(Site('forward', callee, i.guard, i.prov, 'output', i.where))
    seen, uniq = set(), []
    for i in sorted(keep, key=lambda i: i.key()):
      if i.key() not in seen:
        seen.add(i.key())
        uniq.append(i)
    dd['inlines'] = uniq
    dd['sites'] = dedupe_sites(dd['sites'])
    ext = []
    for e in dd['extends']:
      if e in defs and visit(e, stack + [name]):
        ext.append(e)
    dd['extends'] = ext
    state[name] = 'done'
    order.append(name)
    return True
  for name in sorted(defs):
    visit(name, [])
  res.defs, res.order = defs, order

  # flattened tables (Python side, for reporting / the driver cross-check)
  flat_cache = {}

  def flat(name):
    if name in flat_cache:
      return flat_cache[name]
    dd = defs[name]
    out = list(dd['sites'])
    for i in dd['inlines']:
      for s in flat(i.callee):
        g = g_and(i.guard, g_resolve(s.guard, i.prov))
        if g != 'never':
          out.append(Site(s.kind, s.api, g, subst(s.prov, i.prov), s.effect, s.where + ' <- ' + i.where))
    for e in dd['extends']:
      out += flat(e)
    flat_cache[name] = out
    return out
  res.flat = flat

  def full_name(key):
    return key + '!full' if key + '!full' in defs else key
  res.full_name = full_name
  res.class_keys = sorted(k for k in an.tables)
  # chain links
  links = []
  for (ckey, meth, callee_label) in CHAIN + SIDE_LINKS:
    t = an.tables.get(ckey)
    provs = []
    if t and meth in t['methods']:
      sites, inls = t['methods'][meth]
      provs += [(s.guard, s.prov) for s in sites if s.kind == 'forward']
      provs += [(i.guard, i.prov) for i in inls]
    if not provs:
      p = 'constNone'
    else:
      ps = sorted(set(lean_prov(p) for _, p in provs))
      p = provs[0][1] if len(ps) == 1 else 'constNone' if any(not mentions_seed(q) for _, q in provs) else derived(*[q for _, q in provs])
    links.append({'caller': ckey.split('.', 1)[1] + '.' + meth, 'callee': callee_label, 'prov': p,
                  'side': (ckey, meth, callee_label) in SIDE_LINKS, 'found': bool(provs)})
  res.links = links
  return res


def render_lean(res):
  L = []
  L.append('/-\nGENERATED by harness/translators/rng_provenance.py from the Python sources of the repository\n'
           '(anchored files of property C14).  Do not edit: rewritten on every run of `./check C14`\n'
           'when the extracted facts change.  One table per class / per module-level function group;\n'
           '`T_m_<method>` are the sites of one method, known callees are inlined with the provenance\n'
           'of the seed they are handed.\n-/')
  L.append('import VizierModel.Model.Provenance\n')
  L.append('namespace VizierModel.Generated.RngSites')
  L.append('open VizierModel.Prov\n')

  def ident(name):
    return lean_ident(name.replace('!full', '_full').replace('#', '_m_'))
  for name in res.order:
    dd = res.defs[name]
    if '#' in name and not any(i.callee == name for d2 in res.defs.values() for i in d2['inlines']) \
        and not any(name in d2['extends'] for d2 in res.defs.values()):
      continue          # per-method tables are only emitted when something refers to them
    parts = []
    if dd['sites']:
      rows = ['  ⟨.%s, "%s", .%s, %s, .%s⟩' % (s.kind, s.api.replace('"', "'"), s.guard, lean_prov(s.prov), s.effect) for s in dd['sites']]
      parts.append('[\n' + ',\n'.join(rows) + ']')
    for i in dd['inlines']:
      parts.append('inlineSites .%s (%s) %s' % (i.guard, lean_prov(i.prov), ident(i.callee)))
    for e in dd['extends']:
      parts.append(ident(e))
    body = '\n  ++ '.join(parts) if parts else '[]'
    L.append('def %s : List Site :=\n  %s\n' % (ident(name), body))
  # registry of what the obligations quantify over
  anchored_short = set()
  for rel in ANCHORED:
    anchored_short.add('optimizers_eagle_strategy' if rel.endswith('optimizers/eagle_strategy.py') else os.path.basename(rel)[:-3])
  tabs = [k for k in res.class_keys]
  L.append('/-- every table (classes and module-level function groups of the analysed files) -/')
  L.append('def allTables : List (String × List Site) := [\n' + ',\n'.join(
      '  ("%s", %s)' % (k, ident(res.full_name(k))) for k in tabs) + ']\n')
  des = []
  for label, key in sorted(DESIGNERS.items()):
    if key in res.defs:
      des.append('  ("%s", %s)' % (label, ident(res.full_name(key))))
    else:
      des.append('  ("%s", [])' % label)
  for key in ALSO_SEED_USED:
    if key in res.defs:
      des.append('  ("%s", %s)' % (key.split('.')[1], ident(res.full_name(key))))
  L.append('/-- the classes named in the property: each must actually read its seed -/')
  L.append('def seededTables : List (String × List Site) := [\n' + ',\n'.join(des) + ']\n')
  L.append('/-- BenchmarkStateFactory(seed) → … → designer_factory(problem, seed=seed), outermost first -/')
  L.append('def benchmarkChain : List Link := [\n' + ',\n'.join(
      '  ⟨"%s", "%s", %s⟩' % (l['caller'], l['callee'], lean_prov(l['prov'])) for l in res.links if not l['side']) + ']\n')
  L.append('/-- further places where the benchmark layer hands a seed on -/')
  L.append('def sideLinks : List Link := [\n' + ',\n'.join(
      '  ⟨"%s", "%s", %s⟩' % (l['caller'], l['callee'], lean_prov(l['prov'])) for l in res.links if l['side']) + ']\n')
  L.append('end VizierModel.Generated.RngSites')
  return '\n'.join(L) + '\n'


def summary(res):
  """JSON-able summary: flattened tables with the verdict of the (re-implemented) criterion."""
  out = {'tables': {}, 'links': [dict(l, prov=prov_json(l['prov'])) for l in res.links], 'missing_files': res.missing}
  for k in res.class_keys:
    sites = dedupe_sites(res.flat(res.full_name(k)))
    out['tables'][k] = {
        'file': res.analysis.tables[k]['file'],
        'sites': [s.as_dict() for s in sites],
        'disallowed': [s.as_dict() for s in sites if not s.allowed()],
        'seed_used': any(s.effect == 'output' and s.guard in ('always', 'seedSome') and mentions_seed(s.prov) for s in sites),
    }
  out['designers'] = {label: key for label, key in DESIGNERS.items()}
  out['also_seed_used'] = ALSO_SEED_USED
  return out


def generate(repo, lean_dir, write=True):
  """run the translator; write Generated/RngSites.lean when its content changed."""
  res = analyse(repo)
  text = render_lean(res)
  path = os.path.join(lean_dir, 'VizierModel', 'Generated', 'RngSites.lean')
  changed = (not os.path.exists(path)) or open(path).read() != text
  if write and changed:
    os.makedirs(os.path.dirname(path), exist_ok=True)
    tmp = path + '.tmp%d' % os.getpid()
    open(tmp, 'w').write(text)
    os.replace(tmp, path)
  return res, summary(res), changed, path


if __name__ == '__main__':
  import sys
  repo = sys.argv[1] if len(sys.argv) > 1 else os.environ.get('VERIF_REPO', '/repo')
  res = analyse(repo)
  if '--lean' in sys.argv:
    print(render_lean(res))
  else:
    s = summary(res)
    for k, t in s['tables'].items():
      print('== %s  (seed_used=%s, %d sites, %d disallowed)' % (k, t['seed_used'], len(t['sites']), len(t['disallowed'])))
      for x in t['sites']:
        p = x['prov']
        print('   %-9s %-34s %-8s %-28s %-9s %s' % (x['kind'], x['api'], x['guard'], json.dumps(p), x['effect'], x['where']))
    print(json.dumps(s['links'], indent=1))
