"""Resource names (vizier/_src/service/resources.py) against the Lean model `Model/Resources.lean`.

`stage(c)` (c = vcheck.core.Check)
  1. tie: generated components / ids -> the REAL resource objects; `name`, `from_name(name)`, `from_name` of
     mutated names (alias ids, dropped / doubled / extra segments, wrong keyword, leading / trailing blank or
     newline, wrong order), `StudyResource.trial_resource`, the constructors' validators, and Python's `int()` on
     generated ASCII strings, each compared with `Drivers/Resources.lean` after canonicalisation to
     ok(components, id) / error class.  A difference is `c.tie_break`.
  2. property stage, ALWAYS, on the REAL results (`c.prop_fail`):
       res-roundtrip                 from_name(name(r)) == r for every valid resource
       res-name-collision            name is injective on the generated set, within and across kinds
       res-cross-study-collision     ... and in particular the names of resources of two different studies differ
       res-kind-confusion            the name of a resource is accepted by from_name of no other kind
       res-accepts-foreign-name      from_name(n) == r only if n is name(r), or name(r) with the numeric component
                                     replaced by a string t with int(t) == id (the alias class '01', '+1', ' 1')
       res-name-not-canonical        the numeric component that name(r) prints is str(id)
       res-trial-resource            trial_resource(t) succeeds iff int(t) succeeds with a POSITIVE value, and is then
                                     the trial int(t) of that study
       res-validator-accepts         a component that is empty or contains '/', or a negative id, is refused
Error classes of the real code (all are ValueError; the class is where it was raised, never the message of vizier's
own raise statements): `negative` = raised inside attrs_utils.assert_not_negative, `badComp` = inside the
assert_re_fullmatch validator, `notInt` = CPython's int() ("invalid literal for int()"), `notPositive` = raised by
trial_resource itself, `notName` = raised by from_name itself.
Non-ASCII numeric components are outside the model of int() (stated in Model/Resources.lean): they are generated
only as a malformed stream whose oracle is "the real code raises ValueError or returns" plus the predicates above."""
import json
import time
import traceback

from vcheck import core

KINDS = ('owner', 'study', 'trial', 'es', 'sug')
NCOMP = {'owner': 1, 'study': 2, 'trial': 2, 'es': 2, 'sug': 3}
NUMERIC = {'owner': False, 'study': False, 'trial': True, 'es': True, 'sug': True}
KEYWORDS = ['owners', 'studies', 'trials', 'operations', 'suggestion', 'earlystopping']
IDS = [0, 1, 7, 10, 2 ** 31, 2 ** 63, 10 ** 30]
NEG_IDS = [-1, -7, -2 ** 63]
WS = ' \t\n\r\x0b\x0c'
MAX_BREAKS_PER_PLACE = 8


def cps(s):
  return [ord(ch) for ch in s]


def from_cps(a):
  return ''.join(chr(x) for x in a)


# ----------------------------------------------------------------------------------------------- real side
class Real:
  """The real classes, reached by kind."""

  def __init__(self):
    import shim
    shim.install_proto()
    from vizier._src.service import resources
    self.mod = resources
    self.cls = {'owner': resources.OwnerResource, 'study': resources.StudyResource, 'trial': resources.TrialResource,
                'es': resources.EarlyStoppingOperationResource, 'sug': resources.SuggestionOperationResource}

  @staticmethod
  def canon(kind, r):
    if kind == 'owner':
      return ('ok', (r.owner_id,), None)
    if kind == 'study':
      return ('ok', (r.owner_id, r.study_id), None)
    if kind in ('trial', 'es'):
      return ('ok', (r.owner_id, r.study_id), r.trial_id)
    return ('ok', (r.owner_id, r.study_id, r.client_id), r.operation_number)

  @staticmethod
  def classify(e):
    if not isinstance(e, ValueError):
      return ('err', type(e).__name__)
    tb = traceback.extract_tb(e.__traceback__)
    inner = tb[-1].name if tb else ''
    if inner == 'assert_not_negative':
      return ('err', 'negative')
    if inner == 'validator':
      return ('err', 'badComp')
    msg = str(e)
    if msg.startswith('invalid literal for int()') or msg.startswith('Exceeds the limit'):
      return ('err', 'notInt')
    if inner == 'trial_resource':
      return ('err', 'notPositive')
    return ('err', 'notName')

  def make(self, kind, comps, rid):
    """The real object, or the error class of the constructor."""
    try:
      args = list(comps) + ([rid] if NUMERIC[kind] else [])
      return self.cls[kind](*args), None
    except Exception as e:  # pylint: disable=broad-except
      return None, self.classify(e)

  def from_name(self, kind, n):
    try:
      r = self.cls[kind].from_name(n)
    except Exception as e:  # pylint: disable=broad-except
      return None, self.classify(e)
    return r, self.canon(kind, r)

  def trial_resource(self, o, s, t):
    try:
      r = self.cls['study'](o, s).trial_resource(t)
    except Exception as e:  # pylint: disable=broad-except
      return None, self.classify(e)
    return r, self.canon('trial', r)


def py_int(s):
  try:
    return int(s)
  except ValueError:
    return None


def model_canon(m):
  if 'ok' in m:
    return ('ok', tuple(from_cps(x) for x in m['ok']['c']), m['ok']['id'])
  return ('err', m.get('err', m.get('error')))


def jcanon(x):
  return json.loads(json.dumps(x))


# ----------------------------------------------------------------------------------------------- generators
LETTERS = 'abzZqA'
DIGITS = '0179'
SPECIAL = [':', '.', '\\', '$', '^', '*', '(', ')', '[', ']', '+', '?', '|', '{', '}', '-', '_', '%', '#', '@', '"', "'"]
UNI = ['\xe9', '\xdf', '\u03bb', '\u65e5', '\U0001d6fc', '\u0661', '\u2003', '\xa0']
BLANKS = [' ', '\t', '\n', '\r', '\x0b', '\x0c', '\x1c', '\x85']


def gen_word(rng, lo=1, hi=4):
  return ''.join(rng.choice(LETTERS + DIGITS) for _ in range(rng.randrange(lo, hi + 1)))


def gen_comp(rng):
  """A VALID component (non-empty, no '/') with the stated spread; returns (string, trivial?)."""
  m = rng.randrange(12)
  if m <= 2:
    return gen_word(rng), True
  if m == 3:
    return rng.choice(KEYWORDS), False
  if m == 4:  # blank at either end or inside
    w, b = gen_word(rng), rng.choice(BLANKS[:3] + [' '])
    return rng.choice([b + w, w + b, w + b + gen_word(rng), b + w + b, b]), False
  if m == 5:  # newline
    w = gen_word(rng)
    return rng.choice(['\n' + w, w + '\n', w + '\n' + gen_word(rng), '\n', w + '\n\n']), False
  if m == 6:
    w = gen_word(rng, 0, 2)
    return w + rng.choice(SPECIAL) + gen_word(rng, 0, 2), False
  if m == 7:
    return gen_word(rng, 0, 2) + rng.choice(UNI) + gen_word(rng, 0, 1), False
  if m == 8:  # looks like a number / an alias of one
    return rng.choice(['0', '1', '01', '+1', ' 1', '1_0', '-1', '10', '1 ', '007']), False
  if m == 9:  # a keyword with something glued on
    k = rng.choice(KEYWORDS)
    return rng.choice([k + ' ', ' ' + k, k.upper(), k[:-1], k + 's', k + '\n']), False
  if m == 10:  # a mixture
    parts = [rng.choice([gen_word(rng, 1, 2), rng.choice(SPECIAL), rng.choice(BLANKS), rng.choice(UNI)]) for _ in range(rng.randrange(2, 5))]
    return ''.join(parts), False
  return rng.choice(LETTERS), True


def gen_bad_comp(rng):
  w = gen_word(rng, 0, 2)
  return rng.choice(['', '/', w + '/', '/' + w, w + '/' + gen_word(rng), 'owners/' + gen_word(rng), '//', w + '/\n'])


def gen_id(rng):
  return rng.choice(IDS + IDS[:4] + [rng.randrange(0, 200), rng.randrange(0, 10 ** rng.randrange(1, 25))])


def alias_forms(rng, t):
  """Strings that int() reads as the same number as the canonical `t` (ASCII)."""
  out = ['0' + t, '+' + t, ' ' + t, t + ' ', t + '\n', '\t' + t, '00' + t, ' +0' + t + ' \n', '\x0b' + t + '\x0c', t + '\r']
  if len(t) > 1:
    out += [t[0] + '_' + t[1:], t[:-1] + '_' + t[-1]]
  out.append('0_' + t)
  if t == '0':
    out += ['-0', '-00']
  return out


def nonint_forms(t):
  return [t + 'x', 'x', '1__0', '_' + t, t + '_', '+', '-', '+ ' + t, '+-' + t, '0x1', t + '.0', '1e3', ' ', t + ' ' + t,
          t + '\x1c', '\x1f' + t, t + '\x00', '--' + t, '_']


NONASCII_NUM = ['\u0661', '\uff11', '1\x85', '\xa01', '1\u2003', '\u0661\u0662', '1\xe9', '\xb2']


def name_mutants(rng, kind, name, comps, rid):
  """(tag, mutated name) for one valid name."""
  out = []
  segs = name.split('/')
  if NUMERIC[kind]:
    t = segs[-1]
    head = '/'.join(segs[:-1]) + '/'
    for a in alias_forms(rng, t):
      out.append(('alias', head + a))
    out.append(('negative', head + '-' + (t if t != '0' else '1')))
    out.append(('negative', head + ' -' + (t if t != '0' else '3') + ' '))
    for a in nonint_forms(t):
      out.append(('nonint', head + a))
    for a in NONASCII_NUM:
      out.append(('nonascii-num', head + a))
  for i in range(len(segs)):
    out.append(('dropped', '/'.join(segs[:i] + segs[i + 1:])))
    out.append(('doubled', '/'.join(segs[:i] + [segs[i]] + segs[i:])))
    out.append(('emptied', '/'.join(segs[:i] + [''] + segs[i + 1:])))
  out += [('extra', name + '/x'), ('extra', 'x/' + name), ('extra', name + '/'), ('extra', '/' + name), ('extra', name + '//'),
          ('extra', name.replace('/', '//', 1)), ('extra', name + '/trials/1'), ('extra', name + '/' + segs[-1])]
  for i, s in enumerate(segs):
    if s in KEYWORDS:
      others = [k for k in KEYWORDS if k != s]
      for rep in (rng.choice(others), s.upper(), s + ' ', ' ' + s, s[:-1], s + 's', s.capitalize()):
        out.append(('keyword', '/'.join(segs[:i] + [rep] + segs[i + 1:])))
  for b in (' ', '\n', '\t', '\r\n', '  '):
    out.append(('blank', b + name))
    out.append(('blank', name + b))
    out.append(('blank', b + name + b))
  if len(segs) >= 4:
    i, j = sorted(rng.sample(range(len(segs)), 2))
    sw = list(segs)
    sw[i], sw[j] = sw[j], sw[i]
    out.append(('order', '/'.join(sw)))
    out.append(('order', '/'.join(reversed(segs))))
    out.append(('order', '/'.join(segs[2:] + segs[:2])))
  return out


def gen_int_string(rng):
  """ASCII strings around the grammar of int(): well-formed literals and near misses."""
  m = rng.randrange(10)
  alpha = ['0', '1', '9', '5', '_', '+', '-', ' ', '\t', '\n', '\r', '\x0b', '\x0c', 'a', '\x1c', '/', '.', 'x', '\x00', 'e']
  if m <= 2:
    return ''.join(rng.choice(alpha) for _ in range(rng.randrange(0, 8)))
  groups = [''.join(rng.choice('0123456789') for _ in range(rng.randrange(1, 5))) for _ in range(rng.randrange(1, 4))]
  s = '_'.join(groups)
  s = rng.choice(['', '', '+', '-']) + s
  s = ''.join(rng.choice(WS) for _ in range(rng.randrange(0, 3))) + s + ''.join(rng.choice(WS) for _ in range(rng.randrange(0, 3)))
  if m >= 7 and s:  # one corruption
    i = rng.randrange(len(s) + 1)
    c = rng.choice(alpha)
    s = rng.choice([s[:i] + c + s[i:], s[:i] + s[i + 1:], s[:i] + c + s[i + 1:]])
  return s


# ----------------------------------------------------------------------------------------------- the stage
def _break(c, counts, where, case, real, model):
  counts[where] = counts.get(where, 0) + 1
  if counts[where] <= MAX_BREAKS_PER_PLACE:
    c.tie_break(where, case, jcanon(real), jcanon(model))


def _last_seg(name):
  i = name.rfind('/')
  return (name[:i + 1], name[i + 1:]) if i >= 0 else ('', name)


def judge_accept(kind, n, r_obj, r_canon):
  """res-accepts-foreign-name on one REAL acceptance: None when fine, else a description."""
  real_name = r_obj.name
  if not NUMERIC[kind]:
    return None if real_name == n else 'from_name(%r) returned a resource whose name is %r' % (n, real_name)
  hn, tn = _last_seg(n)
  hr, _ = _last_seg(real_name)
  if hn != hr:
    return 'from_name(%r) returned a resource whose name is %r (different up to the numeric component)' % (n, real_name)
  v = py_int(tn)
  if v is None or v != r_canon[2]:
    return 'from_name(%r) returned id %r although int(%r) is %r' % (n, r_canon[2], tn, v)
  return None


def stage(c):
  t0 = time.time()
  quick = c.tier == 'quick'
  n_res = 220 if quick else 2500
  n_int = 4000 if quick else 60000
  n_bad = 120 if quick else 1200
  rng = c.rng
  R = Real()
  breaks = {}
  reported = set()

  def fail(key, what, case):
    # one report per key and per kind of resource keeps the replay small; every occurrence is counted
    k = (key, case.get('kind'))
    c.count(0, kind='res-fail:' + key)
    if k in reported:
      return
    reported.add(k)
    c.prop_fail(key, what, case)

  # ---- corpus first: the witnesses of the four classes of change this stage was written against
  resources = [
      ('owner', ('a ',), None), ('owner', (' a',), None), ('owner', ('a\n',), None), ('owner', ('owners',), None),
      ('study', ('a', 'b '), None), ('study', ('a', 'b'), None), ('study', ('a ', 'b'), None), ('study', ('a', 'b\n'), None),
      ('study', ('owners', 'studies'), None), ('study', ('a', 'trials'), None),
      ('trial', ('a', 'b'), 1), ('trial', ('a', 'b'), 0), ('trial', ('a', 'b'), 10), ('trial', ('a', 'b '), 1), ('trial', ('a ', 'b'), 1),
      ('trial', ('a', 'b'), 2 ** 63), ('trial', ('a', 'b'), 10 ** 30), ('trial', ('operations', 'earlystopping'), 7),
      ('es', ('a', 'b'), 1), ('es', ('a', 'b'), 0), ('es', ('a', 'suggestion'), 1), ('es', ('a', 'b\n'), 2),
      ('sug', ('a', 'b', 'c'), 0), ('sug', ('a', 'b', 'c'), 1), ('sug', ('a', 'b', ' c'), 1), ('sug', ('a', 'b', '1'), 1), ('sug', ('a', 'b', 'c'), 11),
      ('sug', ('a', 'earlystopping', 'c'), 3),
  ]
  trivial = {i: False for i in range(len(resources))}
  while len(resources) < n_res:
    kind = rng.choice(KINDS)
    cs, triv = [], True
    for _ in range(NCOMP[kind]):
      s, t = gen_comp(rng)
      cs.append(s)
      triv = triv and t
    trivial[len(resources)] = triv
    resources.append((kind, tuple(cs), gen_id(rng) if NUMERIC[kind] else None))
    # a near neighbour in another study / of another kind with the same components: the collisions worth looking for
    if rng.random() < 0.5:
      k2 = rng.choice(KINDS)
      base = list(cs) + [gen_comp(rng)[0] for _ in range(3)]
      cs2 = base[:NCOMP[k2]]
      if rng.random() < 0.5:
        i = rng.randrange(len(cs2))
        cs2[i] = rng.choice([cs2[i] + ' ', ' ' + cs2[i], cs2[i] + '\n', cs2[i].strip() or 'a', cs2[i] + '0'])
      trivial[len(resources)] = False
      resources.append((k2, tuple(cs2), (resources[-1][2] if resources[-1][2] is not None else gen_id(rng)) if NUMERIC[k2] else None))
  seen = set()
  resources = [x for x in resources if not (x in seen or seen.add(x))]

  # ---- A. valid resources: name, from_name(name) by every kind, mutated names
  reqs, todo = [], []          # todo[i] = (what, payload) describing how to compare answer i

  def ask(req, what, payload):
    reqs.append(req)
    todo.append((what, payload))

  by_name = {}
  n_mut = 0
  for idx, (kind, comps, rid) in enumerate(resources):
    case = {'kind': kind, 'components': list(comps), 'id': rid}
    obj, err = R.make(kind, comps, rid)
    c.traces += 1
    if obj is None:
      # the generator only makes valid components: the validator refusing one is a disagreement with the model
      ask({'op': 'name', 'kind': kind, 'c': [cps(s) for s in comps], 'id': rid if rid is not None else 0}, 'name', (case, err))
      continue
    name = obj.name
    nontriv = not trivial.get(idx, False)
    c.count(1, ('res', kind, comps, rid) if nontriv else None, kind='res:name:' + kind)
    ask({'op': 'name', 'kind': kind, 'c': [cps(s) for s in comps], 'id': rid if rid is not None else 0}, 'name', (case, ('name', name)))
    # P: the numeric component printed is str(id)
    if NUMERIC[kind] and _last_seg(name)[1] != str(rid):
      fail('res-name-not-canonical', '%s%r.name == %r: the numeric component is not str(%d)' % (kind, tuple(comps) + (rid,), name, rid), dict(case, name=name))
    # P: injective / cross-study
    prev = by_name.get(name)
    if prev is not None and prev != (kind, comps, rid):
      pk, pc, pi = prev
      diff_study = len(pc) >= 2 and len(comps) >= 2 and (pc[0], pc[1]) != (comps[0], comps[1])
      key = 'res-cross-study-collision' if diff_study else 'res-name-collision'
      fail(key, 'two different resources have the same name %r: %s%r and %s%r' % (name, pk, pc + ((pi,) if pi is not None else ()), kind, tuple(comps) + ((rid,) if rid is not None else ())),
           dict(case, name=name, other={'kind': pk, 'components': list(pc), 'id': pi}))
    by_name.setdefault(name, (kind, comps, rid))
    # from_name(name) by every kind
    for k2 in KINDS:
      r2, can2 = R.from_name(k2, name)
      c.traces += 1
      c.count(1, kind='res:from_name(name):%s' % ('same' if k2 == kind else 'other'))
      ask({'op': 'fromName', 'kind': k2, 's': cps(name)}, 'fromName', (dict(case, parsed_as=k2, name=name), can2, None))
      if k2 == kind:
        if r2 is None or r2 != obj:
          fail('res-roundtrip', '%s.from_name(%r) is %s, not the resource %s%r that has this name' % (
              kind, name, can2, kind, tuple(comps) + ((rid,) if rid is not None else ())), dict(case, name=name, from_name=jcanon(can2)))
      elif r2 is not None:
        fail('res-kind-confusion', 'the name %r of the %s resource %r is accepted by %s.from_name as %s' % (name, kind, comps, k2, can2),
             dict(case, name=name, accepted_by=k2, from_name=jcanon(can2)))
      if r2 is not None:
        why = judge_accept(k2, name, r2, can2)
        if why:
          fail('res-accepts-foreign-name', why, dict(case, parsed_as=k2, name=name, from_name=jcanon(can2)))
    # mutated names, parsed as the same kind and as one other kind
    muts = name_mutants(rng, kind, name, comps, rid)
    if not quick or idx < 40:
      chosen = muts
    else:
      chosen = rng.sample(muts, min(len(muts), 14))
    for tag, n in chosen:
      for k2 in (kind, rng.choice([k for k in KINDS if k != kind])):
        r2, can2 = R.from_name(k2, n)
        c.traces += 1
        n_mut += 1
        c.count(1, ('mut', k2, n), kind='res:mut:%s:%s' % (tag, can2[0] if can2[0] == 'ok' else can2[1]))
        in_model = not (NUMERIC[k2] and not _last_seg(n)[1].isascii())
        if in_model:
          ask({'op': 'fromName', 'kind': k2, 's': cps(n)}, 'fromName', ({'kind': kind, 'parsed_as': k2, 'mutation': tag, 'name': n, 'of': name}, can2, tag))
        elif can2[0] == 'err' and can2[1] not in ('notInt', 'notName', 'negative'):
          fail('res-from-name-unexpected-exception', '%s.from_name(%r) raised %s' % (k2, n, can2[1]), {'kind': k2, 'name': n})
        if r2 is not None:
          why = judge_accept(k2, n, r2, can2)
          if why:
            fail('res-accepts-foreign-name', why, {'kind': k2, 'name': n, 'mutation': tag, 'of': name, 'from_name': jcanon(can2)})

  # ---- B. malformed stream: the constructors' validators
  for _ in range(n_bad):
    kind = rng.choice(KINDS)
    comps = [gen_comp(rng)[0] for _ in range(NCOMP[kind])]
    rid = gen_id(rng) if NUMERIC[kind] else None
    what = rng.choice(['comp', 'comp', 'neg']) if NUMERIC[kind] else 'comp'
    if what == 'comp':
      comps[rng.randrange(len(comps))] = gen_bad_comp(rng)
    else:
      rid = rng.choice(NEG_IDS + [-rng.randrange(1, 10 ** 12)])
    obj, err = R.make(kind, comps, rid)
    c.traces += 1
    c.count(1, ('bad', kind, tuple(comps), rid), kind='res:malformed:' + what)
    case = {'kind': kind, 'components': list(comps), 'id': rid}
    if obj is not None:
      fail('res-validator-accepts', 'the constructor of the %s resource accepts %r (a component that is empty or contains "/", or a negative id): name %r' % (
          kind, tuple(comps) + ((rid,) if rid is not None else ()), obj.name), case)
    ask({'op': 'name', 'kind': kind, 'c': [cps(s) for s in comps], 'id': rid if rid is not None else 0}, 'name',
        (case, err if obj is None else ('name', obj.name)))

  # ---- C. int() on ASCII strings, D. trial_resource
  ints = ['', '0', '1', '01', '+1', '-1', ' 1', '1 ', '1_0', '1__0', '_1', '1_', '-0', '+0', '02', ' 2\n', '+', '-', '+ 1', '1 1', '0_0', '00', '1\x1c', '\x1f1', '9' * 40,
          '1' + '0' * 30, '\t\n\r\x0b\x0c7\x0c\x0b\r\n\t', '1\x00', '1/2', '0x1', '1e3', '1.0']
  while len(ints) < n_int:
    ints.append(gen_int_string(rng))
  seen = set()
  ints = [s for s in ints if s.isascii() and not (s in seen or seen.add(s))]
  for s in ints:
    v = py_int(s)
    c.traces += 1
    c.count(1, ('int', s) if (v is not None and s != str(v)) or (v is None and any(ch.isdigit() for ch in s)) else None,
            kind='res:int:%s' % ('ok' if v is not None else 'ValueError'))
    ask({'op': 'pyInt', 's': cps(s)}, 'pyInt', (s, v))
  tr_strings = ints[:40] + rng.sample(ints, min(len(ints), 400 if quick else 6000)) + NONASCII_NUM
  for s in tr_strings:
    o, st = rng.choice([('a', 'b'), ('a ', 'b'), ('owners', 'studies'), ('o', 's\n')])
    r2, can2 = R.trial_resource(o, st, s)
    c.traces += 1
    c.count(1, kind='res:trial_resource:%s' % (can2[0] if can2[0] == 'ok' else can2[1]))
    v = py_int(s)
    case = {'owner': o, 'study': st, 'trial_id': s}
    if r2 is not None:
      if v is None or v <= 0 or can2 != ('ok', (o, st), v):
        fail('res-trial-resource', 'StudyResource(%r, %r).trial_resource(%r) returned %s although int() gives %r' % (o, st, s, can2, v), dict(case, result=jcanon(can2)))
    elif v is not None and v > 0:
      fail('res-trial-resource', 'StudyResource(%r, %r).trial_resource(%r) raised %s although int() gives the positive %d' % (o, st, s, can2[1], v), dict(case, result=jcanon(can2)))
    elif can2[1] not in ('notInt', 'notPositive'):
      fail('res-trial-resource', 'StudyResource(%r, %r).trial_resource(%r) raised %s' % (o, st, s, can2[1]), dict(case, result=jcanon(can2)))
    if s.isascii():
      ask({'op': 'trialResource', 'c': [cps(o), cps(st)], 's': cps(s)}, 'trialResource', (case, can2))

  # ---- the model's answers
  answers = c.lean('Resources', reqs)
  for (what, payload), m in zip(todo, answers):
    if 'error' in m:
      raise core.InfraError('Resources driver: %s' % m)
    if what == 'name':
      case, real = payload
      model = ('name', from_cps(m['name'])) if 'name' in m else ('err', m['err'])
      # constructor errors: compared as refused / not refused plus the class
      if real != model:
        _break(c, breaks, 'resource constructor / name (%s)' % case['kind'], case, real, model)
    elif what == 'fromName':
      case, real, tag = payload
      model = model_canon(m)
      if real != model:
        _break(c, breaks, '%s.from_name (%s)' % (case['parsed_as'], 'name of a resource' if tag is None else 'mutated name: ' + tag), case, real, model)
    elif what == 'pyInt':
      s, v = payload
      if m['v'] != v:
        _break(c, breaks, 'int() on an ASCII string', {'s': s}, v, m['v'])
      # the specification side of pyInt_iff, and the canonical-form classifier
      if m['wf'] != (v is not None) or (v is not None and m['value'] != v):
        _break(c, breaks, 'wellFormedInt / value vs int()', {'s': s}, v, {'wf': m['wf'], 'value': m['value']})
      if m['canonical'] != (v is not None and v >= 0 and str(v) == s):
        _break(c, breaks, 'isCanonical vs str(int(s)) == s', {'s': s}, v is not None and v >= 0 and str(v) == s, m['canonical'])
    elif what == 'trialResource':
      case, real = payload
      model = model_canon(m)
      if real != model:
        _break(c, breaks, 'StudyResource.trial_resource', case, real, model)
  for where, n in breaks.items():
    if n > MAX_BREAKS_PER_PLACE:
      c.notes.append('%d correspondence breaks at %s (first %d kept)' % (n, where, MAX_BREAKS_PER_PLACE))

  k = min(len(resources) - 1, 30)
  c.sample({'resource': {'kind': resources[k][0], 'components': list(resources[k][1]), 'id': resources[k][2]}})
  c.coverage_extra['resource_names'] = {
      'resources': len(resources), 'distinct_real_names': len(by_name), 'mutated_names_parsed': n_mut, 'int_strings': len(ints),
      'trial_resource_calls': len(tr_strings), 'malformed_constructor_calls': n_bad, 'driver_requests': len(reqs),
      'correspondence_breaks_by_place': dict(breaks), 'wall_s': round(time.time() - t0, 1),
      'not_modelled': 'int() of a non-ASCII numeric component (Unicode digits / blanks); the 4300-digit limit of int(str)'}
  return len(resources)
