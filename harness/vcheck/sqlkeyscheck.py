"""The keys of the SQL queries of sql_datastore.py (premise of Model/Stores.lean `Sql`; used by C07 / C12).

  translate(c)   regenerate lean/VizierModel/Generated/SqlWhere.lean from the source of `core.REPO`
                 (harness/translators/sql_where.py).  Call it BEFORE `c.proof_stage()` when the modules of
                 lean/theorems/SqlKeys.json are part of the property's theorem file, so that the build sees the table of
                 the tree under test.  `stage` calls it if nobody did.
  stage(c)       1. obligations (`c.add_obligation`): 'translator: every SQL query recognised'; one per criterion of
                    Model/SqlKeys.lean evaluated in Python on the extracted table (for the evidence, with the offending
                    query in the detail); and 'lean kernel, this run's table: sqlkeys_*' - the SAME obligations as the
                    theorems of Props/SqlKeys.lean, decided by the kernel on this run's table in a file private to the run
                    (so that a concurrent run on another tree, which rewrites Generated/SqlWhere.lean, cannot change the
                    verdict; cached by content).  The registered theorems (lean/theorems/SqlKeys.json) are built and
                    audited by the property's own `c.proof_stage()` when its theorem file lists them.
                 2. ALWAYS, the property stage: a directed experiment on the REAL SQLDataStore (in-memory SQLite).  Owners
                    `o`, `o1`, studies `s`, `s1`, `s_`, `S`, `%`, `_` under each (names that extend each other, differ by
                    case only - SQLite's LIKE ignores ASCII case -, or are LIKE wildcards), every study with its own number
                    of trials (ids 1..n, so ids overlap), suggestion operations of clients `c`, `c1`, `%` (numbers overlap)
                    and early-stopping operations.  Every per-study read must return exactly what was created under that
                    study, every per-trial / per-operation read the row of that name, `update_metadata`, `update_trial`,
                    `delete_trial` must change that row only and `delete_study` must remove the rows of that study and leave
                    every other row in place (compared on raw `SELECT`s of the four tables).
                    Failures: `c.prop_fail('sql-query-leaks-other-study:<method>', what, case)`.
Quick tier: two arrangements (directed order, one shuffled by the seed), a few seconds."""
import time

from vcheck import core

SR = lambda o, a: ('parsed', 'StudyResource', o, a)  # noqa: E731
EQ = ('eq',)

# Model/SqlKeys.lean `addressing`
ADDRESSING = {
    'create_study': ('study', ('field', 'study', 'name')),
    'load_study': ('study', ('arg', 'study_name')),
    'update_study': ('study', ('field', 'study', 'name')),
    'delete_study': ('study', ('arg', 'study_name')),
    'list_studies': ('owner', ('arg', 'owner_name')),
    'create_trial': ('trial', ('field', 'trial', 'name')),
    'get_trial': ('trial', ('arg', 'trial_name')),
    'update_trial': ('trial', ('field', 'trial', 'name')),
    'list_trials': ('study', ('arg', 'study_name')),
    'delete_trial': ('trial', ('arg', 'trial_name')),
    'max_trial_id': ('study', ('arg', 'study_name')),
    'create_suggestion_operation': ('sugOp', ('field', 'operation', 'name')),
    'get_suggestion_operation': ('sugOp', ('arg', 'operation_name')),
    'update_suggestion_operation': ('sugOp', ('field', 'operation', 'name')),
    'list_suggestion_operations': ('study', ('arg', 'study_name')),
    'max_suggestion_operation_number': ('study', ('arg', 'study_name')),
    'create_early_stopping_operation': ('esOp', ('field', 'operation', 'name')),
    'get_early_stopping_operation': ('esOp', ('arg', 'operation_name')),
    'update_early_stopping_operation': ('esOp', ('field', 'operation', 'name')),
    'update_metadata': ('study', ('arg', 'study_name')),
}
PER_CLIENT = ('list_suggestion_operations', 'max_suggestion_operation_number')
KEY_COLUMNS = ('owner_name', 'study_name', 'trial_name', 'operation_name', 'owner_id', 'study_id', 'trial_id', 'client_id',
               'operation_number')
TABLES = ('owners', 'studies', 'trials', 'sugOps', 'esOps')


# ----------------------------------------------------------------------------------------------- criteria (Python mirror)
def is_filter(q):
  return q['kind'] != 'insert'


def has_eq(q, col, src):
  return any(c == (col, EQ, src) for c in q['conj'])


def has_owner_study(q, o):
  return has_eq(q, 'owner_id', SR(o, 'owner_id')) and has_eq(q, 'study_id', SR(o, 'study_id'))


def row_keyed(lvl, o, q):
  t = q['table']
  if lvl == 'study':
    if t == 'studies':
      return has_eq(q, 'study_name', o)
    if t == 'trials':
      return has_owner_study(q, o) or has_eq(q, 'trial_name', SR(o, 'trial_resource(_).name'))
    if t in ('sugOps', 'esOps'):
      return has_owner_study(q, o)
    return False
  if lvl == 'owner':
    if t == 'owners':
      return has_eq(q, 'owner_name', o)
    if t == 'studies':
      return has_eq(q, 'owner_id', ('parsed', 'OwnerResource', o, 'owner_id'))
    return False
  if lvl == 'trial':
    return t == 'trials' and has_eq(q, 'trial_name', o)
  if lvl in ('sugOp', 'esOp'):
    return t == lvl + 's' and has_eq(q, 'operation_name', o)
  return False


def key_vals(lvl, t, o):
  P = lambda r, a: ('parsed', r, o, a)  # noqa: E731
  if (lvl, t) == ('study', 'studies'):
    return [('study_name', o), ('owner_id', SR(o, 'owner_id')), ('study_id', SR(o, 'study_id'))]
  if (lvl, t) == ('study', 'owners'):
    return [('owner_name', SR(o, 'owner_resource.name'))]
  if (lvl, t) == ('trial', 'trials'):
    return [('trial_name', o)] + [(a, P('TrialResource', a)) for a in ('owner_id', 'study_id', 'trial_id')]
  if (lvl, t) == ('sugOp', 'sugOps'):
    return [('operation_name', o)] + [(a, P('SuggestionOperationResource', a)) for a in ('owner_id', 'study_id', 'client_id', 'operation_number')]
  if (lvl, t) == ('esOp', 'esOps'):
    return [('operation_name', o)] + [(a, P('EarlyStoppingOperationResource', a)) for a in ('owner_id', 'study_id', 'trial_id')]
  return None


def criteria(table, schema):
  """-> [(name, ok, detail)] : the criteria of Model/SqlKeys.lean on the extracted table"""
  from translators import sql_where
  bad = {k: [] for k in ('eq', 'study', 'trial', 'op', 'ins', 'addr')}

  def show(m, q):
    return '%s: %s' % (m, sql_where.brief({m: [q]})[m][0][:150])

  for m in sorted(table):
    if m not in ADDRESSING:
      bad['addr'].append('%s: method not classified' % m)
    lvl, o = ADDRESSING.get(m, (None, None))
    for q in table[m]:
      if q['table'] not in TABLES:
        bad['addr'].append(show(m, q) + ' (unknown table)')
      if is_filter(q) and not all(c[1] == EQ for c in q['conj']):
        bad['eq'].append(show(m, q))
      if lvl is None:
        continue
      if is_filter(q) and not row_keyed(lvl, o, q):
        bad['study' if lvl in ('study', 'owner') else 'trial' if lvl == 'trial' else 'op'].append(show(m, q))
      if m in PER_CLIENT and is_filter(q) and q['table'] == 'sugOps' and not has_eq(q, 'client_id', ('arg', 'client_id')):
        bad['op'].append(show(m, q) + ' (client_id not constrained)')
      if q['kind'] == 'insert':
        kv = key_vals(lvl, q['table'], o)
        if kv is None or not all(e in q['vals'] for e in kv):
          bad['ins'].append(show(m, q))
      elif q['kind'] == 'update':
        kv = key_vals(lvl, q['table'], o) or []
        if not all(e[0] not in KEY_COLUMNS or e in kv for e in q['vals']):
          bad['ins'].append(show(m, q))
      elif q['vals']:
        bad['ins'].append(show(m, q))
  for m in ADDRESSING:
    if m not in table:
      bad['addr'].append('%s: method missing from the source' % m)
  pk = {t: [col for col, is_pk in schema.get(t, []) if is_pk] for t in TABLES}
  want = {'owners': ['owner_name'], 'studies': ['study_name'], 'trials': ['trial_name'], 'sugOps': ['operation_name'], 'esOps': ['operation_name']}
  schema_ok = pk == want and len(schema) == 5
  out = [
      ('sqlkeys: every conjunct of every select / exists / update / delete is an equality (keyedByEquality)', bad['eq']),
      ('sqlkeys: per-study and per-owner queries constrain both owner and study (studyQueriesKeyed)', bad['study']),
      ('sqlkeys: per-trial queries constrain trial_name by equality with the name given (trialQueriesKeyed)', bad['trial']),
      ('sqlkeys: per-operation queries constrain operation_name, per-client listings client_id (opQueriesKeyed)', bad['op']),
      ('sqlkeys: inserts fill the key columns from the parsed name of the inserted proto, updates keep them (insertsFillKeys)', bad['ins']),
      ('sqlkeys: every method classified, every query on a known table (methodsAddressed)', bad['addr']),
  ]
  res = [(n, not b, '; '.join(b[:6])) for n, b in out]
  res.append(('sqlkeys: the resource name is the primary key of every table (schemaKeyed)', schema_ok, '' if schema_ok else str(pk)))
  return res


# ----------------------------------------------------------------------------------------------- translation
def translate(c):
  st = getattr(c, '_sqlkeys', None)
  if st is not None:
    return st
  from translators import sql_where
  try:
    table, schema, unknown = sql_where.write(core.REPO, core.LEAN_DIR)
  except (OSError, SyntaxError) as e:
    table, schema, unknown = {}, {}, ['sql_datastore.py cannot be read / parsed: %r' % (e,)]
  st = {'table': table, 'schema': schema, 'unknown': unknown}
  c._sqlkeys = st
  return st


LEAN_OBLIGATIONS = [
    ('sqlkeys_shape_matches', 'sqlWhereNow = assumedWhere'),
    ('sqlkeys_schema_matches', 'sqlSchemaNow = assumedSchema ∧ schemaKeyed sqlSchemaNow = true'),
    ('sqlkeys_keyed_by_equality', 'keyedByEquality sqlWhereNow = true'),
    ('sqlkeys_study_queries_keyed', 'studyQueriesKeyed sqlWhereNow = true'),
    ('sqlkeys_trial_queries_keyed', 'trialQueriesKeyed sqlWhereNow = true'),
    ('sqlkeys_op_queries_keyed', 'opQueriesKeyed sqlWhereNow = true'),
    ('sqlkeys_inserts_fill_keys', 'insertsFillKeys sqlWhereNow = true'),
    ('sqlkeys_methods_addressed', 'methodsAddressed sqlWhereNow = true'),
]


def private_check_text(table, schema):
  """a Lean file private to this run: THIS run's table as `sqlWhereNow` and the obligations of Props/SqlKeys.lean on it,
  one theorem per line block, so that a failing one is identified by the line of the error"""
  from translators import sql_where
  gen = sql_where.lean_text(table, schema)
  body = gen[gen.index('/-- `sqla.Table(...)`'):gen.index('end VizierModel.Generated.SqlWhere')]
  body = body.replace('def sqlSchema :', 'def sqlSchemaNow :').replace('def sqlWhere :', 'def sqlWhereNow :')
  lines = ['import VizierModel.Model.SqlKeys', 'namespace VizierModel.SqlKeys.Now',
           'open VizierModel.Generated.SqlWhere VizierModel.SqlKeys', ''] + body.split('\n')
  marks = {}
  for name, stmt in LEAN_OBLIGATIONS:
    marks[len(lines) + 1] = name
    lines.append('theorem %s : %s := by decide +kernel' % (name, stmt))
  lines += ['end VizierModel.SqlKeys.Now', '']
  return '\n'.join(lines), marks


def lean_obligation(c, st):
  """The kernel decides the obligations of Props/SqlKeys.lean on THIS run's table, in a file private to the run
  (lean/Audit/SqlKeysNow_<pid>.lean, `lake env lean`): runs of other properties / other trees that rewrite
  Generated/SqlWhere.lean at the same time cannot change the verdict.  The result is cached under the hash of the file and
  of Model/SqlKeys.lean (the clean tree always produces the same file)."""
  import hashlib
  import json
  import os
  import re
  text, marks = private_check_text(st['table'], st['schema'])
  model = open(os.path.join(core.LEAN_DIR, 'VizierModel', 'Model', 'SqlKeys.lean')).read()
  from translators import sql_where
  key = hashlib.sha1((text + '\0' + model + '\0' + sql_where.HEADER).encode()).hexdigest()[:20]
  cdir = os.path.join(core.LEAN_DIR, 'Audit', 'sqlkeys_cache')
  os.makedirs(cdir, exist_ok=True)
  cpath = os.path.join(cdir, key + '.json')
  res = None
  if os.path.exists(cpath):
    try:
      res = json.load(open(cpath))
    except ValueError:
      res = None
  if res is None:
    rc, out, err = core._run(['lake', 'build', 'VizierModel.Model.SqlKeys'], cwd=core.LEAN_DIR, timeout=1800)
    log = out + err
    if rc != 0 and re.search(r'unknown (command|executable)|No such file or directory: .lake', log):
      raise core.InfraError('lake unavailable: ' + log[-400:])
    if rc != 0:
      res = {name: [False, 'Model/SqlKeys.lean does not build: ' + log[-300:]] for name, _ in LEAN_OBLIGATIONS}
    else:
      fname = 'SqlKeysNow_%d.lean' % os.getpid()
      fpath = os.path.join(core.LEAN_DIR, 'Audit', fname)
      with open(fpath, 'w') as f:
        f.write(text)
      try:
        rc, out, err = core._run(['lake', 'env', 'lean', 'Audit/' + fname], cwd=core.LEAN_DIR, timeout=1800)
      finally:
        try:
          os.remove(fpath)
        except OSError:
          pass
      log = out + err
      bad = {}
      other = []
      for m in re.finditer(r'^(?:\S*%s):(\d+):\d+: error:?(.*)$' % re.escape(fname), log, re.M):
        ln = int(m.group(1))
        if ln in marks:
          msg = m.group(2).strip()[:200]
          bad[marks[ln]] = 'decide +kernel: false of the table regenerated from this tree' if (not msg or 'proved that the proposition' in msg) else msg
        else:
          other.append('line %d: %s' % (ln, m.group(2).strip()[:160]))
      if rc != 0 and not bad and not other:
        other.append(log[-300:])
      res = {}
      for name, _ in LEAN_OBLIGATIONS:
        if other:
          res[name] = [False, 'the private check file does not elaborate: ' + '; '.join(other[:3])]
        else:
          res[name] = [name not in bad, bad.get(name, '')]
      if not other:
        tmp = cpath + '.tmp%d' % os.getpid()
        with open(tmp, 'w') as f:
          json.dump(res, f)
        os.replace(tmp, cpath)
  for name, _ in LEAN_OBLIGATIONS:
    ok, detail = res[name]
    c.add_obligation('lean kernel, this run\'s table: %s' % name, ok, detail)


# ----------------------------------------------------------------------------------------------- experiment
OWNERS = ('o', 'o1')
STUDIES = ('s', 's1', 's_', 'S', '%', '_')
CLIENTS = ('c', 'c1', '%')


class World:
  """a fresh in-memory SQLDataStore filled through its own create_* methods, and what was created under each study"""

  def __init__(self, order, ntrials, nops):
    import shim
    shim.install()
    import sqlalchemy as sqla
    from google.longrunning import operations_pb2
    from vizier._src.service import resources, sql_datastore, study_pb2, vizier_oss_pb2
    self.sqla, self.resources, self.study_pb2 = sqla, resources, study_pb2
    self.vizier_oss_pb2, self.operations_pb2 = vizier_oss_pb2, operations_pb2
    engine = sqla.create_engine('sqlite:///:memory:', connect_args={'check_same_thread': False}, echo=False, future=True,
                                poolclass=sqla.pool.StaticPool)
    self.ds = sql_datastore.SQLDataStore(engine)
    self.order = list(order)
    self.trials = {}        # (owner, study) -> [trial name]
    self.ops = {}           # (owner, study, client) -> [operation name]
    self.es = {}            # (owner, study) -> [es operation name]
    for k in self.order:
      name = resources.StudyResource(*k).name
      self.ds.create_study(study_pb2.Study(name=name, display_name='%s|%s' % k))
      self.trials[k], self.es[k] = [], []
      for c in CLIENTS:
        self.ops[k + (c,)] = []
    # rows interleaved over the studies, so that the row order does not follow the studies
    for i in range(1, max(ntrials.values()) + 1):
      for k in self.order:
        if i <= ntrials[k]:
          tn = resources.TrialResource(k[0], k[1], i).name
          self.ds.create_trial(study_pb2.Trial(name=tn, id=str(i), client_id='%s|%s' % k))
          self.trials[k].append(tn)
          en = resources.EarlyStoppingOperationResource(k[0], k[1], i).name
          self.ds.create_early_stopping_operation(vizier_oss_pb2.EarlyStoppingOperation(name=en))
          self.es[k].append(en)
    for i in range(1, max(nops.values()) + 1):
      for k in self.order:
        for c in CLIENTS:
          if i <= nops[k + (c,)]:
            on = resources.SuggestionOperationResource(k[0], k[1], c, i).name
            self.ds.create_suggestion_operation(operations_pb2.Operation(name=on))
            self.ops[k + (c,)].append(on)

  def sname(self, k):
    return self.resources.StudyResource(*k).name

  def raw(self):
    """every row of the four tables: {(table, name): serialized}"""
    conn = self.ds._connection
    out = {}
    for t, col, ser in (('studies', 'study_name', 'serialized_study'), ('trials', 'trial_name', 'serialized_trial'),
                        ('suggestion_operations', 'operation_name', 'serialized_op'),
                        ('early_stopping_operations', 'operation_name', 'serialized_op')):
      for row in conn.execute(self.sqla.text('SELECT %s, %s FROM %s' % (col, ser, t))).fetchall():
        out[(t, row[0])] = bytes(row[1]) if row[1] is not None else None
    conn.commit()
    return out

  def study_of(self, name):
    """(owner, study) of a resource name, by splitting (names of this experiment are canonical)"""
    parts = name.split('/')
    return (parts[1], parts[3])


def _names(protos):
  return sorted(p.name for p in protos)


def experiment(c, order, ntrials, nops, label):
  """one arrangement; returns the number of reads / writes checked"""
  n = 0
  setup = {'stage': 'sqlkeys', 'arrangement': label, 'creation_order': ['%s/%s' % k for k in order],
           'trials_per_study': {'%s/%s' % k: v for k, v in ntrials.items()},
           'operations_per_client': {'%s/%s/%s' % k: v for k, v in nops.items() if v}}

  def fail(method, what, **kw):
    # one report per method keeps the verdict readable; every occurrence is counted
    c.count(0, kind='sqlkeys-fail:' + method)
    reported = c.__dict__.setdefault('_sqlkeys_reported', set())
    if method in reported:
      return
    reported.add(method)
    case = dict(setup)
    case.update(kw)
    case['method'] = method
    c.prop_fail('sql-query-leaks-other-study:' + method, what, case)

  def call(fn, *a):
    try:
      return ('ok', fn(*a))
    except Exception as e:                              # the class only: messages are not compared
      return ('err', type(e).__name__)

  w = World(order, ntrials, nops)
  c.traces += 1
  ds = w.ds
  # ---- per-study reads
  for k in order:
    sn = w.sname(k)
    want = sorted(w.trials[k])
    r = call(ds.list_trials, sn)
    got = _names(r[1]) if r[0] == 'ok' else r
    n += 1
    if got != want:
      fail('list_trials', 'list_trials(%r) returned %s, the trials created under it are %s' % (sn, got, want), study=sn, expected=want, got=got)
    r = call(ds.max_trial_id, sn)
    n += 1
    if r != ('ok', ntrials[k]):
      fail('max_trial_id', 'max_trial_id(%r) = %s, the largest trial id created under it is %d' % (sn, r, ntrials[k]), study=sn,
           expected=ntrials[k], got=list(r))
    r = call(ds.load_study, sn)
    n += 1
    if r[0] != 'ok' or r[1].name != sn or r[1].display_name != '%s|%s' % k:
      fail('load_study', 'load_study(%r) returned %s' % (sn, (r[1].name, r[1].display_name) if r[0] == 'ok' else r), study=sn)
    for cl in CLIENTS:
      want = sorted(w.ops[k + (cl,)])
      r = call(ds.list_suggestion_operations, sn, cl)
      got = _names(r[1]) if r[0] == 'ok' else r
      n += 1
      if (got != want) if want else (r != ('err', 'NotFoundError')):
        fail('list_suggestion_operations', 'list_suggestion_operations(%r, %r) returned %s, created: %s' % (sn, cl, got, want),
             study=sn, client=cl, expected=want, got=got)
      r = call(ds.max_suggestion_operation_number, sn, cl)
      n += 1
      if r != (('ok', nops[k + (cl,)]) if want else ('err', 'NotFoundError')):
        fail('max_suggestion_operation_number', 'max_suggestion_operation_number(%r, %r) = %s, created: %d operations' % (
            sn, cl, r, nops[k + (cl,)]), study=sn, client=cl, expected=nops[k + (cl,)], got=list(r))
  for o in OWNERS:
    on = w.resources.OwnerResource(o).name
    want = sorted(w.sname(k) for k in order if k[0] == o)
    r = call(ds.list_studies, on)
    got = _names(r[1]) if r[0] == 'ok' else r
    n += 1
    if got != want:
      fail('list_studies', 'list_studies(%r) returned %s, created: %s' % (on, got, want), owner=on, expected=want, got=got)
  # ---- per-row reads: the row of exactly that name
  for k in order:
    for tn in w.trials[k]:
      r = call(ds.get_trial, tn)
      n += 1
      if r[0] != 'ok' or r[1].name != tn:
        fail('get_trial', 'get_trial(%r) returned %s' % (tn, r[1].name if r[0] == 'ok' else r), trial=tn, got=r[1].name if r[0] == 'ok' else list(r))
    for en in w.es[k]:
      r = call(ds.get_early_stopping_operation, en)
      n += 1
      if r[0] != 'ok' or r[1].name != en:
        fail('get_early_stopping_operation', 'get_early_stopping_operation(%r) returned %s' % (en, r[1].name if r[0] == 'ok' else r),
             operation=en, got=r[1].name if r[0] == 'ok' else list(r))
    for cl in CLIENTS:
      for on in w.ops[k + (cl,)]:
        r = call(ds.get_suggestion_operation, on)
        n += 1
        if r[0] != 'ok' or r[1].name != on:
          fail('get_suggestion_operation', 'get_suggestion_operation(%r) returned %s' % (on, r[1].name if r[0] == 'ok' else r),
               operation=on, got=r[1].name if r[0] == 'ok' else list(r))

  # ---- writes: exactly the addressed rows change (raw rows before / after)
  def frame(method, args, may_change, must_go=(), **kw):
    """run ds.<method>(*args); rows outside `may_change` must be untouched, rows in `must_go` gone"""
    nonlocal n
    before = w.raw()
    r = call(getattr(ds, method), *args)
    after = w.raw()
    n += 1
    touched = sorted(key for key in set(before) | set(after) if before.get(key) != after.get(key) and key not in may_change)
    left = sorted(key for key in must_go if key in after)
    if r[0] != 'ok':
      fail(method, '%s%r raised %s' % (method, tuple(kw.values()), r[1]), got=list(r), **kw)
    if touched:
      lost = [key for key in touched if key not in after]
      fail(method, '%s%r changed rows it does not address: %s%s' % (
          method, tuple(kw.values()), ['%s %s' % key for key in touched[:6]], ' (%d of them deleted)' % len(lost) if lost else ''),
           rows_changed=['%s %s' % key for key in touched[:20]], **kw)
    if left:
      fail(method + ':keeps-own-rows', '%s%r left rows of the addressed resource behind: %s' % (method, tuple(kw.values()), ['%s %s' % key for key in left[:6]]),
           rows_left=['%s %s' % key for key in left[:20]], **kw)
    return r

  from vizier._src.service import datastore as ds_mod, key_value_pb2
  for k in order:
    if not w.trials[k]:
      continue
    sn, tn = w.sname(k), w.trials[k][0]
    # update_metadata on trial 1 of the study (every study has ITS OWN trial 1) and on the study
    kv = key_value_pb2.KeyValue(key='k', ns='', value='v:%s|%s' % k)
    md = [ds_mod.UnitMetadataUpdate(trial_id='1', metadatum=kv)] if hasattr(ds_mod, 'UnitMetadataUpdate') else []
    frame('update_metadata', (sn, [kv], md), {('studies', sn), ('trials', tn)}, study=sn)
    t = w.study_pb2.Trial(name=tn, id='1', client_id='updated:%s|%s' % k)
    frame('update_trial', (t,), {('trials', tn)}, trial=tn)
    op_key = next((key for key in ((k + (cl,)) for cl in CLIENTS) if w.ops[key]), None)
    if op_key is not None:
      on = w.ops[op_key][0]
      frame('update_suggestion_operation', (w.operations_pb2.Operation(name=on, done=True),), {('suggestion_operations', on)}, operation=on)
    en = w.es[k][0]
    frame('update_early_stopping_operation', (w.vizier_oss_pb2.EarlyStoppingOperation(name=en, should_stop=True),),
          {('early_stopping_operations', en)}, operation=en)
    frame('update_study', (w.study_pb2.Study(name=sn, display_name='updated:%s|%s' % k),), {('studies', sn)}, study=sn)
  # the updates above must not have moved a row to another study: the listings still hold
  for k in order:
    sn = w.sname(k)
    r = call(ds.list_trials, sn)
    got = _names(r[1]) if r[0] == 'ok' else r
    n += 1
    if got != sorted(w.trials[k]):
      fail('list_trials', 'after the updates list_trials(%r) returned %s, the trials created under it are %s' % (sn, got, sorted(w.trials[k])),
           study=sn, expected=sorted(w.trials[k]), got=got, after='updates')
  # delete_trial of the LAST trial of each study
  for k in order:
    if w.trials[k]:
      tn = w.trials[k].pop()
      frame('delete_trial', (tn,), {('trials', tn)}, must_go=[('trials', tn)], trial=tn)
  # delete_study, one study after the other in creation order
  def own_rows(k):
    rows = {('studies', w.sname(k))}
    rows |= {('trials', x) for x in w.trials[k]}
    rows |= {('early_stopping_operations', x) for x in w.es[k]}
    for cl in CLIENTS:
      rows |= {('suggestion_operations', x) for x in w.ops[k + (cl,)]}
    return rows

  for k in list(order):
    rows = own_rows(k)
    present = set(w.raw())
    frame('delete_study', (w.sname(k),), rows, must_go=sorted(rows & present), study=w.sname(k))
    # what is left of the other studies is still listed (one of them is asked) - through the public API, unless a
    # failure of delete_study / list_trials has been reported already (it would only be repeated)
    if c.__dict__.get('_sqlkeys_reported', set()) & {'delete_study', 'list_trials'}:
      continue
    left_rows = w.raw()
    for k2 in order:
      if k2 == k or ('studies', w.sname(k2)) not in left_rows:
        continue
      r = call(ds.list_trials, w.sname(k2))
      n += 1
      got = _names(r[1]) if r[0] == 'ok' else r
      if got != sorted(w.trials[k2]):
        fail('delete_study', 'after delete_study(%r), list_trials(%r) returned %s instead of %s' % (w.sname(k), w.sname(k2), got, sorted(w.trials[k2])),
             study=w.sname(k), other=w.sname(k2), expected=sorted(w.trials[k2]), got=got)
      break
  return n


DIRECTED_TRIALS = {'s': 2, 'S': 3, '%': 2, '_': 3, 's1': 5, 's_': 4}


def arrangement(rng, shuffled):
  """creation order and sizes.  A leak from study Y into study X moves max_trial_id(X) iff Y holds more trials than X:
  directed - `s` is the smallest of the names it is a prefix of, and owner `o1` holds one trial more than `o` under
  every study name; shuffled - all twelve sizes are different."""
  order = [(o, s) for s in STUDIES for o in OWNERS]           # plain names first, the LIKE wildcards last
  ntrials, nops = {}, {}
  if shuffled:
    rng.shuffle(order)
    counts = list(range(2, 2 + len(order)))
    rng.shuffle(counts)
    ntrials = dict(zip(order, counts))
  else:
    ntrials = {k: DIRECTED_TRIALS[k[1]] + (1 if k[0] == 'o1' else 0) for k in order}
  for idx, k in enumerate(order):
    for i, cl in enumerate(CLIENTS):
      nops[k + (cl,)] = rng.randint(0, 3) if shuffled else (idx + 2 * i) % 4
  return order, ntrials, nops


def stage(c):
  """obligations on the regenerated query table + the directed experiment; returns the number of calls checked"""
  from translators import sql_where
  t0 = time.time()
  st = translate(c)
  table, schema, unknown = st['table'], st['schema'], st['unknown']
  c.add_obligation('translator: every SQL query recognised', not unknown, '; '.join(unknown[:8]))
  for name, ok, detail in criteria(table, schema):
    c.add_obligation(name, ok, detail)
  lean_obligation(c, st)
  c.coverage_extra['sql_where'] = {'queries': sql_where.brief(table), 'schema': {t: ['%s%s' % (col, ' PRIMARY KEY' if pk else '') for col, pk in cols]
                                                                                  for t, cols in schema.items()},
                                   'unrecognised': unknown}
  t1 = time.time()
  # ---- property stage (always)
  n = 0
  arrangements = [('directed', False), ('shuffled', True)] + ([('shuffled%d' % i, True) for i in range(2, 8)] if c.tier != 'quick' else [])
  import random
  rng = random.Random(c.seed * 1000003 + 770712)          # a stream of its own: the host property's stream is not moved
  for label, shuffled in arrangements:
    order, ntrials, nops = arrangement(rng, shuffled)
    try:
      n += experiment(c, order, ntrials, nops, label)
    except core.InfraError:
      raise
    except Exception as e:                                # the real code raised where the experiment does not expect it
      import traceback
      c.prop_fail('sql-query-leaks-other-study:experiment-crashed', 'the experiment on the real SQLDataStore raised %r' % (e,),
                  {'stage': 'sqlkeys', 'arrangement': label, 'traceback': traceback.format_exc()[-1500:]})
  c.count(n, kind='sqlkeys-calls')
  c.count(0, nontrivial_key=('sqlkeys', len(arrangements)))
  c.sample({'stage': 'sqlkeys', 'owners': list(OWNERS), 'studies': list(STUDIES), 'clients': list(CLIENTS), 'calls_checked': n})
  c.flags['sqlkeys_seconds'] = {'translate+criteria+lean': round(t1 - t0, 1), 'experiment': round(time.time() - t1, 1)}
  return n
