"""Datastore-level correspondence for C07: raw call sequences on the REAL NestedDictRAMDataStore and
SQLDataStore vs the representation models (Model/Stores.lean `Ram` / `Sql`, driver Drivers/Stores.lean)."""
import sqlalchemy as sqla

from google.longrunning import operations_pb2
from vizier._src.service import custom_errors, ram_datastore, resources, sql_datastore, study_pb2, vizier_oss_pb2, vizier_service_pb2

from vcheck import svc

from vcheck import svcreal

SSTATE = study_pb2.Study.State


def make(kind):
  if kind == 'ram':
    return ram_datastore.NestedDictRAMDataStore()
  engine = sqla.create_engine('sqlite:///:memory:', connect_args={'check_same_thread': False}, echo=False, future=True,
                              poolclass=sqla.pool.StaticPool)
  return sql_datastore.SQLDataStore(engine)


def sname(k):
  return 'owners/%s/studies/%s' % (k[0], k[1])


def head_json(p):
  h = svcreal.study_head_json(p)
  return {'state': h['state'], 'spec': h['spec'], 'md': h['md']}


def study_proto(k, head):
  return study_pb2.Study(name=sname(k), display_name=k[1], state=getattr(SSTATE, head['state']),
                         study_spec=svcreal.study_spec(head['spec'], head['md']))


def trial_proto(k, t):
  p = svcreal.trial_proto(t)
  p.name = '%s/trials/%d' % (sname(k), t['id'])
  return p


def op_proto(k, sop):
  name = resources.SuggestionOperationResource(k[0], k[1], sop['client'], sop['num']).name
  op = operations_pb2.Operation(name=name, done=bool(sop['done']))
  if sop.get('result') == 'error':
    op.error.code = 13
  return op


def op_json(op):
  r = resources.SuggestionOperationResource.from_name(op.name)
  return {'client': r.client_id, 'num': int(r.operation_number), 'done': bool(op.done),
          'result': 'error' if op.HasField('error') else None}


def step(ds, o):
  op, k = o['op'], o.get('k')
  try:
    if op == 'createStudy':
      ds.create_study(study_proto(k, o['head'])); return 'ok'
    if op == 'updateStudy':
      ds.update_study(study_proto(k, o['head'])); return 'ok'
    if op == 'deleteStudy':
      ds.delete_study(sname(k)); return 'ok'
    if op == 'loadStudy':
      return head_json(ds.load_study(sname(k)))
    if op == 'listStudies':
      out = []
      for s in ds.list_studies('owners/' + o['o']):
        out.append({'sid': resources.StudyResource.from_name(s.name).study_id, 'head': head_json(s)})
      return out
    if op == 'createTrial':
      ds.create_trial(trial_proto(k, o['trial'])); return 'ok'
    if op == 'updateTrial':
      ds.update_trial(trial_proto(k, o['trial'])); return 'ok'
    if op == 'deleteTrial':
      ds.delete_trial('%s/trials/%d' % (sname(k), o['id'])); return 'ok'
    if op == 'getTrial':
      return svcreal.trial_json(ds.get_trial('%s/trials/%d' % (sname(k), o['id'])))
    if op == 'listTrials':
      return [svcreal.trial_json(t) for t in ds.list_trials(sname(k))]
    if op == 'maxTrialId':
      return int(ds.max_trial_id(sname(k)))
    if op == 'createOp':
      ds.create_suggestion_operation(op_proto(k, o['sop'])); return 'ok'
    if op == 'updateOp':
      ds.update_suggestion_operation(op_proto(k, o['sop'])); return 'ok'
    if op == 'getOp':
      return op_json(ds.get_suggestion_operation(resources.SuggestionOperationResource(k[0], k[1], o['client'], o['num']).name))
    if op == 'listOps':
      return [op_json(x) for x in ds.list_suggestion_operations(sname(k), o['client'])]
    if op == 'maxOpNumber':
      return int(ds.max_suggestion_operation_number(sname(k), o['client']))
    if op in ('createEs', 'updateEs'):
      e = o['es']
      name = resources.EarlyStoppingOperationResource(k[0], k[1], e['trial']).name
      st = vizier_oss_pb2.EarlyStoppingOperation.Status
      proto = vizier_oss_pb2.EarlyStoppingOperation(name=name, status=st.ACTIVE if e['active'] else st.DONE, should_stop=bool(e['stop']))
      (ds.create_early_stopping_operation if op == 'createEs' else ds.update_early_stopping_operation)(proto)
      return 'ok'
    if op == 'getEs':
      e = ds.get_early_stopping_operation(resources.EarlyStoppingOperationResource(k[0], k[1], o['id']).name)
      return {'trial': int(resources.EarlyStoppingOperationResource.from_name(e.name).trial_id),
              'active': e.status == vizier_oss_pb2.EarlyStoppingOperation.Status.ACTIVE, 'stop': bool(e.should_stop)}
    if op == 'updateMetadata':
      study_md = svc.kv_list(o['study'])
      trial_md = []
      for tid, md in o['trials']:
        for kv in svc.kv_list(md):
          trial_md.append(vizier_service_pb2.UnitMetadataUpdate(trial_id=str(tid), metadatum=kv))
      ds.update_metadata(sname(k), study_md, trial_md)
      return 'ok'
    raise ValueError(op)
  except custom_errors.NotFoundError:
    return 'err:notFound'
  except custom_errors.AlreadyExistsError:
    return 'err:alreadyExists'
  except KeyError:
    return 'err:KeyError'
  except ValueError:
    return 'err:ValueError'      # malformed resource names / ids


def run_real(kind, ops):
  ds = make(kind)
  return [step(ds, o) for o in ops]


# ------------------------------------------------------------------ generator
STATES = ['ACTIVE', 'INACTIVE', 'COMPLETED']
TSTATES = ['REQUESTED', 'ACTIVE', 'STOPPING', 'SUCCEEDED', 'INFEASIBLE']


class Gen:
  """Stateful generator of raw datastore call sequences: keeps the set of live studies / trial ids /
  operations so that most calls hit existing objects; `guarded=True` never creates a trial or an
  operation in a study that does not exist (what the service guarantees)."""

  def __init__(self, rng, guarded, with_extra=True):
    self.rng, self.guarded, self.with_extra = rng, guarded, with_extra
    self.keys = [('o', 's'), ('o', 's1'), ('p', 's'), ('o', 't')]
    self.live = {}        # key -> {'trials': set, 'ops': {client: [nums]}}
    self.tok = 0

  def head(self):
    r = self.rng
    self.tok += 1
    return {'state': r.choice(STATES), 'spec': self.tok % 7, 'md': [['', 'k', 'v%d' % self.tok]] if r.random() < 0.4 else []}

  def trial(self, tid):
    r = self.rng
    self.tok += 1
    st = r.choice(TSTATES)
    return {'id': tid, 'state': st, 'client': r.choice(['', 'w1', 'w2']), 'params': self.tok,
            'meas': [[self.tok, True]] if r.random() < 0.3 else [], 'final': [self.tok, True] if st == 'SUCCEEDED' else None,
            'reason': '', 'md': [[':a', 'k', 'v']] if r.random() < 0.2 else []}

  def pick_key(self, want_live=True):
    r = self.rng
    live = [k for k in self.keys if k in self.live]
    if want_live and live and r.random() < 0.88:
      return r.choice(live)
    return r.choice(self.keys)

  def next(self):
    r = self.rng
    x = r.random()
    if not self.live or x < 0.10:
      k = self.pick_key(want_live=r.random() < 0.25)
      if k not in self.live:
        self.live[k] = {'trials': set(), 'ops': {}, 'es': set()}
      return {'op': 'createStudy', 'k': list(k), 'head': self.head()}
    if x < 0.15:
      return {'op': 'updateStudy', 'k': list(self.pick_key()), 'head': self.head()}
    if x < 0.21:
      k = self.pick_key()
      self.live.pop(k, None)
      return {'op': 'deleteStudy', 'k': list(k)}
    if x < 0.25:
      return {'op': 'loadStudy', 'k': list(self.pick_key())}
    if x < 0.29:
      return {'op': 'listStudies', 'o': r.choice(['o', 'o', 'p', 'q'])}
    k = self.pick_key(want_live=True if self.guarded else r.random() < 0.93)
    busy = [kk for kk, v in self.live.items() if v['trials'] or v['ops']]
    if busy and x >= 0.45 and r.random() < 0.7:
      k = r.choice(busy)            # reads / updates / deletes: prefer studies that hold something
    if self.guarded and k not in self.live:
      return {'op': 'loadStudy', 'k': list(k)}
    st = self.live.get(k, {'trials': set(), 'ops': {}, 'es': set()})
    ids = sorted(st['trials'])
    some_id = (r.choice(ids) if ids and r.random() < 0.85 else r.randrange(1, 9))
    if x < 0.45:
      tid = (max(ids) + 1 if ids else 1) if r.random() < 0.8 else some_id
      if k in self.live:
        st['trials'].add(tid)
      return {'op': 'createTrial', 'k': list(k), 'trial': self.trial(tid)}
    if x < 0.55:
      return {'op': 'updateTrial', 'k': list(k), 'trial': self.trial(some_id)}
    if x < 0.62:
      st['trials'].discard(some_id)
      return {'op': 'deleteTrial', 'k': list(k), 'id': some_id}
    if x < 0.67:
      return {'op': 'getTrial', 'k': list(k), 'id': some_id}
    if x < 0.73:
      return {'op': 'listTrials', 'k': list(k)}
    if x < 0.78:
      return {'op': 'maxTrialId', 'k': list(k)}
    if self.with_extra and x >= 0.78 and r.random() < 0.45:
      y = r.random()
      es_ids = st.setdefault('es', set()) if k in self.live else set()
      tid = r.choice(sorted(es_ids)) if es_ids and r.random() < 0.6 else r.randrange(1, 6)
      es = {'trial': tid, 'active': r.random() < 0.5, 'stop': r.random() < 0.5}
      if y < 0.30:
        if k in self.live:
          es_ids.add(tid)
        return {'op': 'createEs', 'k': list(k), 'es': es}
      if y < 0.50:
        if self.guarded and tid not in es_ids:
          return {'op': 'getEs', 'k': list(k), 'id': tid}      # the service only updates an operation it fetched
        if k in self.live:
          es_ids.add(tid)                                        # RAM upserts
        return {'op': 'updateEs', 'k': list(k), 'es': es}
      if y < 0.65:
        return {'op': 'getEs', 'k': list(k), 'id': tid}
      # update_metadata: study part + per-trial parts (grouped by trial id, first occurrence order)
      self.tok += 1
      def md(lo=0):
        return [[r.choice(['', ':a', ':a:b']), r.choice(['k', 'k2', 'k3']), 'm%d' % self.tok] for _ in range(r.randrange(lo, 3))]
      ntr = r.randrange(0, 3)
      tids = []
      for _ in range(ntr):
        t = r.choice(ids) if ids and r.random() < 0.85 else r.randrange(1, 9)
        if t not in tids:
          tids.append(t)
      return {'op': 'updateMetadata', 'k': list(k), 'study': md(), 'trials': [[t, md(1)] for t in tids]}     # a trial is named by at least one entry
    client = r.choice(['w1', 'w2', 'w3'])
    with_ops = [c for c, l in st['ops'].items() if l]
    if with_ops and x >= 0.87 and r.random() < 0.8:
      client = r.choice(with_ops)
    nums = st['ops'].setdefault(client, []) if k in self.live else []
    if x < 0.87:
      # the service numbers operations max+1 (1, 2, 3, …)
      num = (len(nums) + 1) if (self.guarded or r.random() < 0.85) else r.randrange(1, 5)
      if num not in nums and k in self.live:
        nums.append(num)
      return {'op': 'createOp', 'k': list(k), 'sop': {'client': client, 'num': num, 'done': r.random() < 0.5, 'result': None}}
    num = r.choice(nums) if nums and (self.guarded or r.random() < 0.85) else r.randrange(1, 5)
    if x < 0.91:
      if self.guarded and num not in nums:
        return {'op': 'listOps', 'k': list(k), 'client': client}    # the service only updates operations it fetched
      if num not in nums and k in self.live and client in st['ops']:
        nums.append(num)       # RAM upserts
      return {'op': 'updateOp', 'k': list(k), 'sop': {'client': client, 'num': num, 'done': True, 'result': r.choice([None, 'error'])}}
    if x < 0.94:
      return {'op': 'getOp', 'k': list(k), 'client': client, 'num': num}
    if x < 0.97:
      return {'op': 'listOps', 'k': list(k), 'client': client}
    return {'op': 'maxOpNumber', 'k': list(k), 'client': client}

  def sequence(self, n):
    return [self.next() for _ in range(n)]
