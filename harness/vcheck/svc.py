"""Helpers to drive the real Vizier service in-process (shims installed first)."""
import os
import shutil
import tempfile

import shim
shim.install()

from vizier._src.service import vizier_service  # noqa: E402
from vizier._src.service import vizier_service_pb2 as vsp  # noqa: E402
from vizier._src.service import study_pb2  # noqa: E402
from vizier._src.service import key_value_pb2  # noqa: E402
from vizier._src.service import pythia_service_pb2  # noqa: E402
from google.longrunning import operations_pb2  # noqa: E402

BACKENDS = ('ram', 'sqlmem', 'sqlfile')
_tmpdirs = []


def make_servicer(backend, pythia=None, **kw):
  if backend == 'ram':
    url = None
  elif backend == 'sqlmem':
    url = 'sqlite:///:memory:'
  elif backend == 'sqlfile':
    d = tempfile.mkdtemp(prefix='vverif_sql_')
    _tmpdirs.append(d)
    url = 'sqlite:///' + os.path.join(d, 'vizier.db')
  else:
    url = backend
  return vizier_service.VizierServicer(database_url=url, default_pythia_service=pythia, **kw)


def cleanup():
  while _tmpdirs:
    shutil.rmtree(_tmpdirs.pop(), ignore_errors=True)


def err_class(e):
  """Map an exception escaping a servicer method to (class, via)."""
  from vizier._src.service import custom_errors, grpc_util
  if isinstance(e, grpc_util.LocalRpcError):
    code = e.code()
    return (code.name, 'handled')
  if isinstance(e, custom_errors.NotFoundError):
    return ('NOT_FOUND', 'raw')
  if isinstance(e, custom_errors.AlreadyExistsError):
    return ('ALREADY_EXISTS', 'raw')
  if isinstance(e, custom_errors.ImmutableStudyError) or isinstance(e, custom_errors.ImmutableTrialError):
    return ('FAILED_PRECONDITION', 'raw')
  return (type(e).__name__, 'raw')


def simple_study_spec(algorithm='RANDOM_SEARCH', metrics=(('obj', 'MAXIMIZE'),), metadata=()):
  spec = study_pb2.StudySpec(algorithm=algorithm)
  p = spec.parameters.add(parameter_id='x')
  p.double_value_spec.min_value = 0.0
  p.double_value_spec.max_value = 1.0
  for mid, goal in metrics:
    spec.metrics.add(metric_id=mid, goal=getattr(study_pb2.StudySpec.MetricSpec.GoalType, goal))
  for ns, k, v in metadata:
    spec.metadata.add(ns=ns, key=k, value=v)
  return spec


def create_study(servicer, owner='o', display='s', spec=None):
  req = vsp.CreateStudyRequest(parent='owners/' + owner,
                               study=study_pb2.Study(display_name=display, study_spec=spec or simple_study_spec()))
  return servicer.CreateStudy(req)


def kv_list(entries):
  return [key_value_pb2.KeyValue(ns=ns, key=k, value=v) for ns, k, v in entries]


def md_tuples(container):
  """metadata of a StudySpec / Trial proto as [ns, key, value] lists in stored order."""
  out = []
  for kv in container.metadata:
    if kv.HasField('proto'):
      out.append([kv.ns, kv.key, 'PROTO:' + kv.proto.type_url + ':' + kv.proto.value.hex()])
    else:
      out.append([kv.ns, kv.key, kv.value])
  return out
