"""The Pythia glue (service_policy_supporter.py / pythia_service.py) - premises "GetTrials filters ONE ListTrials snapshot",
"the supporter catches nothing", "a failing policy leaves PythiaServicer as one documented class" of the deployment, loader
and failure models (Model/Deploy.lean `algFailure`, Model/Loader.lean `getTrialsF`; used by C08 / C12 / C06).

  translate(c)   regenerate lean/VizierModel/Generated/PythiaShape.lean from the source of `core.REPO`
                 (harness/translators/pythia_shape.py), register the obligation 'translator: every supporter method / Pythia
                 handler recognised', put the tables into `c.coverage_extra['pythia_shape']`.  Call it BEFORE `c.proof_stage()`
                 when the modules of lean/theorems/PythiaShape.json are part of the property's theorem file, so that the build
                 sees the tables of the tree under test.  `stage` calls it if nobody did.
  stage(c)       1. obligations (`c.add_obligation`): the criteria of Model/PythiaShape.lean evaluated in Python on the
                    extracted tables (with the offending method in the detail), and 'lean kernel, this run's table:
                    pythiashape_*' - the SAME statements as the table theorems of Props/PythiaShape.lean, decided by the kernel
                    on this run's tables in a file private to the run (a concurrent run on another tree, which rewrites
                    Generated/PythiaShape.lean, cannot change the verdict; cached by content).
                 2. ALWAYS, the dynamic confirmation on the REAL code:
                    * a `DefaultVizierServer` (RAM datastore; SQLite in memory as well in the thorough tier) holds a study with
                      trials in every state, one of them DELETED (the ids have a gap), and a second study.  A real
                      `ServicePolicySupporter` over a recording proxy of the in-process `VizierServicer` and a second one over a
                      recording proxy of the gRPC stub OF THE SAME SERVER (same datastore contents) are given the same calls:
                      every public method; GetStudyConfig of the study, the other study, a missing study; GetTrials without
                      arguments, with `trial_ids` naming existing, deleted and never-existing ids, with min / max id, with each
                      status, with combinations, without intermediate measurements, of the other and of a missing study.
                        - recorded RPC names vs `admits` of the table generated from this tree (`c.tie_break`);
                        - the GetTrials answer vs `Loader.getTrialsF` on the server's ListTrials (`c.tie_break`);
                        - a deleted / never-existing id is simply absent, the other requested trials are delivered, nothing is
                          raised (`c.prop_fail('supporter-gettrials-missing-id-not-absent', ...)`);
                        - both transports give the same answer / the same error class
                          (`c.prop_fail('supporter-differs-by-transport:<method>', ...)`).
                    * a real `PythiaServicer` around a scripted policy that raises one exception class after the other
                      (ValueError, KeyError, custom_errors.NotFoundError raised by a supporter lookup, a grpc.RpcError, ...):
                      the class that leaves `Suggest` / `EarlyStop` vs what the generated handler table predicts
                      (`c.tie_break`), and vs the criterion: ONE documented class, RuntimeError
                      (`c.prop_fail('pythia-policy-failure-not-wrapped:<Method>', ...)`; the case carries the consequence
                      observed through the service: the error class of CheckTrialEarlyStoppingState / the operation of
                      SuggestTrials in the local and in the split deployment for a policy whose lookup of a missing study fails).
Quick tier: about 2 s besides the import of vizier (and about 3 s for the kernel the first time a table is seen)."""
import time

from vcheck import core

ONCE, COND, LOOP = 'once', 'cond', 'loop'
DOCUMENTED_FAILURE = 'reraiseAs RuntimeError'
DOCUMENTED_CLASS = 'RuntimeError'
RPC_ERROR_ACTIONS = ('reraiseAs RpcError', 'reraiseAs LocalRpcError', 'reraiseAs _InactiveRpcError', 'reraiseAs AioRpcError')
ASSUMED_HANDLERS = {'EarlyStop': [], 'Suggest': [(['Exception'], DOCUMENTED_FAILURE)]}
INTENDED_HANDLERS = {'EarlyStop': [(['Exception'], DOCUMENTED_FAILURE)], 'Suggest': [(['Exception'], DOCUMENTED_FAILURE)]}
STATUS_CLASSES = ('FAILED_PRECONDITION', 'NOT_FOUND', 'ALREADY_EXISTS')


# ----------------------------------------------------------------------------------------------- Python mirror of the model
def admits(shape, seq, prefix=False):
  """Model/PythiaShape.lean `admits` (complete runs); with `prefix` the runs cut short by an RPC that raised"""
  shape, seq = list(shape), list(seq)
  memo = {}

  def go(i, j):
    if (i, j) in memo:
      return memo[(i, j)]
    if j == len(seq) and prefix:
      r = True
    elif i == len(shape):
      r = j == len(seq)
    else:
      name, tag = shape[i]
      hit = j < len(seq) and seq[j] == name
      if tag == ONCE:
        r = hit and go(i + 1, j + 1)
      elif tag == COND:
        r = go(i + 1, j) or (hit and go(i + 1, j + 1))
      else:
        r = go(i + 1, j) or (hit and go(i, j + 1))
    memo[(i, j)] = r
    return r
  return go(0, 0)


def catches_all(classes):
  return 'Exception' in classes or 'BaseException' in classes


def wraps_as(action, clauses):
  """Model/PythiaShape.lean `wrapsAs`"""
  for classes, a in clauses:
    if a != action:
      return False
    if catches_all(classes):
      return True
  return False


def method_wraps(handlers, m):
  return m in handlers and wraps_as(DOCUMENTED_FAILURE, handlers[m]) and DOCUMENTED_FAILURE not in RPC_ERROR_ACTIONS


def _norm_handlers(h):
  return {m: [(list(cs), a) for cs, a in v] for m, v in h.items()}


def get_trials_f(env, ids, min_id, max_id, status):
  """Model/Loader.lean `getTrialsF` on [(id, status)]: ids AND min AND max AND status, the table order kept"""
  return [(i, s) for i, s in env
          if (ids is None or i in ids) and (min_id is None or min_id <= i) and (max_id is None or i <= max_id) and (status is None or s == status)]


def criteria(res):
  """-> [(name, ok, detail)]: the criteria of Model/PythiaShape.lean on the extracted tables"""
  from translators import pythia_shape as ps
  shape, catches, handlers = res['shape'], res['catches'], _norm_handlers(res['handlers'])
  W = set(ps.WRITING)
  show = lambda m, sh: '%s: %s' % (m, ', '.join('%s[%s]' % tuple(e) for e in sh) or '-')  # noqa: E731
  gt, gs = shape.get('GetTrials'), shape.get('GetStudyConfig')
  ok1 = gt is not None and [tuple(e) for e in gt] == [('ListTrials', ONCE)]
  ok2 = gs is not None and [tuple(e) for e in gs] == [('GetStudy', ONCE)]
  bad3 = ['%s catches %s' % (m, ', '.join(v)) for m, v in sorted(catches.items()) if v]
  if sorted(catches) != sorted(shape):
    bad3.append('methods without a row: %s' % ', '.join(sorted(set(shape) ^ set(catches))))
  bad4 = [show(m, sh) for m, sh in sorted(shape.items()) if any(r in W and r != 'UpdateMetadata' for r, _ in sh)]
  known = handlers in (_norm_handlers(ASSUMED_HANDLERS), _norm_handlers(INTENDED_HANDLERS))
  hs = '; '.join('%s: %s' % (m, ', '.join('%s -> %s' % ('|'.join(cs), a) for cs, a in v) or 'no except clause') for m, v in sorted(handlers.items()))
  return [
      ('pythiashape: GetTrials issues exactly one ListTrials, once, and no other RPC (getTrialsSingleRead)', ok1,
       '' if ok1 else ('GetTrials missing from the source' if gt is None else show('GetTrials', gt))),
      ('pythiashape: GetStudyConfig issues exactly one GetStudy, once (getStudyConfigSingleRead)', ok2,
       '' if ok2 else ('GetStudyConfig missing from the source' if gs is None else show('GetStudyConfig', gs))),
      ('pythiashape: no supporter method catches an exception class (supporterCatchesNothing)', not bad3, '; '.join(bad3[:6])),
      ('pythiashape: the only writing RPC a supporter method issues is UpdateMetadata (supporterReadsOnlyExceptMetadata)', not bad4, '; '.join(bad4[:6])),
      ('pythiashape: every Exception of policy.suggest leaves PythiaServicer.Suggest as RuntimeError (methodWraps Suggest)', method_wraps(handlers, 'Suggest'),
       '' if method_wraps(handlers, 'Suggest') else hs),
      ('pythiashape: the except clauses of Suggest / EarlyStop are a variant the models know (handlersKnown)', known, '' if known else hs),
  ]


# ----------------------------------------------------------------------------------------------- translation
def translate(c):
  st = getattr(c, '_pythiashape', None)
  if st is not None:
    return st
  from translators import pythia_shape
  res = pythia_shape.write(core.REPO, core.LEAN_DIR)
  detail = '; '.join(res['unknown'][:8] + ['missing ' + m for m in res['missing']])
  c.add_obligation('translator: every supporter method / Pythia handler recognised', not res['unknown'] and not res['missing'], detail)
  c.coverage_extra['pythia_shape'] = dict(pythia_shape.brief(res), unrecognised=res['unknown'], missing=res['missing'])
  c._pythiashape = res
  return res


LEAN_OBLIGATIONS = [
    ('pythiashape_matches', 'supporterShapeNow = assumedSupporterShape'),
    ('pythiashape_catches_match', 'supporterCatchesNow = assumedSupporterCatches'),
    ('pythiashape_handlers_known', 'handlersKnown pythiaHandlersNow = true'),
    ('pythiashape_gettrials_single_read', 'getTrialsSingleRead supporterShapeNow = true'),
    ('pythiashape_getstudyconfig_single_read', 'getStudyConfigSingleRead supporterShapeNow = true'),
    ('pythiashape_supporter_catches_nothing',
     'supporterCatchesNothing supporterCatchesNow = true ∧ catchesCoverShape supporterShapeNow supporterCatchesNow = true'),
    ('pythiashape_supporter_reads_only', 'supporterReadsOnlyExceptMetadata supporterShapeNow = true'),
    ('pythiashape_suggest_wraps', 'methodWraps pythiaHandlersNow "Suggest" = true'),
]
# decided by the kernel as well, but a FACT about the variant of the tree (as written: false; as intended: true), not an obligation
LEAN_FACTS = [
    ('pythiashape_wraps_everything', 'pythiaWrapsEverything pythiaHandlersNow = true'),
]


def private_check_text(res):
  """a Lean file private to this run: THIS run's tables and the table obligations of Props/PythiaShape.lean on them, one
  theorem per line, so that a failing one is identified by the line of the error"""
  from translators import pythia_shape
  lines = ['import VizierModel.Model.PythiaShape', 'namespace VizierModel.PythiaShape.Now', 'open VizierModel.PythiaShape', '']
  lines += pythia_shape.lean_defs(res, 'supporterShapeNow', 'supporterCatchesNow', 'pythiaHandlersNow').split('\n')
  marks = {}
  for name, stmt in LEAN_OBLIGATIONS + LEAN_FACTS:
    marks[len(lines) + 1] = name
    lines.append('theorem %s : %s := by decide' % (name, stmt))
  lines += ['end VizierModel.PythiaShape.Now', '']
  return '\n'.join(lines), marks


def assumed_tables():
  """the hand-written tables of Model/PythiaShape.lean, read back from its text (for the DETAIL of a failed `matches`
  obligation only; the comparison itself is the kernel's)"""
  import os
  import re
  src = open(os.path.join(core.LEAN_DIR, 'VizierModel', 'Model', 'PythiaShape.lean')).read()
  out = {}
  m = re.search(r'def assumedSupporterShape : Table := \[\n(.*?)\n\]', src, re.S)
  tbl = {}
  for row in re.finditer(r'^\s*\("([^"]+)", \[(.*)\]\),?\s*$', m.group(1) if m else '', re.M):
    tbl[row.group(1)] = [(a, b) for a, b in re.findall(r'\("([^"]+)", \.(\w+)\)', row.group(2))]
  out['shape'] = tbl
  m = re.search(r'def assumedSupporterCatches : Catches := \[\n(.*?)\n\]', src, re.S)
  tbl = {}
  for row in re.finditer(r'^\s*\("([^"]+)", \[(.*)\]\),?\s*$', m.group(1) if m else '', re.M):
    tbl[row.group(1)] = re.findall(r'"([^"]+)"', row.group(2))
  out['catches'] = tbl
  return out


def table_diff(now, assumed, fmt):
  d = []
  for m in sorted(set(now) | set(assumed)):
    a, b = now.get(m), assumed.get(m)
    if a is None:
      d.append('%s: gone from the source (model: %s)' % (m, fmt(b)))
    elif b is None:
      d.append('%s: new in the source: %s' % (m, fmt(a)))
    elif [tuple(x) if isinstance(x, (list, tuple)) else x for x in a] != [tuple(x) if isinstance(x, (list, tuple)) else x for x in b]:
      d.append('%s: source %s, model %s' % (m, fmt(a), fmt(b)))
  return d


def lean_obligation(c, res):
  """The kernel decides the table obligations of Props/PythiaShape.lean on THIS run's tables, in a file private to the run
  (lean/Audit/PythiaShapeNow_<pid>.lean, `lake env lean`).  Cached under the hash of the file and of the model files.
  Returns {fact name: bool} for LEAN_FACTS."""
  import hashlib
  import json
  import os
  import re
  text, marks = private_check_text(res)
  model = open(os.path.join(core.LEAN_DIR, 'VizierModel', 'Model', 'PythiaShape.lean')).read()
  model_dep = open(os.path.join(core.LEAN_DIR, 'VizierModel', 'Model', 'Loader.lean')).read()
  key = hashlib.sha1((text + '\0' + model + '\0' + model_dep).encode()).hexdigest()[:20]
  cdir = os.path.join(core.LEAN_DIR, 'Audit', 'pythiashape_cache')
  os.makedirs(cdir, exist_ok=True)
  cpath = os.path.join(cdir, key + '.json')
  names = [n for n, _ in LEAN_OBLIGATIONS + LEAN_FACTS]
  out = None
  if os.path.exists(cpath):
    try:
      out = json.load(open(cpath))
      if sorted(out) != sorted(names):
        out = None
    except ValueError:
      out = None
  if out is None:
    rc, so, se = core._run(['lake', 'build', 'VizierModel.Model.PythiaShape'], cwd=core.LEAN_DIR, timeout=1800)
    log = so + se
    if rc != 0 and re.search(r'unknown (command|executable)|No such file or directory: .lake', log):
      raise core.InfraError('lake unavailable: ' + log[-400:])
    if rc != 0:
      out = {name: [False, 'Model/PythiaShape.lean does not build: ' + log[-300:]] for name in names}
    else:
      fname = 'PythiaShapeNow_%d.lean' % os.getpid()
      fpath = os.path.join(core.LEAN_DIR, 'Audit', fname)
      with open(fpath, 'w') as f:
        f.write(text)
      try:
        rc, so, se = core._run(['lake', 'env', 'lean', 'Audit/' + fname], cwd=core.LEAN_DIR, timeout=1800)
      finally:
        try:
          os.remove(fpath)
        except OSError:
          pass
      log = so + se
      bad, other = {}, []
      for m in re.finditer(r'^(?:\S*%s):(\d+):\d+: error:?(.*)$' % re.escape(fname), log, re.M):
        ln = int(m.group(1))
        if ln in marks:
          bad[marks[ln]] = 'decide: false of the tables regenerated from this tree'
        else:
          other.append('line %d: %s' % (ln, m.group(2).strip()[:160]))
      if rc != 0 and not bad and not other:
        other.append(log[-300:])
      out = {}
      for name in names:
        if other:
          out[name] = [False, 'the private check file does not elaborate: ' + '; '.join(other[:3])]
        else:
          out[name] = [name not in bad, bad.get(name, '')]
      if not other:
        tmp = cpath + '.tmp%d' % os.getpid()
        with open(tmp, 'w') as f:
          json.dump(out, f)
        os.replace(tmp, cpath)
  diff = None
  for name, _ in LEAN_OBLIGATIONS:
    ok, detail = out[name]
    if not ok and name in ('pythiashape_matches', 'pythiashape_catches_match'):
      try:
        if diff is None:
          diff = assumed_tables()
        if name == 'pythiashape_matches':
          detail += ': ' + '; '.join(table_diff(res['shape'], diff['shape'], lambda sh: ', '.join('%s[%s]' % tuple(x) for x in sh) or '-')[:6])
        else:
          detail += ': ' + '; '.join(table_diff(res['catches'], diff['catches'], lambda v: ', '.join(v) or 'nothing')[:6])
      except Exception:  # pylint: disable=broad-except
        pass
    elif not ok and name in ('pythiashape_handlers_known', 'pythiashape_suggest_wraps'):
      detail += ': ' + '; '.join('%s: %s' % (m, ', '.join('%s -> %s' % ('|'.join(cs), a) for cs, a in v) or 'no except clause')
                                 for m, v in sorted(res['handlers'].items()))
    c.add_obligation('lean kernel, this run\'s table: %s' % name, ok, detail)
  facts = {}
  for name, _ in LEAN_FACTS:
    ok, detail = out[name]
    if detail.startswith('the private check file') or detail.startswith('Model/PythiaShape.lean does not build'):
      facts[name] = None
    else:
      facts[name] = bool(ok)
  return facts


# ----------------------------------------------------------------------------------------------- dynamic confirmation
class Recorder:
  """The service object handed to the supporter: forwards to the servicer / stub and records the names of the RPCs issued."""

  def __init__(self, target):
    self._t = target
    self.calls = []

  def __getattr__(self, name):
    fn = getattr(self._t, name)
    if name.startswith('_') or not callable(fn):
      return fn

    def call(request, *a, **k):
      self.calls.append(name)
      return fn(request, *a, **k)
    return call


def err_class(e):
  """the error class a caller can tell apart, whatever the transport (Deploy.classOf)"""
  import grpc
  from vizier._src.service import custom_errors
  if isinstance(e, grpc.RpcError):
    try:
      code = e.code().name
    except Exception:  # pylint: disable=broad-except
      code = 'UNKNOWN'
    return code if code in STATUS_CLASSES else 'OTHER'
  if isinstance(e, custom_errors.NotFoundError):
    return 'NOT_FOUND'
  if isinstance(e, custom_errors.AlreadyExistsError):
    return 'ALREADY_EXISTS'
  if isinstance(e, (custom_errors.ImmutableStudyError, custom_errors.ImmutableTrialError)):
    return 'FAILED_PRECONDITION'
  return 'OTHER'


class World:
  """one DefaultVizierServer: its in-process servicer and its gRPC stub share the datastore"""

  def __init__(self, backend):
    import shim
    shim.install()
    from vizier._src.service import service_policy_supporter, vizier_server
    from vizier._src.service import study_pb2, vizier_service_pb2
    from vizier.service import pyvizier as svz
    from vizier import pyvizier as vz
    self.sps, self.vsp, self.study_pb2, self.svz, self.vz = service_policy_supporter, vizier_service_pb2, study_pb2, svz, vz
    url = None if backend == 'ram' else 'sqlite:///:memory:'
    self.backend = backend
    self.server = vizier_server.DefaultVizierServer(database_url=url)
    self.servicer = self.server._servicer  # pylint: disable=protected-access
    self.stub = self.server.stub

  def close(self):
    try:
      self.server._server.stop(0)  # pylint: disable=protected-access
    except Exception:  # pylint: disable=broad-except
      pass

  # -- contents
  def populate(self, rng):
    """a study with trials in every state, one deleted in the middle (sometimes the last one as well); a second study"""
    from vcheck import svc
    vsp, study_pb2 = self.vsp, self.study_pb2
    s = self.servicer
    owner = 'o%d' % rng.randint(0, 9)
    self.study = svc.create_study(s, owner, 's%d' % rng.randint(0, 9)).name
    self.other = svc.create_study(s, owner, 't%d' % rng.randint(0, 9)).name
    self.missing = 'owners/%s/studies/nope%d' % (owner, rng.randint(0, 9))
    n = rng.randint(5, 8)
    ops = []
    for i in range(1, n + 1):
      t = study_pb2.Trial()
      p = t.parameters.add(parameter_id='x')
      p.value.number_value = round(rng.random(), 3)
      s.CreateTrial(vsp.CreateTrialRequest(parent=self.study, trial=t))
      ops.append('create')
    name = lambda i: '%s/trials/%d' % (self.study, i)  # noqa: E731
    # ACTIVE trials through the real RANDOM_SEARCH policy (its supporter is built by PythiaServicer itself)
    k = rng.randint(2, n - 1)
    s.SuggestTrials(vsp.SuggestTrialsRequest(parent=self.study, suggestion_count=k, client_id='w'))
    active = [i for i, st in self.table(self.study) if st == 'ACTIVE']
    rng.shuffle(active)
    with_meas = active[0]
    for step in range(1, rng.randint(2, 4)):
      m = study_pb2.Measurement(step_count=step)
      m.metrics.add(metric_id='obj', value=round(rng.random(), 3))
      s.AddTrialMeasurement(vsp.AddTrialMeasurementRequest(trial_name=name(with_meas), measurement=m))
    completed = active[:rng.randint(1, max(1, len(active) - 1))]
    for i in completed:
      fm = study_pb2.Measurement()
      fm.metrics.add(metric_id='obj', value=round(rng.random(), 3))
      s.CompleteTrial(vsp.CompleteTrialRequest(name=name(i), final_measurement=fm))
    rest = [i for i in active if i not in completed]
    if rest and rng.random() < 0.7:
      s.StopTrial(vsp.StopTrialRequest(name=name(rest[0])))
    deleted = [rng.randint(2, n - 1)]
    if rng.random() < 0.4:
      deleted.append(n)
    for i in deleted:
      s.DeleteTrial(vsp.DeleteTrialRequest(name=name(i)))
    for _ in range(2):
      t = study_pb2.Trial()
      p = t.parameters.add(parameter_id='x')
      p.value.number_value = round(rng.random(), 3)
      s.CreateTrial(vsp.CreateTrialRequest(parent=self.other, trial=t))
    self.n, self.deleted = n, deleted
    self.never = [n + rng.randint(2, 6), n + 40]
    self.env = self.table(self.study)
    self.env_other = self.table(self.other)
    return {'study': self.study, 'other_study': self.other, 'missing_study': self.missing, 'trials_created': n, 'suggested': k,
            'completed': sorted(completed), 'deleted': deleted, 'never_existing': self.never, 'table': [[i, st] for i, st in self.env]}

  def table(self, study):
    """[(id, status name)] of the study's ListTrials answer (what `Loader.Env` abstracts)"""
    trials = self.servicer.ListTrials(self.vsp.ListTrialsRequest(parent=study)).trials
    return [(t.id, t.status.name) for t in self.svz.TrialConverter.from_protos(trials)]


def supporter_plan(w, rng):
  """[(method, label, thunk(supporter), info)]: every public supporter method; GetTrials with every kind of filter"""
  vz = w.vz
  existing = [i for i, _ in w.env]
  plan = []

  def gt(label, **kw):
    shown = {k: (v.name if hasattr(v, 'name') else (sorted(v) if isinstance(v, (set, frozenset)) else v)) for k, v in kw.items()}
    plan.append(('GetTrials', label, (lambda sup, kw=kw: sup.GetTrials(**kw)), {'kwargs': shown, 'raw': kw}))

  plan.append(('study_guid', 'property', lambda sup: sup.study_guid, {}))
  plan.append(('CheckCancelled', 'no note', lambda sup: sup.CheckCancelled(), {}))
  plan.append(('CheckCancelled', 'note', lambda sup: sup.CheckCancelled('n'), {}))
  plan.append(('TimeRemaining', '', lambda sup: sup.TimeRemaining(), {}))
  plan.append(('GetStudyConfig', 'own study', lambda sup: sup.GetStudyConfig(w.study), {'study': w.study}))
  plan.append(('GetStudyConfig', 'other study', lambda sup: sup.GetStudyConfig(w.other), {'study': w.other}))
  plan.append(('GetStudyConfig', 'missing study', lambda sup: sup.GetStudyConfig(w.missing), {'study': w.missing}))
  gt('no arguments')
  some = sorted(rng.sample(existing, rng.randint(1, min(3, len(existing)))))
  gt('existing ids', trial_ids=some)
  gap = sorted(set(rng.sample(existing, rng.randint(1, min(3, len(existing)))) + w.deleted[:1] + w.never[:1]))
  rng.shuffle(gap)
  gt('existing, deleted and never-existing ids', trial_ids=gap)
  gt('a deleted id only', trial_ids=[w.deleted[0]])
  gt('a never-existing id only', trial_ids=[w.never[-1]])
  gt('every id up to max + 2 (the loader\'s request)', trial_ids=list(range(1, w.n + 3)))
  gt('ids as a set', trial_ids=frozenset(gap))
  gt('empty id list', trial_ids=[])
  lo, hi = sorted((rng.randint(0, w.n + 1), rng.randint(1, w.n + 2)))
  gt('min id', min_trial_id=lo)
  gt('max id', max_trial_id=hi)
  gt('min and max id', min_trial_id=lo, max_trial_id=hi)
  gt('min id above every trial', min_trial_id=w.n + 50)
  for st in (vz.TrialStatus.REQUESTED, vz.TrialStatus.ACTIVE, vz.TrialStatus.STOPPING, vz.TrialStatus.COMPLETED):
    gt('status ' + st.name, status_matches=st)
  gt('ids with gaps and status', trial_ids=gap, status_matches=rng.choice([vz.TrialStatus.ACTIVE, vz.TrialStatus.COMPLETED, vz.TrialStatus.REQUESTED]))
  gt('ids with gaps, min and max', trial_ids=list(range(1, w.n + 3)), min_trial_id=lo, max_trial_id=hi)
  gt('without intermediate measurements', include_intermediate_measurements=False)
  gt('ids with gaps, without intermediate measurements', trial_ids=gap, include_intermediate_measurements=False)
  gt('own study named', study_guid=w.study, trial_ids=gap)
  gt('other study', study_guid=w.other)
  gt('other study, ids of this one', study_guid=w.other, trial_ids=gap)
  gt('missing study', study_guid=w.missing)
  gt('missing study with ids', study_guid=w.missing, trial_ids=some)
  head, tail = plan[:1], plan[1:]
  rng.shuffle(tail)
  return head + tail


def _canon(w, value):
  """transport-independent, comparable form of what a supporter method returned"""
  svz, vz = w.svz, w.vz
  if isinstance(value, list) and all(isinstance(t, vz.Trial) for t in value):
    return ['trials', [svz.TrialConverter.to_proto(t).SerializeToString(deterministic=True).hex() for t in value]]
  if isinstance(value, vz.ProblemStatement):
    return ['problem', svz.StudyConfig.from_problem(value).to_proto().SerializeToString(deterministic=True).hex()]
  return ['value', repr(value)]


def _run_call(w, sup, rec, thunk):
  rec.calls = []
  try:
    value = thunk(sup)
    out = {'k': 'value', 'canon': _canon(w, value)}
    if isinstance(value, list) and all(isinstance(t, w.vz.Trial) for t in value):
      out['ids'] = [t.id for t in value]
      out['status'] = [t.status.name for t in value]
      out['n_measurements'] = [len(t.measurements) for t in value]
  except Exception as e:  # pylint: disable=broad-except
    out = {'k': 'raised', 'type': type(e).__name__, 'class': err_class(e)}
  out['rpcs'] = list(rec.calls)
  return out


def _short(out):
  o = {k: v for k, v in out.items() if k != 'canon'}
  if 'canon' in out and out['canon'][0] != 'trials':
    o['value'] = out['canon'][0] if out['canon'][0] == 'problem' else out['canon'][1][:80]
  return o


def confirm_supporter(c, res, backend, rng, label):
  """the supporter over the in-process servicer and over the gRPC stub of ONE server; returns the number of calls made"""
  w = World(backend)
  n = 0
  reported = c.__dict__.setdefault('_pythiashape_reported', set())
  try:
    setup = w.populate(rng)
    shape = res['shape']
    rec_l, rec_g = Recorder(w.servicer), Recorder(w.stub)
    sup_l = w.sps.ServicePolicySupporter(w.study, rec_l)
    sup_g = w.sps.ServicePolicySupporter(w.study, rec_g)
    plan = supporter_plan(w, rng)
    planned = set(m for m, _, _, _ in plan)
    missing = sorted(m for m in shape if m not in planned)
    c.add_obligation('dynamic confirmation (%s, %s): every public method of ServicePolicySupporter is called' % (label, backend), not missing,
                     'no arguments known for: ' + ', '.join(missing) if missing else '')
    for method, what, thunk, info in plan:
      local = _run_call(w, sup_l, rec_l, thunk)
      remote = _run_call(w, sup_g, rec_g, thunk)
      n += 1
      c.traces += 2
      case = {'stage': 'pythiashape', 'part': 'supporter', 'method': method, 'call': what, 'arguments': info.get('kwargs', info), 'backend': backend,
              'arrangement': label, 'setup': setup, 'in_process': _short(local), 'grpc_stub': _short(remote)}
      c.count(1, kind='pythiashape-supporter:%s:%s' % (method, local['k']))
      # (a) the generated table describes what the code did, over either transport
      for via, out in (('in-process', local), ('gRPC stub', remote)):
        if method in shape:
          if not admits(shape[method], out['rpcs'], prefix=out['k'] == 'raised'):
            c.tie_break('pythiashape: recorded RPCs of %s (%s) vs the table generated from this tree' % (method, via), case, out['rpcs'],
                        ['%s[%s]' % tuple(e) for e in shape[method]])
        else:
          c.tie_break('pythiashape: %s is called by the harness but is not in the generated table' % method, case, out['rpcs'], None)
      # (b) GetTrials of an existing study: the filter model on ONE ListTrials answer; gaps are simply absent
      if method == 'GetTrials':
        raw = info['raw']
        guid = raw.get('study_guid') or w.study
        if guid != w.missing:
          env = w.env if guid == w.study else w.env_other
          ids = raw.get('trial_ids')
          st = raw.get('status_matches')
          expect = get_trials_f(env, None if ids is None else set(ids), raw.get('min_trial_id'), raw.get('max_trial_id'), None if st is None else st.name)
          present = set(i for i, _ in env)
          has_gap = ids is not None and any(i not in present for i in ids)
          for via, out in (('in-process', local), ('gRPC stub', remote)):
            got = list(zip(out['ids'], out['status'])) if out['k'] == 'value' else None
            if got == expect:
              continue
            if has_gap:
              c.count(0, kind='pythiashape-fail:missing-id')
              if 'missing-id' not in reported:
                reported.add('missing-id')
                gone = sorted(i for i in ids if i not in present)
                c.prop_fail('supporter-gettrials-missing-id-not-absent',
                            'ServicePolicySupporter.GetTrials(%s) over the %s with ids %s not in the study (deleted / never created) %s; the trials of the '
                            'study that pass the filter are %s' % (
                                ', '.join('%s=%s' % kv for kv in sorted(info['kwargs'].items())), 'gRPC stub' if via != 'in-process' else 'in-process servicer', gone,
                                'raised %s (%s)' % (out.get('type'), out.get('class')) if got is None else 'answered trials %s' % [i for i, _ in got],
                                [i for i, _ in expect]), dict(case, via=via, expected_ids=[i for i, _ in expect]))
            else:
              c.tie_break('pythiashape: GetTrials answer (%s) vs Loader.getTrialsF on the ListTrials answer' % via, case,
                          got if got is not None else out, expect)
          if not raw.get('include_intermediate_measurements', True):
            for via, out in (('in-process', local), ('gRPC stub', remote)):
              if out['k'] == 'value' and any(out['n_measurements']):
                c.tie_break('pythiashape: include_intermediate_measurements=False leaves measurements (%s)' % via, case, out['n_measurements'], 0)
      # (c) the same answer through both transports (errors by class)
      same = (local['k'] == remote['k'] and (local['canon'] == remote['canon'] if local['k'] == 'value' else local['class'] == remote['class'])
              and local['rpcs'] == remote['rpcs'])
      if not same:
        c.count(0, kind='pythiashape-fail:transport:' + method)
        if ('transport', method) not in reported:
          reported.add(('transport', method))
          c.prop_fail('supporter-differs-by-transport:' + method,
                      'ServicePolicySupporter.%s (%s; %s) over the in-process servicer: %s; over the gRPC stub of the same server: %s' % (
                          method, what, ', '.join('%s=%s' % kv for kv in sorted(info.get('kwargs', info).items())) or 'no arguments',
                          _describe(local), _describe(remote)), case)
  finally:
    w.close()
  return n


def _describe(out):
  if out['k'] == 'raised':
    return 'raised %s (error class %s) after %s' % (out['type'], out['class'], ' -> '.join(out['rpcs']) or 'no RPC')
  if 'ids' in out:
    return 'trials %s after %s' % (out['ids'], ' -> '.join(out['rpcs']) or 'no RPC')
  return '%s after %s' % (out['canon'][0] if out['canon'][0] == 'problem' else out['canon'][1][:60], ' -> '.join(out['rpcs']) or 'no RPC')


# -- PythiaServicer
def _exception_menu(w_missing):
  """[(label, raiser(supporter))]: what the scripted policy raises"""
  import grpc
  from vizier._src.service import custom_errors, grpc_util

  class Odd(Exception):
    pass

  def rpc_error(_):
    e = grpc_util.LocalRpcError('scripted')
    e.set_code(grpc.StatusCode.NOT_FOUND)
    raise e

  def lookup(sup):
    sup.GetStudyConfig(w_missing)
    raise AssertionError('the lookup of a missing study did not fail')

  def lookup_trials(sup):
    sup.GetTrials(study_guid=w_missing)
    raise AssertionError('GetTrials of a missing study did not fail')

  def raiser(exc):
    def go(_):
      raise exc
    return go
  return [('ValueError', raiser(ValueError('v'))), ('KeyError', raiser(KeyError('k'))), ('TypeError', raiser(TypeError('t'))),
          ('RuntimeError', raiser(RuntimeError('r'))), ('AssertionError', raiser(AssertionError('a'))),
          ('custom_errors.NotFoundError', raiser(custom_errors.NotFoundError('nf'))),
          ('custom_errors.ImmutableStudyError', raiser(custom_errors.ImmutableStudyError('im'))),
          ('grpc.RpcError (LocalRpcError NOT_FOUND)', rpc_error), ('an Exception subclass', raiser(Odd('o'))),
          ('supporter.GetStudyConfig of a missing study', lookup), ('supporter.GetTrials of a missing study', lookup_trials)]


def predict(clauses, exc):
  """what the handler table says leaves the servicer when the policy raises `exc`: a class name, 'value', or None (`other`)"""
  mro = [k.__name__ for k in type(exc).__mro__]
  for classes, action in clauses:
    if any(k in mro for k in classes):
      if action.startswith('reraiseAs '):
        return action[len('reraiseAs '):]
      if action == 'reraise':
        return type(exc).__name__
      if action == 'swallow':
        return 'value'
      return None
  return type(exc).__name__


def _scripted_factory(state):
  from vizier import pythia
  from vizier import pyvizier as vz

  class Scripted(pythia.Policy):

    def __init__(self, supporter):
      self._supporter = supporter

    def suggest(self, request):
      if state['raiser'] is not None:
        state['raiser'](self._supporter)
      return pythia.SuggestDecision([vz.TrialSuggestion({'x': 0.5}) for _ in range(request.count)])

    def early_stop(self, request):
      if state['raiser'] is not None:
        state['raiser'](self._supporter)
      return pythia.EarlyStopDecisions([pythia.EarlyStopDecision(id=i, reason='r', should_stop=False) for i in request.trial_ids or []])

  def factory(problem_statement, algorithm, policy_supporter, study_name):
    del problem_statement, algorithm, study_name
    return Scripted(policy_supporter)
  return factory


def confirm_pythia(c, res, rng):
  """the class that leaves the real PythiaServicer for each raised class; the consequence through the service per deployment"""
  import shim
  shim.install()
  from vcheck import svc
  from vizier import pythia
  from vizier import pyvizier as vz
  from vizier._src.service import pythia_service, vizier_server, vizier_service
  from vizier._src.service import vizier_service_pb2 as vsp
  from vizier.service import pyvizier as svz
  handlers = _norm_handlers(res['handlers'])
  state = {'raiser': None}
  fac = _scripted_factory(state)
  servicer = vizier_service.VizierServicer(database_url=None)
  ps = pythia_service.PythiaServicer(servicer, policy_factory=fac)
  servicer.default_pythia_service = ps
  owner = 'p%d' % rng.randint(0, 9)
  study = svc.create_study(servicer, owner, 's').name
  missing = 'owners/%s/studies/nope' % owner
  servicer.SuggestTrials(vsp.SuggestTrialsRequest(parent=study, suggestion_count=2, client_id='w'))
  config = svz.StudyConfig.from_proto(servicer.GetStudy(vsp.GetStudyRequest(name=study)).study_spec)
  desc = vz.StudyDescriptor(config=config, guid=study, max_trial_id=2)
  sreq = svz.SuggestConverter.to_request_proto(pythia.SuggestRequest(study_descriptor=desc, count=1))
  sreq.algorithm = 'RANDOM_SEARCH'
  ereq = svz.EarlyStopConverter.to_request_proto(pythia.EarlyStopRequest(study_descriptor=desc, trial_ids=[1]))
  ereq.algorithm = 'RANDOM_SEARCH'
  menu = _exception_menu(missing)
  rng.shuffle(menu)
  n = 0
  unwrapped = {}
  for method, call, req in (('Suggest', ps.Suggest, sreq), ('EarlyStop', ps.EarlyStop, ereq)):
    # the policy that does not raise gives an answer (the scripted world is not what fails)
    state['raiser'] = None
    try:
      call(req)
    except Exception as e:  # pylint: disable=broad-except
      c.tie_break('pythiashape: PythiaServicer.%s around a policy that answers raised' % method, {'stage': 'pythiashape', 'part': 'pythia', 'method': method}, repr(e), 'an answer')
    for label, raiser in menu:
      state['raiser'] = raiser
      raised = None
      try:
        call(req)
        left = 'value'
      except Exception as e:  # pylint: disable=broad-except
        left = type(e).__name__
        raised = e
      # what the policy itself raised (for the prediction): run the raiser against a supporter of the same kind
      try:
        raiser(ps_supporter(servicer, study))
        orig = None
      except Exception as e0:  # pylint: disable=broad-except
        orig = e0
      n += 1
      c.traces += 1
      case = {'stage': 'pythiashape', 'part': 'pythia', 'method': method, 'policy_raises': label,
              'policy_exception': type(orig).__name__ if orig is not None else None, 'leaves_servicer_as': left,
              'handlers_of_this_tree': ['%s -> %s' % ('|'.join(cs), a) for cs, a in handlers.get(method, [])]}
      c.count(1, kind='pythiashape-pythia:%s:%s' % (method, left))
      if orig is not None and method in handlers:
        want = predict(handlers[method], orig)
        if want is not None and want != left:
          c.tie_break('pythiashape: class leaving PythiaServicer.%s vs the handler table generated from this tree' % method, case, left, want)
      import grpc
      if left != DOCUMENTED_CLASS or (raised is not None and isinstance(raised, grpc.RpcError)):
        unwrapped.setdefault(method, []).append(case)
  state['raiser'] = None
  consequence = deployment_consequence(c, rng)
  for method, cases in sorted(unwrapped.items()):
    c.count(0, kind='pythiashape-fail:not-wrapped:' + method)
    cases = sorted(cases, key=lambda x: 0 if x['policy_raises'].startswith('supporter.GetStudyConfig') else 1)   # the one the service-level consequence uses
    first = cases[0]
    c.prop_fail('pythia-policy-failure-not-wrapped:' + method,
                'PythiaServicer.%s around a policy that raises %s leaves as %s, not as the documented RuntimeError (%d of %d raised classes leave unwrapped: %s)%s' % (
                    method, first['policy_raises'], first['leaves_servicer_as'], len(cases), len(menu),
                    ', '.join('%s -> %s' % (x['policy_raises'], x['leaves_servicer_as']) for x in cases[:4]),
                    '; through the service: ' + consequence['summary'] if consequence else ''),
                dict(first, all_unwrapped=[[x['policy_raises'], x['leaves_servicer_as']] for x in cases], through_the_service=consequence))
  if consequence is not None:
    for rpc, per in sorted(consequence['per_rpc'].items()):
      classes = set(json_key(v) for v in per.values())
      if len(classes) > 1 and not unwrapped:
        c.prop_fail('pythia-failure-class-differs-by-deployment:' + rpc,
                    '%s with a policy whose supporter lookup of a missing study fails answers %s' % (rpc, ', '.join('%s: %s' % kv for kv in sorted(per.items()))),
                    {'stage': 'pythiashape', 'part': 'deployment', 'rpc': rpc, 'per_deployment': per})
  c.flags['pythia_earlystop_wraps'] = 'EarlyStop' not in unwrapped
  c.flags['pythia_suggest_wraps'] = 'Suggest' not in unwrapped
  return n


def json_key(v):
  import json
  return json.dumps(v, sort_keys=True, default=str)


def ps_supporter(servicer, study):
  from vizier._src.service import service_policy_supporter
  return service_policy_supporter.ServicePolicySupporter(study, servicer)


def deployment_consequence(c, rng):
  """CheckTrialEarlyStoppingState / SuggestTrials with a policy whose lookup of a missing study (through its supporter) fails:
  what the caller sees in the local and in the split deployment"""
  from vcheck import svc
  from vizier._src.service import pythia_service, vizier_server, vizier_service
  from vizier._src.service import vizier_service_pb2 as vsp
  import grpc
  state = {'raiser': None}
  fac = _scripted_factory(state)
  per_rpc = {'CheckTrialEarlyStoppingState': {}, 'SuggestTrials': {}}
  owner = 'd%d' % rng.randint(0, 9)
  missing = 'owners/%s/studies/nope' % owner

  def lookup(sup):
    sup.GetStudyConfig(missing)

  def drive(api, deployment):
    state['raiser'] = None
    study = svc.create_study(api, owner, 's').name
    api.SuggestTrials(vsp.SuggestTrialsRequest(parent=study, suggestion_count=1, client_id='w'))
    state['raiser'] = lookup
    try:
      r = api.CheckTrialEarlyStoppingState(vsp.CheckTrialEarlyStoppingStateRequest(trial_name=study + '/trials/1'))
      per_rpc['CheckTrialEarlyStoppingState'][deployment] = ['value', bool(r.should_stop)]
    except Exception as e:  # pylint: disable=broad-except
      per_rpc['CheckTrialEarlyStoppingState'][deployment] = ['error', err_class(e)]
    try:
      op = api.SuggestTrials(vsp.SuggestTrialsRequest(parent=study, suggestion_count=2, client_id='w'))
      per_rpc['SuggestTrials'][deployment] = ['operation', bool(op.done), 'error code %d' % op.error.code if op.HasField('error') else 'no error']
    except Exception as e:  # pylint: disable=broad-except
      per_rpc['SuggestTrials'][deployment] = ['error', err_class(e)]
    state['raiser'] = None
    c.traces += 2

  s = vizier_service.VizierServicer(database_url=None)
  s.default_pythia_service = pythia_service.PythiaServicer(s, policy_factory=fac)
  drive(s, 'local')
  d = vizier_server.DistributedPythiaVizierServer(database_url=None, policy_factory=fac)
  try:
    drive(d.stub, 'split')
  finally:
    d._server.stop(0)  # pylint: disable=protected-access
    d._pythia_server.stop(0)  # pylint: disable=protected-access
  summary = '; '.join('%s answers %s' % (rpc, ', '.join('%s in the %s deployment' % (' '.join(str(x) for x in v), k) for k, v in sorted(per.items())))
                      for rpc, per in sorted(per_rpc.items()))
  return {'policy': 'early_stop / suggest call supporter.GetStudyConfig(%r), a study that does not exist' % missing, 'per_rpc': per_rpc, 'summary': summary}


def stage(c):
  """obligations on the regenerated tables + the dynamic confirmation; returns the number of supporter / servicer calls made"""
  import random
  t0 = time.time()
  res = translate(c)
  for name, ok, detail in criteria(res):
    c.add_obligation(name, ok, detail)
  facts = lean_obligation(c, res)
  handlers = _norm_handlers(res['handlers'])
  py_wraps = method_wraps(handlers, 'Suggest') and method_wraps(handlers, 'EarlyStop')
  c.flags['pythia_wraps_everything'] = {'python mirror': py_wraps, 'lean kernel': facts.get('pythiashape_wraps_everything')}
  if facts.get('pythiashape_wraps_everything') is not None and facts['pythiashape_wraps_everything'] != py_wraps:
    c.add_obligation('pythiashape: Python mirror of pythiaWrapsEverything agrees with the kernel', False, 'mirror %s, kernel %s' % (py_wraps, facts['pythiashape_wraps_everything']))
  t1 = time.time()
  rng = random.Random(c.seed * 1000003 + 314159)            # a stream of its own: the host property's stream is not moved
  runs = [('ram', 'a')] if c.tier == 'quick' else [('ram', 'a'), ('sqlmem', 'b'), ('ram', 'c'), ('sqlmem', 'd')]
  n = 0
  for backend, label in runs:
    try:
      n += confirm_supporter(c, res, backend, rng, label)
    except core.InfraError:
      raise
    except Exception as e:  # pylint: disable=broad-except
      import traceback
      c.tie_break('pythiashape: the dynamic confirmation could not drive the supporter', {'stage': 'pythiashape', 'backend': backend,
                  'traceback': traceback.format_exc()[-1500:]}, repr(e), None)
  t2 = time.time()
  try:
    n += confirm_pythia(c, res, rng)
  except core.InfraError:
    raise
  except Exception as e:  # pylint: disable=broad-except
    import traceback
    c.tie_break('pythiashape: the dynamic confirmation could not drive PythiaServicer', {'stage': 'pythiashape',
                'traceback': traceback.format_exc()[-1500:]}, repr(e), None)
  # the variant the tables say vs the variant the real servicer shows
  dyn = c.flags.get('pythia_earlystop_wraps')
  if dyn is not None and 'EarlyStop' in handlers and dyn != method_wraps(handlers, 'EarlyStop'):
    c.tie_break('pythiashape: EarlyStop wraps policy failures: real servicer vs the handler table generated from this tree',
                {'stage': 'pythiashape', 'part': 'variant'}, dyn, method_wraps(handlers, 'EarlyStop'))
  c.count(0, nontrivial_key=('pythiashape', len(runs)))
  c.sample({'stage': 'pythiashape', 'calls_made': n, 'backends': sorted(set(b for b, _ in runs))})
  c.flags['pythiashape_seconds'] = {'translate+criteria+lean': round(t1 - t0, 1), 'supporter': round(t2 - t1, 1), 'pythia': round(time.time() - t2, 1)}
  return n
