"""Client layer (clients.Study / clients.Trial over VizierClient) against its Lean model.

`stage(c, prop, backends)`:
  1. generates client-level programs statefully (several workers through ONE `clients.Study` handle made by
     `Study.from_study_config`, infeasible completions with reasons from [None, '', 'bad', ' '], completions with /
     without final measurement and earlier intermediate measurements, missing and deleted trial ids, inactive /
     completed / deleted studies, scripted algorithm outcomes `ok n-2..n+3 | raise`),
  2. runs them on the REAL client library against the in-process servicer (RAM / SQLite in memory), recording per
     call the observation, the RPCs the client issued (with the client_id it told the service), the datastore
     snapshot and the `Study.trials()` view,
  3. pipes the same programs to `Drivers/Client.lean` and compares per step (tie),
  4. ALWAYS judges the REAL observations / snapshots with the executable predicates of `Model/ClientSpec.lean`
     (the ones the theorems of `Props/Client.lean` are about) and reports failures through `c.prop_fail` with a
     shrunk concrete program.
Nothing ever reaches the default local servicer / vizier.db: the client library's service lookup is pinned to the
deployment under test for the duration of each program.
"""
import copy
import json
import time
import types

from vcheck import core, svc, svccheck, svcreal, deploy

from vizier.service import clients  # noqa: E402
from vizier.service import pyvizier as vz  # noqa: E402
from vizier._src.service import vizier_client, custom_errors  # noqa: E402
from vizier.client import client_abc  # noqa: E402
import grpc  # noqa: E402

HANDLE = {'owner': 'o', 'sid': 's', 'cid': 'unused_client_id'}
WORKERS = ['w1', 'w2', 'w3']
ALL_CLIENT_IDS = WORKERS + ['unused_client_id', 'default_client_id']
REASONS = [None, '', 'bad', ' ']
POLL_BOUND = 5          # GetOperation calls one `suggest` may issue before the harness stops the loop
NSS = ['', ':algo', ':user', ':a:b']
KEYS = ['k', 'j']
VALS = ['', 'v', 'w']

# which predicates a property judges (the tie is always complete; when the tie breaks on a program, that program
# is judged with every predicate so that a concrete failing input is reported)
PREDICATES = {
    'C01': ('infeasible', 'lifecycle', 'views', 'promised', 'effects', 'valueError', 'earlyStop'),
    'C02': ('assigned', 'two-workers', 'lifecycle', 'promised'),
    'C06': ('reported', 'poll', 'lifecycle'),
}
ALL_PREDICATES = ('infeasible', 'lifecycle', 'views', 'assigned', 'two-workers', 'reported', 'poll', 'promised', 'effects', 'valueError', 'earlyStop')
LEAN_PREDICATES = ('infeasible', 'assigned', 'reported', 'poll', 'lifecycle', 'views', 'promised', 'effects', 'valueError', 'earlyStop')

WEIGHTS = {
    'C01': {'suggest': 10, 'complete': 14, 'add_measurement': 6, 'stop': 4, 'delete_trial': 3, 'trials': 4, 'get_trial': 2,
            'materialize': 3, 'request': 2, 'add_trial': 3, 'check_early_stopping': 2, 'update_metadata': 3, 'set_state': 3,
            'materialize_state': 1, 'delete_study': 0.5, 'create': 1, 'from_resource_name': 1, 'optimal': 1, 'get_suggestions': 0.5},
    'C02': {'suggest': 22, 'complete': 8, 'add_measurement': 1, 'stop': 2, 'delete_trial': 4, 'trials': 2, 'get_trial': 1,
            'materialize': 1, 'request': 5, 'add_trial': 4, 'check_early_stopping': 0.5, 'update_metadata': 1, 'set_state': 2,
            'materialize_state': 0.5, 'delete_study': 0.5, 'create': 1, 'from_resource_name': 0.5, 'optimal': 0.5, 'get_suggestions': 1.5},
    'C06': {'suggest': 20, 'complete': 7, 'add_measurement': 2, 'stop': 2, 'delete_trial': 2, 'trials': 2, 'get_trial': 1,
            'materialize': 1, 'request': 2, 'add_trial': 2, 'check_early_stopping': 6, 'update_metadata': 1, 'set_state': 2,
            'materialize_state': 0.5, 'delete_study': 0.5, 'create': 1, 'from_resource_name': 0.5, 'optimal': 0.5, 'get_suggestions': 1.5},
}
FAIL_RATE = {'C01': 0.12, 'C02': 0.10, 'C06': 0.40}


class _PollBound(Exception):
  """Raised by the harness inside GetOperation when one `suggest` polled more than POLL_BOUND times."""


class _Api:
  """The service object handed to the client library: forwards to the servicer, records which RPCs the client
  issues (and the client_id of SuggestTrials requests), bounds the polling loop."""

  def __init__(self, target):
    self._t = target
    self.calls = []
    self.recording = True
    self.getops = 0

  def begin(self):
    self.calls, self.getops = [], 0

  def __getattr__(self, name):
    fn = getattr(self._t, name)
    if not callable(fn):
      return fn

    def call(request, *a, **k):
      if self.recording:
        if name == 'GetOperation':
          if self.getops >= POLL_BOUND:
            raise _PollBound()          # the (POLL_BOUND+1)-th poll of one call is not made: the loop is declared endless
          self.getops += 1
        self.calls.append([name, request.client_id if name == 'SuggestTrials' else None])
      return fn(request, *a, **k)
    return call


# ------------------------------------------------------------------------------------------ canonical observations
def exc_obs(e):
  if isinstance(e, _PollBound):
    return {'k': 'polling'}
  if isinstance(e, client_abc.ResourceNotFoundError):
    cls = 'ResourceNotFoundError'
  elif isinstance(e, grpc.RpcError) and hasattr(e, 'code'):
    code = e.code().name
    cls = code if code in deploy.STATUS else 'OTHER'
  elif isinstance(e, custom_errors.NotFoundError):
    cls = 'NOT_FOUND'
  elif isinstance(e, custom_errors.AlreadyExistsError):
    cls = 'ALREADY_EXISTS'
  elif isinstance(e, RuntimeError):
    cls = 'RuntimeError'
  elif isinstance(e, ValueError):
    cls = 'ValueError'
  else:
    cls = 'OTHER'
  return {'k': 'exc', 'cls': cls}


def meas_json(m):
  return None if m is None else [int(m.steps), len(m.metrics) > 0]


def vz_trial_json(t):
  if t.status == vz.TrialStatus.COMPLETED:
    state = 'INFEASIBLE' if t.infeasible else 'SUCCEEDED'
  else:
    state = t.status.name
  x = t.parameters.get('x')
  md = []
  for ns in t.metadata.namespaces():
    for k, v in t.metadata.abs_ns(ns).items():
      md.append([ns.encode(), k, v if isinstance(v, str) else 'PROTO'])
  return {'id': int(t.id), 'state': state, 'client': t.assigned_worker or '', 'params': -1 if x is None else int(x.value),
          'meas': [meas_json(m) for m in t.measurements], 'final': meas_json(t.final_measurement),
          'reason': t.infeasibility_reason or '', 'md': sorted(md)}


def canon_obs(o):
  """Model-side observation in the shape the real side is rendered in (metadata of trial views sorted)."""
  o = copy.deepcopy(o)
  if o.get('k') == 'trial':
    o['v']['md'] = sorted(o['v']['md'])
  if o.get('k') == 'trials':
    for t in o['v']:
      t['md'] = sorted(t['md'])
  return o


def make_measurement(m):
  tok, has = m
  # every third measurement reports the value 0.0 (a metric with the value zero is a metric; the step count keeps
  # the measurements apart)
  return vz.Measurement(metrics={'obj': 0.0 if int(tok) % 3 == 0 else float(tok)} if has else {}, steps=int(tok))


def make_metadata(kvs):
  md = vz.Metadata()
  for ns, k, v in kvs:
    md.abs_ns(vz.Namespace.decode(ns))[k] = v
  return md


def client_md_order(kvs):
  """The order in which the client library serialises a vz.Metadata built from `kvs`: the root namespace first, then
  the namespaces in order of first use; keys in order of insertion."""
  order = ['']
  for ns, _, _ in kvs:
    if ns not in order:
      order.append(ns)
  return [kv for ns in order for kv in kvs if kv[0] == ns]


def make_config(spec):
  sc = vz.StudyConfig()
  sc.search_space.root.add_float_param('x', 0.0, 1000.0 + spec)
  sc.metric_information.append(vz.MetricInformation('obj', goal=vz.ObjectiveMetricGoal.MAXIMIZE))
  sc.algorithm = 'RANDOM_SEARCH'
  return sc


# ------------------------------------------------------------------------------------------------- the real client
class ClientRunner:
  """One in-process deployment + the real client library on top of it."""

  def __init__(self, backend):
    self.dep = deploy.Deployment('local', backend)
    self.api = _Api(self.dep.api)
    self.rr = svcreal.RealRunner(backend, api=self.dep.api, ds=self.dep.ds, pythia_obj=self.dep.script)
    self.rr.owners = [HANDLE['owner']]
    self.rr.clients = list(ALL_CLIENT_IDS)
    self.study = None

  def _pin(self):
    saved = (vizier_client.create_vizier_servicer_or_stub, vizier_client._create_local_vizier_servicer,  # pylint: disable=protected-access
             vizier_client.environment_variables.server_endpoint, vizier_client.time)
    vizier_client.create_vizier_servicer_or_stub = lambda: self.api
    vizier_client._create_local_vizier_servicer = lambda: self.api  # pylint: disable=protected-access
    vizier_client.environment_variables.server_endpoint = vizier_client.constants.NO_ENDPOINT
    vizier_client.time = types.SimpleNamespace(sleep=lambda s: None)
    return saved

  @staticmethod
  def _unpin(saved):
    (vizier_client.create_vizier_servicer_or_stub, vizier_client._create_local_vizier_servicer,  # pylint: disable=protected-access
     vizier_client.environment_variables.server_endpoint, vizier_client.time) = saved

  def _trial(self, tid):
    # a worker keeps the handle of its trial across calls: ONE clients.Trial object per (client, trial id) for the
    # whole program (whatever a handle remembers between calls is part of what is checked)
    cache = self.__dict__.setdefault('_trial_handles', {})
    key = (id(self.study._client), int(tid))  # pylint: disable=protected-access
    if key not in cache:
      cache[key] = (self.study._client, clients.Trial(self.study._client, int(tid)))  # pylint: disable=protected-access
    return cache[key][1]

  def _call(self, s):
    op, study = s['c'], self.study
    if op == 'create':
      self.study = clients.Study.from_study_config(make_config(s.get('spec', 0)), owner=HANDLE['owner'], study_id=HANDLE['sid'])
      r = vizier_client.resources.StudyResource.from_name(self.study.resource_name)
      return {'k': 'study', 'owner': r.owner_id, 'sid': r.study_id}
    if op == 'from_resource_name':
      s2 = clients.Study.from_resource_name('owners/%s/studies/%s' % (HANDLE['owner'], s['sid']))
      r = vizier_client.resources.StudyResource.from_name(s2.resource_name)
      return {'k': 'study', 'owner': r.owner_id, 'sid': r.study_id}
    if op == 'suggest':
      self.dep.script.alg = s['alg']
      if s.get('implicit'):
        # the documented default worker (client_abc.StudyInterface.suggest: client_id = 'default_client_id')
        return {'k': 'handles', 'ids': [t.id for t in study.suggest(count=s['count'])]}
      return {'k': 'handles', 'ids': [t.id for t in study.suggest(count=s['count'], client_id=s['worker'])]}
    if op == 'get_suggestions':
      self.dep.script.alg = s['alg']
      return {'k': 'handles', 'ids': [t.id for t in study._client.get_suggestions(s['count'])]}  # pylint: disable=protected-access
    if op == 'request':
      sug = vz.TrialSuggestion({'x': float(s['params'])}, metadata=make_metadata(s.get('md', [])))
      return {'k': 'handle', 'id': study.request(sug).id}
    if op == 'add_trial':
      x = float(s['params']) if s.get('inSpace', True) else 5000.0 + float(s['params'])     # the space is [0, 1000 + spec]
      tr = vz.Trial(parameters={'x': x})
      if s.get('final') is not None:
        tr.complete(make_measurement(s['final']))
      return {'k': 'handle', 'id': study.add_trial(tr).id}
    if op == 'get_trial':
      return {'k': 'handle', 'id': study.get_trial(s['id']).id}
    if op == 'materialize':
      return {'k': 'trial', 'v': vz_trial_json(self._trial(s['id']).materialize())}
    if op == 'trials':
      return {'k': 'trials', 'v': [vz_trial_json(t) for t in study.trials().get()]}
    if op == 'complete':
      m = None if s.get('m') is None else make_measurement(s['m'])
      if s.get('reason') is None:
        r = self._trial(s['id']).complete(m)
      else:
        r = self._trial(s['id']).complete(m, infeasible_reason=s['reason'])
      return {'k': 'measurement', 'v': meas_json(r)}
    if op == 'add_measurement':
      self._trial(s['id']).add_measurement(make_measurement(s['m']))
      return {'k': 'ok'}
    if op == 'check_early_stopping':
      self.dep.script.es = s['es']
      return {'k': 'flag', 'v': bool(self._trial(s['id']).check_early_stopping())}
    if op == 'stop':
      self._trial(s['id']).stop()
      return {'k': 'ok'}
    if op == 'delete_trial':
      self._trial(s['id']).delete()
      return {'k': 'ok'}
    if op == 'update_metadata':
      md = make_metadata(s['kvs'])
      if s.get('id') is None:
        study.update_metadata(md)
      else:
        self._trial(s['id']).update_metadata(md)
      return {'k': 'ok'}
    if op == 'set_state':
      study.set_state(getattr(vz.StudyState, s['state']))
      return {'k': 'ok'}
    if op == 'materialize_state':
      return {'k': 'state', 'v': study.materialize_state().name}
    if op == 'delete_study':
      study.delete()
      return {'k': 'ok'}
    if op == 'optimal':
      list(study.optimal_trials().get())
      return {'k': 'ok'}
    raise ValueError('unknown client call ' + op)

  def run(self, prog):
    """-> {'obs': [...], 'rpcs': [[name, client_id]...] per call, 'getops': [...], 'snaps': [...], 'views': [...]}"""
    out = {'obs': [], 'rpcs': [], 'getops': [], 'snaps': [], 'views': []}
    for s in prog:
      if s['c'] == 'check_early_stopping':
        self.rr.es_ids.add(s['id'])
        for d in s['es'].get('decisions', []):
          self.rr.es_ids.add(d[0])
    saved = self._pin()
    try:
      for s in prog:
        self.api.begin()
        self.api.recording = True
        try:
          o = self._call(s)
        except Exception as e:  # pylint: disable=broad-except
          o = exc_obs(e)
        self.api.recording = False
        out['obs'].append(json.loads(json.dumps(o)))
        out['rpcs'].append(list(self.api.calls))
        out['getops'].append(self.api.getops)
        out['snaps'].append(self.rr.snapshot())
        # auxiliary, read-only: what a client sees through Study.trials() after this call
        try:
          out['views'].append([vz_trial_json(t) for t in self.study.trials().get()])
        except Exception:  # pylint: disable=broad-except
          out['views'].append(None)
    finally:
      self._unpin(saved)
    return out


def run_real(backend, prog):
  return ClientRunner(backend).run(prog)


# ---------------------------------------------------------------------------------------------------- generator
def _ok(rng, tok, n, with_md=True):
  sugg = []
  for _ in range(max(0, n)):
    tok[0] += 1
    sugg.append({'params': tok[0], 'md': [[rng.choice(NSS), rng.choice(KEYS), rng.choice(VALS)]] if with_md and rng.random() < 0.2 else []})
  return {'kind': 'ok', 'sugg': sugg, 'delta': []}


def directed():
  """Hand-made programs, run first on every call: the documented corner of each predicate."""
  ok = lambda base, n: {'kind': 'ok', 'sugg': [{'params': base + i, 'md': []} for i in range(n)], 'delta': []}
  create = {'c': 'create', 'spec': 1}
  progs = []
  for reason in REASONS:
    for m in (None, [5, True]):
      for pre in ([], [{'c': 'add_measurement', 'id': 1, 'm': [3, True]}], [{'c': 'stop', 'id': 1}]):
        progs.append([create, {'c': 'suggest', 'count': 1, 'worker': 'w1', 'alg': ok(10, 1)}] + pre +
                     [{'c': 'complete', 'id': 1, 'm': m, 'reason': reason}, {'c': 'materialize', 'id': 1}, {'c': 'trials'}, {'c': 'optimal'}])
  progs.append([create, {'c': 'suggest', 'count': 2, 'worker': 'w1', 'alg': ok(10, 2)}, {'c': 'suggest', 'count': 2, 'worker': 'w2', 'alg': ok(20, 3)},
                {'c': 'suggest', 'count': 1, 'worker': 'w3', 'alg': ok(30, 1)}, {'c': 'suggest', 'count': 3, 'worker': 'w1', 'alg': ok(40, 1)}, {'c': 'trials'}])
  progs.append([create, {'c': 'request', 'params': 7, 'md': []}, {'c': 'add_trial', 'params': 8, 'final': None},
                {'c': 'suggest', 'count': 1, 'worker': 'w1', 'alg': ok(10, 1)}, {'c': 'suggest', 'count': 1, 'worker': 'w2', 'alg': ok(20, 1)},
                {'c': 'get_suggestions', 'count': 1, 'alg': ok(30, 1)}, {'c': 'trials'}])
  for kind in ('other',):
    progs.append([create, {'c': 'suggest', 'count': 1, 'worker': 'w1', 'alg': {'kind': kind}},
                  {'c': 'suggest', 'count': 2, 'worker': 'w1', 'alg': ok(10, 1)}, {'c': 'suggest', 'count': 3, 'worker': 'w1', 'alg': {'kind': kind}},
                  {'c': 'suggest', 'count': 1, 'worker': 'w2', 'alg': {'kind': kind}}, {'c': 'trials'}])
  progs.append([create, {'c': 'suggest', 'count': 1, 'worker': 'w1', 'alg': dict(ok(10, 1), delta=[{'t': 9, 'kv': ['', 'k', 'v']}])},
                {'c': 'suggest', 'count': 1, 'worker': 'w1', 'alg': ok(20, 1)}])
  progs.append([create, {'c': 'set_state', 'state': 'COMPLETED'}, {'c': 'suggest', 'count': 1, 'worker': 'w1', 'alg': ok(10, 1)},
                {'c': 'add_trial', 'params': 3, 'final': [3, True]}, {'c': 'materialize_state'}, {'c': 'set_state', 'state': 'ACTIVE'},
                {'c': 'suggest', 'count': 1, 'worker': 'w1', 'alg': ok(10, 1)}, {'c': 'set_state', 'state': 'ABORTED'}, {'c': 'materialize_state'},
                {'c': 'complete', 'id': 1, 'm': [1, True], 'reason': None}, {'c': 'update_metadata', 'id': None, 'kvs': [['', 'k', 'v']]}])
  progs.append([create, {'c': 'get_trial', 'id': 1}, {'c': 'materialize', 'id': 1}, {'c': 'from_resource_name', 'sid': 'missing'},
                {'c': 'from_resource_name', 'sid': 's'}, {'c': 'add_trial', 'params': 3, 'final': [3, True], 'inSpace': False},
                {'c': 'add_trial', 'params': 3, 'final': [3, True]}, {'c': 'complete', 'id': 1, 'm': [1, True], 'reason': ''},
                {'c': 'update_metadata', 'id': 5, 'kvs': [['', 'k', 'v']]}, {'c': 'update_metadata', 'id': 1, 'kvs': [[':a:b', 'k', 'v'], ['', 'j', '']]},
                {'c': 'delete_trial', 'id': 1}, {'c': 'get_trial', 'id': 1}, {'c': 'delete_study'}, {'c': 'trials'}, {'c': 'materialize_state'},
                {'c': 'suggest', 'count': 1, 'worker': 'w1', 'alg': ok(10, 1)}, create, {'c': 'suggest', 'count': 1, 'worker': 'w1', 'alg': ok(10, 1)}])
  progs.append([create, {'c': 'suggest', 'count': 1, 'worker': 'w1', 'alg': ok(10, 1)},
                {'c': 'check_early_stopping', 'id': 1, 'es': {'kind': 'ok', 'decisions': [[1, True]], 'delta': []}},
                {'c': 'check_early_stopping', 'id': 1, 'es': {'kind': 'raise'}}, {'c': 'check_early_stopping', 'id': 2, 'es': {'kind': 'raise'}},
                {'c': 'complete', 'id': 1, 'm': None, 'reason': ' '}, {'c': 'check_early_stopping', 'id': 1, 'es': {'kind': 'raise'}}])
  return [copy.deepcopy(p) for p in progs]


class Gen:
  """Stateful: every generated call is executed on a shadow in-RAM deployment whose state steers the next choice."""

  PREF = {'complete': ['ACTIVE', 'ACTIVE', 'ACTIVE', 'ACTIVE', 'STOPPING', 'SUCCEEDED', 'INFEASIBLE', 'REQUESTED'],
          'add_measurement': ['ACTIVE', 'ACTIVE', 'ACTIVE', 'STOPPING', 'SUCCEEDED', 'INFEASIBLE', 'REQUESTED'],
          'stop': ['ACTIVE', 'ACTIVE', 'STOPPING', 'SUCCEEDED', 'INFEASIBLE', 'REQUESTED'],
          'check_early_stopping': ['ACTIVE', 'ACTIVE', 'ACTIVE', 'STOPPING', 'SUCCEEDED', 'REQUESTED']}

  def __init__(self, rng, prop):
    self.rng, self.prop = rng, prop
    self.tok = [0]
    self.dead = []

  def pick_id(self, by_state, op=None):
    r = self.rng
    allids = [i for ids in by_state.values() for i in ids]
    x = r.random()
    if x < 0.85 and allids:
      if op in self.PREF:
        want = r.choice(self.PREF[op])
        if by_state.get(want):
          return r.choice(by_state[want])
      return r.choice(allids)
    if x < 0.93 and self.dead:
      return r.choice(self.dead)
    return r.choice([max(allids + [0]) + 1 + r.randrange(0, 2), 99])

  def kvs(self):
    r = self.rng
    out, seen = [], set()
    for _ in range(r.randrange(1, 3)):
      kv = [r.choice(NSS), r.choice(KEYS), r.choice(VALS)]
      if (kv[0], kv[1]) not in seen:
        seen.add((kv[0], kv[1]))
        out.append(kv)
    return out

  def alg(self, count, by_state):
    r = self.rng
    x = r.random()
    if x < FAIL_RATE[self.prop]:
      return {'kind': 'other'}      # in-process Pythia: the algorithm's own exception (an RpcError needs a remote Pythia: C08)
    a = _ok(r, self.tok, count + r.choice([-2, -1, 0, 0, 0, 0, 1, 2, 3]))
    if r.random() < 0.12:
      a['delta'] = [{'t': None if r.random() < 0.6 else self.pick_id(by_state), 'kv': self.kvs()[0]}]
    return a

  def one(self, by_state, study_state):
    r = self.rng
    w = WEIGHTS[self.prop]
    kinds = list(w)
    op = r.choices(kinds, weights=[w[k] for k in kinds])[0]
    trial_ops = ('complete', 'add_measurement', 'stop', 'delete_trial', 'get_trial', 'materialize', 'check_early_stopping')
    if op in trial_ops and not any(by_state.values()) and r.random() < 0.85:
      op = r.choice(['suggest', 'suggest', 'request', 'add_trial'])
    if study_state in ('INACTIVE', 'COMPLETED') and r.random() < 0.5:
      return {'c': 'set_state', 'state': 'ACTIVE'}
    if study_state is None and r.random() < 0.4:
      return {'c': 'create', 'spec': r.randrange(0, 3)}
    if op == 'create':
      return {'c': 'create', 'spec': r.randrange(0, 3)}
    if op == 'from_resource_name':
      return {'c': op, 'sid': r.choice(['s', 's', 'missing'])}
    if op == 'suggest':
      cnt = r.choice([1, 1, 2, 2, 3])
      x = r.random()
      if x < 0.15:
        # no client_id given: the interface's default worker; and the same worker spelled out
        return {'c': op, 'count': cnt, 'worker': 'default_client_id', 'implicit': True, 'alg': self.alg(cnt, by_state)}
      if x < 0.22:
        return {'c': op, 'count': cnt, 'worker': 'default_client_id', 'alg': self.alg(cnt, by_state)}
      return {'c': op, 'count': cnt, 'worker': r.choice(WORKERS), 'alg': self.alg(cnt, by_state)}
    if op == 'get_suggestions':
      cnt = r.choice([1, 2])
      return {'c': op, 'count': cnt, 'alg': self.alg(cnt, by_state)}
    if op == 'request':
      self.tok[0] += 1
      return {'c': op, 'params': self.tok[0], 'md': client_md_order(self.kvs()) if r.random() < 0.3 else []}
    if op == 'add_trial':
      self.tok[0] += 1
      return {'c': op, 'params': self.tok[0], 'final': [self.tok[0], True] if r.random() < 0.35 else None, 'inSpace': r.random() < 0.9}
    if op in ('trials', 'optimal', 'materialize_state', 'delete_study'):
      return {'c': op}
    if op == 'set_state':
      return {'c': op, 'state': r.choices(['ACTIVE', 'ABORTED', 'COMPLETED'], weights=[4, 3, 3])[0]}
    if op == 'update_metadata':
      return {'c': op, 'id': None if r.random() < 0.4 else self.pick_id(by_state), 'kvs': self.kvs()}
    tid = self.pick_id(by_state, op)
    if op in ('get_trial', 'materialize', 'stop'):
      return {'c': op, 'id': tid}
    if op == 'delete_trial':
      return {'c': op, 'id': tid}
    if op == 'complete':
      self.tok[0] += 1
      m = r.choices([None, [self.tok[0], True], [self.tok[0], False]], weights=[7, 10, 3])[0]
      return {'c': op, 'id': tid, 'm': m, 'reason': r.choices(REASONS, weights=[6, 2, 2, 1])[0]}
    if op == 'add_measurement':
      self.tok[0] += 1
      return {'c': op, 'id': tid, 'm': [self.tok[0], r.random() < 0.8]}
    if op == 'check_early_stopping':
      if r.random() < max(0.15, FAIL_RATE[self.prop] * 0.75):
        es = {'kind': 'raise'}
      else:
        ds = [[tid, r.random() < 0.5]] if r.random() < 0.85 else []
        if r.random() < 0.25:
          ds.append([self.pick_id(by_state), r.random() < 0.5])
        es = {'kind': 'ok', 'decisions': ds, 'delta': [{'t': None, 'kv': self.kvs()[0]}] if r.random() < 0.15 else []}
      return {'c': op, 'id': tid, 'es': es}
    raise AssertionError(op)

  def program(self, n):
    shadow = ClientRunner('ram')
    prog = [{'c': 'create', 'spec': self.rng.randrange(0, 3)}]
    shadow.run(prog)
    for _ in range(n - 1):
      snap = shadow.rr.snapshot()
      st = next((s for s in snap['studies'] if s['sid'] == HANDLE['sid']), None)
      by_state = {}
      if st is not None:
        for t in st['trials']:
          by_state.setdefault(t['state'], []).append(t['id'])
      step = self.one(by_state, st['state'] if st is not None else None)
      if step['c'] == 'delete_trial' and any(step['id'] in ids for ids in by_state.values()):
        self.dead.append(step['id'])
      prog.append(step)
      shadow.run([step])
    return prog


# ---------------------------------------------------------------------------------------- evaluation of real runs
KEYS_WHAT = {
    'infeasible': ('client:infeasible-reason-lost',
                   'Trial.complete(infeasible_reason=%(reason)r) on a completable trial did not leave it INFEASIBLE with that reason (or a completion without reason made it infeasible)'),
    'assigned': ('client:suggested-trial-not-assigned-to-asking-worker',
                 'Study.suggest(client_id=%(worker)r) returned a trial that is not stored ACTIVE for that worker'),
    'two-workers': ('client:trial-handed-to-two-workers', 'the same trial was handed to two different workers while it existed'),
    'reported': ('client:algorithm-failure-not-reported-to-client',
                 'the algorithm failed during Study.suggest but the client returned a value instead of raising'),
    'poll': ('client:client-poll-does-not-terminate', 'Study.suggest polled GetOperation more than the bound / did not come back'),
    'lifecycle': ('client:illegal-lifecycle-transition', 'a client call made a stored trial evolve illegally'),
    'views': ('client:illegal-lifecycle-through-trials-view', 'two successive Study.trials() views are not a legal evolution'),
    'promised': ('client:promised-exception-or-value-missing',
                 'Study.get_trial / Study.from_resource_name of something that does not exist did not raise ResourceNotFoundError, suggest on a study that is not open did not return [], or add_trial outside the search space did not raise ValueError'),
    'effects': ('client:documented-effect-of-call-missing',
                'a client call did not have its documented effect (add_trial / request store a new trial, complete stores / returns the given measurement, stop -> STOPPING, set_state stores the state, delete removes the trial / the study, update_metadata of a missing trial raises RuntimeError)'),
    # the two documented behaviours the code as it exists does not have (known findings, kernel-checked counterexamples
    # client_complete_value_error_counterexample / client_early_stop_counterexample)
    'valueError': ('client:complete-with-nothing-to-select-does-not-raise-valueerror',
                   'Trial.complete() without measurement / reason on a trial without intermediate measurements did not raise the documented ValueError'),
    'earlyStop': ('client:check-early-stopping-true-leaves-trial-active',
                  'Trial.check_early_stopping() returned True but the trial is not in STOPPING state as documented'),
}


def judge_request(prog, real):
  """One driver request judging every step of a real run (each step against the snapshot / view before it)."""
  return {'op': 'judgeProgram', 'handle': HANDLE, 'bound': POLL_BOUND, 'calls': prog, 'obs': real['obs'], 'snaps': real['snaps'],
          'getops': real['getops'], 'views': real['views']}


def two_workers(prog, real):
  """Python-side history predicate: a trial handed to worker A is never handed to worker B != A while it exists."""
  held, bad = {}, []
  for i, s in enumerate(prog):
    st = next((x for x in real['snaps'][i]['studies'] if x['sid'] == HANDLE['sid'] and x['owner'] == HANDLE['owner']), None)
    live = set(t['id'] for t in st['trials']) if st is not None else set()
    for tid in list(held):
      if tid not in live:
        del held[tid]
    o = real['obs'][i]
    if s['c'] in ('suggest', 'get_suggestions') and o.get('k') == 'handles':
      w = s['worker'] if s['c'] == 'suggest' else HANDLE['cid']
      for tid in o['ids']:
        if tid in held and held[tid] != w:
          bad.append((i, tid, held[tid], w))
        elif tid in live:
          held[tid] = w
  return bad


def evaluate(c, items, preds, deadline=None):
  """items: [(prog, backend)].  Runs each on the real client and judges every step.
  -> [(real, failures)], failures = [(step, predicate)]; items after `deadline` are skipped -> (None, [])"""
  reals = []
  for prog, be in items:
    if deadline is not None and time.time() > deadline:
      reals.append(None)
      continue
    reals.append(run_real(be, prog))
    c.traces += 1
  idx = [k for k, r in enumerate(reals) if r is not None]
  answers = c.lean('Client', [judge_request(items[k][0], reals[k]) for k in idx]) if idx else []
  fails = [[] for _ in items]
  for k, ans in zip(idx, answers):
    if 'error' in ans:
      # what the real client left behind cannot even be read into the model's types: a broken correspondence
      c.tie_break('real client run not representable in the model (%s): %s' % (items[k][1], ans['error']),
                  {'program': items[k][0], 'backend': items[k][1]}, {'obs': reals[k]['obs'], 'final': reals[k]['snaps'][-1]}, ans['error'])
      continue
    for i, v in enumerate(ans['verdicts']):
      for p in LEAN_PREDICATES:
        if p in preds and not v[p]:
          fails[k].append((i, p))
    if 'two-workers' in preds:
      for (i, tid, a, b) in two_workers(items[k][0], reals[k]):
        fails[k].append((i, 'two-workers'))
  return list(zip(reals, fails))


def shrink(c, prog, be, pred, budget_rounds=24):
  """Drop steps (one per round, all candidates of a round judged by ONE driver call) while `pred` keeps failing."""
  cur = list(prog)
  for _ in range(budget_rounds):
    cands = [cur[:i] + cur[i + 1:] for i in range(len(cur) - 1, 0, -1)]     # never drop the initial create
    if not cands:
      break
    res = evaluate(c, [(cd, be) for cd in cands], (pred,))
    nxt = next((cd for cd, (_, f) in zip(cands, res) if any(p == pred for _, p in f)), None)
    if nxt is None:
      break
    cur = nxt
  # cut what follows the failing step
  (real, f), = evaluate(c, [(cur, be)], (pred,))
  last = min([i for i, p in f if p == pred] + [len(cur) - 1])
  return cur[:last + 1], {'obs': real['obs'][:last + 1], 'rpcs': real['rpcs'][:last + 1], 'after': real['snaps'][last]}


def compare(prog, real, model):
  """First divergence between the real client run and the model, or None."""
  for i, s in enumerate(prog):
    a, b = real['obs'][i], canon_obs(model['obs'][i])
    if a != b:
      return i, 'observation', a, b
    ra = [[n, cl] for n, cl in real['rpcs'][i]]
    rb = [[n, cl] for n, cl in model['reqs'][i]]
    if ra != rb:
      return i, 'requests issued', ra, rb
    sa, sb = real['snaps'][i], svcreal.canon_db(model['snaps'][i])
    if sa != sb:
      return i, 'stored data', sa, sb
  return None


def _flags(c, backends):
  cfgs = {}
  for be in backends:
    f = c.flags.get(be)
    if not (isinstance(f, dict) and 'suggestCatchesAll' in f):
      f = svccheck.identify_flags(c, [be])[be]
    cfgs[be] = dict(f, esRecycle=True)
  return cfgs


def stage(c, prop, backends=('ram', 'sqlmem')):
  """Tie + property stage of the client layer for property `prop` in {'C01', 'C02', 'C06'}."""
  if prop not in PREDICATES:
    raise core.InfraError('clientcheck.stage: no predicates for ' + prop)
  t0 = time.time()
  budget = 20.0 if c.tier == 'quick' else 150.0
  n_max = 50 if c.tier == "quick" else 500
  lengths = (5, 15) if c.tier == 'quick' else (5, 28)
  backends = list(backends)
  cfgs = _flags(c, backends)
  preds = PREDICATES[prop]

  progs = directed()
  n_directed = len(progs)
  g_budget = budget * 0.30
  while len(progs) - n_directed < n_max and time.time() - t0 < g_budget:
    progs.append(Gen(c.rng, prop).program(c.rng.randrange(*lengths)))

  # model runs: one driver call per distinct flag set
  models = {}
  for be in backends:
    key = json.dumps(cfgs[be], sort_keys=True)
    if key not in models:
      models[key] = c.lean('Client', [{'op': 'run', 'cfg': cfgs[be], 'fuel': POLL_BOUND, 'handle': HANDLE, 'calls': p, 'snaps': True} for p in progs])
      for m in models[key]:
        if 'error' in m:
          raise core.InfraError('client driver: %s' % m)
    models[be] = models[key]

  # first backend: every program; the others: the directed programs, then the generated ones while time permits
  items = [(pi, backends[0]) for pi in range(len(progs))]
  items += [(pi, be) for be in backends[1:] for pi in range(len(progs))]
  results = evaluate(c, [(progs[pi], be) for pi, be in items], preds, deadline=t0 + budget * 0.85)
  kept = [k for k, (real, _) in enumerate(results) if real is not None]
  items, results = [items[k] for k in kept], [results[k] for k in kept]
  all_fails = []
  broken = []
  for k, ((pi, be), (real, fails)) in enumerate(zip(items, results)):
    d = compare(progs[pi], real, models[be][pi])
    all_fails.append(list(fails))
    if d is not None:
      i, what, a, b = d
      c.tie_break('client model vs real client library (%s, %s)' % (be, what), {'program': progs[pi][:i + 1], 'step': i, 'backend': be}, a, b)
      broken.append(k)
  if broken and set(preds) != set(ALL_PREDICATES):
    # the tie broke on these programs: judge them with EVERY predicate, so that a concrete failing input is reported
    extra = evaluate(c, [(progs[items[k][0]], items[k][1]) for k in broken[:40]], ALL_PREDICATES)
    # ... except the predicates that another property owns AND records as a known finding of the tree: those fail on
    # the unchanged tree too, they are not what broke the tie
    foreign_known = set(e['key'] for e in core.load_known_findings() if e.get('status') == 'known' and e['property'] != prop)
    for k, (_, f) in zip(broken[:40], extra):
      f = [(i, p) for (i, p) in f if p in preds or KEYS_WHAT[p][0] not in foreign_known]
      all_fails[k] = sorted(set(all_fails[k]) | set(f))
  reported = set()
  for k, ((pi, be), (real, _)) in enumerate(zip(items, results)):
    prog = progs[pi]
    for (i, p) in all_fails[k]:
      key, what = KEYS_WHAT[p]
      if (key, be) in reported:
        continue
      reported.add((key, be))
      if any(e['key'] == key for e in c.known):
        # a recorded finding: the occurrence is reported as it is (no shrinking budget spent on it)
        small, ctx = prog[:i + 1], {'obs': real['obs'][:i + 1], 'rpcs': real['rpcs'][:i + 1], 'after': real['snaps'][i]}
      else:
        small, ctx = shrink(c, prog, be, p)
      last = small[-1]
      c.prop_fail(key, (what % {'reason': last.get('reason'), 'worker': last.get('worker', HANDLE['cid'])}) + ' (backend %s): program %s -> %s' % (
          be, json.dumps([s['c'] for s in small]), json.dumps(ctx['obs'][-1])[:160]),
                  {'backend': be, 'program': small, 'real_observations': ctx['obs'], 'real_rpcs': ctx['rpcs'], 'real_state_after': ctx['after'],
                   'original_program': prog, 'failing_step_in_original': i})
    # book-keeping
    errs = sum(1 for o in real['obs'] if o.get('k') == 'exc')
    kinds = set(s['c'] for s in prog)
    for s, o in zip(prog, real['obs']):
      c.count(1, kind='client:%s:%s' % (s['c'], o.get('cls', 'exc') if o.get('k') == 'exc' else o.get('k')))
    c.count(0, ('client-prog', prop, pi) if errs >= 1 and len(kinds & {'suggest', 'complete', 'delete_trial', 'request', 'add_trial', 'check_early_stopping'}) >= 2 else None)
  if progs and results:
    k = min(len(progs) - 1, n_directed, len(results) - 1)
    c.sample({'client_program': progs[k], 'real_observations(%s)' % backends[0]: results[k][0]['obs']})
  c.coverage_extra.setdefault('client_layer', {})[prop] = {
      'programs': len(progs), 'directed': n_directed, 'backends': backends, 'predicates': list(preds),
      'runs_per_backend': {be: sum(1 for _, b in items if b == be) for be in backends},
      'poll_bound': POLL_BOUND, 'wall_s': round(time.time() - t0, 1)}
  svc.cleanup()
  return len(progs)
