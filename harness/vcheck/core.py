"""Shared machinery of every check: proof stage (lake build + axiom audit + source
grep), Lean driver bridge, verdict logic (known findings, violations, replays)
and evidence.  See DESIGN.md section 2.1."""
import hashlib
import json
import os
import random
import re
import subprocess
import sys
import time

VERIF = os.path.dirname(os.path.dirname(os.path.dirname(os.path.abspath(__file__))))
LEAN_DIR = os.path.join(VERIF, 'lean')
REPO = os.environ.get('VERIF_REPO', '/repo')
ALLOWED_AXIOMS = {'propext', 'Classical.choice', 'Quot.sound'}
FORBIDDEN = re.compile(
    r'\bsorry\b|\badmit\b|^\s*axiom\s|native_decide|bv_decide|implemented_by|'
    r'\bunsafe\s|maxHeartbeats\s+0\b', re.M)

TRUSTED_BASE = [
    'Lean 4.33 kernel; axioms audited per theorem to be within {propext, Classical.choice, Quot.sound}; no native_decide/bv_decide/sorry/added axioms',
    'hand-written Lean models of the anchored Python code (what is proved is the model; DESIGN.md section 4 lists what is modelled, not verified)',
    'correspondence harness (generators, canonicalisers, shrinker) and translators in /verif/harness',
    'environment shims /verif/harness/shim (proto descriptors built by a hand parser; jax/equinox compat)',
    'interpreter glue: lake env lean --run drivers (JSON line protocol)',
]


class InfraError(Exception):
  """Infrastructure failure (exit 2, never a VIOLATION)."""


def _run(cmd, cwd=None, input=None, timeout=1800):
  try:
    p = subprocess.run(cmd, cwd=cwd, input=input, capture_output=True, text=True,
                       timeout=timeout)
  except subprocess.TimeoutExpired as e:
    raise InfraError('timeout: %s' % (cmd,)) from e
  return p.returncode, p.stdout, p.stderr


def strip_lean_comments(src):
  out = []
  i, n, depth = 0, len(src), 0
  while i < n:
    if src.startswith('/-', i):
      depth += 1
      i += 2
    elif depth and src.startswith('-/', i):
      depth -= 1
      i += 2
    elif depth:
      if src[i] == '\n':
        out.append('\n')
      i += 1
    elif src.startswith('--', i):
      while i < n and src[i] != '\n':
        i += 1
    else:
      out.append(src[i])
      i += 1
  return ''.join(out)


def load_known_findings():
  """known_findings.json (the single committed file; a known_findings.d/ directory of per-property
  files with the same schema is still read if present - builders used it before their entries were merged)."""
  out = []
  paths = [os.path.join(VERIF, 'known_findings.json')]
  d = os.path.join(VERIF, 'known_findings.d')
  if os.path.isdir(d):
    paths += sorted(os.path.join(d, f) for f in os.listdir(d) if f.endswith('.json'))
  for p in paths:
    if os.path.exists(p):
      out += json.load(open(p)).get('findings', [])
  return out


class Check:
  """One run of one property's check."""

  def __init__(self, pid, tier=None, seed=None):
    self.pid = pid
    self.tier = tier or os.environ.get('VERIF_TIER') or 'quick'
    if self.tier not in ('quick', 'thorough'):
      self.tier = 'quick'
    try:
      self.seed = int(seed if seed is not None else os.environ.get('VERIF_SEED', '0'))
    except ValueError:
      self.seed = 0
    self.rng = random.Random(self.seed * 1000003 + int(pid[1:]))
    self.t0 = time.time()
    self.obligations = []          # (name, ok, detail)
    self.proof_broken = []         # names of obligations that did not check
    self.tie_breaks = []           # correspondence disagreements (dicts)
    self.failures = []             # property failures on real code (dicts)
    self.known_hits = {}           # key -> (entry, count, first case)
    self.violations = []           # unlisted property failures
    self.evaluations = 0
    self.nontrivial = set()
    self.samples = []
    self.traces = 0
    self.dist = {}
    self.notes = []
    self.flags = {}
    self.lines = []                # VIOLATION / KNOWN-FINDING lines printed
    self.coverage_extra = {}
    self.replay_obj = None
    self.known = [e for e in load_known_findings() if e['property'] == pid and e.get('status') == 'known']
    tp = os.path.join(LEAN_DIR, 'theorems', pid + '.json')
    self.theorems = json.load(open(tp)) if os.path.exists(tp) else {}

  # ---------------------------------------------------------------- stage 1
  def proof_stage(self):
    """lake build of the property's modules, #print axioms audit, source grep."""
    mods = self.theorems.get('modules', [])
    thms = self.theorems.get('theorems', [])
    if not mods:
      raise InfraError('no Lean modules registered for ' + self.pid)
    rc, out, err = _run(['lake', 'build'] + mods, cwd=LEAN_DIR, timeout=3000)
    build_ok = rc == 0
    build_log = (out + err)[-4000:]
    if not build_ok and re.search(r'unknown (command|executable)|No such file or directory: .lake', build_log):
      raise InfraError('lake unavailable: ' + build_log[-400:])
    # source grep over the import closure of the property's modules (within VizierModel)
    grep_hits = []
    closure, todo = set(), list(mods)
    while todo:
      m = todo.pop()
      if m in closure or not m.startswith('VizierModel'):
        continue
      closure.add(m)
      p = os.path.join(LEAN_DIR, *m.split('.')) + '.lean'
      if not os.path.exists(p):
        continue
      src = strip_lean_comments(open(p).read())
      for mm in re.finditer(r'^\s*import\s+([\w.]+)', src, re.M):
        todo.append(mm.group(1))
      for mm in FORBIDDEN.finditer(src):
        grep_hits.append('%s: %s' % (os.path.relpath(p, LEAN_DIR), mm.group(0).strip()))
    self.coverage_extra['lean_modules_in_closure'] = sorted(closure)
    axioms = {}
    if build_ok:
      os.makedirs(os.path.join(LEAN_DIR, 'Audit'), exist_ok=True)
      ap = os.path.join(LEAN_DIR, 'Audit', self.pid + '.lean')
      body = ''.join('import %s\n' % m for m in mods) + ''.join('#print axioms %s\n' % t for t in thms)
      if not os.path.exists(ap) or open(ap).read() != body:
        open(ap, 'w').write(body)
      rc2, out2, err2 = _run(['lake', 'env', 'lean', 'Audit/%s.lean' % self.pid], cwd=LEAN_DIR, timeout=1200)
      txt = out2 + err2
      for m in re.finditer(r"'([^']+)' depends on axioms: \[([^\]]*)\]", txt):
        axioms[m.group(1)] = set(a.strip() for a in m.group(2).replace('\n', ' ').split(',') if a.strip())
      for m in re.finditer(r"'([^']+)' does not depend on any axioms", txt):
        axioms[m.group(1)] = set()
      if rc2 != 0 and not axioms:
        build_ok = False
        build_log += '\nAUDIT: ' + txt[-2000:]
    for t in thms:
      if not build_ok:
        ok, detail = False, 'build failed'
      elif t not in axioms:
        ok, detail = False, 'theorem not found by audit'
      elif not axioms[t] <= ALLOWED_AXIOMS:
        ok, detail = False, 'axioms: ' + ','.join(sorted(axioms[t] - ALLOWED_AXIOMS))
      else:
        ok, detail = True, ','.join(sorted(axioms[t])) or 'no axioms'
      self.obligations.append((t, ok, detail))
      if not ok:
        self.proof_broken.append('%s (%s)' % (t, detail))
    if grep_hits:
      self.obligations.append(('source-grep', False, '; '.join(grep_hits[:5])))
      self.proof_broken.append('source-grep: ' + '; '.join(grep_hits[:5]))
    else:
      self.obligations.append(('source-grep(no sorry/axiom/native_decide)', True, ''))
    if not build_ok:
      self.notes.append('lake build failed: ' + build_log[-1500:])
    if self.tier == 'thorough' and build_ok:
      rc3, out3, err3 = _run(['lake', 'env', 'leanchecker'] + mods, cwd=LEAN_DIR, timeout=3000)
      ok = rc3 == 0
      self.obligations.append(('leanchecker ' + ' '.join(mods), ok, (out3 + err3)[-300:] if not ok else ''))
      if not ok:
        self.proof_broken.append('leanchecker: ' + (out3 + err3)[-300:])
    return build_ok

  def add_obligation(self, name, ok, detail=''):
    """Extra obligations (e.g. translator-generated facts compared by decide)."""
    self.obligations.append((name, bool(ok), detail))
    if not ok:
      self.proof_broken.append('%s (%s)' % (name, detail))

  # ---------------------------------------------------------------- driver
  def lean(self, driver, requests, timeout=1800):
    """Send JSON requests (one per line) to `lake env lean --run Drivers/<driver>.lean`."""
    if not requests:
      return []
    # a driver interpreted against stale .olean files of its imports can crash: build them first
    built = getattr(self, '_drivers_built', set())
    if driver not in built:
      dp = os.path.join(LEAN_DIR, 'Drivers', driver + '.lean')
      try:
        imps = re.findall(r'^\s*import\s+(VizierModel[\w.]*)', strip_lean_comments(open(dp).read()), re.M)
      except OSError:
        raise InfraError('no driver ' + dp)
      if imps:
        rc, out, err = _run(['lake', 'build'] + imps, cwd=LEAN_DIR, timeout=3000)
        if rc != 0:
          raise InfraError('cannot build the imports of driver %s: %s' % (driver, (out + err)[-800:]))
      built.add(driver)
      self._drivers_built = built
    inp = ''.join(json.dumps(r, separators=(',', ':'), ensure_ascii=True) + '\n' for r in requests)
    rc, out, err = _run(['lake', 'env', 'lean', '--run', 'Drivers/%s.lean' % driver],
                        cwd=LEAN_DIR, input=inp, timeout=timeout)
    lines = [l for l in out.split('\n') if l.strip()]
    if rc != 0 or len(lines) != len(requests):
      raise InfraError('driver %s rc=%s answered %d/%d lines: %s' %
                       (driver, rc, len(lines), len(requests), (err or out)[-1500:]))
    res = []
    for l in lines:
      try:
        res.append(json.loads(l))
      except ValueError:
        raise InfraError('driver %s printed non-JSON: %r' % (driver, l[:300]))
    return res

  # ---------------------------------------------------------------- bookkeeping
  def count(self, n=1, nontrivial_key=None, kind=None):
    self.evaluations += n
    if nontrivial_key is not None:
      self.nontrivial.add(nontrivial_key if isinstance(nontrivial_key, (str, int, tuple)) else json.dumps(nontrivial_key, sort_keys=True, default=str))
    if kind is not None:
      self.dist[kind] = self.dist.get(kind, 0) + n

  def sample(self, case, limit=6):
    if len(self.samples) < limit:
      self.samples.append(case)

  def tie_break(self, where, case, real, model):
    """Model and implementation disagree (not by itself a violation)."""
    self.tie_breaks.append({'where': where, 'case': case, 'real': real, 'model': model})

  def prop_fail(self, key, what, case):
    """The property predicate fails on an observed behaviour of the REAL code."""
    entry = next((e for e in self.known if e['key'] == key), None)
    if entry is not None:
      if key not in self.known_hits:
        self.known_hits[key] = [entry, 0, case]
      self.known_hits[key][1] += 1
    else:
      self.violations.append({'key': key, 'what': what, 'case': case})

  # ---------------------------------------------------------------- verdict
  def _write_replay(self, obj):
    d = os.path.join(VERIF, 'replays', self.pid)
    os.makedirs(d, exist_ok=True)
    blob = json.dumps(obj, sort_keys=True, default=str, indent=1)
    h = hashlib.sha1(blob.encode()).hexdigest()[:12]
    p = os.path.join(d, h + '.json')
    open(p, 'w').write(blob)
    return os.path.relpath(p, VERIF)

  def finish(self, level='proof', rule='', assumptions=None, search=None):
    """Decide, print VIOLATION / KNOWN-FINDING lines, write evidence, return exit code.

    search: optional callable run when a proof obligation or the correspondence
    broke and no property failure has been found yet; it should call prop_fail
    for whatever it finds on the real code (enlarged budget, DESIGN 2.3)."""
    if (self.proof_broken or self.tie_breaks) and not self.violations and search is not None:
      try:
        search()
      except InfraError:
        raise
    for key, (entry, n, case) in sorted(self.known_hits.items()):
      line = 'KNOWN-FINDING: property=%s %s [key=%s, %d occurrence(s) this run]' % (self.pid, entry['what'], key, n)
      print(line)
      self.lines.append(line)
    code = 0
    seen = set()
    for v in self.violations:
      if v['key'] in seen:
        continue
      seen.add(v['key'])
      path = self._write_replay({'property': self.pid, 'kind': 'failing-input', 'key': v['key'],
                                 'what': v['what'], 'case': v['case'], 'seed': self.seed, 'tier': self.tier})
      line = 'VIOLATION property=%s replay=%s' % (self.pid, path)
      print(line)
      print('  ' + v['what'])
      self.lines.append(line)
      code = 1
    if code == 0 and (self.proof_broken or self.tie_breaks):
      path = self._write_replay({'property': self.pid, 'kind': 'no-failing-input-found',
                                 'broken_theorems': self.proof_broken,
                                 'broken_correspondence': self.tie_breaks[:5],
                                 'n_correspondence_breaks': len(self.tie_breaks),
                                 'seed': self.seed, 'tier': self.tier})
      line = 'VIOLATION property=%s replay=%s no-failing-input-found' % (self.pid, path)
      print(line)
      for b in self.proof_broken[:5]:
        print('  proof obligation no longer checks: ' + b)
      for b in self.tie_breaks[:3]:
        print('  correspondence broke at %s: case=%s real=%s model=%s' % (
            b['where'], json.dumps(b['case'], default=str)[:300], json.dumps(b['real'], default=str)[:200], json.dumps(b['model'], default=str)[:200]))
      self.lines.append(line)
      code = 1
    self.write_evidence(level, rule, assumptions or [], code)
    return code

  def write_evidence(self, level, rule, assumptions, code):
    n_obl = len(self.obligations)
    n_ok = sum(1 for _, ok, _ in self.obligations if ok)
    ev = {
        'property_id': self.pid, 'tier': self.tier, 'seed': self.seed, 'level': level,
        'coverage': {
            'obligations': n_obl, 'discharged': n_ok,
            'checker_cmd': 'cd lean && lake build %s && lake env lean Audit/%s.lean  (#print axioms per theorem; source grep)%s' % (
                ' '.join(self.theorems.get('modules', [])), self.pid,
                ' && lake env leanchecker <modules>' if self.tier == 'thorough' else ''),
            'trusted_base': TRUSTED_BASE,
            'obligation_list': [{'name': n, 'ok': ok, 'detail': d} for n, ok, d in self.obligations],
            'evaluations': self.evaluations,
            'distinct_nontrivial': len(self.nontrivial),
            'rule': rule,
            'samples': self.samples or ['(no samples recorded)'],
            'traces_validated_against_impl': self.traces,
            'input_distribution': self.dist,
            'model_flags_identified': self.flags,
            'correspondence_breaks': len(self.tie_breaks),
            'known_findings_hit': {k: v[1] for k, v in self.known_hits.items()},
            'notes': self.notes,
        },
        'assumptions': assumptions,
        'wall_s': round(time.time() - self.t0, 2),
        'violations': len(set(v['key'] for v in self.violations)) + (1 if code and not self.violations else 0),
    }
    ev['coverage'].update(self.coverage_extra)
    os.makedirs(os.path.join(VERIF, 'evidence'), exist_ok=True)
    p = os.path.join(VERIF, 'evidence', self.pid + '.json')
    tmp = p + '.tmp%d' % os.getpid()
    json.dump(ev, open(tmp, 'w'), indent=1, default=str)
    os.replace(tmp, p)


def main(run):
  """Entry used by harness/props/cXX.py: run(check) -> exit code."""
  import argparse
  ap = argparse.ArgumentParser()
  ap.add_argument('pid')
  ap.add_argument('--tier', default=None)
  ap.add_argument('--seed', default=None)
  ap.add_argument('--replay', default=None)
  a = ap.parse_args()
  c = Check(a.pid, a.tier, a.seed)
  c.replay_path = a.replay
  if a.replay:
    # Replay: show what the replay file holds, then re-run the check; every check replays its
    # witnesses / corpus first and judges the real code again, so a violation that still exists is
    # reported again (with the same key), and one that is gone is not.
    try:
      obj = json.load(open(a.replay if os.path.isabs(a.replay) else os.path.join(VERIF, a.replay)))
      print('REPLAY kind=%s key=%s' % (obj.get('kind'), obj.get('key')))
      print('REPLAY what=%s' % (obj.get('what') or obj.get('broken_theorems') or '')[:500] if isinstance(obj.get('what') or '', str) else '')
      c.replay_obj = obj
      if obj.get('seed') is not None:
        c.seed = int(obj['seed'])
        c.rng = random.Random(c.seed * 1000003 + int(a.pid[1:]))
      if obj.get('tier') in ('quick', 'thorough') and not a.tier:
        c.tier = obj['tier']
    except (OSError, ValueError) as e:
      raise InfraError('cannot read replay file: %s' % e)
  try:
    code = run(c)
  except InfraError as e:
    print('INFRA-ERROR property=%s %s' % (a.pid, e), file=sys.stderr)
    sys.exit(2)
  except Exception as e:  # pylint: disable=broad-except
    # An exception nobody in the check expected.  If it was RAISED INSIDE the code under test
    # (innermost frame under REPO/vizier), the harness could not drive the code the way the model says
    # it can be driven: that is a broken correspondence (reported, with the traceback as the replay),
    # not a tooling failure.  Anything else (harness bug, environment) stays an infrastructure error.
    import traceback
    tb = traceback.extract_tb(e.__traceback__)
    # the innermost frame that belongs to the code under test or to the harness decides; library frames
    # below it (protobuf, numpy, jax called from there) are skipped
    repo_prefix = os.path.realpath(os.path.join(REPO, 'vizier')) + os.sep
    verif_prefix = os.path.realpath(VERIF) + os.sep
    inner_frame = next((f for f in reversed(tb) if os.path.realpath(f.filename).startswith((repo_prefix, verif_prefix))), None)
    inner = inner_frame.filename if inner_frame else ''
    in_repo = os.path.realpath(inner).startswith(repo_prefix)
    text = ''.join(traceback.format_exception(type(e), e, e.__traceback__))
    if not in_repo:
      print(text, file=sys.stderr)
      print('INFRA-ERROR property=%s unexpected %s in the harness' % (a.pid, type(e).__name__), file=sys.stderr)
      sys.exit(2)
    harness_frame = next((f for f in reversed(tb) if os.path.realpath(f.filename).startswith(os.path.realpath(VERIF))), None)
    c.tie_break('harness could not drive the code under test: %s raised in %s:%d (called from %s:%s)' % (
        type(e).__name__, os.path.relpath(inner, REPO), inner_frame.lineno,
        os.path.relpath(harness_frame.filename, VERIF) if harness_frame else '?', harness_frame.lineno if harness_frame else '?'),
                {'traceback': text[-3000:]}, '%s: %s' % (type(e).__name__, str(e)[:300]), 'no exception')
    code = c.finish(level='proof', rule='aborted by an exception raised inside the code under test')
  sys.exit(code)
