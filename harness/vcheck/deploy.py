"""The three deployments of C08 with a scripted policy (same script object in every deployment)."""
import datetime

from vcheck import svc, svcreal

from vizier import pythia
from vizier import pyvizier as vz
from vizier._src.service import pythia_service, vizier_server, vizier_service


class Script:
  def __init__(self):
    self.alg = None
    self.es = None
    self.suggest_calls = 0
    self.es_calls = 0


def policy_factory(script):
  class ScriptedPolicy(pythia.Policy):
    def __init__(self, supporter):
      self._supporter = supporter

    def suggest(self, request):
      script.suggest_calls += 1
      a = script.alg
      if a['kind'] in ('rpc', 'other'):
        raise svcreal.AlgorithmFailure('scripted failure')
      sugg = []
      for s in a['sugg']:
        ts = vz.TrialSuggestion({'x': float(s['params'])})
        for ns, k, v in s['md']:
          ts.metadata.abs_ns(vz.Namespace.decode(ns))[k] = v
        sugg.append(ts)
      return pythia.SuggestDecision(suggestions=sugg, metadata=svcreal.ScriptedPythia._delta(a.get('delta', [])))

    def early_stop(self, request):
      script.es_calls += 1
      e = script.es
      if e['kind'] == 'raise':
        raise svcreal.AlgorithmFailure('scripted early-stop failure')
      ds = [pythia.EarlyStopDecision(id=i, reason='r', should_stop=bool(st)) for i, st in e['decisions']]
      return pythia.EarlyStopDecisions(decisions=ds, metadata=svcreal.ScriptedPythia._delta(e.get('delta', [])))

    @property
    def should_be_cached(self):
      return False

  def factory(problem_statement, algorithm, policy_supporter, study_name):
    return ScriptedPolicy(policy_supporter)
  return factory


class Deployment:
  """kind: 'local' | 'grpc' | 'split'; backend: 'ram' | 'sqlmem'."""

  def __init__(self, kind, backend, es_recycle=True):
    self.kind, self.backend = kind, backend
    self.script = Script()
    url = None if backend == 'ram' else 'sqlite:///:memory:'
    period = datetime.timedelta(seconds=0) if es_recycle else datetime.timedelta(days=3650)
    fac = policy_factory(self.script)
    self.server = None
    if kind == 'local':
      self.servicer = vizier_service.VizierServicer(database_url=url, early_stop_recycle_period=period)
      self.servicer.default_pythia_service = pythia_service.PythiaServicer(self.servicer, policy_factory=fac)
      self.api = self.servicer
    else:
      cls = vizier_server.DefaultVizierServer if kind == 'grpc' else vizier_server.DistributedPythiaVizierServer
      self.server = cls(database_url=url, policy_factory=fac, early_stop_recycle_period=period)
      self.servicer = self.server._servicer  # pylint: disable=protected-access
      self.api = self.server.stub
    self.ds = self.servicer.datastore

  def runner(self):
    rr = svcreal.RealRunner(self.backend, api=self.api, ds=self.ds, pythia_obj=self.script)
    return rr

  def close(self):
    if self.server is not None:
      self.server._server.stop(0)  # pylint: disable=protected-access
      ps = getattr(self.server, '_pythia_server', None)
      if ps is not None:
        ps.stop(0)


STATUS = ('FAILED_PRECONDITION', 'NOT_FOUND', 'ALREADY_EXISTS')


def err_class(resp):
  """The error class a client can tell apart (Deploy.classOf)."""
  if resp.get('k') != 'err':
    return None
  return resp['code'] if resp['code'] in STATUS else 'OTHER'


def canon_resp(resp):
  """Transport-independent view of a response: value as is, errors by class."""
  if resp.get('k') == 'err':
    return {'k': 'err', 'class': err_class(resp)}
  return resp
