"""The three deployments of C08 with a scripted policy (same script object in every deployment)."""
import datetime

from vcheck import svc, svcreal

from vizier import pythia
from vizier import pyvizier as vz
from vizier._src.service import pythia_service, vizier_server, vizier_service


class Script:
  """The scripted outcome of the next algorithm call.  Per THREAD: in-process deployments call the policy
  synchronously in the thread of the RPC, and the scheduler of C04 runs two RPCs in two threads."""

  def __init__(self):
    import threading
    self._tl = threading.local()
    self.suggest_calls = 0
    self.es_calls = 0

  def _get(self, name):
    # the value set by THIS thread (in-process call); behind gRPC the policy runs in a server thread that
    # never set one: the value set last
    return getattr(self._tl, name) if hasattr(self._tl, name) else self.__dict__.get('_last_' + name)

  def _set(self, name, v):
    setattr(self._tl, name, v)
    self.__dict__['_last_' + name] = v

  alg = property(lambda self: self._get('alg'), lambda self, v: self._set('alg', v))
  es = property(lambda self: self._get('es'), lambda self, v: self._set('es', v))


def failure_text(how, base):
  """The text of a scripted algorithm failure (same variants as svcreal.ScriptedPythia): texts that every
  transport has to carry - one that is not valid UTF-8, one that is long and multi-byte at every offset."""
  if how == 'surrogate-message':
    return base + ' bad \ud800 name'
  if how and how.startswith('long-message:'):
    return 'x' * int(how.split(':')[1]) + 'gr\u00f6\u00dfe \u4e2d\u6587 \U0001f600 ' * 900
  return base


class DeadlineStub:
  """A gRPC stub whose calls carry a deadline: a server that never answers (a handler that died while
  reporting an error, a lock held for ever) shows as DEADLINE_EXCEEDED instead of hanging the check; once
  one call ran into it the later ones are answered the same way without waiting again."""

  def __init__(self, stub, seconds=25.0):
    self._stub, self._seconds, self._wedged = stub, seconds, False

  def __getattr__(self, name):
    method = getattr(self._stub, name)

    def call(request, timeout=None, **kw):
      import grpc
      try:
        return method(request, timeout=1.0 if self._wedged else (timeout or self._seconds), **kw)
      except grpc.RpcError as e:
        if e.code() == grpc.StatusCode.DEADLINE_EXCEEDED:
          self._wedged = True
        raise
    return call


def policy_factory(script):
  class ScriptedPolicy(pythia.Policy):
    def __init__(self, supporter):
      self._supporter = supporter

    def suggest(self, request):
      script.suggest_calls += 1
      a = script.alg
      if a['kind'] in ('rpc', 'other'):
        raise svcreal.AlgorithmFailure(failure_text(a.get('how'), 'scripted failure'))
      sugg = []
      for s in a['sugg']:
        ts = vz.TrialSuggestion({'x': float(s['params'])})
        for ns, k, v in s['md']:
          ts.metadata.abs_ns(vz.Namespace.decode(ns))[k] = v
        sugg.append(ts)
      return pythia.SuggestDecision(suggestions=sugg, metadata=svcreal.ScriptedPythia._delta(a.get('delta', [])))

    def early_stop(self, request):
      script.es_calls += 1
      e = script.es
      if e['kind'] == 'raise':
        raise svcreal.AlgorithmFailure(failure_text(e.get('how'), 'scripted early-stop failure'))
      ds = [pythia.EarlyStopDecision(id=i, reason='r', should_stop=bool(st)) for i, st in e['decisions']]
      return pythia.EarlyStopDecisions(decisions=ds, metadata=svcreal.ScriptedPythia._delta(e.get('delta', [])))

    @property
    def should_be_cached(self):
      return False

  def factory(problem_statement, algorithm, policy_supporter, study_name):
    return ScriptedPolicy(policy_supporter)
  return factory


def hosted_policy_factory(script):
  """The REAL PartiallySerializableDesignerPolicy (config check, trial loader, state dump into study
  metadata) hosting a scripted designer: what every stateful algorithm of the service runs inside."""
  from vizier import algorithms as vza
  from vizier._src.algorithms.policies import designer_policy as dp
  from vizier.interfaces import serializable

  class ScriptedDesigner(vza.PartiallySerializableDesigner):
    def __init__(self, problem, **kwargs):
      del problem, kwargs
      self.n = 0
      self.k = 0          # suggest() calls so far: state that EVERY request changes (like a grid position)

    def update(self, completed, all_active):
      del all_active
      self.n += len(completed.trials)

    def suggest(self, count=None):
      del count
      script.suggest_calls += 1
      self.k += 1
      a = script.alg
      if a['kind'] in ('rpc', 'other'):
        raise svcreal.AlgorithmFailure(failure_text(a.get('how'), 'scripted failure'))
      return [vz.TrialSuggestion({'x': float(s['params'])}) for s in a['sugg']]

    def dump(self):
      md = vz.Metadata()
      md['n'] = str(self.n)
      md['k'] = str(self.k)
      return md

    def load(self, md):
      if 'n' not in md:
        raise serializable.HarmlessDecodeError('no state')
      self.n = int(md['n'])
      self.k = int(md['k']) if 'k' in md else 0

  def factory(problem_statement, algorithm, policy_supporter, study_name):
    del algorithm, study_name
    return dp.PartiallySerializableDesignerPolicy(problem_statement, policy_supporter, ScriptedDesigner)
  return factory


class Deployment:
  """kind: 'local' | 'grpc' | 'split'; backend: 'ram' | 'sqlmem'."""

  def __init__(self, kind, backend, es_recycle=True, hosted=False):
    self.kind, self.backend = kind, backend
    self.script = Script()
    url = None if backend == 'ram' else 'sqlite:///:memory:'
    period = datetime.timedelta(seconds=0) if es_recycle else datetime.timedelta(days=3650)
    fac = hosted_policy_factory(self.script) if hosted else policy_factory(self.script)
    self.server = None
    if kind == 'local':
      self.servicer = vizier_service.VizierServicer(database_url=url, early_stop_recycle_period=period)
      self.servicer.default_pythia_service = pythia_service.PythiaServicer(self.servicer, policy_factory=fac)
      self.api = self.servicer
    else:
      cls = vizier_server.DefaultVizierServer if kind == 'grpc' else vizier_server.DistributedPythiaVizierServer
      self.server = cls(database_url=url, policy_factory=fac, early_stop_recycle_period=period)
      self.servicer = self.server._servicer  # pylint: disable=protected-access
      self.api = DeadlineStub(self.server.stub)
    self.ds = self.servicer.datastore

  def runner(self):
    rr = svcreal.RealRunner(self.backend, api=self.api, ds=self.ds, pythia_obj=self.script)
    return rr

  def close(self):
    if self.server is not None:
      self.server._server.stop(0)  # pylint: disable=protected-access
      ps = getattr(self.server, '_pythia_server', None)
      if ps is not None:
        ps.stop(0)


STATUS = ('FAILED_PRECONDITION', 'NOT_FOUND', 'ALREADY_EXISTS')


def err_class(resp):
  """The error class a client can tell apart (Deploy.classOf)."""
  if resp.get('k') != 'err':
    return None
  return resp['code'] if resp['code'] in STATUS else 'OTHER'


def canon_resp(resp):
  """Transport-independent view of a response: value as is, errors by class."""
  if resp.get('k') == 'err':
    return {'k': 'err', 'class': err_class(resp)}
  return resp
