"""Shared tie + property stages of the service-level checks (C01, C02, C06, C07).

* identify_flags: replay the counterexample witnesses of the Lean `…_counterexample`
  theorems on the real service to find which variant the current tree is.
* differential: generated histories on the real backends vs the model (tie), and the
  Lean predicates (`judge`) evaluated on the REAL per-step snapshots (property stage).
"""
import copy
import json
import os

from vcheck import core, svcgen, svcreal

FIXED = {'suggestCatchesAll': True, 'shortDeliveryOk': True, 'deleteCascadesOps': True,
         'metadataAtomic': True, 'esFailureFinishesOp': True, 'createKeepsInfeasible': True, 'esAnswerFinishesOp': True, 'resumesAbandonedOp': True, 'esResumesActive': True}

W_CREATE = {'op': 'createStudy', 'owner': 'o', 'display': 's', 'state': 'ACTIVE'}
SUGG = lambda n: {'kind': 'ok', 'sugg': [{'params': i + 1, 'md': []} for i in range(n)], 'delta': []}

WITNESSES = {
    # flag -> (history, predicate on the real run saying "behaves as the fixed variant", key, what)
    'suggestCatchesAll': (
        [W_CREATE, {'op': 'suggest', 'client': 'w', 'count': 1, 'alg': {'kind': 'other'}},
         {'op': 'suggest', 'client': 'w', 'count': 1, 'alg': SUGG(1)}],
        lambda run: run['resps'][1].get('k') == 'op' and run['resps'][1]['v']['done'] and run['resps'][2]['v']['done'],
        'suggest-algorithm-exception-leaves-operation-pending',
        'an exception raised by the in-process algorithm escapes SuggestTrials, the operation stays done=False and every later SuggestTrials of that worker returns it'),
    'shortDeliveryOk': (
        [W_CREATE, {'op': 'suggest', 'client': 'w', 'count': 2, 'alg': SUGG(1)},
         {'op': 'suggest', 'client': 'w', 'count': 2, 'alg': SUGG(2)}],
        lambda run: run['resps'][1].get('k') == 'op' and run['resps'][1]['v']['done'] and len(run['resps'][1]['handed']) == 1,
        'suggest-short-delivery-indexerror',
        'an algorithm delivering fewer suggestions than requested makes SuggestTrials raise IndexError and leaves its operation pending instead of handing out the short delivery'),
    'deleteCascadesOps': (
        [W_CREATE, {'op': 'suggest', 'client': 'w', 'count': 1, 'alg': SUGG(1)}, {'op': 'deleteStudy'},
         {'op': 'getOperation', 'client': 'w', 'num': 1}, W_CREATE,
         {'op': 'suggest', 'client': 'w', 'count': 1, 'alg': SUGG(1)}],
        lambda run: run['resps'][3].get('k') == 'err' and run['resps'][5]['v']['num'] == 1,
        'delete-study-keeps-operations',
        'DeleteStudy leaves the study\'s operation records: they are still served and a re-created study continues their numbering'),
    'metadataAtomic': (
        [W_CREATE, {'op': 'updateMetadata', 'us': [{'t': None, 'kv': ['', 'k', 'v']}, {'t': 7, 'kv': ['', 'k', 'w']}]}],
        lambda run: run['resps'][1].get('k') == 'mdError' and run['final']['studies'][0]['md'] == [],
        'update-metadata-missing-trial-not-atomic',
        'UpdateMetadata naming a missing trial does not report error_details cleanly or writes part of the update'),
    'createKeepsInfeasible': (
        [W_CREATE, {'op': 'createTrial', 'trial': {'state': 'INFEASIBLE', 'params': 3, 'meas': [], 'final': None, 'reason': 'crashed', 'md': []}},
         {'op': 'suggest', 'client': 'w', 'count': 1, 'alg': SUGG(1)}],
        lambda run: run['resps'][1].get('k') == 'trial' and run['resps'][1]['v']['state'] == 'INFEASIBLE' and [t['id'] for t in run['resps'][2]['handed']] == [2],
        'create-trial-infeasible-becomes-requested',
        'CreateTrial of a trial given as INFEASIBLE (a trial evaluated elsewhere, added for warm-starting) stores it as REQUESTED: it loses its infeasibility and the next SuggestTrials hands it to a worker for evaluation'),
    'esFailureFinishesOp': (
        [W_CREATE, {'op': 'suggest', 'client': 'w', 'count': 1, 'alg': SUGG(1)},
         {'op': 'checkEarlyStop', 'id': 1, 'es': {'kind': 'raise'}}],
        lambda run: all(not e['active'] for s in run['final']['studies'] for e in s['es']),
        'earlystop-failure-leaves-record-active',
        'an exception from the early-stopping algorithm leaves the trial\'s early-stopping record ACTIVE; every later check is answered from it without reaching the algorithm'),
    'esAnswerFinishesOp': (
        [W_CREATE, {'op': 'suggest', 'client': 'w', 'count': 1, 'alg': SUGG(1)},
         {'op': 'checkEarlyStop', 'id': 1, 'es': {'kind': 'ok', 'decisions': [], 'delta': []}},
         {'op': 'checkEarlyStop', 'id': 1, 'es': {'kind': 'ok', 'decisions': [], 'delta': [{'t': 99, 'kv': ['', 'k', 'v']}]}}],
        lambda run: all(not e['active'] for s in run['final']['studies'] for e in s['es']) and run['resps'][3].get('k') == 'err',
        'earlystop-no-decision-leaves-record-active',
        'an early-stopping answer without a decision for the checked trial (or one whose metadata cannot be applied) leaves the trial\'s early-stopping record ACTIVE; every later check is answered from it without reaching the algorithm'),
}


KEY_ABANDONED = 'crash-inside-suggest-leaves-operation-pending-for-that-worker'


def probe_resume(be):
  """Does SuggestTrials RESUME an unfinished operation of the asking worker (what a server that died inside
  SuggestTrials leaves behind) or hand it back unchanged?  The record is put into the datastore directly (no history of
  RPCs produces it on a repaired tree); c05_same_worker_resumed / c05_same_worker_wedge_counterexample."""
  from google.longrunning import operations_pb2
  rr = svcreal.make_runner(be)
  rr.step(W_CREATE)
  rr.ds.create_suggestion_operation(operations_pb2.Operation(name='owners/o/operations/suggestion/s/w/1', done=False))
  r = rr.step({'op': 'suggest', 'client': 'w', 'count': 1, 'alg': SUGG(1)})
  return bool(r.get('k') == 'op' and r['v']['done'] and r['v']['num'] == 1 and len(r.get('handed', [])) == 1), r


KEY_ES_ABANDONED = 'crash-inside-earlystop-check-leaves-record-active'


def probe_es_resume(be):
  """Is an ACTIVE early-stopping record found by CheckTrialEarlyStoppingState (what a server that died inside the call
  leaves behind) recomputed, or does it answer the check?  c06_abandoned_earlystop_record_recomputed / _wedge."""
  from vizier._src.service import vizier_oss_pb2
  rr = svcreal.make_runner(be)
  rr.step(W_CREATE)
  rr.step({'op': 'createTrial', 'trial': {'state': 'REQUESTED', 'params': 1, 'meas': [], 'final': None, 'md': []}})
  rr.step({'op': 'suggest', 'client': 'w', 'count': 1, 'alg': SUGG(0)})
  rr.ds.create_early_stopping_operation(vizier_oss_pb2.EarlyStoppingOperation(
      name='owners/o/operations/earlystopping/s/1', status=vizier_oss_pb2.EarlyStoppingOperation.Status.ACTIVE, should_stop=False))
  r = rr.step({'op': 'checkEarlyStop', 'id': 1, 'es': {'kind': 'ok', 'decisions': [[1, True]], 'delta': []}})
  return bool(r.get('k') == 'es' and r.get('v') is True), r


def identify_flags(c, backends, report=()):
  """Returns {backend: cfg}.  A flag found in its defective variant is a property failure on the
  real code when its name is in `report`."""
  cfgs = {}
  for be in backends:
    cfg = {}
    for flag, (hist, ok, key, what) in WITNESSES.items():
      run = svcreal.run_real(be, hist, snaps=False)
      c.traces += 1
      good = False
      try:
        good = bool(ok(run))
      except Exception:  # pylint: disable=broad-except
        good = False
      cfg[flag] = good
      if not good and flag in report:
        c.prop_fail(key, '%s (backend %s)' % (what, be), {'backend': be, 'history': hist, 'real_responses': run['resps'], 'real_final': run['final']})
    good, r = probe_resume(be)
    c.traces += 1
    cfg['resumesAbandonedOp'] = good
    if not good and 'resumesAbandonedOp' in report:
      c.prop_fail(KEY_ABANDONED, 'an unfinished suggestion operation of worker w (what a server that died inside SuggestTrials leaves behind) is handed back unchanged by every later SuggestTrials of that worker: %s (backend %s)' % (json.dumps(r)[:200], be),
                  {'backend': be, 'history': 'CreateStudy; datastore.create_suggestion_operation(w/1, done=False); SuggestTrials(w, 1)', 'response': r})
    good2, r2 = probe_es_resume(be)
    c.traces += 1
    cfg['esResumesActive'] = good2
    if not good2 and 'esResumesActive' in report:
      c.prop_fail(KEY_ES_ABANDONED, 'an ACTIVE early-stopping record of trial 1 (what a server that died inside CheckTrialEarlyStoppingState leaves behind) answers every later check of that trial without reaching the algorithm: %s (backend %s)' % (json.dumps(r2)[:200], be),
                  {'backend': be, 'history': 'CreateStudy; CreateTrial; SuggestTrials(w, 1); datastore.create_early_stopping_operation(trial 1, ACTIVE); CheckTrialEarlyStoppingState(trial 1), algorithm says stop', 'response': r2})
    cfgs[be] = cfg
    c.flags[be] = dict(cfg)
  return cfgs


ERR_TABLE_OPS = ('addMeasurement', 'complete', 'stop', 'deleteTrial', 'checkEarlyStop')
MUTATING = ('createTrial', 'suggest', 'addMeasurement', 'complete', 'stop', 'deleteTrial', 'checkEarlyStop', 'updateMetadata')
ON_STUDY = MUTATING + ('getStudy', 'deleteStudy', 'setStudyState', 'getOperation', 'getTrial', 'listTrials', 'listOptimal')


def expected_error(before, rq):
  """The documented error class (theorems c01_missing_study_not_found … in Props/C01.lean),
  evaluated on a REAL snapshot.  Returns (code, via) or None when no error is documented by
  these rules (other rules may still apply)."""
  op = rq['op']
  if op not in ON_STUDY:
    return None
  st = next((s for s in before['studies'] if s['owner'] == rq.get('owner', 'o') and s['sid'] == rq.get('sid', 's')), None)
  if st is None:
    return ('NOT_FOUND', 'raw')
  if op in MUTATING and st['state'] in ('INACTIVE', 'COMPLETED'):
    return ('FAILED_PRECONDITION', 'handled')
  if op in ERR_TABLE_OPS or op == 'getTrial':
    t = next((t for t in st['trials'] if t['id'] == rq['id']), None)
    if t is None:
      return ('NOT_FOUND', 'raw')
    mutable = t['state'] in ('ACTIVE', 'STOPPING')
    if op in ('complete', 'checkEarlyStop') and not mutable:
      return ('FAILED_PRECONDITION', 'handled')
    if op == 'addMeasurement' and t['state'] in ('REQUESTED', 'SUCCEEDED'):
      return ('FAILED_PRECONDITION', 'handled')
    if op == 'stop' and t['state'] in ('REQUESTED', 'INFEASIBLE'):
      return ('FAILED_PRECONDITION', 'handled')
  return None


def is_error(resp):
  return resp.get('k') in ('err', 'mdError')


def load_corpus():
  """corpus/svc/*.json: histories that once exposed a defect; each is run under both early-stopping
  recycle settings (entries are duplicated so that consecutive indices get both)."""
  import glob
  out = []
  for f in sorted(glob.glob(os.path.join(core.VERIF, 'corpus', 'svc', '*.json'))):
    try:
      h = json.load(open(f))['history']
    except (OSError, ValueError, KeyError):
      continue
    out += [h, [dict(r) for r in h]]
  return out


def differential(c, focus, n_hist, backends, cfgs, weights=None, lengths=(4, 22), clients=('w1', 'w2'),
                 judge=True, check_backends_equal=False, fail_rate=0.16, directed=True):
  """Runs the tie and the property stage.  Property keys are prefixed by what failed."""
  hists = []
  if directed:
    hists = svcgen.matrix()       # directed: every RPC on every trial / study state
    hists += load_corpus()        # minimised past failures (defects since repaired, seeded changes) run first
  n_hist += len(hists)
  for i in range(n_hist - len(hists)):
    # every third history: two owners whose studies share the display name (cross-owner isolation),
    # every fourth of the rest: two studies of one owner
    if i % 3 == 0:
      owners, sids = ('o', 'p'), ('s',)
    elif i % 4 == 1:
      owners, sids = ('o',), ('s', 's1')      # one name a prefix of the other
    elif i % 5 == 2:
      # names are arbitrary strings without '/': surrounding or inner blanks, unicode, separators, case
      owners = (c.rng.choice(['o', 'o ', ' o', 'Ö', 'o.p', 'o:p']),)
      sids = (c.rng.choice(['lr sweep ', ' s', 's ', 'é', 's:1', 'a.b', 'S', 'x y', 'trials', '1']),)
    else:
      owners, sids = ('o',), ('s',)
    g = svcgen.Gen(c.rng, owners=owners, sids=sids,
                   clients=clients, weights=weights, fail_rate=fail_rate)
    hists.append(g.history(c.rng.randrange(*lengths)))
  recycle_of = [bool(i % 2) for i in range(n_hist)]
  per_backend = {}
  for be in backends:
    reqs = [{'op': 'run', 'cfg': dict(cfgs[be], esRecycle=rec), 'reqs': h, 'snaps': True} for h, rec in zip(hists, recycle_of)]
    per_backend[be] = c.lean('Svc', reqs)
  judge_reqs, judge_ctx = [], []
  reals = {}
  for hi, h in enumerate(hists):
    kinds = set(r['op'] for r in h)
    for be in backends:
      m = per_backend[be][hi]
      if 'error' in m:
        raise core.InfraError('driver: %s' % m)
      real = svcreal.run_real(be, h, snaps=True, es_recycle=recycle_of[hi])
      reals[(hi, be)] = real
      c.traces += 1
      d = svcgen.compare(h, real, m)
      if d is not None:
        i, what, a, b = d
        c.tie_break('service model vs real (%s, %s)' % (be, what), {'history': h[:i + 1], 'step': i}, a, b)
      # ---------------- property stage on the real run
      prev = {'owners': [], 'studies': []}
      for i, rq in enumerate(h):
        after = real['snaps'][i]
        resp = real['resps'][i]
        c.count(1, kind='rpc:' + rq['op'] + ':' + (resp.get('code', 'err') if resp.get('k') == 'err' else resp.get('k', '?')))
        if is_error(resp) and rq['op'] != 'checkEarlyStop' and after != prev:
          # suggest errors that persist an operation record are covered by the flags
          if not (rq['op'] == 'suggest' and resp.get('code') in ('AlgorithmError', 'IndexError')):
            c.prop_fail('failed-call-changed-data:' + rq['op'],
                        'a failing %s call (%s) changed stored data on backend %s' % (rq['op'], resp, be),
                        {'backend': be, 'history': h[:i + 1], 'before': prev, 'after': after, 'response': resp})
        # stored metadata is a MAP: one entry per (namespace, key), in the study record and in every trial
        if rq['op'] in ('updateMetadata', 'suggest', 'createTrial', 'createStudy', 'checkEarlyStop'):
          for st_ in after['studies']:
            for where, md in [('study %s/%s' % (st_['owner'], st_['sid']), st_.get('md', []))] + [
                ('trial %d of %s/%s' % (t_['id'], st_['owner'], st_['sid']), t_.get('md', [])) for t_ in st_['trials']]:
              keys = [(e[0], e[1]) for e in md]
              if len(keys) != len(set(keys)):
                dup = sorted(set(k for k in keys if keys.count(k) > 1))
                c.prop_fail('stored-metadata-duplicate-key:' + rq['op'],
                            'after %s the stored metadata of %s holds more than one entry for %s (backend %s): readers that take the first match see a stale value' % (rq['op'], where, dup[:3], be),
                            {'backend': be, 'history': h[:i + 1], 'where': where, 'metadata': md})
        # lifecycle invariant of the stored state: a trial that waits in the REQUESTED pool belongs to nobody
        # (CreateTrial clears client_id; SuggestTrials sets it when it hands the trial out)
        if after != prev:
          for st_ in after['studies']:
            owned = [(t_['id'], t_['client']) for t_ in st_['trials'] if t_['state'] == 'REQUESTED' and t_['client'] != '']
            if owned:
              c.prop_fail('requested-trial-has-owner:' + rq['op'],
                          'after %s trial(s) %s of %s/%s wait in the REQUESTED pool but are stored as owned by a client (backend %s)' % (
                              rq['op'], owned[:3], st_['owner'], st_['sid'], be),
                          {'backend': be, 'history': h[:i + 1], 'owned': owned})
        exp = expected_error(prev, rq)
        if exp is not None:
          got = (resp.get('code'), resp.get('via')) if resp.get('k') == 'err' else None
          if got != exp:
            c.prop_fail('wrong-error-class:' + rq['op'],
                        '%s answered %s where the documented error class is %s (backend %s)' % (rq['op'], resp if got is None else got, exp, be),
                        {'backend': be, 'history': h[:i + 1], 'before': prev, 'response': resp, 'expected': exp})
        if (exp is None and rq['op'] == 'suggest' and resp.get('k') == 'err' and rq.get('alg', {}).get('kind') == 'ok'
            and resp.get('code') != 'AlgorithmError'):
          # an existing ACTIVE study, an algorithm that answers: nothing documents a refusal (an algorithm failure
          # stored in an earlier operation comes back as an OPERATION carrying the error, not as an error status)
          c.prop_fail('suggest-refused-without-documented-reason',
                      'SuggestTrials of worker %r on an existing ACTIVE study, with an algorithm that answers, was refused with %s (backend %s)' % (rq.get('client'), resp, be),
                      {'backend': be, 'history': h[:i + 1], 'before': prev, 'response': resp})
        if judge:
          jr = {'op': 'judge', 'before': prev, 'after': after, 'req': rq}
          if rq['op'] == 'suggest':
            jr['handed'] = []
          if rq['op'] == 'suggest' and resp.get('k') == 'op':
            jr['handed'] = resp.get('handed', [])
            st = next((s for s in prev['studies'] if s['owner'] == rq.get('owner', 'o') and s['sid'] == rq.get('sid', 's')), None)
            no_pending = st is not None and all(o['done'] for o in st['ops'])
            delta_ok = rq['alg'].get('kind') == 'ok' and all(
                u['t'] is None or (st is not None and any(t['id'] == u['t'] for t in st['trials'])) for u in rq['alg'].get('delta', []))
            jr['countApplies'] = bool(no_pending and delta_ok and resp['v']['done'])
          judge_reqs.append(jr)
          judge_ctx.append((hi, be, i, exp, resp))
        prev = after
    if check_backends_equal and len(backends) > 1:
      base = reals[(hi, backends[0])]
      for be in backends[1:]:
        other = reals[(hi, be)]
        for i, rq in enumerate(h):
          if base['resps'][i] != other['resps'][i] or base['snaps'][i] != other['snaps'][i]:
            c.prop_fail('backends-differ:%s-vs-%s' % (backends[0], be),
                        'the same call sequence gives different %s on %s and %s at step %d (%s)' % (
                            'responses' if base['resps'][i] != other['resps'][i] else 'stored data', backends[0], be, i, rq['op']),
                        {'history': h[:i + 1], backends[0]: {'resp': base['resps'][i], 'state': base['snaps'][i]},
                         be: {'resp': other['resps'][i], 'state': other['snaps'][i]}})
            break
    nontriv = len(kinds & {'suggest', 'complete', 'deleteTrial', 'deleteStudy', 'checkEarlyStop'}) >= 2
    c.count(0, ('hist', hi) if nontriv else None)
  verdicts = c.lean('Svc', judge_reqs) if judge_reqs else []
  for (hi, be, i, exp_py, resp_i), v in zip(judge_ctx, verdicts):
    if 'error' in v:
      raise core.InfraError('judge: %s' % v)
    h = hists[hi]
    rq = h[i]
    # the documented error table as proved (c01_error_table, evaluated by the Lean driver on the REAL
    # snapshot) must be the table the harness judged with, and the real response must obey it
    spec = tuple(v['specError']) if v.get('specError') else None
    if spec != exp_py:
      c.tie_break('documented error table: Lean specError vs harness expected_error', {'history': h[:i + 1], 'backend': be}, exp_py, spec)
    if spec is not None:
      got = (resp_i.get('code'), resp_i.get('via')) if resp_i.get('k') == 'err' else None
      if got != spec:
        c.prop_fail('wrong-error-class:' + rq['op'],
                    '%s answered %s where the documented error class (c01_error_table) is %s (backend %s)' % (rq['op'], resp_i if got is None else got, spec, be),
                    {'backend': be, 'history': h[:i + 1], 'response': resp_i, 'expected': list(spec)})
    ctx = {'backend': be, 'history': h[:i + 1], 'bad': v.get('bad')}
    if focus in ('C01', 'C06', 'C07'):
      if not v['lifecycle']:
        c.prop_fail('illegal-trial-evolution:' + rq['op'], 'a trial evolved illegally during %s on %s: %s' % (rq['op'], be, json.dumps(v['bad'])[:300]), ctx)
      if not v['nodup']:
        c.prop_fail('duplicate-trial-id:' + rq['op'], 'two trials share an id after %s on %s' % (rq['op'], be), ctx)
    if focus in ('C02',):
      if not v['lifecycle']:
        c.prop_fail('illegal-trial-evolution:' + rq['op'], 'a trial changed worker / state illegally during %s on %s: %s' % (rq['op'], be, json.dumps(v['bad'])[:300]), ctx)
      if not v['fresh'] or not v['nodup']:
        c.prop_fail('trial-id-not-fresh:' + rq['op'], 'a new trial did not get an id above all existing ids (%s on %s)' % (rq['op'], be), ctx)
      if not v['handedOK']:
        c.prop_fail('handed-trial-not-active-or-foreign', 'SuggestTrials handed out a trial that is not ACTIVE for the asking worker (%s)' % be, ctx)
      if not v['countOK']:
        c.prop_fail('wrong-number-or-order-of-suggestions', 'SuggestTrials did not hand out min(N, own+queued+delivered)=%s trials in own/queued/new order (%s)' % (v['expectedCount'], be), ctx)
      if not v.get('surplusOK', True):
        c.prop_fail('delivered-suggestions-dropped-or-invented', 'after SuggestTrials the new trials of the study are not exactly the suggestions the algorithm delivered (surplus must wait as REQUESTED, nothing may be dropped) (%s)' % be, ctx)
    if focus == 'C06':
      if not v['pendingFree'] and cfgs[be].get('suggestCatchesAll') and cfgs[be].get('shortDeliveryOk'):
        c.prop_fail('operation-left-pending:' + rq['op'], 'an unfinished suggestion operation is left in the datastore after %s (%s)' % (rq['op'], be), ctx)
  for k in (0, len(hists) // 2):
    if hists:
      c.sample({'history': hists[k], 'real_responses(%s)' % backends[0]: reals[(k, backends[0])]['resps']})
  return hists, reals
