"""History generator for the service model and model-vs-real comparison."""
import copy
import json

from vcheck import svcreal

NSS = ['', ':algo', ':user', ':a:b']
KEYS = ['k', 'j', '']
VALS = ['', 'v', 'w']
SSTATES = ['STATE_UNSPECIFIED', 'ACTIVE', 'INACTIVE', 'COMPLETED']


def alias_id(r, t):
  """A non-canonical decimal string naming trial t (Python's int() accepts it)."""
  return r.choice(['0%d', '+%d', ' %d', '%d ', '00%d', '\t%d\n']) % t


class Gen:
  """Keeps a light shadow of what exists so that ids are mostly live (70 %), sometimes
  deleted (20 %) or never existing (10 %).  The shadow only steers the distribution."""

  def __init__(self, rng, owners=('o',), sids=('s',), clients=('w1', 'w2'), weights=None, fail_rate=0.16):
    self.rng = rng
    self.owners, self.sids, self.clients = list(owners), list(sids), list(clients)
    self.live = {}      # (o,s) -> list of ids believed live
    self.dead = {}      # (o,s) -> ids deleted
    self.next_id = {}   # (o,s) -> next id guess
    self.tok = 0
    self.fail_rate = fail_rate
    self.shadow_trials = None   # (o,s) -> {state: [ids]} read from a shadow RAM servicer
    self.shadow_state = {}      # (o,s) -> study state
    self.weights = weights or {
        'createStudy': 3, 'getStudy': 1, 'listStudies': 1, 'deleteStudy': 1, 'setStudyState': 2,
        'createTrial': 5, 'suggest': 9, 'getOperation': 1, 'getTrial': 1, 'listTrials': 1,
        'addMeasurement': 4, 'complete': 8, 'stop': 3, 'deleteTrial': 3, 'checkEarlyStop': 3,
        'updateMetadata': 4, 'listOptimal': 1}

  def fresh(self):
    self.tok += 1
    return self.tok

  def kv(self):
    r = self.rng
    return [r.choice(NSS), r.choice(KEYS), r.choice(VALS)]

  PREF = {'complete': ['ACTIVE', 'ACTIVE', 'ACTIVE', 'STOPPING', 'SUCCEEDED', 'INFEASIBLE', 'REQUESTED'],
          'addMeasurement': ['ACTIVE', 'ACTIVE', 'ACTIVE', 'STOPPING', 'SUCCEEDED', 'INFEASIBLE', 'REQUESTED'],
          'stop': ['ACTIVE', 'ACTIVE', 'STOPPING', 'SUCCEEDED', 'INFEASIBLE', 'REQUESTED'],
          'checkEarlyStop': ['ACTIVE', 'ACTIVE', 'ACTIVE', 'STOPPING', 'SUCCEEDED', 'REQUESTED']}

  def pick_id(self, key, op=None):
    r = self.rng
    x = r.random()
    by_state = self.shadow_trials.get(key) if self.shadow_trials is not None else None
    if by_state is not None:
      allids = [i for ids in by_state.values() for i in ids]
      if x < 0.85 and allids:
        if op in self.PREF:
          want = r.choice(self.PREF[op])
          if by_state.get(want):
            return r.choice(by_state[want])
        return r.choice(allids)
      dead = self.dead.get(key, [])
      if x < 0.93 and dead:
        return r.choice(dead)
      return r.choice([max(allids + [0]) + 1 + r.randrange(0, 2), 99])
    live, dead = self.live.get(key, []), self.dead.get(key, [])
    if x < 0.7 and live:
      return r.choice(live)
    if x < 0.9 and dead:
      return r.choice(dead)
    return r.choice([self.next_id.get(key, 1) + r.randrange(0, 3), 99])

  def pick_study(self):
    r = self.rng
    existing = list(self.shadow_trials) if self.shadow_trials else []
    if existing and r.random() < 0.9:
      return r.choice(existing)
    return (r.choice(self.owners), r.choice(self.sids))

  def meas(self):
    return [self.fresh(), self.rng.random() < 0.8]

  def alg(self, count):
    r = self.rng
    x = r.random()
    if x < self.fail_rate / 2:
      return {'kind': 'rpc'}
    if x < self.fail_rate:
      # the model sees 'the algorithm failed'; HOW it fails varies on the real side: an exception, an exception whose
      # text cannot be encoded, an answer that cannot be converted
      y = r.random()
      if y < 0.5:
        return {'kind': 'other'}
      if y < 0.7:
        return {'kind': 'other', 'how': 'long-message:%d' % r.randrange(0, 64)}
      return {'kind': 'other', 'how': 'surrogate-message' if y < 0.85 else 'malformed-decision'}
    n = max(0, count + r.choice([-2, -1, 0, 0, 0, 0, 1, 2, 3]))
    sugg = [{'params': self.fresh(), 'md': [self.kv()] if r.random() < 0.3 else []} for _ in range(n)]
    if len(sugg) >= 2 and r.random() < 0.25:
      # the same point (parameters and metadata) delivered twice in one decision: still two suggestions
      sugg[r.randrange(1, len(sugg))] = dict(sugg[0])
    delta = []
    if r.random() < 0.3:
      for _ in range(r.randrange(1, 3)):
        delta.append({'t': None if r.random() < 0.6 else r.choice([1, 2, 3, 99, 0]), 'kv': self.kv()})    # 0: no trial ever has this id
    return {'kind': 'ok', 'sugg': sugg, 'delta': delta}

  def one(self, first=False):
    r = self.rng
    kinds = list(self.weights)
    op = 'createStudy' if first else r.choices(kinds, weights=[self.weights[k] for k in kinds])[0]
    TRIAL_OPS = ('getTrial', 'stop', 'addMeasurement', 'complete', 'deleteTrial', 'checkEarlyStop')
    if op in TRIAL_OPS and self.shadow_trials is not None and r.random() < 0.9:
      with_trials = [k for k, d in self.shadow_trials.items() if any(d.values())]
      if not with_trials:
        op = r.choice(['suggest', 'suggest', 'createTrial'])
    if op == 'createStudy':
      o, s = r.choice(self.owners), r.choice(self.sids)
    elif op in TRIAL_OPS and self.shadow_trials and r.random() < 0.9 and any(any(d.values()) for d in self.shadow_trials.values()):
      o, s = r.choice([k for k, d in self.shadow_trials.items() if any(d.values())])
    else:
      o, s = self.pick_study()
    key = (o, s)
    base = {'owner': o, 'sid': s}
    if op != 'createStudy' and self.shadow_state.get(key) in ('INACTIVE', 'COMPLETED') and r.random() < 0.5:
      return dict(base, op='setStudyState', state='ACTIVE')     # re-open: keep the history productive
    if op == 'createStudy':
      d = dict(base, op=op, display=s if r.random() < 0.95 else '', spec=r.randrange(0, 3),
               state=r.choices(SSTATES, weights=[8, 4, 1, 1])[0], md=[self.kv()] if r.random() < 0.3 else [])
      d.pop('sid')
      if r.random() < 0.03:
        d['nameSet'] = True
      self.live.setdefault(key, []); self.next_id.setdefault(key, 1)
      return d
    if op in ('getStudy', 'listTrials', 'listOptimal', 'listStudies'):
      return dict(base, op=op)
    if op == 'deleteStudy':
      self.live.pop(key, None); self.dead.pop(key, None); self.next_id.pop(key, None)
      return dict(base, op=op)
    if op == 'setStudyState':
      return dict(base, op=op, state=r.choices(SSTATES, weights=[1, 8, 1, 1])[0])
    if op == 'createTrial':
      st = r.choices(['STATE_UNSPECIFIED', 'REQUESTED', 'ACTIVE', 'SUCCEEDED', 'INFEASIBLE'], weights=[3, 3, 1, 3, 1])[0]
      t = {'state': st, 'params': self.fresh(), 'client': r.choice(['', 'w1']),
           'meas': [self.meas() for _ in range(r.randrange(0, 2))],
           'final': self.meas() if st == 'SUCCEEDED' and r.random() < 0.8 else None,
           'reason': '', 'md': [self.kv() for _ in range(r.randrange(0, 2))]}
      nid = self.next_id.get(key, 1)
      self.live.setdefault(key, []).append(nid); self.next_id[key] = nid + 1
      return dict(base, op=op, trial=t)
    if op == 'suggest':
      count = r.choice([1, 1, 2, 2, 3, 4])
      a = self.alg(count)
      nid = self.next_id.get(key, 1)
      extra = len(a.get('sugg', []))
      self.live.setdefault(key, []).extend(range(nid, nid + extra)); self.next_id[key] = nid + extra
      return dict(base, op=op, client=r.choice(self.clients), count=count, alg=a)
    if op == 'getOperation':
      return dict(base, op=op, client=r.choice(self.clients), num=r.choice([1, 1, 2, 3]))
    tid = self.pick_id(key, op)
    if op == 'getTrial' or op == 'stop':
      return dict(base, op=op, id=tid)
    if op == 'addMeasurement':
      return dict(base, op=op, id=tid, m=self.meas())
    if op == 'complete':
      inf = r.random() < 0.25
      return dict(base, op=op, id=tid, final=self.meas() if r.random() < 0.7 else None, infeasible=inf,
                  reason='bad' if inf else '')
    if op == 'deleteTrial':
      if tid in self.live.get(key, []):
        self.live[key].remove(tid); self.dead.setdefault(key, []).append(tid)
      return dict(base, op=op, id=tid)
    if op == 'checkEarlyStop':
      # re-check the trial checked last (the recycled-record path) half of the time
      last = getattr(self, 'last_es', {}).get(key)
      if last is not None and r.random() < 0.5:
        tid = last
      if not hasattr(self, 'last_es'):
        self.last_es = {}
      self.last_es[key] = tid
      x = r.random()
      if x < max(0.15, self.fail_rate):
        es = {'kind': 'raise'} if r.random() < 0.7 else {'kind': 'raise', 'how': 'surrogate-message'}
      else:
        ds = [[tid, r.random() < 0.5]] if r.random() < 0.85 else []
        if r.random() < 0.3:
          ds.append([self.pick_id(key), r.random() < 0.5])
        delta = [{'t': None, 'kv': self.kv()}] if r.random() < 0.2 else []
        y = r.random()
        if y < 0.08:
          delta.append({'t': self.pick_id(key), 'kv': self.kv()})
        elif y < 0.13:
          delta.append({'t': 99, 'kv': self.kv()})        # names a trial that does not exist: the answer cannot be applied
        es = {'kind': 'ok', 'decisions': ds, 'delta': delta}
      return dict(base, op=op, id=tid, es=es)
    if op == 'updateMetadata':
      us = [{'t': None if r.random() < 0.4 else self.pick_id(key), 'kv': self.kv()} for _ in range(r.randrange(1, 4))]
      for u in us:
        # a trial may be named by any decimal string int() maps to its id ('02', '+2', ' 2'): the model sees
        # the id, the real request carries the alias
        if u['t'] is not None and r.random() < 0.15:
          u['talias'] = alias_id(r, u['t'])
      return dict(base, op=op, us=us)
    raise AssertionError(op)

  def history(self, n, shadow=True):
    """Stateful generation: every generated request is executed on a shadow in-RAM real
    servicer whose state steers the next choice (ids by state, existing studies)."""
    if not shadow:
      return [self.one(first=(i == 0)) for i in range(n)]
    rr = svcreal.RealRunner('ram')
    out = []
    self.shadow_trials = {}
    # when several owners / study names are in play, create (most of) the studies up front so that
    # cross-study and cross-owner interference can show
    forced = []
    if len(self.owners) * len(self.sids) > 1:
      for o in self.owners:
        for sd in self.sids:
          if self.rng.random() < 0.9:
            forced.append({'op': 'createStudy', 'owner': o, 'display': sd, 'spec': self.rng.randrange(0, 3),
                           'state': self.rng.choice(['ACTIVE', 'ACTIVE', 'STATE_UNSPECIFIED']), 'md': []})
    n = max(n, len(forced) + 2)
    for i in range(n):
      rq = forced[i] if i < len(forced) else self.one(first=(i == 0))
      out.append(rq)
      rr.step(rq)
      snap = rr.snapshot()
      self.shadow_trials = {}
      self.shadow_state = {(st['owner'], st['sid']): st['state'] for st in snap['studies']}
      for st in snap['studies']:
        d = {}
        for t in st['trials']:
          d.setdefault(t['state'], []).append(t['id'])
        self.shadow_trials[(st['owner'], st['sid'])] = d
    return out


def norm_resp_pair(req, real, model):
  """Project both responses onto what is compared."""
  real, model = copy.deepcopy(real), copy.deepcopy(model)
  if req['op'] == 'getOperation' and real.get('k') == 'op' and model.get('k') == 'op':
    # a stored operation carries the trial snapshots of when it finished: compare ids only
    real.pop('handed_ids', None); real.pop('handed', None); model.pop('handed', None)
  if req['op'] == 'suggest' and real.get('k') == 'op' and model.get('k') == 'op' and not real['v']['done']:
    real.pop('handed', None); model.pop('handed', None)
  return real, model


def compare(reqs, real, model):
  """Returns (index, what, real, model) of the first divergence or None."""
  for i, (rq, a, b) in enumerate(zip(reqs, real['resps'], model['resps'])):
    a2, b2 = norm_resp_pair(rq, a, b)
    if a2 != b2:
      return (i, 'response', a2, b2)
    if real.get('snaps') and model.get('snaps'):
      sa, sb = real['snaps'][i], svcreal.canon_db(model['snaps'][i])
      if sa != sb:
        return (i, 'state-after', sa, sb)
  fa, fb = real['final'], svcreal.canon_db(model['final'])
  if fa != fb:
    return (len(reqs), 'final-state', fa, fb)
  return None


def shrink(reqs, still_fails, budget=60):
  """Delta-debugging on the request list."""
  cur = list(reqs)
  n = 2
  while len(cur) >= 2 and budget > 0:
    chunk = max(1, len(cur) // n)
    reduced = False
    for i in range(0, len(cur), chunk):
      cand = cur[:i] + cur[i + chunk:]
      budget -= 1
      if cand and still_fails(cand):
        cur, n, reduced = cand, max(n - 1, 2), True
        break
      if budget <= 0:
        break
    if not reduced:
      if chunk == 1:
        break
      n = min(len(cur), n * 2)
  return cur


def matrix():
  """Directed histories: every trial-level RPC on a trial in every state (and a missing one), and
  every study-level RPC on a study in every state (and a missing one).  Each is a short prefix that
  brings the object into the state, the call, and the same call once more (repeat / idempotence)."""
  ok = lambda n, base: {'kind': 'ok', 'sugg': [{'params': base + i, 'md': []} for i in range(n)], 'delta': []}
  create = {'op': 'createStudy', 'owner': 'o', 'display': 's', 'spec': 1, 'state': 'ACTIVE', 'md': []}
  to_state = {
      'REQUESTED': [{'op': 'createTrial', 'trial': {'state': 'REQUESTED', 'params': 5, 'meas': [], 'final': None, 'md': []}}],
      'ACTIVE': [{'op': 'suggest', 'client': 'w1', 'count': 1, 'alg': ok(1, 10)}],
      'STOPPING': [{'op': 'suggest', 'client': 'w1', 'count': 1, 'alg': ok(1, 10)}, {'op': 'stop', 'id': 1}],
      'SUCCEEDED': [{'op': 'suggest', 'client': 'w1', 'count': 1, 'alg': ok(1, 10)}, {'op': 'complete', 'id': 1, 'final': [3, True]}],
      'INFEASIBLE': [{'op': 'suggest', 'client': 'w1', 'count': 1, 'alg': ok(1, 10)},
                     {'op': 'complete', 'id': 1, 'final': None, 'infeasible': True, 'reason': 'bad'}],
      'DELETED': [{'op': 'suggest', 'client': 'w1', 'count': 1, 'alg': ok(1, 10)}, {'op': 'deleteTrial', 'id': 1}],
      'MISSING': [],
  }
  trial_calls = [
      {'op': 'getTrial', 'id': 1}, {'op': 'stop', 'id': 1}, {'op': 'addMeasurement', 'id': 1, 'm': [2, True]},
      {'op': 'complete', 'id': 1, 'final': [4, True]}, {'op': 'complete', 'id': 1, 'final': None},
      {'op': 'complete', 'id': 1, 'final': None, 'infeasible': True, 'reason': 'x'}, {'op': 'deleteTrial', 'id': 1},
      {'op': 'checkEarlyStop', 'id': 1, 'es': {'kind': 'ok', 'decisions': [[1, True]], 'delta': []}},
      {'op': 'checkEarlyStop', 'id': 1, 'es': {'kind': 'raise'}},
      {'op': 'updateMetadata', 'us': [{'t': 1, 'kv': ['', 'k', 'v']}]},
  ]
  out = []
  for st, pre in to_state.items():
    for call in trial_calls:
      out.append([dict(create)] + [dict(p) for p in pre] + [dict(call), dict(call), {'op': 'listTrials'}])
  study_states = {'ACTIVE': [], 'INACTIVE': [{'op': 'setStudyState', 'state': 'INACTIVE'}],
                  'COMPLETED': [{'op': 'setStudyState', 'state': 'COMPLETED'}], 'DELETED': [{'op': 'deleteStudy'}]}
  study_calls = [
      {'op': 'getStudy'}, {'op': 'listStudies'}, {'op': 'deleteStudy'}, {'op': 'setStudyState', 'state': 'ACTIVE'},
      {'op': 'createTrial', 'trial': {'state': 'REQUESTED', 'params': 6, 'meas': [], 'final': None, 'md': []}},
      {'op': 'suggest', 'client': 'w2', 'count': 2, 'alg': ok(2, 20)}, {'op': 'suggest', 'client': 'w2', 'count': 1, 'alg': {'kind': 'other'}},
      {'op': 'getOperation', 'client': 'w1', 'num': 1}, {'op': 'listTrials'}, {'op': 'listOptimal'},
      {'op': 'updateMetadata', 'us': [{'t': None, 'kv': ['', 'k', 'v']}]},
      {'op': 'createStudy', 'owner': 'o', 'display': 's', 'spec': 1, 'state': 'ACTIVE', 'md': []},
  ]
  base = [dict(create), {'op': 'suggest', 'client': 'w1', 'count': 1, 'alg': ok(1, 10)}]
  for st, pre in study_states.items():
    for call in study_calls:
      out.append([dict(b) for b in base] + [dict(p) for p in pre] + [dict(call), dict(call)])
  for call in study_calls:
    if call['op'] != 'createStudy':
      out.append([dict(call)])          # nothing exists at all
  return out
