"""Shared helpers of the C15 / C03 checks: generated flat search spaces, their JSON form
for the Lean codec model (floats as 16-hex-digit bit patterns), value canonicalisation and
the stated tolerances."""
import math
import struct

F32_MAX_MAG = 1e30      # float32 converters are exercised with |bounds| in [1e-30, 1e30]
F32_MAX_INT = 2 ** 24   # and integers exactly representable in float32


def hexf(x):
  return struct.pack('>d', float(x)).hex()


def unhex(s):
  return struct.unpack('>d', bytes.fromhex(s))[0]


# ----------------------------------------------------------------------------- spaces
CAT_POOL = ['a', 'b', 'c', 'relu', 'tanh', 'A', 'é', 'x y', '0', 'True', 'z:z', 'Ω']


def _log_uniform(rng, lo_exp, hi_exp):
  return 10.0 ** rng.uniform(lo_exp, hi_exp)


def gen_double(rng, f32):
  big = 30 if f32 else 300
  kind = rng.choice(['unit', 'generic', 'generic', 'negative', 'huge', 'tiny', 'tinyrange', 'singleton', 'pos', 'pos', 'posratio'])
  if kind == 'unit':
    lo, hi = 0.0, 1.0
  elif kind == 'generic':
    lo = rng.uniform(-100, 100)
    hi = lo + _log_uniform(rng, -2, 3)
  elif kind == 'negative':
    hi = -_log_uniform(rng, -3, 3)
    lo = hi - _log_uniform(rng, -2, 4)
  elif kind == 'huge':
    m = _log_uniform(rng, big - 6, big)
    lo, hi = rng.choice([(-m, m), (m / 1e3, m), (-m, -m / 7), (0.0, m)])
  elif kind == 'tiny':
    m = _log_uniform(rng, -big, -big + 6)
    lo, hi = rng.choice([(m, 3 * m), (-m, m), (0.0, m)])
  elif kind == 'tinyrange':
    lo = rng.choice([1.0, -5.0, 1e6, 123.456])
    hi = lo + abs(lo) * rng.choice([1e-3, 1e-4] if f32 else [1e-6, 1e-9, 1e-12])
  elif kind == 'singleton':
    lo = hi = rng.choice([0.0, 1.0, -2.5, 1e9 if not f32 else 1e6, 1e-7, 0.5])
  elif kind == 'posratio':      # log scale near 0: many decades between the bounds
    lo = _log_uniform(rng, -12, -6)
    hi = _log_uniform(rng, 2, 8)
  else:
    lo = _log_uniform(rng, -6, 3)
    hi = lo * _log_uniform(rng, 0.01, 6)
  lo, hi = float(lo), float(hi)
  if lo > hi:
    lo, hi = hi, lo
  sc = rng.choice(['LIN', 'LIN', None, 'LOG', 'RLOG']) if lo > 0 else rng.choice(['LIN', None])
  if sc in ('LOG', 'RLOG') and lo != hi and math.log(hi / lo) < (1e-2 if f32 else 1e-7):
    sc = 'LIN'                  # a log range the dtype cannot resolve (see assumptions)
  return {'t': 'D', 'lo': lo, 'hi': hi, 'sc': sc}


def gen_integer(rng, f32, max_width=40):
  lim = (F32_MAX_INT if f32 else 2 ** 52) - 400
  kind = rng.choice(['small', 'small', 'neg', 'wide', 'singleton', 'offset', 'pos'])
  if kind == 'small':
    lo = rng.randrange(-3, 4); hi = lo + rng.randrange(1, 9)
  elif kind == 'neg':
    hi = -rng.randrange(1, 50); lo = hi - rng.randrange(0, 12)
  elif kind == 'wide':
    lo = rng.randrange(-20, 20); hi = lo + rng.randrange(11, max_width + 1)
  elif kind == 'singleton':
    lo = hi = rng.choice([0, 1, -7, 1000])
  elif kind == 'offset':
    lo = rng.choice([lim, -lim - 300, 10 ** 6, 2 ** 20]); hi = lo + rng.randrange(0, 14)
  else:
    lo = rng.randrange(1, 30); hi = lo + rng.randrange(1, max_width + 1)
  sc = rng.choice([None, None, 'LIN', 'LOG', 'RLOG']) if 0 < lo and hi < 10 ** 4 else rng.choice([None, 'LIN'])
  return {'t': 'I', 'lo': int(lo), 'hi': int(hi), 'sc': sc}


def gen_discrete(rng, f32):
  n = rng.choice([1, 2, 3, 3, 5, 8, 10, 11, 13, 16])
  kind = rng.choice(['ints', 'floats', 'neg', 'pos', 'pos', 'huge', 'tiny'])
  big = 28 if f32 else 280
  vals = set()
  while len(vals) < n:
    if kind == 'ints':
      v = float(rng.randrange(-20, 60))
    elif kind == 'floats':
      v = round(rng.uniform(-10, 10), 2)
    elif kind == 'neg':
      v = -round(_log_uniform(rng, -2, 3), 3)
    elif kind == 'pos':
      v = float('%.3g' % _log_uniform(rng, -4, 4))
    elif kind == 'huge':
      v = float('%.3g' % _log_uniform(rng, big - 3, big)) * rng.choice([1, 1, -1])
    else:
      v = float('%.3g' % _log_uniform(rng, -big, -big + 3))
    vals.add(v + 0.0)
    if len(vals) == n and n > 1:
      sv = sorted(vals)
      if min(b - a for a, b in zip(sv, sv[1:])) < (1e-4 if f32 else 1e-11) * (sv[-1] - sv[0]):
        vals = set()              # gaps the dtype cannot resolve after scaling: draw again
  vals = sorted(vals)
  sc = rng.choice(['LIN', 'LIN', None, 'UD', 'LOG', 'RLOG']) if vals[0] > 0 else rng.choice(['LIN', None, 'UD'])
  return {'t': 'S', 'vals': vals, 'sc': sc}


def gen_categorical(rng):
  n = rng.choice([1, 2, 3, 3, 4, 6])
  return {'t': 'C', 'cats': sorted(rng.sample(CAT_POOL, n)), 'sc': None}


def gen_space(rng, f32=False, max_params=6, types='DISC', max_int_width=40):
  n = rng.randrange(1, max_params + 1)
  ps = []
  for i in range(n):
    t = rng.choice(types)
    p = (gen_double(rng, f32) if t == 'D' else gen_integer(rng, f32, max_int_width) if t == 'I'
         else gen_discrete(rng, f32) if t == 'S' else gen_categorical(rng))
    p['name'] = rng.choice(['p%d', 'x_%d', 'lr[%d]', 'é%d']) % i
    ps.append(p)
  return ps


def twin_space(rng, space):
  """Same names, types, scale types and the same SUMMARY of every domain (number of feasible values,
  smallest and largest one) - different feasible sets: what a second study in the same process looks like
  to anything keyed by less than the whole domain."""
  out = []
  for p in space:
    q = dict(p)
    if p['t'] == 'S' and len(p['vals']) >= 3:
      vals = list(p['vals'])
      for _ in range(8):
        i = rng.randrange(1, len(vals) - 1)
        lo, hi = vals[i - 1], vals[i + 1]
        v = float('%.4g' % (lo + (hi - lo) * rng.choice([0.25, 0.5, 0.75])))
        if lo < v < hi and v != vals[i] and min(v - lo, hi - v) > 1e-3 * (vals[-1] - vals[0]):
          vals[i] = v
      q['vals'] = vals
    elif p['t'] == 'C' and not p.get('bool'):
      cats = list(p['cats'])
      extra = [x for x in CAT_POOL if x not in cats]
      if extra:
        cats[rng.randrange(len(cats))] = rng.choice(extra)
      q['cats'] = sorted(cats)
    out.append(q)
  return out


def num_feasible(p):
  if p['t'] == 'D':
    return math.inf
  if p['t'] == 'I':
    return p['hi'] - p['lo'] + 1
  return len(p['vals'] if p['t'] == 'S' else p['cats'])


def feasible_values(p):
  if p['t'] == 'I':
    return list(range(p['lo'], p['hi'] + 1))
  return list(p['vals'] if p['t'] == 'S' else p['cats'])


def bounds(p):
  if p['t'] in 'DI':
    return p['lo'], p['hi']
  return p['vals'][0], p['vals'][-1]


def add_to_search_space(vz, root, p, default=None):
  sc = {'LIN': vz.ScaleType.LINEAR, 'LOG': vz.ScaleType.LOG, 'RLOG': vz.ScaleType.REVERSE_LOG,
        'UD': vz.ScaleType.UNIFORM_DISCRETE, None: None}[p['sc']]
  kw = {}
  if default is not None:
    kw['default_value'] = default
  if p['t'] == 'D':
    root.add_float_param(p['name'], p['lo'], p['hi'], scale_type=sc, **kw)
  elif p['t'] == 'I':
    root.add_int_param(p['name'], p['lo'], p['hi'], scale_type=sc, **kw)
  elif p['t'] == 'S':
    root.add_discrete_param(p['name'], list(p['vals']), scale_type=sc, **kw)
  elif p.get('bool'):
    if list(p['cats']) != ['False', 'True']:
      kw['feasible_values'] = [v == 'True' for v in p['cats']]     # a boolean restricted to one value
    root.add_bool_param(p['name'], **kw)          # CATEGORICAL ['False', 'True'] with external type BOOLEAN
  else:
    root.add_categorical_param(p['name'], list(p['cats']), **kw)


def build_problem(vz, space, metrics=(('obj', 'MAXIMIZE'),), defaults=None):
  problem = vz.ProblemStatement()
  for p in space:
    add_to_search_space(vz, problem.search_space.root, p, (defaults or {}).get(p['name']))
  for name, goal in metrics:
    problem.metric_information.append(
        vz.MetricInformation(name, goal=getattr(vz.ObjectiveMetricGoal, goal)))
  return problem


def model_scale(p):
  return {'LOG': 'LOG', 'RLOG': 'RLOG'}.get(p['sc'], 'LIN')


def param_json(p):
  j = {'name': p['name'], 't': p['t'], 'sc': model_scale(p)}
  if p['t'] == 'D':
    j['lo'], j['hi'] = hexf(p['lo']), hexf(p['hi'])
  elif p['t'] == 'I':
    j['lo'], j['hi'] = p['lo'], p['hi']
  elif p['t'] == 'S':
    j['vals'] = [hexf(v) for v in p['vals']]
  else:
    j['cats'] = list(p['cats'])
  return j


# ----------------------------------------------------------------------------- values
def val_json(v):
  if isinstance(v, bool):
    raise TypeError('bool value')
  if isinstance(v, str):
    return {'s': v}
  if isinstance(v, int):
    return {'i': v}
  return {'f': hexf(v)}


def val_from_json(j):
  if 'f' in j:
    return unhex(j['f'])
  if 'i' in j:
    return int(j['i'])
  return j['s']


def canon_value(p, v):
  """Value of a ParameterValue as the python type the parameter's kind stores: integral
  floats of an INTEGER parameter become int, ints of a DISCRETE/DOUBLE parameter float
  (numpy scalars are unwrapped).  Anything else is passed through for the judge to refuse."""
  if hasattr(v, 'item') and not isinstance(v, (str, bytes)):
    v = v.item()
  if isinstance(v, bool):
    return ('True' if v else 'False') if p.get('bool') else v
  if p['t'] == 'I' and isinstance(v, float) and v.is_integer() and abs(v) < 2 ** 63:
    return int(v)
  if p['t'] in 'DS' and isinstance(v, int):
    return float(v)
  return v


def assignment_of(space, pdict):
  """ParameterDict (or dict name -> ParameterValue/raw) -> [[name, canonical python value], ...]
  in dict order."""
  by = {p['name']: p for p in space}
  out = []
  for name in pdict:
    pv = pdict[name]
    v = pv.value if hasattr(pv, 'value') else pv
    out.append([name, canon_value(by[name], v) if name in by else (v.item() if hasattr(v, 'item') else v)])
  return out


def assign_json(a):
  return [[n, val_json(v)] for n, v in a]


def is_jsonable_value(v):
  return isinstance(v, (int, float, str)) and not isinstance(v, bool)


# ----------------------------------------------------------------------------- tolerances
def log_scaled(p):
  return p['sc'] in ('LOG', 'RLOG') and p['t'] != 'C'


def magnitude(p):
  lo, hi = bounds(p)
  return max(abs(lo), abs(hi), 1e-300)


def value_tol(p, f32, *values):
  """absolute tolerance for a decoded DOUBLE value: eps * magnitude of the bounds (and of the
  values themselves when clipping is off), * (1 + |ln bound|) on log scales, where the error of
  log/exp is amplified"""
  eps = 1e-5 if f32 else 1e-9
  lo, hi = bounds(p)
  amp = 1.0
  if log_scaled(p) and lo > 0:
    amp += max(abs(math.log(lo)), abs(math.log(hi)))
  mag = magnitude(p) if lo != hi else max(magnitude(p), 1.0)    # the singleton branch shifts through 0.5
  return eps * max([mag] + [abs(v) for v in values if math.isfinite(v)]) * amp


def feature_tol(p, f32, scaled, stable_rlog=True):
  """absolute tolerance for a scaled feature: eps * condition number of the scaling.  For
  reverse-log as written ((low+high)-x) the argument of the log carries an absolute error of
  eps*high, i.e. a relative error up to eps*high/low."""
  eps = 1e-5 if f32 else 1e-9
  lo, hi = bounds(p)
  if not scaled:
    return eps * magnitude(p)
  if lo == hi:
    return eps * (1 + abs(lo))
  if log_scaled(p) and lo > 0:
    d = abs(math.log(hi) - math.log(lo)) or 1.0
    extra = hi / lo if (p['sc'] == 'RLOG' and not stable_rlog) else 0.0
    return eps * (1 + (2 + extra + abs(math.log(lo)) + abs(math.log(hi))) / d)
  return eps * (1 + (abs(lo) + abs(hi)) / (hi - lo))


def rlog_absorbs(p, f32):
  """reverse-log parameter whose high/low ratio exceeds the precision of the dtype"""
  lo, hi = bounds(p)
  return p['sc'] == 'RLOG' and p['t'] != 'C' and lo > 0 and hi / lo >= (2.0 ** 22 if f32 else 2.0 ** 51)
