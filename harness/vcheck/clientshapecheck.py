"""The RPC shape of the client library (vizier_client.py / clients.py) - premise "a client call contains at most one
writing RPC" of the client layer (Model/Client.lean; used by C01 / C05 / C06).

  translate(c)   regenerate lean/VizierModel/Generated/ClientShape.lean from the source of `core.REPO`
                 (harness/translators/client_shape.py), register the obligation 'translator: every client method
                 recognised', put the table into `c.coverage_extra['client_shape']`.  Call it BEFORE `c.proof_stage()` when
                 the modules of lean/theorems/ClientShape.json are part of the property's theorem file, so that the build sees
                 the table of the tree under test.  `stage` calls it if nobody did.
  stage(c)       1. obligations (`c.add_obligation`): the criteria of Model/ClientShape.lean evaluated in Python on the
                    extracted tables (with the offending method in the detail), and 'lean kernel, this run's table:
                    clientshape_*' - the SAME statements as the table theorems of Props/ClientShape.lean, decided by the
                    kernel on this run's tables in a file private to the run (a concurrent run on another tree, which rewrites
                    Generated/ClientShape.lean, cannot change the verdict; cached by content).
                 2. ALWAYS, the dynamic confirmation on the REAL client library: an in-process `VizierServicer` (RAM
                    datastore; SQLite in memory as well in the thorough tier) behind a recording proxy; every public method /
                    property of `VizierClient`, every public function of vizier_client.py and every public method of
                    `clients.Study` / `clients.Trial` is called once on a small study with valid arguments (`update_metadata`
                    with a delta that has BOTH a study part and trial parts) and the recorded RPC-name sequence is compared
                      * with `admits` of the table generated from this tree (`c.tie_break` on difference: the translator
                        does not describe what the code does), and
                      * with the criterion itself: at most one writing RPC per call
                        (`c.prop_fail('client-call-issues-several-writing-rpcs:<method>', what, case)`).
Quick tier: about 1 s besides the import of vizier (and about 3 s for the kernel the first time a table is seen)."""
import time
import types

from vcheck import core

ONCE, COND, LOOP = 'once', 'cond', 'loop'
POLL_BOUND = 8          # GetOperation calls one client call may issue before the harness stops the loop


# ----------------------------------------------------------------------------------------------- Python mirror of the model
def join(a, b):
  if LOOP in (a, b):
    return LOOP
  if COND in (a, b):
    return COND
  return ONCE


def admits(shape, seq, prefix=False):
  """Model/ClientShape.lean `admits` (complete runs) / `admitsPrefix` (runs cut short)"""
  shape, seq = list(shape), list(seq)
  memo = {}

  def go(i, j):
    if (i, j) in memo:
      return memo[(i, j)]
    if j == len(seq) and prefix:
      r = True
    elif i == len(shape):
      r = j == len(seq)
    else:
      name, tag = shape[i]
      hit = j < len(seq) and seq[j] == name
      if tag == ONCE:
        r = hit and go(i + 1, j + 1)
      elif tag == COND:
        r = go(i + 1, j) or (hit and go(i + 1, j + 1))
      else:
        r = go(i + 1, j) or (hit and go(i, j + 1))
    memo[(i, j)] = r
    return r
  return go(0, 0)


def flatten(client, calls):
  """Model/ClientShape.lean `flatten`: the RPC shape of a facade method, None when a called method is not in the table or
  a method with several RPCs is called in a loop"""
  out = []
  for m, mu in calls:
    if m not in client:
      return None
    sh = client[m]
    if mu == LOOP and len(sh) > 1:
      return None
    out += [(r, join(mu, t)) for r, t in sh]
  return out


def criteria(res):
  """-> [(name, ok, detail)]: the criteria of Model/ClientShape.lean on the extracted tables"""
  from translators import client_shape as cs
  client, facade = res['client'], res['facade']
  W = set(cs.WRITING)
  show = lambda m, sh: '%s: %s' % (m, ', '.join('%s[%s]' % e for e in sh))  # noqa: E731

  def one_write(sh):
    return sum(1 for r, _ in sh if r in W) <= 1 and not any(r in W and t == LOOP for r, t in sh)
  bad1 = [show(m, sh) for m, sh in sorted(client.items()) if not one_write(sh)]
  bad2 = []
  for m in cs.SINGLE_RESOURCE:
    sh = client.get(m)
    if sh is None:
      bad2.append('%s: missing from the source' % m)
    elif [t for r, t in sh if r in W] != [ONCE]:
      bad2.append(show(m, sh))
  bad3 = [show(m, sh) for m, sh in sorted(client.items()) if any(r in W and t == LOOP for r, t in sh)]
  bad4 = []
  for m, calls in sorted(facade.items()):
    sh = flatten(client, calls)
    if sh is None:
      bad4.append('%s: calls %s - not resolved' % (m, ', '.join(x for x, _ in calls)))
    elif not one_write(sh):
      bad4.append('%s -> %s' % (m, show('', sh)[2:]))
  return [
      ('clientshape: every method of vizier_client.py issues at most one writing RPC, none in a loop (atMostOneWrite)', not bad1, '; '.join(bad1[:6])),
      ('clientshape: single-resource methods issue exactly one writing RPC, exactly once (singleResourceMethodsSingleRpc)', not bad2, '; '.join(bad2[:6])),
      ('clientshape: RPCs inside loops only read (pollingOnlyReads)', not bad3, '; '.join(bad3[:6])),
      ('clientshape: every method of clients.py resolves to client methods and issues at most one writing RPC (facadeAtMostOneWrite)', not bad4,
       '; '.join(bad4[:6])),
  ]


# ----------------------------------------------------------------------------------------------- translation
def translate(c):
  st = getattr(c, '_clientshape', None)
  if st is not None:
    return st
  from translators import client_shape
  res = client_shape.write(core.REPO, core.LEAN_DIR)
  detail = '; '.join(res['unknown'][:8] + ['missing ' + m for m in res['missing']])
  c.add_obligation('translator: every client method recognised', not res['unknown'] and not res['missing'], detail)
  c.coverage_extra['client_shape'] = dict(client_shape.brief(res), unrecognised=res['unknown'], missing=res['missing'])
  c._clientshape = res
  return res


LEAN_OBLIGATIONS = [
    ('clientshape_matches', 'clientShapeNow = assumedClientShape'),
    ('clientshape_facade_matches', 'facadeShapeNow = assumedFacadeShape'),
    ('clientshape_at_most_one_write', 'atMostOneWrite clientShapeNow = true'),
    ('clientshape_single_resource_single_rpc', 'singleResourceMethodsSingleRpc clientShapeNow = true'),
    ('clientshape_polling_only_reads', 'pollingOnlyReads clientShapeNow = true'),
    ('clientshape_facade_at_most_one_write', 'facadeAtMostOneWrite clientShapeNow facadeShapeNow = true'),
]


def private_check_text(res):
  """a Lean file private to this run: THIS run's tables and the table obligations of Props/ClientShape.lean on them, one
  theorem per line, so that a failing one is identified by the line of the error"""
  from translators import client_shape
  lines = ['import VizierModel.Model.ClientShape', 'namespace VizierModel.ClientShape.Now', 'open VizierModel.ClientShape', '']
  lines += client_shape.lean_defs(res, 'clientShapeNow', 'facadeShapeNow').split('\n')
  marks = {}
  for name, stmt in LEAN_OBLIGATIONS:
    marks[len(lines) + 1] = name
    lines.append('theorem %s : %s := by decide' % (name, stmt))
  lines += ['end VizierModel.ClientShape.Now', '']
  return '\n'.join(lines), marks


def assumed_tables():
  """the hand-written tables of Model/ClientShape.lean, read back from its text (for the DETAIL of a failed `matches`
  obligation only; the comparison itself is the kernel's)"""
  import os
  import re
  src = open(os.path.join(core.LEAN_DIR, 'VizierModel', 'Model', 'ClientShape.lean')).read()
  out = {}
  for key, name in (('client', 'assumedClientShape'), ('facade', 'assumedFacadeShape')):
    m = re.search(r'def %s : Table := \[\n(.*?)\n\]' % name, src, re.S)
    tbl = {}
    for row in re.finditer(r'^\s*\("([^"]+)", \[(.*)\]\),?\s*$', m.group(1) if m else '', re.M):
      tbl[row.group(1)] = [(a, b) for a, b in re.findall(r'\("([^"]+)", \.(\w+)\)', row.group(2))]
    out[key] = tbl
  return out


def table_diff(now, assumed):
  d = []
  for m in sorted(set(now) | set(assumed)):
    a, b = now.get(m), assumed.get(m)
    if a is None:
      d.append('%s: gone from the source (model: %s)' % (m, b))
    elif b is None:
      d.append('%s: new in the source: %s' % (m, a))
    elif [tuple(x) for x in a] != [tuple(x) for x in b]:
      d.append('%s: source %s, model %s' % (m, ', '.join('%s[%s]' % tuple(x) for x in a) or '-', ', '.join('%s[%s]' % tuple(x) for x in b) or '-'))
  return d


def lean_obligation(c, res):
  """The kernel decides the table obligations of Props/ClientShape.lean on THIS run's tables, in a file private to the run
  (lean/Audit/ClientShapeNow_<pid>.lean, `lake env lean`).  Cached under the hash of the file and of Model/ClientShape.lean."""
  import hashlib
  import json
  import os
  import re
  text, marks = private_check_text(res)
  model = open(os.path.join(core.LEAN_DIR, 'VizierModel', 'Model', 'ClientShape.lean')).read()
  model_dep = open(os.path.join(core.LEAN_DIR, 'VizierModel', 'Model', 'Client.lean')).read()
  key = hashlib.sha1((text + '\0' + model + '\0' + model_dep).encode()).hexdigest()[:20]
  cdir = os.path.join(core.LEAN_DIR, 'Audit', 'clientshape_cache')
  os.makedirs(cdir, exist_ok=True)
  cpath = os.path.join(cdir, key + '.json')
  out = None
  if os.path.exists(cpath):
    try:
      out = json.load(open(cpath))
    except ValueError:
      out = None
  if out is None:
    rc, so, se = core._run(['lake', 'build', 'VizierModel.Model.ClientShape'], cwd=core.LEAN_DIR, timeout=1800)
    log = so + se
    if rc != 0 and re.search(r'unknown (command|executable)|No such file or directory: .lake', log):
      raise core.InfraError('lake unavailable: ' + log[-400:])
    if rc != 0:
      out = {name: [False, 'Model/ClientShape.lean does not build: ' + log[-300:]] for name, _ in LEAN_OBLIGATIONS}
    else:
      fname = 'ClientShapeNow_%d.lean' % os.getpid()
      fpath = os.path.join(core.LEAN_DIR, 'Audit', fname)
      with open(fpath, 'w') as f:
        f.write(text)
      try:
        rc, so, se = core._run(['lake', 'env', 'lean', 'Audit/' + fname], cwd=core.LEAN_DIR, timeout=1800)
      finally:
        try:
          os.remove(fpath)
        except OSError:
          pass
      log = so + se
      bad, other = {}, []
      for m in re.finditer(r'^(?:\S*%s):(\d+):\d+: error:?(.*)$' % re.escape(fname), log, re.M):
        ln = int(m.group(1))
        if ln in marks:
          bad[marks[ln]] = 'decide: false of the tables regenerated from this tree'
        else:
          other.append('line %d: %s' % (ln, m.group(2).strip()[:160]))
      if rc != 0 and not bad and not other:
        other.append(log[-300:])
      out = {}
      for name, _ in LEAN_OBLIGATIONS:
        if other:
          out[name] = [False, 'the private check file does not elaborate: ' + '; '.join(other[:3])]
        else:
          out[name] = [name not in bad, bad.get(name, '')]
      if not other:
        tmp = cpath + '.tmp%d' % os.getpid()
        with open(tmp, 'w') as f:
          json.dump(out, f)
        os.replace(tmp, cpath)
  diff = None
  for name, _ in LEAN_OBLIGATIONS:
    ok, detail = out[name]
    if not ok and name in ('clientshape_matches', 'clientshape_facade_matches'):
      try:
        if diff is None:
          diff = assumed_tables()
        which = 'client' if name == 'clientshape_matches' else 'facade'
        detail += ': ' + '; '.join(table_diff(res[which], diff[which])[:6])
      except Exception:  # pylint: disable=broad-except
        pass
    c.add_obligation('lean kernel, this run\'s table: %s' % name, ok, detail)


# ----------------------------------------------------------------------------------------------- dynamic confirmation
class _PollBound(Exception):
  """raised by the harness inside GetOperation when one client call polled more than POLL_BOUND times"""


class Recorder:
  """The service object handed to the client library: forwards to the servicer and records the names of the RPCs issued."""

  def __init__(self, target):
    self._t = target
    self.calls = []

  def __getattr__(self, name):
    fn = getattr(self._t, name)
    if name.startswith('_') or not callable(fn):
      return fn

    def call(request, *a, **k):
      if name == 'GetOperation' and self.calls.count('GetOperation') >= POLL_BOUND:
        raise _PollBound()
      self.calls.append(name)
      return fn(request, *a, **k)
    return call


class World:
  """one in-process servicer behind a recorder, the client library pinned to it"""

  def __init__(self, backend):
    import shim
    shim.install()
    from vizier._src.service import vizier_client, vizier_service
    from vizier.service import clients
    from vizier.service import pyvizier as vz
    self.vc, self.clients, self.vz = vizier_client, clients, vz
    url = None if backend == 'ram' else 'sqlite:///:memory:'
    self.servicer = vizier_service.VizierServicer(database_url=url)
    self.rec = Recorder(self.servicer)
    self.backend = backend

  def pin(self):
    vc = self.vc
    saved = (vc.create_vizier_servicer_or_stub, vc._create_local_vizier_servicer, vc.environment_variables.server_endpoint, vc.time)  # pylint: disable=protected-access
    vc.create_vizier_servicer_or_stub = lambda: self.rec
    vc._create_local_vizier_servicer = lambda: self.rec  # pylint: disable=protected-access
    vc.environment_variables.server_endpoint = vc.constants.NO_ENDPOINT
    vc.time = types.SimpleNamespace(sleep=lambda s: None)
    return saved

  def unpin(self, saved):
    vc = self.vc
    (vc.create_vizier_servicer_or_stub, vc._create_local_vizier_servicer, vc.environment_variables.server_endpoint, vc.time) = saved  # pylint: disable=protected-access

  def config(self):
    vz = self.vz
    sc = vz.StudyConfig()
    sc.search_space.root.add_float_param('x', 0.0, 1.0)
    sc.metric_information.append(vz.MetricInformation('obj', goal=vz.ObjectiveMetricGoal.MAXIMIZE))
    sc.algorithm = 'RANDOM_SEARCH'
    return sc


def _metadata(vz, rng):
  md = vz.Metadata()
  md[rng.choice(['k', 'key'])] = rng.choice(['v', 'w', ''])
  if rng.random() < 0.5:
    md.ns(rng.choice(['a', 'algo']))['j'] = 'u'
  return md


def client_plan(w, rng):
  """[(method name, thunk)] covering every public name of vizier_client.py; the thunks close over `st` (client, trial ids)"""
  vz, vc = w.vz, w.vc
  st = {}
  owner, sid = 'o%d' % rng.randint(0, 9), 's%d' % rng.randint(0, 9)
  n = rng.randint(4, 6)

  def create():
    st['client'] = vc.create_or_load_study(owner, 'cid', sid, w.config())

  def suggest():
    st['ids'] = [t.id for t in st['client'].get_suggestions(n)]

  cl = lambda: st['client']  # noqa: E731
  tid = lambda i: st['ids'][i]  # noqa: E731
  meas = lambda: vz.Measurement(metrics={'obj': rng.random()}, steps=rng.randint(1, 9), elapsed_secs=1.5)  # noqa: E731

  def update_metadata():
    delta = vz.MetadataDelta(on_study=_metadata(vz, rng), on_trials={tid(0): _metadata(vz, rng), tid(2): _metadata(vz, rng)})
    cl().update_metadata(delta)

  head = [('create_or_load_study', create), ('create_vizier_servicer_or_stub', lambda: vc.create_vizier_servicer_or_stub()),
          ('PollingDelay', lambda: vc.PollingDelay(rng.randint(0, 12), 1.0)), ('get_suggestions', suggest)]
  body = [
      ('study_resource_name', lambda: cl().study_resource_name),
      ('report_intermediate_objective_value', lambda: cl().report_intermediate_objective_value(rng.randint(1, 9), 2.25, [{'obj': rng.random()}], tid(0))),
      ('should_trial_stop', lambda: cl().should_trial_stop(tid(0))),
      ('stop_trial', lambda: cl().stop_trial(tid(1))),
      ('get_trial', lambda: cl().get_trial(tid(1))),
      ('list_trials', lambda: cl().list_trials()),
      ('list_studies', lambda: cl().list_studies()),
      ('get_study_config', lambda: cl().get_study_config()),
      ('get_study_state', lambda: cl().get_study_state()),
      ('add_trial', lambda: cl().add_trial(vz.Trial(parameters={'x': rng.random()}))),
      ('update_metadata', update_metadata),
      ('delete_trial', lambda: cl().delete_trial(tid(3))),
  ]
  rng.shuffle(body)
  # complete_trial: with a final measurement / from an intermediate one / infeasible with a reason - one of them per run
  variant = rng.choice(['final', 'infeasible'])
  complete = ((lambda: cl().complete_trial(tid(0), meas())) if variant == 'final' else
              (lambda: cl().complete_trial(tid(0), None, rng.choice(['bad', '', ' ']))))
  tail = [('complete_trial', complete), ('list_optimal_trials', lambda: cl().list_optimal_trials()),
          ('set_study_state', lambda: cl().set_study_state(rng.choice([vz.StudyState.ABORTED, vz.StudyState.ACTIVE, vz.StudyState.COMPLETED]))),
          ('delete_study', lambda: cl().delete_study())]
  return head + body + tail, {'owner': owner, 'study': sid, 'suggestions': n, 'complete': variant}


def facade_plan(w, rng):
  """[(Class.method, thunk)] covering every public name of the classes of clients.py"""
  vz, clients = w.vz, w.clients
  st = {}
  owner, sid = 'f%d' % rng.randint(0, 9), 's%d' % rng.randint(0, 9)
  n = rng.randint(4, 6)

  def create():
    st['study'] = clients.Study.from_study_config(w.config(), owner=owner, study_id=sid)

  def suggest():
    st['trials'] = st['study'].suggest(count=n, client_id=rng.choice(['w1', 'w2']))

  S = lambda: st['study']  # noqa: E731
  T = lambda i: st['trials'][i]  # noqa: E731
  meas = lambda: vz.Measurement(metrics={'obj': rng.random()}, steps=rng.randint(1, 9), elapsed_secs=1.5)  # noqa: E731
  def trials():
    st['iterable'] = S().trials()

  head = [('Study.from_study_config', create), ('Study.suggest', suggest), ('Study.trials', trials)]
  body = [
      ('Study.resource_name', lambda: S().resource_name),
      ('Study.from_resource_name', lambda: clients.Study.from_resource_name(S().resource_name)),
      ('Study.from_owner_and_id', lambda: clients.Study.from_owner_and_id(owner, sid)),
      ('Study.update_metadata', lambda: S().update_metadata(_metadata(vz, rng))),
      ('Study.add_trial', lambda: S().add_trial(vz.Trial(parameters={'x': rng.random()}))),
      ('Study.request', lambda: S().request(vz.TrialSuggestion({'x': rng.random()}))),
      ('TrialIterable.get', lambda: list(st['iterable'].get())),
      ('Study.get_trial', lambda: S().get_trial(T(0).id)),
      ('Study.materialize_problem_statement', lambda: S().materialize_problem_statement()),
      ('Study.materialize_study_config', lambda: S().materialize_study_config()),
      ('Study.materialize_state', lambda: S().materialize_state()),
      ('Trial.id', lambda: T(0).id),
      ('Trial.study', lambda: T(0).study),
      ('Trial.parameters', lambda: T(0).parameters),
      ('Trial.materialize', lambda: T(0).materialize()),
      ('Trial.update_metadata', lambda: T(1).update_metadata(_metadata(vz, rng))),
      ('Trial.add_measurement', lambda: T(0).add_measurement(meas())),
      ('Trial.check_early_stopping', lambda: T(0).check_early_stopping()),
      ('Trial.stop', lambda: T(1).stop()),
      ('Trial.delete', lambda: T(3).delete()),
  ]
  rng.shuffle(body)
  variant = rng.choice(['final', 'intermediate', 'infeasible'])
  if variant == 'final':
    complete = lambda: T(0).complete(meas())  # noqa: E731
  elif variant == 'intermediate':
    def complete():
      return T(2).complete()
    body.append(('Trial.add_measurement#2', lambda: T(2).add_measurement(meas())))
  else:
    complete = lambda: T(0).complete(infeasible_reason=rng.choice(['bad', '', ' ']))  # noqa: E731
  tail = [('Trial.complete', complete), ('Study.optimal_trials', lambda: list(S().optimal_trials().get())),
          ('Study.set_state', lambda: S().set_state(rng.choice([vz.StudyState.ABORTED, vz.StudyState.ACTIVE, vz.StudyState.COMPLETED]))),
          ('Study.delete', lambda: S().delete())]
  return head + body + tail, {'owner': owner, 'study': sid, 'suggestions': n, 'complete': variant}


def confirm(c, res, backend, rng, label):
  """one arrangement on one backend; returns the number of client calls made"""
  from translators import client_shape as cs
  W = set(cs.WRITING)
  w = World(backend)
  client, facade = res['client'], res['facade']
  saved = w.pin()
  n = 0
  try:
    for layer, (plan, setup) in (('client', client_plan(w, rng)), ('facade', facade_plan(w, rng))):
      table = client if layer == 'client' else facade
      planned = set(name.split('#')[0] for name, _ in plan)
      # a public name this harness has no arguments for is reported, not skipped
      missing = sorted(m for m in table if m not in planned and not m.endswith('.__iter__'))
      c.add_obligation('dynamic confirmation (%s, %s): every public %s of the source is called' % (label, backend, 'method of vizier_client.py' if layer == 'client' else 'method of clients.py'),
                       not missing, 'no arguments known for: ' + ', '.join(missing) if missing else '')
      order = [name for name, _ in plan]
      for name, thunk in plan:
        method = name.split('#')[0]
        w.rec.calls = []
        err = None
        try:
          thunk()
        except _PollBound:
          err = 'polling did not end within %d GetOperation calls' % POLL_BOUND
        except Exception as e:  # pylint: disable=broad-except
          err = type(e).__name__
        seq = list(w.rec.calls)
        n += 1
        c.traces += 1
        case = {'stage': 'clientshape', 'layer': layer, 'method': method, 'backend': backend, 'arrangement': label, 'setup': setup,
                'calls_in_order': order[:order.index(name) + 1], 'recorded_rpcs': seq, 'raised': err}
        c.count(1, kind='clientshape-call:' + ('raised' if err else 'returned'))
        # (a) the generated table describes what the code did
        if method in table:
          shape = table[method] if layer == 'client' else flatten(client, table[method])
          ok = shape is not None and admits(shape, seq, prefix=err is not None)
          if not ok:
            c.tie_break('clientshape: recorded RPCs of %s vs the table generated from this tree' % method, case, seq,
                        'not resolved' if shape is None else ['%s[%s]' % e for e in shape])
        elif method.split('.')[0] not in ('TrialIterable',):
          c.tie_break('clientshape: %s is called by the harness but is not in the generated table' % method, case, seq, None)
        # (b) the criterion itself
        nw = [r for r in seq if r in W]
        if len(nw) > 1:
          reported = c.__dict__.setdefault('_clientshape_reported', set())
          c.count(0, kind='clientshape-fail:' + method)
          if method not in reported:
            reported.add(method)
            c.prop_fail('client-call-issues-several-writing-rpcs:' + method,
                        'one call of %s%s issued %d writing RPCs: %s (a crash or a failure between them leaves the call half done)' % (
                            'VizierClient.' if layer == 'client' and method not in res.get('functions', ()) else '', method,
                            len(nw), ' -> '.join(seq)), case)
        if err is not None:
          c.count(0, kind='clientshape-raised:%s:%s' % (method, err))
  finally:
    w.unpin(saved)
  return n


def stage(c):
  """obligations on the regenerated tables + the dynamic confirmation; returns the number of client calls made"""
  import random
  t0 = time.time()
  res = translate(c)
  for name, ok, detail in criteria(res):
    c.add_obligation(name, ok, detail)
  lean_obligation(c, res)
  t1 = time.time()
  rng = random.Random(c.seed * 1000003 + 271828)            # a stream of its own: the host property's stream is not moved
  runs = [('ram', 'a')] if c.tier == 'quick' else [('ram', 'a'), ('sqlmem', 'b'), ('ram', 'c'), ('sqlmem', 'd')]
  n = 0
  for backend, label in runs:
    try:
      n += confirm(c, res, backend, rng, label)
    except core.InfraError:
      raise
    except Exception as e:  # pylint: disable=broad-except
      import traceback
      c.tie_break('clientshape: the dynamic confirmation could not drive the client library', {'stage': 'clientshape', 'backend': backend,
                  'traceback': traceback.format_exc()[-1500:]}, repr(e), None)
  c.count(0, nontrivial_key=('clientshape', len(runs)))
  c.sample({'stage': 'clientshape', 'client_calls_made': n, 'backends': sorted(set(b for b, _ in runs))})
  c.flags['clientshape_seconds'] = {'translate+criteria+lean': round(t1 - t0, 1), 'dynamic': round(time.time() - t1, 1)}
  return n
