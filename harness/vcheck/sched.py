"""Deterministic scheduler for the real VizierServicer (C04).

Real threads, one baton: a managed thread runs only when the controller hands it the baton and
gives it back at every *yield point* — each datastore method call (proxy) and each acquisition of
a service lock (the three lock tables are replaced by tables of SchedLock).  A thread whose next
step is the acquisition of a held lock is disabled.  `explore` enumerates ALL schedules (stateless
DFS with replay) of a set of RPCs after a prefix."""
import collections
import threading

from vcheck import svc, svcreal


class Deadlock(Exception):
  pass


READS = {'load_study', 'get_trial', 'list_trials', 'max_trial_id', 'list_studies', 'get_suggestion_operation',
         'list_suggestion_operations', 'max_suggestion_operation_number', 'get_early_stopping_operation'}


def independent(e1, e2):
  """Conservative independence of two pending events of different threads (for sleep sets): two
  datastore READS commute; a thread start commutes with everything; everything else (writes, lock
  acquisitions — the segment after an event may release a lock) is treated as dependent."""
  if e1[0] == 'start' or e2[0] == 'start':
    return True
  if e1[0] == 'ds' and e2[0] == 'ds':
    return e1[1] in READS and e2[1] in READS
  return False


class Controller:
  def __init__(self, choices, sleep=None):
    self.choices = list(choices)       # forced choices for the first decision points
    self.sleep = dict(sleep or {})     # tid -> pending event: asleep after the forced prefix
    self.blocked = False               # every enabled thread was asleep at some point: redundant run
    self.trace = []                    # (chosen tid, sorted enabled tids, event) per decision point
    self.cv = threading.Condition()
    self.waiting = {}                  # tid -> event it wants to perform
    self.finished = set()
    self.tids = {}                     # thread ident -> tid
    self.holder = {}                   # lock id -> tid
    self.baton = None                  # tid allowed to run
    self.deadlock = False
    self.events = []                   # executed events (tid, event)
    self.current_method = {}           # tid -> datastore method being executed

  # ---- called from managed threads
  def tid(self):
    return self.tids.get(threading.get_ident())

  def yield_point(self, event):
    t = self.tid()
    if t is None:
      return
    with self.cv:
      self.waiting[t] = event
      self.baton = None
      self.cv.notify_all()
      while self.baton != t:
        self.cv.wait()
      del self.waiting[t]
      self.events.append((t, event))

  def finish(self):
    t = self.tid()
    with self.cv:
      self.finished.add(t)
      self.baton = None
      self.cv.notify_all()

  # ---- controller loop (main thread)
  def run(self, n_threads):
    with self.cv:
      while True:
        while self.baton is not None or len(self.waiting) + len(self.finished) < n_threads:
          self.cv.wait()
        if len(self.finished) == n_threads:
          return
        enabled = sorted(t for t, ev in self.waiting.items()
                         if not (ev[0] == 'acq' and self.holder.get(ev[1]) not in (None, t)))
        if not enabled:
          self.deadlock = True
          # release everyone so that threads can die
          raise Deadlock(dict(self.waiting))
        i = len(self.trace)
        forced = i < len(self.choices) and self.choices[i] in enabled
        if forced:
          pick = self.choices[i]
          awake = [pick]
          sleep_here = {}
        else:
          awake = [t for t in enabled if t not in self.sleep]
          sleep_here = dict(self.sleep)
          if not awake:
            self.blocked = True
            awake = []
            pick = enabled[0]
          else:
            pick = awake[0]
        ev = self.waiting[pick]
        self.trace.append((pick, enabled, ev, list(awake), sleep_here, dict(self.waiting)))
        if not forced or i == len(self.choices) - 1:
          # executing `ev` wakes every sleeping thread whose pending event depends on it
          self.sleep = {t: e for t, e in self.sleep.items() if t != pick and independent(e, ev)}
        self.baton = pick
        self.cv.notify_all()


class SchedLock:
  def __init__(self, ctl, lock_id, yield_on_acquire=True, yield_on_release=False):
    self.ctl, self.lock_id = ctl, lock_id
    self._real = threading.Lock()
    self.yield_on_acquire, self.yield_on_release = yield_on_acquire, yield_on_release

  def __enter__(self):
    t = self.ctl.tid()
    if t is None:
      self._real.acquire()
      return self
    if self.yield_on_acquire:
      self.ctl.yield_point(('acq', self.lock_id))
    elif self.ctl.holder.get(self.lock_id) not in (None, t):
      # a lock that is never held across a yield point: always free here
      raise AssertionError('scheduler: %s held by another thread at a non-yielding acquire' % (self.lock_id,))
    self.ctl.holder[self.lock_id] = t
    return self

  def __exit__(self, *a):
    t = self.ctl.tid()
    if t is None:
      self._real.release()
      return False
    self.ctl.holder.pop(self.lock_id, None)
    if self.yield_on_release and self.ctl.current_method.get(t) not in READS:
      # (only inside WRITE methods: what a read does after releasing the lock cannot change the store)
      # the instant after the lock is released (what follows in the same method, e.g. a late commit,
      # runs unprotected)
      self.ctl.yield_point(('rel', self.lock_id))
    return False

  def acquire(self, *a, **k):
    self.__enter__()
    return True

  def release(self):
    self.__exit__()


DS_METHODS = ['create_study', 'load_study', 'update_study', 'delete_study', 'list_studies', 'create_trial', 'get_trial',
              'update_trial', 'list_trials', 'delete_trial', 'max_trial_id', 'create_suggestion_operation',
              'get_suggestion_operation', 'update_suggestion_operation', 'list_suggestion_operations',
              'max_suggestion_operation_number', 'create_early_stopping_operation', 'get_early_stopping_operation',
              'update_early_stopping_operation', 'update_metadata']


def instrument(sv, ctl, fine=False):
  for table in ('_owner_name_to_lock', '_study_name_to_lock', '_operation_lock'):
    d = collections.defaultdict()
    name = table

    def factory_for(name, d):
      class _D(collections.defaultdict):
        def __missing__(self, key):
          v = SchedLock(ctl, (name, key))
          self[key] = v
          return v
      return _D()
    setattr(sv, table, factory_for(name, d))
  ds = sv.datastore
  if fine and hasattr(ds, '_lock'):
    # FINE mode: the datastore's own lock becomes visible - a thread may be preempted right after it
    # releases that lock, i.e. INSIDE a datastore method (between the protected part and whatever the
    # method still does afterwards)
    ds._lock = SchedLock(ctl, ('dslock',), yield_on_acquire=False, yield_on_release=True)  # pylint: disable=protected-access
  for m in DS_METHODS:
    fn = getattr(ds, m)

    def make(fn, m):
      def wrapped(*a, **k):
        ctl.yield_point(('ds', m))
        t = ctl.tid()
        ctl.current_method[t] = m
        try:
          return fn(*a, **k)
        finally:
          ctl.current_method.pop(t, None)
      return wrapped
    setattr(ds, m, make(fn, m))


def run_schedule(backend, prefix, reqs, choices, sleep=None, fine=False):
  """Runs `reqs` (one per thread) concurrently under the forced `choices`. Returns
  (responses, final snapshot, trace, events, deadlock)."""
  rr = svcreal.make_runner(backend)
  for r in prefix:
    rr.step(r)
  before = rr.snapshot()
  ctl = Controller(choices, sleep)
  instrument(rr.sv, ctl, fine)
  resps = [None] * len(reqs)

  def worker(i):
    ctl.tids[threading.get_ident()] = i
    # each thread needs its own scripted algorithm outcome: set right before the call is fine because
    # Pythia is consulted inside the operation lock; keep per-thread copies on the runner
    try:
      with ctl.cv:
        ctl.waiting[i] = ('start', i)
        ctl.cv.notify_all()
        while ctl.baton != i:
          ctl.cv.wait()
        del ctl.waiting[i]
      resps[i] = rr.step(dict(reqs[i]))
    finally:
      ctl.finish()
  # the scripted Pythia keeps one `alg`; make it per-thread
  # (with a real PythiaServicer in front of a scripted policy the entry point is the servicer's Pythia object)
  entry = rr.py if hasattr(rr.py, 'Suggest') else rr.sv.default_pythia_service
  orig_suggest, orig_es = entry.Suggest, entry.EarlyStop
  per_thread = {}

  def Suggest(*a, **kw):
    rr.py.alg = per_thread[ctl.tid()]['alg']
    return orig_suggest(*a, **kw)

  def EarlyStop(*a, **kw):
    rr.py.es = per_thread[ctl.tid()]['es']
    return orig_es(*a, **kw)
  entry.Suggest, entry.EarlyStop = Suggest, EarlyStop
  for i, r in enumerate(reqs):
    per_thread[i] = {'alg': r.get('alg'), 'es': r.get('es')}
  threads = [threading.Thread(target=worker, args=(i,), daemon=True) for i in range(len(reqs))]
  for t in threads:
    t.start()
  deadlock = False
  try:
    ctl.run(len(reqs))
  except Deadlock:
    deadlock = True
  if not deadlock:
    for t in threads:
      t.join(timeout=10)
  entry.Suggest, entry.EarlyStop = orig_suggest, orig_es
  final = None if deadlock else rr.snapshot()
  return {'resps': resps, 'final': final, 'before': before, 'trace': ctl.trace, 'events': ctl.events, 'deadlock': deadlock, 'blocked': ctl.blocked}


def explore(backend, prefix, reqs, limit=20000, use_sleep=True, fine=False):
  """All schedules up to commutation of independent events (stateless DFS with sleep sets).
  Yields run results; `blocked` runs (redundant) are yielded too, flagged."""
  stack = [([], {})]
  seen = 0
  while stack and seen < limit:
    choices, sleep0 = stack.pop()
    res = run_schedule(backend, prefix, reqs, choices, sleep0 if use_sleep else None, fine)
    seen += 1
    trace = res['trace']
    if not res.get('blocked'):
      for i in range(len(trace) - 1, len(choices) - 1, -1):
        pick, enabled, ev, awake, sleep_here, waiting = trace[i]
        if use_sleep:
          done = [pick]
          for alt in awake:
            if alt == pick:
              continue
            ev_alt = waiting[alt]
            sl = dict(sleep_here)
            for d in done:
              sl[d] = waiting[d]
            child_sleep = {t: e for t, e in sl.items() if t != alt and independent(e, ev_alt)}
            stack.append(([t[0] for t in trace[:i]] + [alt], child_sleep))
            done.append(alt)
        else:
          for alt in enabled:
            if alt > pick:
              stack.append(([t[0] for t in trace[:i]] + [alt], {}))
    res['choices'] = [t[0] for t in trace]
    yield res


def one_preemption(backend, prefix, reqs, fine=False, max_points=400):
  """The coarse schedules a depth-first enumeration reaches last (or not at all within its limit): one thread is held
  before its k-th scheduling point while the other runs to completion, for every k and both roles (preemption bound
  one).  Most atomicity violations need no more than that."""
  for held in (0, 1):
    other = 1 - held
    k = 0
    while k < max_points:
      choices = [held] * k + [other] * 5000
      res = run_schedule(backend, prefix, reqs, choices, None, fine)
      trace = res['trace']
      res['choices'] = [t[0] for t in trace]
      yield res
      # `held` had fewer than k scheduling points left: every later k repeats this schedule
      if sum(1 for t in trace[:k] if t[0] == held) < k:
        break
      k += 1


def serial(backend, prefix, reqs, order):
  rr = svcreal.make_runner(backend)
  for r in prefix:
    rr.step(r)
  resps = [None] * len(reqs)
  for i in order:
    resps[i] = rr.step(dict(reqs[i]))
  return {'resps': resps, 'final': rr.snapshot()}
