"""Runs JSON request histories (the line protocol of Drivers/Svc.lean) on the REAL
VizierServicer and renders responses / snapshots in the model's JSON shapes."""
import grpc

from vcheck import svc
from vcheck.svc import vsp, study_pb2

from vizier import pyvizier as vz  # noqa: E402
from vizier import pythia  # noqa: E402
from vizier._src.pyvizier.oss import proto_converters as pc  # noqa: E402
from vizier._src.service import custom_errors, grpc_util, resources  # noqa: E402
from google.longrunning import operations_pb2  # noqa: E402

TSTATE = study_pb2.Trial.State
SSTATE = study_pb2.Study.State


class AlgorithmFailure(RuntimeError):
  pass


class ScriptedRpcError(grpc.RpcError):
  pass


class ScriptedPythia:
  """`default_pythia_service` whose answers are scripted per request."""

  def __init__(self):
    self.alg = None
    self.es = None
    self.suggest_calls = 0
    self.es_calls = 0

  @staticmethod
  def _delta(us):
    delta = vz.MetadataDelta()
    for u in us:
      ns, k, v = u['kv']
      if u['t'] is None:
        delta.on_study.abs_ns(vz.Namespace.decode(ns))[k] = v
      else:
        delta.on_trials[u['t']].abs_ns(vz.Namespace.decode(ns))[k] = v
    return delta

  def Suggest(self, request):
    self.suggest_calls += 1
    a = self.alg
    if a['kind'] == 'rpc':
      raise ScriptedRpcError('scripted rpc failure')
    if a['kind'] == 'other':
      how = a.get('how')
      if how == 'surrogate-message':
        # an error text that cannot be encoded as UTF-8 (e.g. a surrogate-escaped file name)
        raise AlgorithmFailure('Pythia has encountered an error: bad \ud800 name')
      if how and how.startswith('long-message:'):
        # a LONG error text with multi-byte characters at every byte offset class (anything that cuts, pads or
        # re-encodes the text byte-wise trips over one of the paddings)
        pad = int(how.split(':')[1])
        raise AlgorithmFailure('x' * pad + 'gr\u00f6\u00dfe \u4e2d\u6587 \U0001f600 ' * 900)
      if how == 'malformed-decision':
        # the algorithm answers, but its answer cannot be converted: a suggested parameter without a value
        d = pc.SuggestConverter.to_decision_proto(pythia.SuggestDecision(suggestions=[vz.TrialSuggestion({'x': 1.0})], metadata=vz.MetadataDelta()))
        d.suggestions[0].parameters[0].ClearField('value')
        return d
      raise AlgorithmFailure('Pythia has encountered an error: scripted')
    sugg = []
    for s in a['sugg']:
      ts = vz.TrialSuggestion({'x': float(s['params'])})
      for ns, k, v in s['md']:
        ts.metadata.abs_ns(vz.Namespace.decode(ns))[k] = v
      sugg.append(ts)
    return pc.SuggestConverter.to_decision_proto(
        pythia.SuggestDecision(suggestions=sugg, metadata=self._delta(a.get('delta', []))))

  def EarlyStop(self, request):
    self.es_calls += 1
    e = self.es
    if e['kind'] == 'raise':
      raise AlgorithmFailure('scripted early-stop failure' + (' bad \ud800 name' if e.get('how') == 'surrogate-message' else ''))
    ds = [pythia.EarlyStopDecision(id=i, reason='r', should_stop=bool(st)) for i, st in e['decisions']]
    return pc.EarlyStopConverter.to_decisions_proto(
        pythia.EarlyStopDecisions(decisions=ds, metadata=self._delta(e.get('delta', []))))


# ---------------------------------------------------------------- encoders (token <-> proto)
def meas_proto(m):
  tok, has = m
  p = study_pb2.Measurement(step_count=int(tok))
  if has:
    p.metrics.add(metric_id='obj', value=float(tok))
  return p


def meas_json(p):
  return [int(p.step_count), len(p.metrics) > 0]


def trial_proto(t):
  p = study_pb2.Trial(state=getattr(TSTATE, t.get('state', 'STATE_UNSPECIFIED')))
  if t.get('client'):
    p.client_id = t['client']
  if t.get('id'):
    p.id = str(t['id'])
  p.parameters.add(parameter_id='x').value.number_value = float(t['params'])
  for m in t.get('meas', []):
    p.measurements.append(meas_proto(m))
  if t.get('final') is not None:
    p.final_measurement.CopyFrom(meas_proto(t['final']))
  if t.get('reason'):
    p.infeasible_reason = t['reason']
  p.metadata.extend(svc.kv_list(t.get('md', [])))
  return p


def trial_json(p):
  params = -1
  for par in p.parameters:
    if par.parameter_id == 'x':
      params = int(par.value.number_value)
  return {'id': int(p.id), 'state': TSTATE.Name(p.state), 'client': p.client_id, 'params': params,
          'meas': [meas_json(m) for m in p.measurements],
          'final': meas_json(p.final_measurement) if p.HasField('final_measurement') else None,
          'reason': p.infeasible_reason, 'md': svc.md_tuples(p)}


def study_spec(spec_tok, md, algorithm='RANDOM_SEARCH'):
  spec = study_pb2.StudySpec(algorithm=algorithm)
  p = spec.parameters.add(parameter_id='x')
  p.double_value_spec.min_value = 0.0
  p.double_value_spec.max_value = 1000.0 + spec_tok
  spec.metrics.add(metric_id='obj', goal=study_pb2.StudySpec.MetricSpec.GoalType.MAXIMIZE)
  spec.metadata.extend(svc.kv_list(md))
  return spec


def study_head_json(p):
  r = resources.StudyResource.from_name(p.name)
  tok = 0
  for par in p.study_spec.parameters:
    if par.parameter_id == 'x':
      tok = int(par.double_value_spec.max_value - 1000.0)
  return {'owner': r.owner_id, 'sid': r.study_id, 'state': SSTATE.Name(p.state), 'spec': tok,
          'md': svc.md_tuples(p.study_spec)}


def op_json(op, client, want_handed=True):
  r = resources.SuggestionOperationResource.from_name(op.name)
  out = {'client': r.client_id, 'num': int(r.operation_number), 'done': bool(op.done), 'result': None}
  handed = []
  if op.HasField('error'):
    out['result'] = 'error'
  elif op.HasField('response'):
    resp = vsp.SuggestTrialsResponse.FromString(op.response.value)
    out['result'] = [int(t.id) for t in resp.trials]
    handed = [trial_json(t) for t in resp.trials]
  return out, handed


def err_json(e):
  if isinstance(e, grpc.RpcError) and not isinstance(e, (grpc_util.LocalRpcError, ScriptedRpcError)) and hasattr(e, 'code'):
    return {'k': 'err', 'code': e.code().name, 'via': 'wire'}
  if isinstance(e, grpc_util.LocalRpcError):
    return {'k': 'err', 'code': e.code().name, 'via': 'handled'}
  if isinstance(e, custom_errors.NotFoundError):
    return {'k': 'err', 'code': 'NOT_FOUND', 'via': 'raw'}
  if isinstance(e, custom_errors.AlreadyExistsError):
    return {'k': 'err', 'code': 'ALREADY_EXISTS', 'via': 'raw'}
  if isinstance(e, AlgorithmFailure):
    return {'k': 'err', 'code': 'AlgorithmError', 'via': 'raw'}
  return {'k': 'err', 'code': type(e).__name__, 'via': 'raw'}


class _Rpc:
  """Call-recording view of the servicer / stub: remembers whether the last RPC RETURNED, so that a
  response the harness cannot read (None, wrong message type) is reported as what the service
  answered, not as an exception of the service."""

  def __init__(self, target, runner):
    self._t, self._r = target, runner

  def __getattr__(self, name):
    fn = getattr(self._t, name)
    if not callable(fn):
      return fn

    def call(*a, **k):
      self._r._tl.last_rpc = None
      v = fn(*a, **k)
      self._r._tl.last_rpc = (name, type(v).__name__)
      return v
    return call


class RealRunner:
  """One real servicer + scripted Pythia; `step(req)` returns the response JSON."""

  def __init__(self, backend, es_recycle=True, servicer=None, pythia_obj=None, api=None, ds=None):
    """`api` = object the RPCs are called on (servicer or gRPC stub); `ds` = datastore for snapshots."""
    import datetime
    self.py = pythia_obj or ScriptedPythia()
    period = datetime.timedelta(seconds=0) if es_recycle else datetime.timedelta(days=3650)
    if api is not None:
      self.sv = api
      self.ds = ds
    else:
      self.sv = servicer or svc.make_servicer(backend, pythia=self.py, early_stop_recycle_period=period)
      self.ds = self.sv.datastore
    self.backend = backend
    self.owners = []
    self.clients = []
    self.max_id_seen = 0
    self.es_ids = set()
    import threading
    self._tl = threading.local()

  def sname(self, r):
    return 'owners/%s/studies/%s' % (r.get('owner', 'o'), r.get('sid', 's'))

  def step(self, r):
    # per-thread: the scheduler (C04) drives one runner from several threads
    self._tl.last_rpc = None
    try:
      return self._step(r)
    except Exception as e:  # pylint: disable=broad-except
      last = getattr(self._tl, 'last_rpc', None)
      if last is not None:
        # the RPC returned; its response is not of the declared type
        return {'k': 'malformed', 'rpc': last[0], 'type': last[1]}
      return err_json(e)

  def _step(self, r):
    sv, op = _Rpc(self.sv, self), r['op']
    owner = r.get('owner', 'o')
    if owner not in self.owners:
      self.owners.append(owner)
    sn = self.sname(r)
    if op == 'createStudy':
      st = study_pb2.Study(display_name=r['display'], study_spec=study_spec(r.get('spec', 0), r.get('md', []), r.get('algorithm', 'RANDOM_SEARCH')),
                           state=getattr(SSTATE, r.get('state', 'STATE_UNSPECIFIED')))
      if r.get('nameSet'):
        st.name = 'owners/%s/studies/%s' % (owner, r['display'])
      return {'k': 'study', 'v': study_head_json(sv.CreateStudy(vsp.CreateStudyRequest(parent='owners/' + owner, study=st)))}
    if op == 'getStudy':
      return {'k': 'study', 'v': study_head_json(sv.GetStudy(vsp.GetStudyRequest(name=sn)))}
    if op == 'listStudies':
      resp = sv.ListStudies(vsp.ListStudiesRequest(parent='owners/' + owner))
      return {'k': 'studies', 'v': [study_head_json(s) for s in resp.studies]}
    if op == 'deleteStudy':
      sv.DeleteStudy(vsp.DeleteStudyRequest(name=sn))
      return {'k': 'empty'}
    if op == 'setStudyState':
      return {'k': 'study', 'v': study_head_json(sv.SetStudyState(vsp.SetStudyStateRequest(parent=sn, state=getattr(SSTATE, r['state']))))}
    if op == 'createTrial':
      t = sv.CreateTrial(vsp.CreateTrialRequest(parent=sn, trial=trial_proto(r['trial'])))
      return {'k': 'trial', 'v': trial_json(t)}
    if op == 'suggest':
      if r['client'] not in self.clients:
        self.clients.append(r['client'])
      self.py.alg = r['alg']
      o = sv.SuggestTrials(vsp.SuggestTrialsRequest(parent=sn, suggestion_count=r['count'], client_id=r['client']))
      oj, handed = op_json(o, r['client'])
      return {'k': 'op', 'v': oj, 'handed': handed}
    if op == 'getOperation':
      o = sv.GetOperation(operations_pb2.GetOperationRequest(name=resources.SuggestionOperationResource(owner, r.get('sid', 's'), r['client'], r['num']).name))
      oj, handed = op_json(o, r['client'])
      return {'k': 'op', 'v': oj, 'handed_ids': [h['id'] for h in handed]}
    tn = '%s/trials/%d' % (sn, r.get('id', 0))
    if op == 'getTrial':
      return {'k': 'trial', 'v': trial_json(sv.GetTrial(vsp.GetTrialRequest(name=tn)))}
    if op == 'listTrials':
      return {'k': 'trials', 'v': [trial_json(t) for t in sv.ListTrials(vsp.ListTrialsRequest(parent=sn)).trials]}
    if op == 'addMeasurement':
      return {'k': 'trial', 'v': trial_json(sv.AddTrialMeasurement(vsp.AddTrialMeasurementRequest(trial_name=tn, measurement=meas_proto(r['m']))))}
    if op == 'complete':
      req = vsp.CompleteTrialRequest(name=tn, trial_infeasible=bool(r.get('infeasible')), infeasible_reason=r.get('reason', ''))
      if r.get('final') is not None:
        req.final_measurement.CopyFrom(meas_proto(r['final']))
      return {'k': 'trial', 'v': trial_json(sv.CompleteTrial(req))}
    if op == 'stop':
      return {'k': 'trial', 'v': trial_json(sv.StopTrial(vsp.StopTrialRequest(name=tn)))}
    if op == 'deleteTrial':
      sv.DeleteTrial(vsp.DeleteTrialRequest(name=tn))
      return {'k': 'empty'}
    if op == 'checkEarlyStop':
      self.py.es = r['es']
      self.es_ids.add(r.get('id', 0))
      for d in r['es'].get('decisions', []):
        self.es_ids.add(d[0])
      resp = sv.CheckTrialEarlyStoppingState(vsp.CheckTrialEarlyStoppingStateRequest(trial_name=tn))
      return {'k': 'es', 'v': bool(resp.should_stop)}
    if op == 'updateMetadata':
      req = vsp.UpdateMetadataRequest(name=sn)
      for u in r['us']:
        d = req.delta.add()
        if u['t'] is not None:
          d.trial_id = u.get('talias') or str(u['t'])
        d.metadatum.CopyFrom(svc.kv_list([u['kv']])[0])
      resp = sv.UpdateMetadata(req)
      return {'k': 'mdError' if resp.error_details else 'mdOk'}
    if op == 'listOptimal':
      sv.ListOptimalTrials(vsp.ListOptimalTrialsRequest(parent=sn))
      return {'k': 'trials', 'v': []}
    raise ValueError('unknown op ' + op)

  # -------------------------------------------------------------- snapshot
  def snapshot(self):
    ds = self.ds
    studies = []
    owners_present = []
    for o in self.owners:
      try:
        lst = ds.list_studies('owners/' + o)
      except custom_errors.NotFoundError:
        continue
      owners_present.append(o)
      for s in lst:
        h = study_head_json(s)
        trials = ds.list_trials(s.name)
        h['trials'] = [trial_json(t) for t in trials]
        ops = []
        for c in self.clients:
          try:
            for op in ds.list_suggestion_operations(s.name, c):
              ops.append(op_json(op, c)[0])
          except custom_errors.NotFoundError:
            pass
        h['ops'] = ops
        es = []
        hi = max([int(t.id) for t in trials] + [self.max_id_seen, 0])
        self.max_id_seen = max(self.max_id_seen, hi)
        for tid in sorted(set(range(1, hi + 4)) | {i for i in self.es_ids if i > 0}):
          try:
            e = ds.get_early_stopping_operation(resources.EarlyStoppingOperationResource(h['owner'], h['sid'], tid).name)
          except (custom_errors.NotFoundError, KeyError):
            continue
          from vizier._src.service import vizier_oss_pb2
          es.append({'trial': tid, 'active': e.status == vizier_oss_pb2.EarlyStoppingOperation.Status.ACTIVE, 'stop': bool(e.should_stop)})
        h['es'] = es
        studies.append(h)
    out = canon_db({'owners': owners_present, 'studies': studies})
    orphans = self.orphan_rows()
    if orphans:
      # rows the API cannot show (their study row is gone) but that come back as trials / operations of a study
      # created later under the same name: part of the stored state, present in no state of the model
      out['orphan_rows'] = orphans
    return out

  def orphan_rows(self):
    """SQL datastores: rows of the child tables whose study row does not exist (read through the datastore's own
    connection, under its lock)."""
    ds = self.ds
    con, lock = getattr(ds, '_connection', None), getattr(ds, '_lock', None)
    if con is None or lock is None:
      return {}
    import sqlalchemy as sqla
    out = {}
    with lock:
      for table in ('trials', 'suggestion_operations', 'early_stopping_operations'):
        n = con.execute(sqla.text(
            'SELECT count(*) FROM %s c WHERE NOT EXISTS (SELECT 1 FROM studies s WHERE s.owner_id = c.owner_id '
            'AND s.study_id = c.study_id)' % table)).fetchone()[0]
        if n:
          out[table] = int(n)
    return out


def canon_db(db):
  """Order-insensitive where the API is (owners set, operation tables); order-preserving for studies/trials."""
  out = {'owners': sorted(db['owners']), 'studies': []}
  if db.get('orphan_rows'):
    out['orphan_rows'] = db['orphan_rows']
  for s in db['studies']:
    s = dict(s)
    s['ops'] = sorted(s.get('ops', []), key=lambda o: (o['client'], o['num']))
    s['es'] = sorted(s.get('es', []), key=lambda e: e['trial'])
    out['studies'].append(s)
  # list_studies is per owner: keep creation order within an owner, group by owner
  out['studies'] = sorted(out['studies'], key=lambda s: s['owner'])  # stable
  return out


def canon_resp(r):
  if r.get('k') == 'op':
    r = dict(r)
    if 'handed' in r and 'handed_ids' not in r:
      pass
  return r


def make_runner(backend, es_recycle=True):
  """'ram' / 'sqlmem' / 'sqlfile': servicer + scripted Pythia object.  'local:<be>': the real PythiaServicer
  (policy supporter, proto conversion of the decision) between the service and a scripted policy.
  'hosted:<be>': additionally the real PartiallySerializableDesignerPolicy around a scripted designer."""
  if backend.startswith('local:') or backend.startswith('hosted:'):
    from vcheck import deploy
    kind, be = backend.split(':', 1)
    return deploy.Deployment('local', be, es_recycle=es_recycle, hosted=(kind == 'hosted')).runner()
  if backend.startswith('realalg:'):
    # the service's OWN Pythia (default policy factory, real algorithms): only for requests whose outcome does not
    # depend on an algorithm's random choices (early stopping of a study with a single ACTIVE trial)
    import datetime
    from vizier._src.service import vizier_service
    be = backend.split(':', 1)[1]
    period = datetime.timedelta(seconds=0) if es_recycle else datetime.timedelta(days=3650)
    sv = vizier_service.VizierServicer(database_url=None if be == 'ram' else 'sqlite:///:memory:', early_stop_recycle_period=period)
    return RealRunner(be, es_recycle=es_recycle, servicer=sv)
  return RealRunner(backend, es_recycle=es_recycle)


def run_real(backend, reqs, snaps=False, es_recycle=True):
  rr = make_runner(backend, es_recycle=es_recycle)
  resps, snapl = [], []
  for r in reqs:
    resps.append(rr.step(r))
    if snaps:
      snapl.append(rr.snapshot())
  return {'resps': resps, 'final': rr.snapshot(), 'snaps': snapl, 'suggest_calls': rr.py.suggest_calls, 'es_calls': rr.py.es_calls}
