"""C11 — optimal trials are exactly the non-dominated completed trials.

Proof stage: Props/C11.lean.  Tie: the real Naive/Fast/Jax Pareto algorithms, the two
rank functions, ListOptimalTrials (RAM + SQLite, also through clients.Study) and
InRamPolicySupporter.GetBestTrials vs the Lean model, on small-integer-grid point
multisets (ties, duplicates, +-inf are the norm).  Property stage: every REAL output
is judged against the definitional front computed by the Lean driver."""
import glob
import itertools
import json
import math
import os

from vcheck import core

INF = float('inf')
NAN = float('nan')
GRID = [-INF, -2.0, -1.0, 0.0, 1.0, 2.0, INF]
BIG = 10 ** 9
THRS = [1, 2, 3, 5, 8, 10000]           # recursive_threshold for is_pareto_optimal (0 never terminates as written)
THRS_AG = [0, 1, 2, 3, 5, 8, 10000]     # ... for is_pareto_optimal_against
SHARDS = list(range(1, 13))

KEY_FAST = 'pareto-fast-tie-first-coordinate-across-split'
KEY_SHARD1 = 'jax-is-frontier-num-shards-1'
KEY_SVC_NAN = 'list-optimal-trials-nan-objective-reported'
KEY_INRAM_NAN = 'inram-getbest-nan-row'
KEY_INRAM_INELIGIBLE = 'inram-getbest-ineligible-trial-reported'
KEY_INRAM_SINGLE_TIE = 'inram-getbest-single-objective-one-of-tied'

FAST_WITNESS = [[1.0, 5.0], [1.0, 3.0]]


def enc(v):
  """order embedding float -> int for the driver (NaN -> None)."""
  if v != v:
    return None
  if v == INF:
    return BIG
  if v == -INF:
    return -BIG
  assert float(v).is_integer() and abs(v) < BIG, v
  return int(v)


def enc_rows(rows):
  return [[enc(x) for x in r] for r in rows]


def bools(a):
  import numpy as np
  return [bool(x) for x in np.asarray(a).reshape(-1)]


# ------------------------------------------------------------------ generators
def gen_points(rng, n, d, mode):
  if mode == 'grid':
    vals = GRID if rng.random() < 0.5 else GRID[1:-1]
    return [[rng.choice(vals) for _ in range(d)] for _ in range(n)]
  if mode == 'tiedfirst':
    firsts = rng.sample(GRID, rng.choice([1, 2, 2, 3]))
    return [[rng.choice(firsts)] + [rng.choice(GRID[1:-1]) for _ in range(d - 1)] for _ in range(n)]
  if mode == 'distinctfirst':
    firsts = rng.sample(range(-n - 2, n + 3), n)
    return [[float(f)] + [rng.choice(GRID) for _ in range(d - 1)] for f in firsts]
  if mode == 'dups':
    pool = [[rng.choice(GRID[1:-1]) for _ in range(d)] for _ in range(rng.randrange(1, 5))]
    return [list(rng.choice(pool)) for _ in range(n)]
  if mode == 'chain':      # totally ordered points + copies: a single optimum class
    base = [[float(rng.randrange(-2, 3))] * d for _ in range(n)]
    return base
  raise ValueError(mode)


MODES = ['grid', 'grid', 'tiedfirst', 'tiedfirst', 'distinctfirst', 'dups', 'chain']


def gen_size(rng, big):
  r = rng.random()
  if r < 0.08:
    return rng.choice([0, 1])
  if r < 0.6:
    return rng.randrange(2, 9)
  if r < 0.9 or not big:
    return rng.randrange(9, 18)
  return rng.randrange(18, 41)


def has_first_tie(pts):
  f = [p[0] for p in pts]
  return len(set(f)) < len(f)


def nontrivial(pts):
  """non-trivial = a tie in some single coordinate, a duplicate point or a non-finite value."""
  if len(pts) < 2:
    return False
  d = len(pts[0])
  for j in range(d):
    col = [p[j] for p in pts]
    if len(set(col)) < len(col):
      return True
  return any(math.isinf(x) for p in pts for x in p)


def arr(pts, d):
  import numpy as np
  return np.asarray(pts, dtype=float).reshape(len(pts), d)


# ------------------------------------------------------------------ stage A: point sets
class Variants:
  """model variants of the current tree, identified by replaying the counterexample witnesses."""
  fast_clean = False
  shards_plus_one = False
  svc_skip_nan = False
  inram_filters = False
  inram_all_tied = True


def identify_pareto_variants(c, V):
  from vizier._src.pyvizier.multimetric import pareto_optimal as po
  from vizier._src.jax import xla_pareto as xp
  w = arr(FAST_WITNESS, 2)
  r = bools(po.FastParetoOptimalAlgorithm(recursive_threshold=1).is_pareto_optimal(w))
  V.fast_clean = (r == [True, False])
  c.flags['fastCleanSplit'] = V.fast_clean
  if not V.fast_clean:
    c.prop_fail(KEY_FAST if r == [True, True] else 'pareto-fast-other', 'FastParetoOptimalAlgorithm(recursive_threshold=1).is_pareto_optimal(%s) = %s, the front is [True, False]' % (FAST_WITNESS, r),
                {'pts': FAST_WITNESS, 'thr': 1, 'real': r, 'front': [True, False], 'witness_of': 'c11_fast_counterexample'})
  r = bools(xp.is_frontier(w, num_shards=1))
  V.shards_plus_one = (r == [True, False])
  c.flags['isFrontierOneShardFilters'] = V.shards_plus_one
  if not V.shards_plus_one:
    c.prop_fail(KEY_SHARD1 if r == [True, True] else 'jax-is-frontier-other', 'xla_pareto.is_frontier(%s, num_shards=1) = %s, the front is [True, False]' % (FAST_WITNESS, r),
                {'pts': FAST_WITNESS, 'num_shards': 1, 'real': r, 'front': [True, False], 'witness_of': 'c11_sharded_counterexample'})


KEY_JAX_F32 = 'jax-pareto-routines-narrow-float64-to-float32'


def jax_float64_stage(c):
  """Point sets that only float64 tells apart, through the accelerated routines: jax runs with x64 disabled, so
  is_frontier / JaxParetoOptimalAlgorithm / pareto_rank compare float32 renderings of the values (the model, and the
  numpy routines, compare the values themselves)."""
  import jax
  import numpy as np
  from vizier._src.pyvizier.multimetric import pareto_optimal as po
  from vizier._src.jax import xla_pareto as xp
  if bool(jax.config.jax_enable_x64):
    return
  cases = [[[1.0, 1.0], [1.0 + 1e-9, 1.0]], [[0.0, 5.0], [3e-12, 5.0], [-1.0, 7.0]]]
  bad = []
  for pts in cases:
    a = np.asarray(pts, dtype=np.float64)
    want = bools(po.NaiveParetoOptimalAlgorithm().is_pareto_optimal(a.copy()))
    got = {'is_frontier': bools(xp.is_frontier(a.copy(), num_shards=2)),
           'JaxParetoOptimalAlgorithm': bools(xp.JaxParetoOptimalAlgorithm().is_pareto_optimal(a.copy())),
           'pareto_rank==0': [int(x) == 0 for x in np.asarray(xp.pareto_rank(a.copy())).reshape(-1)]}
    c.traces += 1
    for name, g in got.items():
      if g != want:
        bad.append({'routine': name, 'pts': pts, 'real': g, 'front': want})
  c.count(len(cases), ('jax-float64',), kind='jax-float64-near-ties')
  if bad:
    b = bad[0]
    c.prop_fail(KEY_JAX_F32, 'xla_pareto %s on the float64 points %s reports the front %s, the definition (and the numpy routines) give %s: the values are compared after narrowing to float32 (%d of %d routine/point-set combinations differ)' % (
        b['routine'], b['pts'], b['real'], b['front'], len(bad), 3 * len(cases)), {'cases': bad})


def real_pointset(pts, d, use_jax, shards, fast_jax_base=False):
  """all real routines on one point set."""
  import numpy as np
  from vizier._src.pyvizier.multimetric import pareto_optimal as po
  from vizier._src.algorithms.evolution import nsga2
  a = arr(pts, d)
  out = {'naive': bools(po.NaiveParetoOptimalAlgorithm().is_pareto_optimal(a.copy()))}
  out['fast'] = [bools(po.FastParetoOptimalAlgorithm(recursive_threshold=t).is_pareto_optimal(a.copy())) for t in THRS]
  out['nsgaRank'] = [int(x) for x in np.asarray(nsga2._pareto_rank(a.copy())).reshape(-1)]
  if use_jax:
    from vizier._src.jax import xla_pareto as xp
    out['sharded'] = [bools(xp.is_frontier(a.copy(), num_shards=k)) for k in shards]
    out['jaxRank'] = [int(x) for x in np.asarray(xp.pareto_rank(a.copy())).reshape(-1)]
    out['getFrontier'] = [sorted(map(list, np.asarray(xp.get_frontier(a.copy(), num_shards=k, verbose=False), dtype=float).reshape(-1, d).tolist()))
                          for k in shards[:2]]
    if fast_jax_base:
      alg = po.FastParetoOptimalAlgorithm(xp.JaxParetoOptimalAlgorithm(), recursive_threshold=3)
      out['fastJax'] = bools(alg.is_pareto_optimal(a.copy()))
  return out


def judge_pointset(c, V, pts, d, real, model, shards):
  frontv = model['front']
  case = {'pts': pts}
  tie = has_first_tie(pts)
  c.count(1, ('pts', json.dumps(pts)) if nontrivial(pts) else None, kind='pointset:d%d' % d)
  # --- property: every real output is the definitional front
  if real['naive'] != frontv:
    c.prop_fail('pareto-naive-wrong', 'NaiveParetoOptimalAlgorithm.is_pareto_optimal differs from the front', dict(case, real=real['naive'], front=frontv))
  for t, r in zip(THRS, real['fast']):
    c.count(1, kind='fast')
    if r != frontv:
      c.prop_fail(KEY_FAST if tie else 'pareto-fast-other',
                  'FastParetoOptimalAlgorithm(recursive_threshold=%d).is_pareto_optimal differs from the front' % t,
                  dict(case, thr=t, real=r, front=frontv))
  ranks = [('nsgaRank', real['nsgaRank'])] + ([('jaxRank', real['jaxRank'])] if 'jaxRank' in real else [])
  for name, rk in ranks:
    if [x == 0 for x in rk] != frontv:
      c.prop_fail('pareto-rank-zero-not-front', '%s: rank 0 does not coincide with the front' % name, dict(case, real=rk, front=frontv))
  if 'sharded' in real:
    for k, r in zip(shards, real['sharded']):
      c.count(1, kind='is_frontier')
      if r != frontv:
        c.prop_fail(KEY_SHARD1 if k == 1 else 'jax-is-frontier-other',
                    'xla_pareto.is_frontier(num_shards=%d) differs from the front' % k, dict(case, num_shards=k, real=r, front=frontv))
  for k, rows in zip(shards[:2], real.get('getFrontier', [])):
    want = sorted(list(p) for p, f in zip(pts, frontv) if f)
    if rows != want:
      c.prop_fail(KEY_SHARD1 if k == 1 else 'jax-is-frontier-other',
                  'xla_pareto.get_frontier(num_shards=%d) does not return the points of the front' % k, dict(case, num_shards=k, real=rows, front_points=want))
  if 'fastJax' in real and real['fastJax'] != frontv:
    c.prop_fail(KEY_FAST if tie else 'pareto-fast-other', 'FastParetoOptimalAlgorithm(JaxParetoOptimalAlgorithm(), 3) differs from the front',
                dict(case, thr=3, base='jax', real=real['fastJax'], front=frontv))
  # --- tie: model vs real
  if real['naive'] != model['naive']:
    c.tie_break('Naive.is_pareto_optimal', case, real['naive'], model['naive'])
  mfast = model['fastClean'] if V.fast_clean else model['fast']
  if V.fast_clean or not tie:          # numpy's argsort is not stable: the as-written variant is compared only without ties
    for t, r, m in zip(THRS, real['fast'], mfast):
      if r != m:
        c.tie_break('Fast.is_pareto_optimal(thr=%d)' % t, case, r, m)
  if real['nsgaRank'] != model['nsgaRank']:
    c.tie_break('nsga2._pareto_rank', case, real['nsgaRank'], model['nsgaRank'])
  if 'jaxRank' in real and real['jaxRank'] != model['jaxRank']:
    c.tie_break('xla_pareto.pareto_rank', case, real['jaxRank'], model['jaxRank'])
  if 'sharded' in real:
    for k, r, m in zip(shards, real['sharded'], model['sharded']):
      if r != m:
        c.tie_break('xla_pareto.is_frontier(num_shards=%d)' % k, case, r, m)


def pointset_stage(c, V, n_np, n_jax, big=True, corpus=()):
  cases = []
  for pts in corpus:
    cases.append((pts, len(pts[0]) if pts else 2, False))
  for i in range(n_np + n_jax):
    d = c.rng.choice([1, 2, 2, 2, 3, 3, 4])
    use_jax = i >= n_np
    n = gen_size(c.rng, big and not use_jax)
    if use_jax and n > 14:
      n = c.rng.randrange(0, 15)
    mode = c.rng.choice(MODES)
    pts = gen_points(c.rng, n, d, mode)
    cases.append((pts, d, use_jax))
  reqs, reals, shardsets = [], [], []
  for j, (pts, d, use_jax) in enumerate(cases):
    shards = sorted(set([1, 2, 10] + c.rng.sample(SHARDS, 2))) if use_jax else []
    real = real_pointset(pts, d, use_jax, shards, fast_jax_base=use_jax and j % 4 == 0)
    c.traces += 1
    mshards = [k + 1 for k in shards] if V.shards_plus_one else shards
    reqs.append({'op': 'pareto', 'pts': enc_rows(pts), 'thrs': THRS, 'shards': mshards})
    reals.append(real)
    shardsets.append(shards)
  models = c.lean('C11', reqs)
  for (pts, d, _), real, model, shards in zip(cases, reals, models, shardsets):
    if 'error' in model:
      raise core.InfraError('driver: %s' % model)
    judge_pointset(c, V, pts, d, real, model, shards)
  if cases:
    k = min(len(cases) - 1, 7)
    c.sample({'pointset': cases[k][0], 'front': models[k]['front'], 'real_naive': reals[k]['naive']})


def exhaustive_stage(c, V, maxn):
  """all sequences of <= maxn points of the 3x3 grid in 2-D, all thresholds (numpy routines only)."""
  grid = [[float(a), float(b)] for a in (0, 1, 2) for b in (0, 1, 2)]
  seqs = []
  for n in range(0, maxn + 1):
    seqs += [list(map(list, s)) for s in itertools.product(grid, repeat=n)]
  c.coverage_extra['exhaustive_pointsets'] = 'all %d sequences of <= %d points over the 3x3 grid in 2-D, thresholds %s (Naive, Fast, _pareto_rank)' % (len(seqs), maxn, THRS)
  reqs, reals = [], []
  for pts in seqs:
    reals.append(real_pointset(pts, 2, False, []))
    reqs.append({'op': 'pareto', 'pts': enc_rows(pts), 'thrs': THRS, 'shards': []})
  c.traces += len(seqs)
  models = c.lean('C11', reqs)
  for pts, real, model in zip(seqs, reals, models):
    judge_pointset(c, V, pts, 2, real, model, [])


# ------------------------------------------------------------------ stage A2: against
def against_stage(c, V, n_np, n_jax):
  import numpy as np
  from vizier._src.pyvizier.multimetric import pareto_optimal as po
  cases = [([[1.0, 5.0]], [[1.0, 5.0]], 2), ([[1.0]], [[1.0]], 1), ([[1.0], [2.0]], [[2.0], [1.0]], 1),
           ([[1.0, 5.0], [1.0, 3.0]], [[1.0, 5.0], [1.0, 3.0]], 2)]
  cases = [(p, a, d, False) for p, a, d in cases]
  for i in range(n_np + n_jax):
    d = c.rng.choice([1, 1, 2, 2, 3, 4])
    use_jax = i >= n_np
    hi = 10 if use_jax else 16
    n, m = c.rng.randrange(0, hi), c.rng.randrange(0, hi)
    mode = c.rng.choice(MODES[:-1])
    pts = gen_points(c.rng, n, d, mode)
    ag = gen_points(c.rng, m, d, c.rng.choice(MODES[:-1]))
    if c.rng.random() < 0.3 and pts:
      ag = ag + [list(c.rng.choice(pts)) for _ in range(c.rng.randrange(1, 3))]      # equal points across the two sets
    cases.append((pts, ag, d, use_jax))
  reqs, reals = [], []
  for pts, ag, d, use_jax in cases:
    for strict in (True, False):
      P, A = arr(pts, d), arr(ag, d)
      real = {'naive': bools(po.NaiveParetoOptimalAlgorithm().is_pareto_optimal_against(P.copy(), A.copy(), strict=strict)),
              'fast': [bools(po.FastParetoOptimalAlgorithm(recursive_threshold=t).is_pareto_optimal_against(P.copy(), A.copy(), strict=strict)) for t in THRS_AG]}
      if use_jax:
        from vizier._src.jax import xla_pareto as xp
        real['jax'] = bools(xp.JaxParetoOptimalAlgorithm().is_pareto_optimal_against(P.copy(), A.copy(), strict=strict))
      c.traces += 1
      reqs.append({'op': 'against', 'pts': enc_rows(pts), 'ag': enc_rows(ag), 'strict': strict, 'thrs': THRS_AG})
      reals.append((pts, ag, strict, real))
  models = c.lean('C11', reqs)
  for (pts, ag, strict, real), model in zip(reals, models):
    if 'error' in model:
      raise core.InfraError('driver: %s' % model)
    case = {'pts': pts, 'against': ag, 'strict': strict}
    c.count(1, ('ag', json.dumps([pts, ag, strict])) if nontrivial(pts + ag) else None, kind='against')
    want = model['def']
    if real['naive'] != want:
      c.prop_fail('against-naive-wrong', 'Naive.is_pareto_optimal_against differs from the definition', dict(case, real=real['naive'], definition=want))
    for t, r, m in zip(THRS_AG, real['fast'], model['fast']):
      if r != want:
        c.prop_fail('against-fast-wrong', 'Fast(thr=%d).is_pareto_optimal_against differs from the definition' % t, dict(case, thr=t, real=r, definition=want))
      if r != m:
        c.tie_break('Fast.is_pareto_optimal_against(thr=%d)' % t, case, r, m)
    if 'jax' in real:
      if real['jax'] != want:
        c.prop_fail('against-jax-wrong', 'Jax.is_pareto_optimal_against differs from the definition', dict(case, real=real['jax'], definition=want))
      if real['jax'] != model['jax']:
        c.tie_break('Jax.is_pareto_optimal_against', case, real['jax'], model['jax'])
    if real['naive'] != model['naive']:
      c.tie_break('Naive.is_pareto_optimal_against', case, real['naive'], model['naive'])


# ------------------------------------------------------------------ stage B: ListOptimalTrials
VALS = GRID + [NAN]
GOALS = ['MAXIMIZE', 'MINIMIZE', 'GOAL_TYPE_UNSPECIFIED']


def gen_service_case(rng):
  nm = rng.choice([1, 1, 2, 2, 2, 3])
  ids = rng.sample(['a', 'b', 'c', 'loss', 'acc'], nm)
  spec = [(m, rng.choice(GOALS), rng.random() < 0.2) for m in ids]       # (id, goal, is_safety)
  # a small pool of vectors makes duplicates and ties the norm
  pool = [rng.choice(GRID[1:-1]) for _ in range(3)] + [rng.choice(GRID)]
  ops = []
  n = rng.choice([0, 1, 2, 3, 4, 5, 6, 8, 10, 12])
  for _ in range(n):
    r = rng.random()
    full = [[m, rng.choice(pool)] for m in ids]
    if rng.random() < 0.5:
      rng.shuffle(full)      # workers report the metrics in any order: matching is by NAME
    if r < 0.40:
      ops.append({'kind': 'created-succeeded', 'final': full})
    elif r < 0.50:
      ops.append({'kind': 'lifecycle-complete', 'final': full})
    elif r < 0.56:
      ops.append({'kind': 'lifecycle-autoselect', 'measurements': [[[m, rng.choice(pool)] for m in ids] for _ in range(rng.randrange(1, 3))]})
    elif r < 0.64:
      ops.append({'kind': 'lifecycle-infeasible', 'final': full if rng.random() < 0.5 else []})
    elif r < 0.72:
      drop = rng.randrange(len(ids))
      ops.append({'kind': 'created-succeeded', 'final': [kv for i, kv in enumerate(full) if i != drop] + ([['other', 9.0]] if rng.random() < 0.5 else [])})
    elif r < 0.80:
      f = [list(kv) for kv in full]
      f[rng.randrange(len(f))][1] = NAN
      ops.append({'kind': 'created-succeeded', 'final': f})
    elif r < 0.86:
      ops.append({'kind': 'active', 'measurements': [full] if rng.random() < 0.5 else []})
    elif r < 0.90:
      ops.append({'kind': 'requested'})
    elif r < 0.94:
      f = list(full)
      f.insert(rng.randrange(len(f) + 1), ['extra', rng.choice(GRID)])     # an unconfigured metric anywhere in the list
      ops.append({'kind': 'created-succeeded', 'final': f})
    else:
      ops.append({'kind': 'created-succeeded', 'final': []})
  deletes = [i for i in range(len(ops)) if rng.random() < 0.08]
  return {'spec': spec, 'ops': ops, 'deletes': deletes}


def measurement_proto(kvs):
  from vcheck.svc import study_pb2
  m = study_pb2.Measurement()
  for k, v in kvs:
    m.metrics.add(metric_id=k, value=v)
  return m


def run_service_case(backend, case):
  """drive the real service; return (stored trials as the model input, ListOptimalTrials ids, client ids)."""
  from vcheck import svc
  from vcheck.svc import vsp, study_pb2
  from vizier._src.service import vizier_client, clients
  sv = svc.make_servicer(backend)
  spec = study_pb2.StudySpec(algorithm='RANDOM_SEARCH')
  p = spec.parameters.add(parameter_id='x')
  p.double_value_spec.min_value = 0.0
  p.double_value_spec.max_value = 1.0
  for mid, goal, safe in case['spec']:
    ms = spec.metrics.add(metric_id=mid, goal=getattr(study_pb2.StudySpec.MetricSpec.GoalType, goal))
    if safe:
      ms.safety_config.safety_threshold = 0.0
  study = svc.create_study(sv, spec=spec)
  names = []
  declared_infeasible = []
  for i, o in enumerate(case['ops']):
    k = o['kind']
    if k == 'created-succeeded':
      t = study_pb2.Trial(state=study_pb2.Trial.State.SUCCEEDED)
      t.final_measurement.CopyFrom(measurement_proto(o['final']))
      names.append(sv.CreateTrial(vsp.CreateTrialRequest(parent=study.name, trial=t)).name)
      continue
    t = sv.CreateTrial(vsp.CreateTrialRequest(parent=study.name, trial=study_pb2.Trial()))
    names.append(t.name)
    if k == 'requested':
      continue
    op = sv.SuggestTrials(vsp.SuggestTrialsRequest(parent=study.name, suggestion_count=1, client_id='w%d' % i))
    if not op.done:
      raise core.InfraError('SuggestTrials did not hand out the requested trial')
    for ms in o.get('measurements', []):
      sv.AddTrialMeasurement(vsp.AddTrialMeasurementRequest(trial_name=t.name, measurement=measurement_proto(ms)))
    if k == 'lifecycle-complete':
      sv.CompleteTrial(vsp.CompleteTrialRequest(name=t.name, final_measurement=measurement_proto(o['final'])))
    elif k == 'lifecycle-autoselect':
      sv.CompleteTrial(vsp.CompleteTrialRequest(name=t.name))
    elif k == 'lifecycle-infeasible':
      declared_infeasible.append(int(t.id))
      if i % 2 == 0:
        sv.CompleteTrial(vsp.CompleteTrialRequest(name=t.name, trial_infeasible=True, infeasible_reason='x',
                                                  final_measurement=measurement_proto(o['final'])))
      else:
        # the way a worker does it: through the client library, with a reason text that may be empty
        from vizier import pyvizier as vz
        wcl = vizier_client.VizierClient(study_resource_name=study.name, client_id='w%d' % i, service=sv)
        meas = vz.Measurement(metrics={m: v for m, v in o['final']}) if o['final'] else None
        clients.Trial(wcl, int(t.id)).complete(meas, infeasible_reason='' if i % 4 == 1 else 'diverged')
  for i in case['deletes']:
    sv.DeleteTrial(vsp.DeleteTrialRequest(name=names[i]))
  stored = []
  for t in sv.ListTrials(vsp.ListTrialsRequest(parent=study.name)).trials:
    stored.append({'id': int(t.id), 'state': study_pb2.Trial.State.Name(t.state),
                   'final': [[m.metric_id, m.value] for m in t.final_measurement.metrics]})
  got = [int(t.id) for t in sv.ListOptimalTrials(vsp.ListOptimalTrialsRequest(parent=study.name)).optimal_trials]
  cl = vizier_client.VizierClient(study_resource_name=study.name, client_id='c', service=sv)
  st = clients.Study(cl)
  via_client = [t.id for t in st.optimal_trials().get()]
  via_client2 = [t.id for t in st.optimal_trials()]
  run_service_case.declared_infeasible = [i for i in declared_infeasible]
  # the in-memory query over the trials AS A CLIENT DOWNLOADS THEM (the Python trial objects the converters build):
  # what an offline analysis, or a copy of the study, is computed from
  run_service_case.downloaded = None
  try:
    import copy as _copy
    from vizier._src.pythia import local_policy_supporters as lps
    down = list(st.trials().get())
    lost = sorted(t.id for t in down if t.id in declared_infeasible and not t.infeasible)
    sup = lps.InRamPolicySupporter(st.materialize_problem_statement())
    copies = [_copy.deepcopy(t) for t in down]
    orig_ids = [t.id for t in copies]
    sup.AddTrials(copies)
    new_to_orig = {t.id: o for t, o in zip(copies, orig_ids)}
    best = sorted(new_to_orig[t.id] for t in sup.GetBestTrials())
    run_service_case.downloaded = {'infeasible_flag_lost': lost, 'inram_best': best}
  except Exception as e:  # pylint: disable=broad-except
    run_service_case.downloaded = {'error': '%s: %s' % (type(e).__name__, str(e)[:200])}
  return stored, got, via_client, via_client2


def model_goal(g):
  return 'MINIMIZE' if g == 'MINIMIZE' else 'MAXIMIZE'       # GOAL_TYPE_UNSPECIFIED "will default to maximize"


def service_request(case, stored, skip_nan):
  return {'op': 'service', 'spec': [[m, model_goal(g)] for m, g, _ in case['spec']], 'skipNaN': skip_nan,
          'trials': [{'id': t['id'], 'state': t['state'], 'final': [[k, enc(v)] for k, v in t['final']]} for t in stored]}


SVC_NAN_WITNESS = {'spec': [('a', 'MAXIMIZE', False), ('b', 'MINIMIZE', False)], 'deletes': [],
                   'ops': [{'kind': 'created-succeeded', 'final': [['a', 1.0], ['b', 1.0]]},
                           {'kind': 'created-succeeded', 'final': [['a', NAN], ['b', 0.0]]}]}


def canon_case(case):
  return json.loads(json.dumps(case, default=str).replace('NaN', '"nan"').replace('-Infinity', '"-inf"').replace('Infinity', '"inf"'))


def service_stage(c, V, n, backends):
  from vcheck import svc
  # identify the variant with the witness of c11_service_nan_counterexample
  stored, got, _, _ = run_service_case('ram', SVC_NAN_WITNESS)
  V.svc_skip_nan = (got == [1])
  c.flags['listOptimalSkipsNaN'] = V.svc_skip_nan
  if not V.svc_skip_nan:
    c.prop_fail(KEY_SVC_NAN if got == [1, 2] else 'list-optimal-trials-other', 'ListOptimalTrials returned trials %s; trial 2 has a NaN objective and must never be reported (optimal: [1])' % got,
                {'history': canon_case(SVC_NAN_WITNESS), 'real': got, 'definition': [1], 'witness_of': 'c11_service_nan_counterexample'})
  cases = [gen_service_case(c.rng) for _ in range(n)]
  runs, reqs = [], []
  for case in cases:
    for be in backends:
      stored, got, cl1, cl2 = run_service_case(be, case)
      c.traces += 1
      bad = sorted(set(run_service_case.declared_infeasible) & set(got))
      if bad:
        c.prop_fail('infeasible-trial-reported-optimal',
                    'trial(s) %s were completed as INFEASIBLE by their worker (through the service or through the client library, with an empty or non-empty reason) and are reported by ListOptimalTrials (%s): %s' % (bad, be, got),
                    {'backend': be, 'history': canon_case(case), 'declared_infeasible': run_service_case.declared_infeasible, 'stored': canon_case(stored), 'real': got})
      dl = run_service_case.downloaded or {}
      if dl.get('infeasible_flag_lost'):
        c.prop_fail('infeasible-trial-downloaded-as-feasible',
                    'trial(s) %s were completed as INFEASIBLE by their worker but read back through the client as feasible trials (%s)' % (dl['infeasible_flag_lost'], be),
                    {'backend': be, 'history': canon_case(case), 'declared_infeasible': run_service_case.declared_infeasible, 'stored': canon_case(stored)})
      elif ('inram_best' in dl and not any(sf for _, _, sf in case['spec'])      # (safety metrics: the two queries treat them differently by design)
            and sorted(dl['inram_best']) != sorted(got) and not any(isinstance(v, float) and v != v for t in stored for _, v in t['final'])):
        c.prop_fail('downloaded-trials-best-differs-from-service',
                    'GetBestTrials over the trials a client downloads gives %s, ListOptimalTrials of the service gives %s (%s)' % (dl['inram_best'], sorted(got), be),
                    {'backend': be, 'history': canon_case(case), 'stored': canon_case(stored), 'inram_best': dl['inram_best'], 'service': sorted(got)})
      runs.append((case, be, stored, got, cl1, cl2))
      reqs.append(service_request(case, stored, V.svc_skip_nan))
  models = c.lean('C11', reqs)
  for (case, be, stored, got, cl1, cl2), m in zip(runs, models):
    if 'error' in m:
      raise core.InfraError('driver: %s' % m)
    kinds = set(o['kind'] for o in case['ops'])
    states = set(t['state'] for t in stored)
    ntr = len(stored) >= 2 and (len(states) > 1 or any(v != v for t in stored for _, v in t['final']))
    c.count(1, ('svc', json.dumps(canon_case(case))) if ntr else None, kind='service:' + be)
    for o in case['ops']:
      c.dist['trial:' + o['kind']] = c.dist.get('trial:' + o['kind'], 0) + 1
    cc = {'backend': be, 'history': canon_case(case), 'stored': canon_case(stored), 'real': got, 'definition': m['def']}
    if sorted(got) != sorted(m['def']):
      nan_considered = any(t['state'] == 'SUCCEEDED' and any(v != v for k, v in t['final'] if k in [s[0] for s in case['spec']]) for t in stored)
      key = KEY_SVC_NAN if (nan_considered and not V.svc_skip_nan and got == m['model']) else 'list-optimal-trials-other'
      c.prop_fail(key, 'ListOptimalTrials (%s) returned %s, the optimal trials are %s' % (be, got, m['def']), cc)
    if got != m['model']:
      c.tie_break('ListOptimalTrials (%s)' % be, cc, got, m['model'])
    if cl1 != got or cl2 != got:
      c.prop_fail('client-optimal-trials-differs', 'clients.Study.optimal_trials() %s/%s differs from ListOptimalTrials %s' % (cl1, cl2, got), cc)
  if runs:
    c.sample({'service_history': canon_case(runs[0][0]), 'stored': canon_case(runs[0][2]), 'ListOptimalTrials': runs[0][3], 'definition': models[0]['def']})
  svc.cleanup()


# ------------------------------------------------------------------ stage C: GetBestTrials
def gen_inram_case(rng):
  nobj = rng.choice([1, 2, 2, 2, 3])
  objs = [('m%d' % i, rng.choice(['MAXIMIZE', 'MINIMIZE'])) for i in range(nobj)]
  safety = [('s', rng.choice(['MAXIMIZE', 'MINIMIZE']), float(rng.choice([-1, 0, 1])))] if rng.random() < 0.3 else []
  pool = [rng.choice(GRID[1:-1]) for _ in range(3)] + [rng.choice(GRID)]
  if rng.random() < 0.35:
    # near ties: values that differ in float64 but not in float32 (1 + 1e-9 vs 1): "attains the best value" and
    # "is dominated" are about the values the trials report, not about a coarser rendering of them
    pool += [v + rng.choice([1e-9, -1e-9, 3e-12]) for v in pool if abs(v) != INF]
  clean = rng.random() < 0.45         # only completed feasible trials with all objectives: the class the theorem covers
  trials = []
  for _ in range(rng.choice([0, 1, 2, 3, 4, 5, 6, 8, 10])):
    full = [[m, rng.choice(pool)] for m, _ in objs]
    if safety and rng.random() < 0.8:
      full.append(['s', rng.choice([-2.0, 0.0, 2.0, NAN] if not clean else [-2.0, 0.0, 2.0])])
    r = 0.0 if clean else rng.random()
    if r < 0.55:
      trials.append({'kind': 'completed', 'final': full})
    elif r < 0.65:
      trials.append({'kind': 'active'})
    elif r < 0.73:
      trials.append({'kind': 'infeasible', 'final': None})
    elif r < 0.80:
      trials.append({'kind': 'infeasible', 'final': full})
    elif r < 0.90:
      drop = rng.randrange(nobj)
      trials.append({'kind': 'completed', 'final': [kv for i, kv in enumerate(full) if i != drop]})
    else:
      f = [list(kv) for kv in full]
      f[rng.randrange(nobj)][1] = NAN
      trials.append({'kind': 'completed', 'final': f})
  count = rng.choice([None, None, None, 1, 2]) if nobj > 1 else None
  return {'objs': objs, 'safety': safety, 'trials': trials, 'count': count}


def run_inram_case(case):
  from vizier import pyvizier as vz
  from vizier._src.pythia import local_policy_supporters as lps
  goal = {'MAXIMIZE': vz.ObjectiveMetricGoal.MAXIMIZE, 'MINIMIZE': vz.ObjectiveMetricGoal.MINIMIZE}
  p = vz.ProblemStatement()
  p.search_space.root.add_float_param('x', 0.0, 1.0)
  for m, g in case['objs']:
    p.metric_information.append(vz.MetricInformation(name=m, goal=goal[g]))
  for m, g, thr in case['safety']:
    p.metric_information.append(vz.MetricInformation(name=m, goal=goal[g], safety_threshold=thr))
  s = lps.InRamPolicySupporter(p)
  ts = []
  for t in case['trials']:
    tr = vz.Trial(parameters={'x': 0.5})
    if t['kind'] == 'completed':
      tr.complete(vz.Measurement(metrics=dict(t['final'])))
    elif t['kind'] == 'infeasible':
      tr.complete(vz.Measurement(metrics=dict(t['final'] or [])) if t['final'] is not None else vz.Measurement(), infeasibility_reason='bad')
    ts.append(tr)
  s.AddTrials(ts)
  stored = []
  for tr in s.trials:
    fm = tr.final_measurement
    stored.append({'id': tr.id, 'infeasible': bool(tr.infeasible),
                   'final': None if fm is None else [[k, float(v.value)] for k, v in fm.metrics.items()]})
  got = [t.id for t in s.GetBestTrials(count=case['count'])]
  return stored, got


INRAM_TIE_WITNESS = {'objs': [('m0', 'MAXIMIZE')], 'safety': [], 'count': None,
                     'trials': [{'kind': 'completed', 'final': [['m0', 5.0]]}, {'kind': 'completed', 'final': [['m0', 5.0]]},
                                {'kind': 'completed', 'final': [['m0', 1.0]]}]}


def inram_request(case, stored, filt, all_tied=True):
  # order embedding of THIS case's values into the integers (the model only compares): ranks of the distinct finite
  # values (thresholds included), +-inf at the ends, NaN -> null
  vals = sorted(set([float(thr) for _, _, thr in case['safety']] +
                    [float(v) for t in stored if t['final'] is not None for _, v in t['final'] if v == v and abs(v) != INF]))
  rank = {v: i - len(vals) // 2 for i, v in enumerate(vals)}

  def e(v):
    v = float(v)
    return None if v != v else BIG if v == INF else -BIG if v == -INF else rank[v]
  return {'op': 'getbest', 'filterEligible': filt, 'allTied': all_tied, 'objs': [[m, g] for m, g in case['objs']],
          'safety': [[m, g, e(thr)] for m, g, thr in case['safety']], 'count': case['count'],
          'trials': [{'id': t['id'], 'infeasible': t['infeasible'],
                      'final': None if t['final'] is None else [[k, e(v)] for k, v in t['final']]} for t in stored]}


INRAM_WITNESS = {'objs': [('m0', 'MAXIMIZE'), ('m1', 'MAXIMIZE')], 'safety': [], 'count': None,
                 'trials': [{'kind': 'active'}, {'kind': 'completed', 'final': [['m0', 1.0], ['m1', 1.0]]}]}


def inram_stage(c, V, n):
  # identify the variant with the witness of c11_inram_counterexample (an unfinished trial first)
  stored, got = run_inram_case(INRAM_WITNESS)
  V.inram_filters = (got == [2])
  c.flags['getBestFiltersEligible'] = V.inram_filters
  if not V.inram_filters:
    c.prop_fail(KEY_INRAM_NAN if got == [] else 'inram-getbest-other', 'GetBestTrials returned %s for [unfinished trial 1, completed trial 2 = (1, 1)]; the optimal trials are [2]' % got,
                {'case': canon_case(INRAM_WITNESS), 'real': got, 'definition': [2], 'witness_of': 'c11_inram_counterexample'})
  # ... and with the witness of c11_inram_single_one_of_tied_counterexample (two trials attaining the best value)
  _, got_tie = run_inram_case(INRAM_TIE_WITNESS)
  V.inram_all_tied = (sorted(got_tie) == [1, 2])
  c.flags['getBestReturnsAllTied'] = V.inram_all_tied
  if not V.inram_all_tied:
    c.prop_fail(KEY_INRAM_SINGLE_TIE if got_tie in ([1], [2]) else 'inram-getbest-other',
                'GetBestTrials() on a single-objective study with trials 1 and 2 both attaining the best value 5 returned %s' % got_tie,
                {'case': canon_case(INRAM_TIE_WITNESS), 'real': got_tie, 'definition': [1, 2], 'witness_of': 'c11_inram_single_one_of_tied_counterexample'})
  cases = [gen_inram_case(c.rng) for _ in range(n)]
  runs, reqs = [], []
  for case in cases:
    stored, got = run_inram_case(case)
    c.traces += 1
    runs.append((case, stored, got))
    reqs.append(inram_request(case, stored, V.inram_filters, V.inram_all_tied))
  models = c.lean('C11', reqs)
  for (case, stored, got), m in zip(runs, models):
    if 'error' in m:
      raise core.InfraError('driver: %s' % m)
    single = len(case['objs']) == 1
    elig = set(m['eligible'])
    nan_row = any(any(x is None for x in row) for row in m['labels'])
    # trials that may not be reported but whose label row is an ordinary number row
    ineligible_full = [t['id'] for t, row in zip(stored, m['labels']) if t['id'] not in elig and not any(x is None for x in row)]
    c.count(1, ('inram', json.dumps(canon_case(case))) if len(stored) >= 2 else None, kind='getbest:%s' % ('single' if single else 'multi'))
    cc = {'case': canon_case(case), 'stored': canon_case(stored), 'real': got, 'definition': m['def'], 'labels': m['labels']}
    as_written = (got == m['model']) and not V.inram_filters
    if not single and case['count'] is not None:
      # "up to `count` of the Pareto optimal trials"
      if not (set(got) <= set(m['def']) and len(got) == min(case['count'], len(m['def']))):
        key = KEY_INRAM_NAN if (as_written and nan_row) else KEY_INRAM_INELIGIBLE if (as_written and ineligible_full) else 'inram-getbest-other'
        c.prop_fail(key, 'GetBestTrials(count=%d) returned %s, the optimal trials are %s' % (case['count'], got, m['def']), cc)
      if got != m['model']:
        c.tie_break('InRamPolicySupporter.GetBestTrials (multi-objective, count)', cc, got, m['model'])
    elif not single:
      if sorted(got) != sorted(m['def']):
        if as_written and nan_row:
          key = KEY_INRAM_NAN
        elif as_written and ineligible_full:
          key = KEY_INRAM_INELIGIBLE
        else:
          key = 'inram-getbest-other'
        c.prop_fail(key, 'GetBestTrials returned %s, the optimal trials are %s' % (got, m['def']), cc)
      if got != m['model']:
        c.tie_break('InRamPolicySupporter.GetBestTrials (multi-objective)', cc, got, m['model'])
    else:
      # one trial is returned ("count or 1"); it must be an optimal one, and all optimal ones are promised
      lab = {t['id']: row[0] for t, row in zip(stored, m['labels'])}
      same_labels = [lab.get(i) for i in got] == [lab.get(i) for i in m['model']]
      if not set(got) <= set(m['def']):
        key = KEY_INRAM_INELIGIBLE if (same_labels and not V.inram_filters and (nan_row or ineligible_full)) else 'inram-getbest-other'
        c.prop_fail(key, 'GetBestTrials (single objective) returned %s, the optimal trials are %s' % (got, m['def']), cc)
      elif sorted(got) != sorted(m['def']):
        key = KEY_INRAM_SINGLE_TIE if (len(got) == 1 and len(m['def']) > 1 and not V.inram_all_tied) else 'inram-getbest-other'
        c.prop_fail(key, 'GetBestTrials (single objective) returned %s of the tied optimal trials %s' % (got, m['def']), cc)
      # tie: numpy breaks ties arbitrarily; compare the label of what was returned
      if not same_labels or len(got) != len(m['model']):
        c.tie_break('InRamPolicySupporter.GetBestTrials (single objective)', cc, got, m['model'])
  c.sample({'getbest': canon_case(runs[-1][0]), 'real': runs[-1][2], 'definition': models[-1]['def']})


# ------------------------------------------------------------------ run
def load_corpus():
  out = []
  d = os.path.join(core.VERIF, 'corpus', 'C11')
  for p in sorted(glob.glob(os.path.join(d, '*.json'))):
    try:
      j = json.load(open(p))
      if 'pts' in j:
        out.append([[float(x) for x in r] for r in j['pts']])
    except (ValueError, KeyError):
      pass
  return out


def run(c):
  c.proof_stage()
  import shim
  shim.install()
  V = Variants()
  quick = c.tier == 'quick'
  identify_pareto_variants(c, V)
  jax_float64_stage(c)
  corpus = [FAST_WITNESS, [[1.0, 5.0], [1.0, 5.0]], [[INF, -INF], [INF, 1.0], [1.0, -INF]], [], [[0.0]], [[0.0], [0.0]]] + load_corpus()
  pointset_stage(c, V, n_np=1500 if quick else 20000, n_jax=45 if quick else 500, corpus=corpus)
  exhaustive_stage(c, V, 3 if quick else 4)
  against_stage(c, V, n_np=500 if quick else 6000, n_jax=30 if quick else 300)
  service_stage(c, V, 60 if quick else 700, ['ram', 'sqlmem'] if quick else ['ram', 'sqlmem', 'sqlfile'])
  inram_stage(c, V, 150 if quick else 2500)

  def search():
    pointset_stage(c, V, n_np=15000 if quick else 60000, n_jax=0)
    against_stage(c, V, n_np=5000 if quick else 20000, n_jax=0)

  return c.finish(
      level='proof',
      rule='point multisets in 1-4 dimensions over the grid {-inf,-2..2,+inf} (non-trivial = a tie in a single coordinate, a duplicate point or a non-finite value); service/in-memory histories count as non-trivial when they have >= 2 trials mixing states or NaN',
      assumptions=[
          'floats are order-embedded into integers for the model (the pure routines are fed grid values and +-inf, which are float32-representable, so the float32 arithmetic of jax merges nothing; the in-memory best-trial query is also fed near ties that only float64 tells apart and is order-embedded per case)',
          'recursive_threshold >= 1 for is_pareto_optimal (0 recurses forever as written: c11_fast_thr0_diverges); all thresholds >= 0 for is_pareto_optimal_against',
          'the 0-d array returned by the 1-D base case of Fast.is_pareto_optimal_against for a single point is read as a length-1 array',
          'ListOptimalTrials treats every configured metric (safety metrics included) as an objective, as the code does; GetBestTrials ranks unsafe trials by the worst value (SafetyChecker), as the code does',
          'GetBestTrials is modelled for studies of at most 10000 trials (FastParetoOptimalAlgorithm default threshold: base algorithm)',
          'metric ids of a study are distinct'],
      search=search)
