"""C10 — metadata is an exact last-writer-wins store across namespaces.

Proof stage: Props/C10.lean.  Tie: Namespace codec, merge functions, and
update histories through the real service (RAM + SQLite) vs the Lean model.
Property stage: round trip / LWW view judged on the real outputs."""
import itertools
import json

from vcheck import core

ALPH = ['a', ':', '\\', 'é', '\U0001d6fc', 'b']
KEY_TRAILING_BS = 'ns-component-trailing-backslash'
KEY_RAM_ATOMIC = 'ram-update-metadata-missing-trial-not-atomic'


def cps(s):
  return [ord(c) for c in s]


def from_cps(a):
  return ''.join(chr(x) for x in a)


def gen_str(rng, maxlen=3):
  n = rng.choice([0, 1, 1, 2, 2, 3][:maxlen + 3])
  return ''.join(rng.choice(ALPH) for _ in range(n))


def gen_ns(rng):
  return tuple(gen_str(rng) for _ in range(rng.choice([0, 1, 1, 2, 2, 3])))


# ------------------------------------------------------------------ codec
def codec_stage(c):
  import shim
  shim.install_proto()
  from vizier._src.pyvizier.shared import common
  from vizier._src.pyvizier.oss import metadata_util

  cases = []
  # corpus first: witnesses of the counterexample theorems + past failures
  cases += [('a\\',), ('a\\', 'b'), ('a:b',), (), ('',), ('', ''), (':',), ('\\:',), (':\\',), ('a\\b',), ('\\',), ('\\\\',)]
  if c.tier == 'thorough':
    strs = [''] + [''.join(p) for n in (1, 2) for p in itertools.product(ALPH[:5], repeat=n)]
    for n in (1, 2):
      cases += list(itertools.product(strs, repeat=n))
    cases += [tuple(t) for t in itertools.product(strs[:12] + ['\\\\', ':\\', '\\:'], repeat=3)]
    cases += [gen_ns(c.rng) for _ in range(20000)]
    c.coverage_extra['exhaustive_codec'] = 'all namespaces of <=2 components over strings of length <=2 over %r' % ALPH[:5]
  else:
    cases += [gen_ns(c.rng) for _ in range(4000)]
  seen = set()
  cases = [x for x in cases if not (x in seen or seen.add(x))]

  reqs = [{'op': 'roundtrip', 'ns': [cps(s) for s in ns]} for ns in cases]
  model = c.lean('C10', reqs)
  enc_seen = {}
  for ns, m in zip(cases, model):
    real_enc = common.Namespace(ns).encode()
    real_dec = tuple(common.Namespace.decode(real_enc))
    nontrivial = any(':' in s or '\\' in s or s == '' for s in ns)
    c.count(1, ('codec', ns) if nontrivial else None, kind='codec:len%d' % len(ns))
    m_enc = from_cps(m['enc'])
    m_dec = tuple(from_cps(x) for x in m['dec'])
    if m_enc != real_enc or m_dec != real_dec:
      c.tie_break('Namespace.encode/decode', {'ns': list(ns)}, {'enc': real_enc, 'dec': list(real_dec)}, {'enc': m_enc, 'dec': list(m_dec)})
    trailing = any(s.endswith('\\') for s in ns)
    if trailing != m['trailingBS']:
      c.tie_break('trailingBS classifier', {'ns': list(ns)}, trailing, m['trailingBS'])
    # property on the real code
    if real_dec != ns:
      key = KEY_TRAILING_BS if trailing else 'ns-roundtrip-other'
      c.prop_fail(key, 'Namespace.decode(Namespace(%r).encode()) == %r != original' % (ns, real_dec), {'ns': list(ns), 'encoded': real_enc, 'decoded': list(real_dec)})
    if real_enc in enc_seen and enc_seen[real_enc] != ns:
      other = enc_seen[real_enc]
      tr = trailing or any(s.endswith('\\') for s in other)
      c.prop_fail(KEY_TRAILING_BS if tr else 'ns-collision-other',
                  'distinct namespaces %r and %r share the encoding %r' % (ns, other, real_enc),
                  {'ns1': list(ns), 'ns2': list(other), 'encoded': real_enc})
    enc_seen.setdefault(real_enc, ns)
  c.sample({'codec': {'ns': list(cases[min(20, len(cases) - 1)]), 'model': model[min(20, len(cases) - 1)]}})

  # decode of arbitrary strings (tie only: the property speaks about encode∘decode)
  strs = [''.join(c.rng.choice(ALPH) for _ in range(c.rng.randrange(0, 7))) for _ in range(3000 if c.tier == 'quick' else 30000)]
  strs = sorted(set(strs))
  model = c.lean('C10', [{'op': 'decode', 's': cps(s)} for s in strs])
  for s, m in zip(strs, model):
    real = tuple(common.Namespace.decode(s))
    c.count(1, kind='decode-arbitrary')
    md = tuple(from_cps(x) for x in m['ns'])
    if md != real:
      c.tie_break('Namespace.decode (arbitrary string)', {'s': s}, list(real), list(md))

  # Metadata <-> KeyValue list round trip (what a client reads back)
  n_md = 300 if c.tier == 'quick' else 3000
  for i in range(n_md):
    md = common.Metadata()
    entries = {}
    for _ in range(c.rng.randrange(1, 6)):
      ns = gen_ns(c.rng)
      k = gen_str(c.rng) or 'k'
      v = gen_str(c.rng)
      md.abs_ns(common.Namespace(ns))[k] = v
      entries[(ns, k)] = v
    back = metadata_util.from_key_value_list(metadata_util.make_key_value_list(md))
    got = {(tuple(ns), k): v for ns, k, v in back.all_items()}
    c.count(1, ('mdrt', i), kind='metadata-kvlist-roundtrip')
    if got != entries:
      trailing = any(s.endswith('\\') for (ns, _k) in entries for s in ns)
      c.prop_fail(KEY_TRAILING_BS if trailing else 'metadata-kvlist-roundtrip-other',
                  'Metadata -> KeyValue list -> Metadata changed entries',
                  {'written': [[list(ns), k, v] for (ns, k), v in entries.items()],
                   'read': [[list(ns), k, v] for (ns, k), v in got.items()]})


# ------------------------------------------------------------------ merge
def merge_stage(c):
  from vizier._src.pyvizier.oss import metadata_util
  from vizier._src.service import study_pb2, key_value_pb2, vizier_service_pb2
  from google.protobuf import duration_pb2
  from vcheck import svc
  nss = ['', ':a', ':a:b', ':b', ':é', ':a\\:b']
  # keys that spell a namespace boundary: (ns '', key 'a:k') and (ns ':a', key 'k') are different entries
  keys = ['k', 'j', '', 'K', 'é', 'a:k', 'b:k', ':k', 'a:b:k']

  def rand_kv():
    ns, k = c.rng.choice(nss), c.rng.choice(keys)
    if c.rng.random() < 0.2:
      kv = key_value_pb2.KeyValue(ns=ns, key=k)
      kv.proto.Pack(duration_pb2.Duration(seconds=c.rng.randrange(0, 3)))
      return kv
    return key_value_pb2.KeyValue(ns=ns, key=k, value=c.rng.choice(['', 'v', 'w', '0']))

  n = 400 if c.tier == 'quick' else 6000
  reqs, reals = [], []
  for i in range(n):
    old = [rand_kv() for _ in range(c.rng.randrange(0, 6))]
    new = [rand_kv() for _ in range(c.rng.randrange(0, 6))]
    if i % 2 == 0:
      spec = study_pb2.StudySpec()
      spec.metadata.extend(old)
      before = [kv.SerializeToString() for kv in new]
      metadata_util.merge_study_metadata(spec, new)
      real = svc.md_tuples(spec)
      if [kv.SerializeToString() for kv in new] != before:
        c.prop_fail('merge-mutates-input', 'merge_study_metadata modified its input', {'i': i})
    else:
      t = study_pb2.Trial(id='3')
      t.metadata.extend(old)
      ups = [vizier_service_pb2.UnitMetadataUpdate(trial_id='3', metadatum=kv) for kv in new]
      metadata_util.merge_trial_metadata(t, ups)
      real = svc.md_tuples(t)
    cont_old = study_pb2.StudySpec(); cont_old.metadata.extend(old)
    cont_new = study_pb2.StudySpec(); cont_new.metadata.extend(new)
    o, nw = svc.md_tuples(cont_old), svc.md_tuples(cont_new)
    reqs.append({'op': 'merge', 'old': o, 'new': nw})
    reals.append((o, nw, real))
  model = c.lean('C10', reqs)
  for (o, nw, real), m in zip(reals, model):
    dup = len(set((e[0], e[1]) for e in o + nw)) < len(o + nw)
    c.count(1, ('merge', json.dumps([o, nw])) if dup else None, kind='merge')
    # property on the real output: LWW view + sorted + duplicate free
    want = {}
    for ns, k, v in o + nw:
      want[(ns, k)] = v
    got_keys = [(e[0], e[1]) for e in real]
    if {(e[0], e[1]): e[2] for e in real} != want or got_keys != sorted(set(got_keys)):
      c.prop_fail('merge-not-lww', 'merge_*_metadata result is not the sorted last-writer-wins union', {'old': o, 'new': nw, 'real': real})
    if m['merged'] != real:
      c.tie_break('metadata_util.merge_*_metadata', {'old': o, 'new': nw}, real, m['merged'])
  c.sample({'merge': {'old': reals[0][0], 'new': reals[0][1], 'real': reals[0][2]}})


# ------------------------------------------------------------------ store histories
class FakePythia:
  """A Pythia service whose decisions are scripted by the harness."""

  def __init__(self):
    self.script = None

  def Suggest(self, request):
    from vizier import pyvizier as vz
    from vizier import pythia
    from vizier._src.pyvizier.oss import proto_converters as pc
    on_study, on_trials, new_mds = self.script
    delta = vz.MetadataDelta()
    for ns, k, v in on_study:
      delta.on_study.abs_ns(vz.Namespace.decode(ns))[k] = v
    for tid, ns, k, v in on_trials:
      delta.on_trials[tid].abs_ns(vz.Namespace.decode(ns))[k] = v
    sugg = []
    for md in new_mds:
      s = vz.TrialSuggestion({'x': 0.5})
      for ns, k, v in md:
        s.metadata.abs_ns(vz.Namespace.decode(ns))[k] = v
      sugg.append(s)
    return pc.SuggestConverter.to_decision_proto(pythia.SuggestDecision(suggestions=sugg, metadata=delta))


def gen_history(rng, length):
  nss = ['', ':algo', ':algo:sub', ':user', ':é\\:x']
  keys = ['k', 'j', '', 'algo:k', 'sub:k', 'algo:sub:k']     # incl. keys that spell a namespace boundary
  vals = ['', 'v', 'w', 'z']
  ops, next_id, live = [], 1, []

  def kv():
    return [rng.choice(nss), rng.choice(keys), rng.choice(vals)]
  for _ in range(length):
    r = rng.random()
    if r < 0.18 or not live:
      md = [kv() for _ in range(rng.randrange(0, 3))]
      ops.append({'op': 'addTrial', 'id': next_id, 'md': md})
      live.append(next_id); next_id += 1
    elif r < 0.28:
      # deleting the max id would let the service reuse it; keep the model's ids in step
      cand = [i for i in live if i != max(live)]
      if cand:
        d = rng.choice(cand)
        live.remove(d)
        ops.append({'op': 'delTrial', 'id': d})
    elif r < 0.85:
      us = []
      for _ in range(rng.randrange(1, 5)):
        if rng.random() < 0.4:
          t = None
        elif rng.random() < 0.15:
          t = rng.choice([next_id + 3, 99])          # missing trial
        else:
          t = rng.choice(live)
        u = {'t': t, 'kv': kv()}
        if t is not None and t in live and rng.random() < 0.12:
          # the same trial named by a non-canonical decimal string (int() maps it to the id)
          u['talias'] = rng.choice(['0%d', '+%d', ' %d', '%d ', '00%d']) % t
        us.append(u)
      ops.append({'op': 'update', 'us': us})
    else:
      # algorithm-issued delta + freshly created trials carrying metadata
      on = []
      for _ in range(rng.randrange(0, 3)):
        t = None if rng.random() < 0.5 else rng.choice(live + ([99] if rng.random() < 0.2 else []))
        on.append({'t': t, 'kv': [rng.choice([':algo', ':algo:sub']), rng.choice(keys), rng.choice(vals)]})
      nnew = rng.randrange(1, 3)
      new = [[[':algo', 'k', rng.choice(vals)]] if rng.random() < 0.5 else [] for _ in range(nnew)]
      op = {'op': 'algo', 'us': on, 'new': new, 'client': 'w%d' % len(ops), 'new_ids': []}
      if all(u['t'] is None or u['t'] in live for u in on):   # the delta will be accepted
        for _ in new:
          op['new_ids'].append(next_id); live.append(next_id); next_id += 1
      ops.append(op)
  return ops


def expand_for_model(ops):
  """algo = update, then (if it succeeded) addTrial for each new suggestion; handled in run_model."""
  return ops


def run_real(backend, ops):
  from vcheck import svc
  from vizier._src.service import vizier_service_pb2 as vsp, study_pb2, key_value_pb2
  py = FakePythia()
  sv = svc.make_servicer(backend, pythia=py)
  study = svc.create_study(sv)
  sname = study.name
  outs = []
  # NEIGHBOUR studies on the same service (same owner with a name extending the study's, and another owner with the
  # same name), each with metadata and a trial of their own, written before and between the history's operations:
  # nothing written to one study may show up in, or disappear from, another
  nbs = [svc.create_study(sv, 'o', 's2').name, svc.create_study(sv, 'p', 's').name]
  nb_md = [['', 'nb', 'neighbour'], [':user', 'k', 'nb-k'], [':algo', 'only-nb', '1']]

  def touch_neighbours():
    for nb in nbs:
      rq = vsp.UpdateMetadataRequest(name=nb)
      for e in nb_md:
        rq.delta.add().metadatum.CopyFrom(svc.kv_list([e])[0])
      sv.UpdateMetadata(rq)
  for nb in nbs:
    t0 = study_pb2.Trial(state=study_pb2.Trial.State.SUCCEEDED)
    t0.metadata.extend(svc.kv_list([['', 'nbt', 'x']]))
    sv.CreateTrial(vsp.CreateTrialRequest(parent=nb, trial=t0))
  touch_neighbours()
  for oi, o in enumerate(ops):
    if oi % 3 == 2:
      touch_neighbours()
    try:
      if o['op'] == 'addTrial':
        t = study_pb2.Trial(state=study_pb2.Trial.State.SUCCEEDED)   # not REQUESTED: keeps the pool empty
        t.metadata.extend(svc.kv_list(o['md']))
        got = sv.CreateTrial(vsp.CreateTrialRequest(parent=sname, trial=t))
        outs.append('ok' if int(got.id) == o['id'] else 'id=%s' % got.id)
      elif o['op'] == 'delTrial':
        sv.DeleteTrial(vsp.DeleteTrialRequest(name='%s/trials/%d' % (sname, o['id'])))
        outs.append('ok')
      elif o['op'] == 'update':
        req = vsp.UpdateMetadataRequest(name=sname)
        for u in o['us']:
          d = req.delta.add()
          if u['t'] is not None:
            d.trial_id = u.get('talias') or str(u['t'])
          d.metadatum.CopyFrom(svc.kv_list([u['kv']])[0])
        resp = sv.UpdateMetadata(req)
        outs.append('notFound' if resp.error_details else 'ok')
      elif o['op'] == 'algo':
        py.script = ([u['kv'] for u in o['us'] if u['t'] is None],
                     [[u['t']] + u['kv'] for u in o['us'] if u['t'] is not None], o['new'])
        op = sv.SuggestTrials(vsp.SuggestTrialsRequest(parent=sname, suggestion_count=len(o['new']), client_id=o['client']))
        outs.append('notFound' if op.HasField('error') else ('ok' if op.done else 'notdone'))
    except Exception as e:  # pylint: disable=broad-except
      outs.append('EXC:' + type(e).__name__)
  st = sv.GetStudy(vsp.GetStudyRequest(name=sname))
  trials = sv.ListTrials(vsp.ListTrialsRequest(parent=sname)).trials
  store = {'study': svc.md_tuples(st.study_spec),
           'trials': [{'id': int(t.id), 'md': svc.md_tuples(t)} for t in trials]}
  for nb in nbs:
    got = (sorted(svc.md_tuples(sv.GetStudy(vsp.GetStudyRequest(name=nb)).study_spec)),
           [[int(t.id), svc.md_tuples(t)] for t in sv.ListTrials(vsp.ListTrialsRequest(parent=nb)).trials])
    if got != (sorted(nb_md), [[1, [['', 'nbt', 'x']]]]):
      store.setdefault('neighbour_changed', []).append([nb, got])
  return outs, store


def model_requests(ops, atomic):
  """Translate harness ops to driver ops (algo -> update [+ addTrial...])."""
  # the driver handles sequencing; an algo op whose update fails creates no trials,
  # so the expansion needs the model's own verdict: done in two passes by the driver
  # being called per prefix is wasteful; instead we expand optimistically and mark.
  out = []
  for o in ops:
    if o['op'] == 'algo':
      out.append({'op': 'update', 'us': o['us'],
                  'algo_new': [{'id': i, 'md': md} for i, md in zip(o['new_ids'], reversed(o['new']))]})   # new_trials.pop() hands out the last suggestion first
    else:
      out.append(o)
  return {'op': 'history', 'atomic': atomic, 'ops': out}


def view_of(store):
  v = {}
  for ns, k, val in store['study']:
    v[('S', ns, k)] = val
  for t in store['trials']:
    for ns, k, val in t['md']:
      v[(t['id'], ns, k)] = val
  return v, [t['id'] for t in store['trials']]


def store_stage(c):
  from vcheck import svc
  # --- identify the RAM variant of the current tree with the witness of c10_ram_legacy_counterexample
  witness = [{'op': 'update', 'us': [{'t': None, 'kv': ['', 'k', 'v']}, {'t': 7, 'kv': ['', 'k', 'w']}]}]
  outs, store = run_real('ram', witness)
  ram_atomic = (outs == ['notFound'] and store['study'] == [])
  c.flags['ramUpdateMetadataAtomic'] = ram_atomic
  if not ram_atomic:
    c.prop_fail(KEY_RAM_ATOMIC,
                'RAM datastore: UpdateMetadata naming missing trial 7 answered %s and left study metadata %s (must report an error and change nothing)' % (outs, store['study']),
                {'backend': 'ram', 'ops': witness, 'outs': outs, 'store': store})
  n = 150 if c.tier == 'quick' else 1500
  backends = ['ram', 'sqlmem'] + (['sqlfile'] if c.tier == 'thorough' else [])
  hists = [gen_history(c.rng, c.rng.randrange(4, 16)) for _ in range(n)]
  # Model (atomic = the specification-conformant datastore, proved to refine the LWW spec)
  spec_res = c.lean('C10', [model_requests(h, True) for h in hists])
  legacy_res = c.lean('C10', [model_requests(h, False) for h in hists]) if not ram_atomic else None
  for i, h in enumerate(hists):
    m = spec_res[i]
    if 'error' in m:
      raise core.InfraError('driver: ' + str(m))
    kinds = set(o['op'] for o in h)
    has_fail = 'notFound' in m['outs']
    c.count(1, ('hist', i) if (has_fail or 'algo' in kinds) else None)
    for o in h:
      c.dist['store-op:' + o['op']] = c.dist.get('store-op:' + o['op'], 0) + 1
    for be in backends:
      outs, store = run_real(be, h)
      c.traces += 1
      mv, mids = view_of(m['store'])
      rv, rids = view_of(store)
      if store.get('neighbour_changed'):
        c.prop_fail('neighbour-study-metadata-changed:' + be,
                    'a history on study owners/o/studies/s changed what neighbour studies store (backend %s): %s' % (be, json.dumps(store['neighbour_changed'])[:300]),
                    {'backend': be, 'ops': h, 'neighbour_changed': store['neighbour_changed']})
        continue
      if outs == m['outs'] and rv == mv and rids == mids:
        if store != m['store']:
          c.tie_break('stored metadata lists (%s)' % be, {'ops': h}, store, m['store'])
        continue
      # the real code deviates from the LWW specification on this history
      if be == 'ram' and legacy_res is not None:
        lm = legacy_res[i]
        # UpdateMetadata does ';'.join(e.args) on KeyError(int) -> TypeError; SuggestTrials does str(e) -> operation error
        louts = [('EXC:TypeError' if o['op'] == 'update' else 'notFound') if x == 'keyErrorRaw' else x for x, o in zip(lm['outs'], h)]
        if louts == outs and view_of(lm['store']) == (rv, rids):
          c.prop_fail(KEY_RAM_ATOMIC, 'RAM datastore applies part of a failed metadata update', {'backend': be, 'ops': h, 'outs': outs})
          continue
      c.prop_fail('store-lww-mismatch:' + be,
                  'reading back after the history does not give the last written values (backend %s): outs real=%s spec=%s' % (be, outs, m['outs']),
                  {'backend': be, 'ops': h, 'real_outs': outs, 'spec_outs': m['outs'], 'real_store': store, 'spec_store': m['store']})
  c.sample({'history': hists[0], 'spec_result': spec_res[0]})
  svc.cleanup()


def make_scripted_policy_factory(scripts, style):
  """A real pythia.Policy in the documented style: build the decision, THEN write the metadata the
  algorithm wants to keep into `decision.metadata` (`style` 'default': rely on SuggestDecision's own
  default delta; 'explicit': pass a fresh MetadataDelta).  `scripts[study_name]` is the next script."""
  from vizier import pythia
  from vizier import pyvizier as vz

  class ScriptedPolicy(pythia.Policy):
    def __init__(self, study_name):
      self._study = study_name

    def suggest(self, request):
      on_study, on_trials, new_mds = scripts[self._study]
      sugg = []
      for md in new_mds:
        sg = vz.TrialSuggestion({'x': 0.5})
        for ns, k, v in md:
          sg.metadata.abs_ns(vz.Namespace.decode(ns))[k] = v
        sugg.append(sg)
      if style == 'view':
        # an algorithm that works inside its own namespace and hands back that VIEW of its store: what a delta
        # carries is its absolute content (every namespace of the store the view belongs to), wherever the view
        # happens to be positioned
        store = vz.Metadata()
        for ns, k, v in on_study:
          store.abs_ns(vz.Namespace.decode(ns))[k] = v
        per_trial = {}
        for tid, ns, k, v in on_trials:
          per_trial.setdefault(tid, vz.Metadata()).abs_ns(vz.Namespace.decode(ns))[k] = v
        delta = vz.MetadataDelta(on_study=store.ns('algo'))
        for tid, md in per_trial.items():
          delta.on_trials[tid] = md.ns('algo').ns('sub')
        return pythia.SuggestDecision(sugg, metadata=delta)
      if style == 'explicit':
        decision = pythia.SuggestDecision(sugg, metadata=vz.MetadataDelta())
      else:
        decision = pythia.SuggestDecision(sugg)
      for ns, k, v in on_study:
        decision.metadata.on_study.abs_ns(vz.Namespace.decode(ns))[k] = v
      for tid, ns, k, v in on_trials:
        decision.metadata.on_trials[tid].abs_ns(vz.Namespace.decode(ns))[k] = v
      return decision

    def early_stop(self, request):
      return pythia.EarlyStopDecisions()

    @property
    def should_be_cached(self):
      return False

  def factory(problem_statement, algorithm, policy_supporter, study_name):
    return ScriptedPolicy(study_name)
  return factory, ScriptedPolicy


def run_real_policies(backend, ops_by_study, style):
  """Like run_real, but the algorithm is a real policy hosted by the real PythiaServicer, and SEVERAL
  studies are served by the same process, their histories interleaved round-robin."""
  from vcheck import svc
  from vizier._src.service import vizier_service_pb2 as vsp, study_pb2, pythia_service
  scripts = {}
  factory, _ = make_scripted_policy_factory(scripts, style)
  sv = svc.make_servicer(backend)
  sv.default_pythia_service = pythia_service.PythiaServicer(sv, policy_factory=factory)
  names = {}
  for key in ops_by_study:
    names[key] = svc.create_study(sv, display=key).name
  outs = {key: [] for key in ops_by_study}
  queues = {key: list(ops) for key, ops in ops_by_study.items()}
  while any(queues.values()):
    for key in list(queues):
      if not queues[key]:
        continue
      o = queues[key].pop(0)
      sname = names[key]
      try:
        if o['op'] == 'addTrial':
          t = study_pb2.Trial(state=study_pb2.Trial.State.SUCCEEDED)
          t.metadata.extend(svc.kv_list(o['md']))
          got = sv.CreateTrial(vsp.CreateTrialRequest(parent=sname, trial=t))
          outs[key].append('ok' if int(got.id) == o['id'] else 'id=%s' % got.id)
        elif o['op'] == 'delTrial':
          sv.DeleteTrial(vsp.DeleteTrialRequest(name='%s/trials/%d' % (sname, o['id'])))
          outs[key].append('ok')
        elif o['op'] == 'update':
          req = vsp.UpdateMetadataRequest(name=sname)
          for u in o['us']:
            d = req.delta.add()
            if u['t'] is not None:
              d.trial_id = u.get('talias') or str(u['t'])
            d.metadatum.CopyFrom(svc.kv_list([u['kv']])[0])
          resp = sv.UpdateMetadata(req)
          outs[key].append('notFound' if resp.error_details else 'ok')
        elif o['op'] == 'algo':
          scripts[sname] = ([u['kv'] for u in o['us'] if u['t'] is None],
                            [[u['t']] + u['kv'] for u in o['us'] if u['t'] is not None], o['new'])
          op = sv.SuggestTrials(vsp.SuggestTrialsRequest(parent=sname, suggestion_count=len(o['new']), client_id=o['client']))
          outs[key].append('notFound' if op.HasField('error') else ('ok' if op.done else 'notdone'))
      except Exception as e:  # pylint: disable=broad-except
        outs[key].append('EXC:' + type(e).__name__)
  stores = {}
  for key, sname in names.items():
    st = sv.GetStudy(vsp.GetStudyRequest(name=sname))
    trials = sv.ListTrials(vsp.ListTrialsRequest(parent=sname)).trials
    stores[key] = {'study': svc.md_tuples(st.study_spec), 'trials': [{'id': int(t.id), 'md': svc.md_tuples(t)} for t in trials]}
  return outs, stores


def policy_stage(c):
  """Algorithm-issued metadata through the REAL policy plumbing (pythia.SuggestDecision /
  PythiaServicer / ServicePolicySupporter): two studies served by one process, histories interleaved;
  each study read back must be the last-writer-wins result of ITS OWN history."""
  n = 24 if c.tier == 'quick' else 200
  for i in range(n):
    style = ('default', 'explicit', 'view')[i % 3]
    be = 'ram' if i % 3 else 'sqlmem'
    ops_by_study = {'sa': gen_history(c.rng, c.rng.randrange(4, 12)), 'sb': gen_history(c.rng, c.rng.randrange(3, 10))}
    # make sure algorithm rounds occur in both
    for key, ops in ops_by_study.items():
      if not any(o['op'] == 'algo' for o in ops):
        ops_by_study[key] = gen_history(c.rng, 14)
    models = c.lean('C10', [model_requests(ops_by_study[k], True) for k in ('sa', 'sb')])
    outs, stores = run_real_policies(be, ops_by_study, style)
    c.traces += 2
    n_algo = sum(1 for ops in ops_by_study.values() for o in ops if o['op'] == 'algo')
    c.count(2, ('policy', i) if n_algo >= 2 else None, kind='policy-history:' + style)
    for key, m in zip(('sa', 'sb'), models):
      if 'error' in m:
        raise core.InfraError('driver: ' + str(m))
      mv, mids = view_of(m['store'])
      rv, rids = view_of(stores[key])
      if outs[key] != m['outs'] or rv != mv or rids != mids:
        diff = {str(k): (rv.get(k), mv.get(k)) for k in set(rv) | set(mv) if rv.get(k) != mv.get(k)}
        c.prop_fail('policy-metadata-lww-mismatch:' + style,
                    'algorithm-issued metadata through the real policy plumbing (%s delta, backend %s, two studies in one process): study %s reads back %s where last-writer-wins over its own history gives the second of each pair; outs real=%s spec=%s' % (
                        style, be, key, json.dumps(diff)[:300], outs[key], m['outs']),
                    {'backend': be, 'style': style, 'ops_by_study': ops_by_study, 'study': key, 'real_outs': outs[key], 'spec_outs': m['outs'],
                     'real_store': stores[key], 'spec_store': m['store']})
        break


KEY_INRAM_ATOMIC = 'inram-update-metadata-missing-trial-not-atomic'


def run_inram_policies(ops_by_study, style):
  """The same scripted policy on InRamPolicySupporter (local_policy_supporters.py): two studies in one
  process, interleaved.  ops: addTrial / algo only (the in-RAM supporter has no user UpdateMetadata)."""
  from vizier import pyvizier as vz
  from vizier._src.pythia import local_policy_supporters as lps
  scripts = {}
  _, policy_cls = make_scripted_policy_factory(scripts, style)
  sups, outs = {}, {}
  for key in ops_by_study:
    prob = vz.ProblemStatement()
    prob.search_space.root.add_float_param('x', 0.0, 1.0)
    prob.metric_information.append(vz.MetricInformation('obj', goal=vz.ObjectiveMetricGoal.MAXIMIZE))
    sups[key] = lps.InRamPolicySupporter(prob, study_guid=key)
    outs[key] = []
  queues = {key: list(ops) for key, ops in ops_by_study.items()}
  while any(queues.values()):
    for key in list(queues):
      if not queues[key]:
        continue
      o = queues[key].pop(0)
      sup = sups[key]
      try:
        if o['op'] == 'addTrial':
          t = vz.Trial(parameters={'x': 0.25})
          for ns, k, v in o['md']:
            t.metadata.abs_ns(vz.Namespace.decode(ns))[k] = v
          t.complete(vz.Measurement(metrics={'obj': 1.0}))
          got = sup.AddTrials([t])
          outs[key].append('ok')
        elif o['op'] == 'algo':
          scripts[key] = ([u['kv'] for u in o['us'] if u['t'] is None],
                          [[u['t']] + u['kv'] for u in o['us'] if u['t'] is not None], o['new'])
          sup.SuggestTrials(policy_cls(key), len(o['new']))
          outs[key].append('ok')
      except KeyError:
        outs[key].append('notFound')
      except Exception as e:  # pylint: disable=broad-except
        outs[key].append('EXC:' + type(e).__name__)
  stores = {}
  for key, sup in sups.items():
    def tuples(md):
      return sorted([ns.encode(), k, v] for ns in md.namespaces() for k, v in md.abs_ns(ns).items())
    stores[key] = {'study': tuples(sup.study_config.metadata), 'trials': [{'id': t.id, 'md': tuples(t.metadata)} for t in sup.trials]}
  return outs, stores


def gen_inram_history(rng, length):
  ops = [o for o in gen_history(rng, length * 2) if o['op'] in ('addTrial', 'algo')][:length]
  # ids must stay consecutive after dropping the other ops: renumber
  live, nxt, out = [], 1, []
  for o in ops:
    if o['op'] == 'addTrial':
      out.append({'op': 'addTrial', 'id': nxt, 'md': o['md']}); live.append(nxt); nxt += 1
    else:
      us = []
      for u in o['us']:
        t = u['t']
        if t is not None:
          t = rng.choice(live) if (live and rng.random() < 0.8) else 99
        us.append({'t': t, 'kv': u['kv']})
      op = {'op': 'algo', 'us': us, 'new': o['new'], 'client': o['client'], 'new_ids': []}
      if all(u['t'] is None or u['t'] in live for u in us):
        for _ in o['new']:
          op['new_ids'].append(nxt); live.append(nxt); nxt += 1
      out.append(op)
  return out


def inram_request(ops):
  out = []
  for o in ops:
    if o['op'] == 'algo':
      # AddSuggestions keeps the order of the decision's suggestions
      out.append({'op': 'update', 'us': o['us'], 'algo_new': [{'id': i, 'md': md} for i, md in zip(o['new_ids'], o['new'])]})
    else:
      out.append(o)
  return {'op': 'history', 'atomic': True, 'ops': out}


def inram_stage(c):
  n = 20 if c.tier == 'quick' else 150
  # witness: a delta naming a missing trial must change nothing
  w = {'sa': [{'op': 'algo', 'us': [{'t': None, 'kv': [':algo', 'k', 'v']}, {'t': 99, 'kv': [':algo', 'k', 'w']}], 'new': [[]], 'client': 'w', 'new_ids': []}]}
  o, st = run_inram_policies(w, 'explicit')
  atomic = (st['sa']['study'] == [])
  c.flags['inRamUpdateMetadataAtomic'] = atomic
  if not atomic:
    c.prop_fail(KEY_INRAM_ATOMIC, 'InRamPolicySupporter: a metadata delta naming missing trial 99 raised %s but left study metadata %s (must report an error and change nothing)' % (o['sa'], st['sa']['study']),
                {'ops': w, 'outs': o, 'store': st})
  for i in range(n):
    style = ('default', 'explicit', 'view')[i % 3]
    ops_by_study = {'sa': gen_inram_history(c.rng, c.rng.randrange(3, 9)), 'sb': gen_inram_history(c.rng, c.rng.randrange(3, 9))}
    if not atomic:
      # keep to deltas that name existing trials: the non-atomic failure is the finding above
      for key in ops_by_study:
        ops_by_study[key] = [o2 for o2 in ops_by_study[key] if o2['op'] != 'algo' or o2['new_ids'] or not o2['new']]
    models = c.lean('C10', [inram_request(ops_by_study[k]) for k in ('sa', 'sb')])
    outs, stores = run_inram_policies(ops_by_study, style)
    c.traces += 2
    c.count(2, ('inram', i), kind='inram-policy-history:' + style)
    for key, m in zip(('sa', 'sb'), models):
      if 'error' in m:
        raise core.InfraError('driver: ' + str(m))
      mv, mids = view_of(m['store'])
      rv, rids = view_of(stores[key])
      if outs[key] != m['outs'] or rv != mv or rids != mids:
        diff = {str(k): (rv.get(k), mv.get(k)) for k in set(rv) | set(mv) if rv.get(k) != mv.get(k)}
        c.prop_fail('inram-metadata-lww-mismatch:' + style,
                    'algorithm-issued metadata on InRamPolicySupporter (%s delta, two studies in one process): study %s reads back %s where last-writer-wins over its own history gives the second of each pair; outs real=%s spec=%s' % (
                        style, key, json.dumps(diff)[:300], outs[key], m['outs']),
                    {'style': style, 'ops_by_study': ops_by_study, 'study': key, 'real_outs': outs[key], 'spec_outs': m['outs'],
                     'real_store': stores[key], 'spec_store': m['store']})
        break


def metadata_api_stage(c):
  """The Metadata class itself (common.py): random sequences of ns()/abs_ns() views, item writes and
  deletes, update(), attach() between three objects, and reads (get, keys, namespaces, subnamespaces) on
  the REAL class vs Model/MetadataApi.lean.  Views are reached the way users reach them: a chain of
  ns() steps from the root, or abs_ns()."""
  import shim
  shim.install()
  from vizier._src.pyvizier.shared import common
  comps = ['', 'a', 'b', 'a:b', 'é', 'x\\']
  keys = ['k', 'j', '']
  vals = ['v', 'w', '', 'z']
  n = 60 if c.tier == 'quick' else 600
  reqs, reals, seqs = [], [], []

  def rnd_ns(rng):
    return [rng.choice(comps) for _ in range(rng.choice([0, 0, 1, 1, 2, 3]))]

  def view(md, ns, how):
    if how == 'abs':
      return md.abs_ns(common.Namespace(ns))
    v = md.abs_ns()          # the root, then one ns() step per component
    for comp in ns:
      v = v.ns(comp)
    return v
  for i in range(n):
    rng = c.rng
    mds = [common.Metadata(), common.Metadata(), common.Metadata()]
    ops, outs = [], []
    for _ in range(rng.randrange(4, 30)):
      m = rng.randrange(3)
      x = rng.random()
      ns = rnd_ns(rng)
      how = rng.choice(['abs', 'chain'])
      try:
        if x < 0.35:
          k, v = rng.choice(keys), rng.choice(vals)
          view(mds[m], ns, how)[k] = v
          ops.append({'op': 'set', 'm': m, 'ns': ns, 'k': k, 'v': v}); outs.append('ok')
        elif x < 0.42:
          k = rng.choice(keys)
          ops.append({'op': 'del', 'm': m, 'ns': ns, 'k': k})
          try:
            del view(mds[m], ns, how)[k]
            outs.append('ok')
          except KeyError:
            outs.append('KeyError')
        elif x < 0.52:
          kvs = [[rng.choice(keys), rng.choice(vals)] for _ in range(rng.randrange(0, 3))]
          view(mds[m], ns, how).update(kvs)
          ops.append({'op': 'update', 'm': m, 'ns': ns, 'kvs': kvs}); outs.append('ok')
        elif x < 0.62:
          other = (m + rng.choice([1, 2])) % 3
          src = rnd_ns(rng)
          view(mds[m], ns, how).attach(view(mds[other], src, rng.choice(['abs', 'chain'])))
          ops.append({'op': 'attach', 'm': m, 'ns': ns, 'other': other, 'src': src}); outs.append('ok')
        elif x < 0.77:
          k = rng.choice(keys)
          ops.append({'op': 'get', 'm': m, 'ns': ns, 'k': k}); outs.append(view(mds[m], ns, how).get(k))
        elif x < 0.87:
          ops.append({'op': 'keys', 'm': m, 'ns': ns}); outs.append(sorted(view(mds[m], ns, how).keys()))
        elif x < 0.94:
          ops.append({'op': 'namespaces', 'm': m}); outs.append(sorted(list(x2) for x2 in mds[m].namespaces()))
        else:
          ops.append({'op': 'subnamespaces', 'm': m, 'ns': ns}); outs.append(sorted(list(x2) for x2 in view(mds[m], ns, how).subnamespaces()))
      except Exception as e:  # pylint: disable=broad-except
        outs.append('EXC:' + type(e).__name__)
    c.traces += 1
    kinds = set(o['op'] for o in ops)
    c.count(len(ops), ('mdapi', i) if ('attach' in kinds or 'del' in kinds) else None, kind='metadata-api-sequence')
    reqs.append({'op': 'mdapi', 'ops': ops}); reals.append(outs); seqs.append(ops)
  for ops, outs, m in zip(seqs, reals, c.lean('C10', reqs)):
    if 'error' in m:
      raise core.InfraError('driver: ' + str(m))
    for i, (o, a, b) in enumerate(zip(ops, outs, m['outs'])):
      if o['op'] in ('keys', 'namespaces', 'subnamespaces') and isinstance(b, list):
        b = sorted(b)
      if a != b:
        # the model is the last-writer-wins tree the property describes: a disagreement is a failing input
        c.prop_fail('metadata-class-api:' + o['op'],
                    'Metadata class: after %d calls, %s answers %s where the last-writer-wins tree keyed by (namespace, key) gives %s' % (
                        i, json.dumps(o), json.dumps(a)[:120], json.dumps(b)[:120]), {'ops': ops[:i + 1], 'real': a, 'model': b})
        break


CONC_PAIRS = [('mdTrial1', 'complete1'), ('mdTrial1', 'measure1'), ('mdTrial1', 'stop1'), ('mdTrial1', 'suggestMd'),
              ('mdStudy', 'setInactive'), ('mdStudy', 'suggestMd'), ('mdBoth', 'complete1inf'), ('mdBoth', 'earlyStop1'),
              ('mdTrial1', 'mdBoth')]


def _conc_job(args):
  """Worker: every interleaving (sleep-set reduced) of a metadata write with another RPC on the same
  record; the final stored metadata must hold, per (target, ns, key), the value of a writer that
  returned OK (the later one if both wrote the key) and every other entry of the prefix."""
  from vcheck import sched
  from props import c04
  backend, pname, na, nb = args
  prefix = c04.PREFIXES[pname]
  reqs = [c04.REQS[na][1], c04.REQS[nb][1]]
  bad, n = [], 0
  for res in sched.explore(backend, prefix, reqs, limit=3000):
    n += 1
    if res['deadlock'] or res['final'] is None:
      continue
    st0 = next((x for x in res['before']['studies'] if x['sid'] == 's'), None)
    st = next((x for x in res['final']['studies'] if x['sid'] == 's'), None)
    if st is None or st0 is None:
      continue
    # what each successful writer wrote
    writes = []     # acknowledged: (thread, target, ns, key, value)
    maybe = []      # algorithm deltas: written only if the algorithm was consulted (not when the pool sufficed)
    for ti, rq in enumerate(reqs):
      rp = res['resps'][ti] or {}
      if rq['op'] == 'updateMetadata' and rp.get('k') == 'mdOk':
        writes += [(ti, u['t'], u['kv'][0], u['kv'][1], u['kv'][2]) for u in rq['us']]
      if rq['op'] == 'suggest':
        maybe += [(ti, u['t'], u['kv'][0], u['kv'][1], u['kv'][2]) for u in rq['alg'].get('delta', [])]

    def md_of(study, target):
      if target is None:
        return {(e[0], e[1]): e[2] for e in study['md']}
      t = next((t for t in study['trials'] if t['id'] == target), None)
      return None if t is None else {(e[0], e[1]): e[2] for e in t['md']}
    problems = []
    for target in set(w[1] for w in writes) | {None, 1, 2}:
      new, old = md_of(st, target), md_of(st0, target)
      if new is None or old is None:
        continue
      written = {}
      for w in writes:
        if w[1] == target:
          written.setdefault((w[2], w[3]), set()).add(w[4])
      optional = {}
      for w in maybe:
        if w[1] == target:
          optional.setdefault((w[2], w[3]), set()).add(w[4])
      for k, vals in written.items():
        if new.get(k) not in vals | optional.get(k, set()):
          problems.append('%s %s: stored %r, written %s' % ('study' if target is None else 'trial %s' % target, k, new.get(k), sorted(vals)))
      for k, vals in optional.items():
        if k not in written and new.get(k) not in vals | {old.get(k)}:
          problems.append('%s %s: stored %r, neither the old value nor the algorithm\'s %s' % ('study' if target is None else 'trial %s' % target, k, new.get(k), sorted(vals)))
      for k, v in old.items():
        if k not in written and k not in optional and new.get(k) != v:
          problems.append('%s %s: untouched entry changed %r -> %r' % ('study' if target is None else 'trial %s' % target, k, v, new.get(k)))
    if problems and len(bad) < 2:
      bad.append({'problems': problems, 'choices': res['choices'], 'events': [[t, list(e)] for t, e in res['events']], 'resps': res['resps']})
  return {'backend': backend, 'prefix': pname, 'a': na, 'b': nb, 'schedules': n, 'bad': bad}


def concurrent_stage(c):
  """Not in the property's quantifier (sequences), but a lost update under concurrency is the most
  likely way an acknowledged write disappears: every interleaving of a metadata write with a
  read-modify-write RPC of the same study / trial."""
  import concurrent.futures
  import multiprocessing
  import os
  from props import c04
  backends = ['ram'] if c.tier == 'quick' else ['ram', 'sqlmem']
  jobs = [(be, p, a, b) for be in backends for p in ('A', 'C') for a, b in CONC_PAIRS]
  ctx = multiprocessing.get_context('fork')
  with concurrent.futures.ProcessPoolExecutor(max_workers=min(12, os.cpu_count() or 4), mp_context=ctx) as ex:
    results = list(ex.map(_conc_job, jobs))
  for r in results:
    c.traces += r['schedules']
    c.count(r['schedules'], ('conc', r['backend'], r['prefix'], r['a'], r['b']) if r['schedules'] > 2 else None, kind='concurrent-writers')
    for b in r['bad']:
      c.prop_fail('acknowledged-metadata-write-lost:%s|%s' % (r['a'], r['b']),
                  'an interleaving of %s and %s (prefix %s, backend %s) loses or reverts an acknowledged metadata write: %s' % (
                      r['a'], r['b'], r['prefix'], r['backend'], '; '.join(b['problems'])[:300]),
                  {'backend': r['backend'], 'prefix': c04.PREFIXES[r['prefix']], 'a': c04.REQS[r['a']][1], 'b': c04.REQS[r['b']][1],
                   'schedule': b['choices'], 'events': b['events'], 'responses': b['resps']})
  c.coverage_extra['concurrent_writer_schedules'] = sum(r['schedules'] for r in results)


def client_readback_stage(c):
  """Reading back THROUGH THE CLIENT LIBRARY: several handles (one per worker, as in any distributed job) on one
  service, writes by any handle and by the algorithm (a stateful designer policy persists its state into the study
  metadata on every suggestion); after every step every handle must read exactly what the service stores."""
  from vcheck import svc
  from vizier import pyvizier as vz
  from vizier.service import pyvizier as svz
  from vizier._src.service import clients, vizier_client, vizier_service, vizier_service_pb2 as vsp
  n_prog = 6 if c.tier == 'quick' else 40
  for pi in range(n_prog):
    backend = 'ram' if pi % 2 == 0 else 'sqlmem'
    sv = vizier_service.VizierServicer(database_url=None if backend == 'ram' else 'sqlite:///:memory:')
    p = vz.ProblemStatement()
    p.search_space.root.add_float_param('x', 0.0, 1.0)
    p.metric_information.append(vz.MetricInformation(name='obj', goal=vz.ObjectiveMetricGoal.MAXIMIZE))
    cfg = svz.StudyConfig.from_problem(p)
    cfg.algorithm = c.rng.choice(['GRID_SEARCH', 'QUASI_RANDOM_SEARCH', 'RANDOM_SEARCH'])
    from vizier._src.service import study_pb2
    sv.CreateStudy(vsp.CreateStudyRequest(parent='owners/o', study=study_pb2.Study(display_name='s', study_spec=cfg.to_proto())))
    hs = [clients.Study(vizier_client.VizierClient('owners/o/studies/s', 'w%d' % w, sv)) for w in range(c.rng.choice([2, 2, 3]))]
    nss = [(), ('a',), ('a:b', ''), ('a', 'b')]
    prog, last = [], {}
    thandles, tlast, tbad = [], {}, None
    steps = c.rng.randrange(5, 12)
    bad = None
    for si in range(steps):
      h = c.rng.randrange(len(hs))
      kind = c.rng.choice(['write', 'write', 'suggest', 'read', 'twrite'])
      if kind == 'twrite' and not thandles:
        kind = 'suggest'
      try:
        if kind == 'twrite':
          # a trial-level write through the Trial handle: ONE delta holding entries of several namespaces
          tid, th = c.rng.choice(thandles)
          md = vz.Metadata()
          ents = []
          for ns in c.rng.sample(nss, c.rng.randrange(1, len(nss) + 1)):
            k, v = c.rng.choice(['k', 'j', '']), c.rng.choice(['', 'v', 't%d' % si])
            md.abs_ns(vz.Namespace(ns))[k] = v
            tlast[(tid, ns, k)] = v
            ents.append([list(ns), k, v])
          th.update_metadata(md)
          prog.append(['trial-write', tid, ents])
          tp = sv.GetTrial(vsp.GetTrialRequest(name='owners/o/studies/s/trials/%d' % tid))
          stored = {(tuple(vz.Namespace.decode(kv.ns)), kv.key): kv.value for kv in tp.metadata}
          wrong = sorted((ns, k, v, stored.get((ns, k))) for (t2, ns, k), v in tlast.items() if t2 == tid and stored.get((ns, k)) != v)
          if wrong and bad is None:
            tbad = (si, tid, wrong)
        elif kind == 'write':
          ns, k, v = c.rng.choice(nss), c.rng.choice(['k', 'j', '']), c.rng.choice(['', 'v', 'w%d' % si])
          md = vz.Metadata()
          md.abs_ns(vz.Namespace(ns))[k] = v
          hs[h].update_metadata(md)
          last[(ns, k)] = v
          prog.append(['write', h, list(ns), k, v])
        elif kind == 'suggest':
          ts = hs[h].suggest(count=1, client_id='w%d' % h)
          for t in ts:
            t.complete(vz.Measurement(metrics={'obj': 0.5}))
            thandles.append((t.id, t))
          prog.append(['suggest+complete', h])
        else:
          prog.append(['read', h])
      except Exception as e:  # pylint: disable=broad-except
        raise core.InfraError('client read-back program step %s raised %s: %s' % (prog[-1:] or kind, type(e).__name__, str(e)[:200]))
      # what the service stores, read from the wire message itself (not through StudyConfig.from_proto, which is the
      # code under test on the handle side); values are typed: the string '' and an empty Any are different things
      def typed(v):
        return ('str', v) if isinstance(v, str) else ('any', getattr(v, 'type_url', type(v).__name__), bytes(getattr(v, 'value', b'')).hex())
      spec = sv.GetStudy(vsp.GetStudyRequest(name='owners/o/studies/s')).study_spec
      want = sorted((tuple(vz.Namespace.decode(kv.ns)), kv.key, typed(kv.proto if kv.HasField('proto') else kv.value)) for kv in spec.metadata)
      c.traces += 1
      for hi, hd in enumerate(hs):
        got_md = hd.materialize_study_config().metadata
        got = sorted((tuple(ns), k, typed(v)) for ns in got_md.namespaces() for k, v in got_md.abs_ns(ns).items())
        if got != want and bad is None:
          missing = [x for x in want if x not in got]
          extra = [x for x in got if x not in want]
          bad = (si, hi, missing, extra)
      # user entries: last writer wins (the algorithm writes reserved namespaces only)
      users = {(ns, k): v for ns, k, v in want if not (ns and ns[0].startswith('designer_policy'))}
      if bad is None and users != {(tuple(ns), k): ('str', v) for (ns, k), v in last.items()}:
        bad = (si, -1, sorted(users.items()), sorted(last.items()))
      if bad is not None or tbad is not None:
        break
    if tbad is not None:
      si, tid, wrong = tbad
      c.prop_fail('client-trial-metadata-write-lost',
                  'after step %d (Trial(%d).update_metadata with one delta over several namespaces) the service stores for (namespace, key, written, stored): %s (backend %s)' % (
                      si, tid, wrong[:4], backend), {'backend': backend, 'program': prog, 'trial': tid, 'wrong': [list(map(str, w)) for w in wrong]})
    c.count(len(prog), ('client-readback', pi) if sum(1 for x in prog if x[0] != 'read') >= 3 else None, kind='client-readback:' + backend)
    if bad is not None:
      si, hi, a, b = bad
      if hi >= 0:
        c.prop_fail('client-readback-stale', 'after step %d (%s) handle %d of %d reads the study metadata back differently from what the service stores (backend %s): missing/stale %s, not stored %s' % (
            si, prog[si], hi, len(hs), backend, a[:4], b[:4]), {'backend': backend, 'algorithm': cfg.algorithm, 'program': prog, 'handle': hi, 'missing': a, 'extra': b})
      else:
        c.prop_fail('client-write-not-last-writer-wins', 'after step %d the stored user entries %s are not the last written ones %s (backend %s)' % (si, a[:6], b[:6], backend),
                    {'backend': backend, 'program': prog})


def run(c):
  c.proof_stage()
  client_readback_stage(c)
  codec_stage(c)
  merge_stage(c)
  store_stage(c)
  metadata_api_stage(c)
  policy_stage(c)
  inram_stage(c)
  concurrent_stage(c)
  return c.finish(
      level='proof',
      rule='namespaces over the alphabet %r (non-trivial = contains ":", "\\" or an empty component); merge inputs with a duplicated (ns,key) count as non-trivial; store histories of UpdateMetadata/CreateTrial/DeleteTrial/algorithm deltas through the real service (non-trivial = contains a failing update or an algorithm-issued delta)' % ALPH,
      assumptions=['values are opaque strings in the model (packed protos compared by type_url+bytes)',
                   'trial ids in update requests are in canonical decimal form'])
