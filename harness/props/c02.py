"""C02 — SuggestTrials: exactly N, sticky per worker, queue before algorithm, surplus queued, fresh ids."""
from vcheck import core, svccheck, svc

WEIGHTS = {'createStudy': 2, 'getStudy': 0, 'listStudies': 0, 'deleteStudy': 0, 'setStudyState': 1,
           'createTrial': 6, 'suggest': 16, 'getOperation': 1, 'getTrial': 0, 'listTrials': 1,
           'addMeasurement': 1, 'complete': 8, 'stop': 2, 'deleteTrial': 4, 'checkEarlyStop': 0,
           'updateMetadata': 1, 'listOptimal': 0}


def run(c):
  c.proof_stage()
  backends = ['ram', 'sqlmem']
  cfgs = svccheck.identify_flags(c, backends, report=('shortDeliveryOk',))
  n = 120 if c.tier == 'quick' else 1500
  svccheck.differential(c, 'C02', n, backends, cfgs, weights=WEIGHTS, clients=('w1', 'w2', 'w3'),
                        lengths=(5, 26) if c.tier == 'quick' else (5, 45))
  # ONE worker, long histories: the worker's operation counter passes 10 (operation names with several digits),
  # its trials pile up, the sticky rule is applied again and again
  heavy = dict(WEIGHTS, suggest=24, createTrial=2, deleteTrial=2, createStudy=1)
  svccheck.differential(c, 'C02', 12 if c.tier == 'quick' else 150, backends, cfgs, weights=heavy, clients=('w1',),
                        lengths=(34, 48), fail_rate=0.05, directed=False)
  # the same histories' shape through the REAL PythiaServicer glue (policy supporter + decision converters)
  # hosting a scripted policy that delivers n-2..n+3 suggestions and never fails
  svccheck.differential(c, 'C02', 30 if c.tier == 'quick' else 300, ['local:ram'], {'local:ram': cfgs['ram']}, weights=WEIGHTS,
                        clients=('w1', 'w2', 'w3'), lengths=(5, 20), fail_rate=0.0, directed=False)
  # several workers through ONE client handle (the documented multi-worker use): Model/Client.lean
  from vcheck import clientcheck
  clientcheck.stage(c, 'C02')
  svc.cleanup()
  return c.finish(
      level='proof',
      rule='suggest-heavy stateful histories (3 workers, and long single-worker histories with >10 operations of one worker; counts 1-4, scripted algorithm delivering n-2..n+3 or raising, interleaved complete/request/add/delete); non-trivial when >=2 of suggest/complete/deleteTrial/deleteStudy occur',
      assumptions=['the count formula is judged only when the worker has no unfinished operation and the algorithm\'s metadata delta names existing trials'])
