"""Stand-alone runner of the resource-name stage (vcheck/resourcecheck.py) while it is not yet wired into C01 / C07.

  /venv/bin/python harness/props/resources_dev.py [--tier quick|thorough] [--seed N] [--no-proof]

Proof stage over lean/theorems/Resources.json, then `resourcecheck.stage`.  Evidence goes to
evidence/Resources.json, replays to replays/Resources/ (the Check object is built with the id C07 for its random
stream and then renamed, so nothing of C07 is overwritten)."""
import json
import os
import sys

HERE = os.path.dirname(os.path.dirname(os.path.abspath(__file__)))
sys.path.insert(0, HERE)
os.environ.setdefault('PYTHONHASHSEED', '0')

from vcheck import core  # noqa: E402


def run(c, proof=True):
  import time
  from vcheck import resourcecheck
  c.theorems = json.load(open(os.path.join(core.LEAN_DIR, 'theorems', 'Resources.json')))
  if proof:
    c.proof_stage()
  t = time.time()
  n = resourcecheck.stage(c)
  print('stage: %d resources, %d evaluations, %.1f s, tie breaks %d, violations %d' % (
      n, c.evaluations, time.time() - t, len(c.tie_breaks), len(c.violations)))
  return c.finish(
      level='proof',
      rule='resources of the five kinds over components with blanks / newlines / keywords / regex metacharacters / unicode, ids up to 10**30; '
           'name, from_name(name) by every kind, ~60 mutated names per resource, trial_resource and int() on ASCII strings vs '
           'Drivers/Resources.lean; non-trivial = a resource with a component that is not a plain word, every mutated name, every int() '
           'string that is not the canonical rendering of its value',
      assumptions=['int() of non-ASCII numeric components and the 4300-digit limit are outside the model',
                   'error classes by the place of the raise (all are ValueError); messages are not compared'])


def main():
  import argparse
  ap = argparse.ArgumentParser()
  ap.add_argument('--tier', default=None)
  ap.add_argument('--seed', default=None)
  ap.add_argument('--no-proof', action='store_true')
  a = ap.parse_args()
  c = core.Check('C07', a.tier, a.seed)
  c.pid = 'Resources'
  c.known = [e for e in core.load_known_findings() if e['property'] == 'Resources' and e.get('status') == 'known']
  try:
    code = run(c, proof=not a.no_proof)
  except core.InfraError as e:
    print('INFRA-ERROR property=Resources %s' % e, file=sys.stderr)
    sys.exit(2)
  sys.exit(code)


if __name__ == '__main__':
  main()
