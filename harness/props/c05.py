"""C05 — the SQL-backed service survives a crash at any point.

Tie: (a) statement tracing — the real SQL event list (statement / commit / rollback, via
sqlalchemy events) of every datastore write call has exactly one commit, as its last event, so the
call is one transaction (premise of Model/Crash.lean); (b) crash injection — a forked child runs
prefix + RPC on a SQLite FILE and dies (os._exit) right before event k, for EVERY k; the parent
restarts a servicer on the file; the recovered snapshot must be one of the model's crash states.
Property stage on the real recovered state: all-or-nothing for single-resource calls, Lean `judge`
predicates (legal trial states, unique increasing ids) between the pre-crash and the recovered
snapshot, every record readable, and continuation: suggest + complete by another worker works."""
import json
import os
import shutil
import tempfile

from vcheck import core, svc, svccheck, svcgen, svcreal

KEY_WEDGE = 'crash-inside-suggest-leaves-operation-pending-for-that-worker'

SINGLE = ('createStudy', 'createTrial', 'complete', 'addMeasurement', 'stop', 'deleteTrial', 'setStudyState',
          'updateMetadata', 'deleteStudy')


def sugg(n, base=100):
  return {'kind': 'ok', 'sugg': [{'params': base + i, 'md': [[':algo', 'k', 'v']] if i == 0 else []} for i in range(n)],
          'delta': [{'t': None, 'kv': [':algo', 's', 'x']}]}


PREFIXES = [
    [{'op': 'createStudy', 'display': 's', 'state': 'ACTIVE'}],
    [{'op': 'createStudy', 'display': 's', 'state': 'ACTIVE'},
     {'op': 'suggest', 'client': 'w1', 'count': 2, 'alg': sugg(3, 10)},
     {'op': 'complete', 'id': 1, 'final': [5, True]},
     {'op': 'createTrial', 'trial': {'state': 'REQUESTED', 'params': 7, 'meas': [], 'final': None, 'md': []}}],
    [{'op': 'createStudy', 'display': 's', 'state': 'ACTIVE'},
     {'op': 'createTrial', 'trial': {'state': 'REQUESTED', 'params': 1, 'meas': [], 'final': None, 'md': []}},
     {'op': 'createTrial', 'trial': {'state': 'SUCCEEDED', 'params': 2, 'meas': [[3, True]], 'final': [4, True], 'md': [['', 'k', 'v']]}},
     {'op': 'suggest', 'client': 'w1', 'count': 1, 'alg': sugg(0)},
     {'op': 'addMeasurement', 'id': 1, 'm': [6, True]}],
]


def targets_for(prefix_index):
  t = [
      {'op': 'suggest', 'client': 'w2', 'count': 3, 'alg': sugg(4)},
      {'op': 'suggest', 'client': 'w2', 'count': 2, 'alg': sugg(1)},
      {'op': 'suggest', 'client': 'w2', 'count': 1, 'alg': {'kind': 'other'}},
      {'op': 'createTrial', 'trial': {'state': 'REQUESTED', 'params': 9, 'meas': [], 'final': None, 'md': [['', 'a', 'b']]}},
      {'op': 'updateMetadata', 'us': [{'t': None, 'kv': ['', 'k', 'v2']}, {'t': 1, 'kv': ['', 'k', 'v3']}]},
      {'op': 'setStudyState', 'state': 'INACTIVE'},
      {'op': 'deleteStudy'},
      {'op': 'createStudy', 'owner': 'o', 'display': 't', 'state': 'ACTIVE'},
  ]
  if prefix_index >= 1:
    t += [
        {'op': 'complete', 'id': 2 if prefix_index == 1 else 1, 'final': [8, True]},
        {'op': 'addMeasurement', 'id': 2 if prefix_index == 1 else 1, 'm': [8, True]},
        {'op': 'stop', 'id': 2 if prefix_index == 1 else 1},
        {'op': 'deleteTrial', 'id': 2},
        {'op': 'checkEarlyStop', 'id': 2 if prefix_index == 1 else 1, 'es': {'kind': 'ok', 'decisions': [[2 if prefix_index == 1 else 1, True]], 'delta': []}},
        {'op': 'updateMetadata', 'us': [{'t': None, 'kv': ['', 'k', 'v2']}, {'t': 77, 'kv': ['', 'k', 'v3']}]},
    ]
  return t


class Tracer:
  """Counts SQL events of one engine; optionally dies right before event `die_at`."""

  def __init__(self, engine, die_at=None):
    import sqlalchemy as sqla
    self.events = []
    self.die_at = die_at
    self.active = False
    sqla.event.listen(engine, 'before_cursor_execute', self._stmt)
    sqla.event.listen(engine, 'commit', self._commit)
    sqla.event.listen(engine, 'rollback', self._rollback)

  def _tick(self, ev):
    if not self.active:
      return
    if self.die_at is not None and len([e for e in self.events if e[0] in ('stmt', 'commit')]) == self.die_at:
      os._exit(137)          # process death: nothing after this point happens
    self.events.append(ev)

  def _stmt(self, conn, cursor, statement, parameters, context, executemany):
    self._tick(('stmt', statement.split()[0].upper(), statement.split()[1 if statement.split()[0].upper() in ('UPDATE',) else 2] if len(statement.split()) > 2 else ''))

  def _commit(self, conn):
    self._tick(('commit',))

  def _rollback(self, conn):
    if self.active:
      self.events.append(('rollback',))


def wrap_datastore_calls(ds, tracer):
  """Insert call/end markers so that the trace can be cut into datastore calls."""
  for name in dir(ds):
    if name.startswith('_'):
      continue
    fn = getattr(ds, name)
    if not callable(fn):
      continue

    def make(fn, name):
      def wrapped(*a, **k):
        if tracer.active:
          tracer.events.append(('call', name))
        try:
          return fn(*a, **k)
        finally:
          if tracer.active:
            tracer.events.append(('end', name))
      return wrapped
    setattr(ds, name, make(fn, name))


def raw_orphans(dbfile):
  """Rows of the child tables (read straight from the SQLite file) whose study row does not exist:
  invisible through the API, but they come back when a study of the same name is created."""
  import sqlite3
  con = sqlite3.connect(dbfile)
  try:
    out = {}
    for table in ('trials', 'suggestion_operations', 'early_stopping_operations'):
      n = con.execute('SELECT count(*) FROM %s c WHERE NOT EXISTS (SELECT 1 FROM studies s WHERE s.owner_id = c.owner_id '
                      'AND s.study_id = c.study_id)' % table).fetchone()[0]
      if n:
        out[table] = n
    return out
  finally:
    con.close()


def open_runner(dbfile, known=None):
  import datetime
  py = svcreal.ScriptedPythia()
  sv = svc.vizier_service.VizierServicer(database_url='sqlite:///' + dbfile, default_pythia_service=py,
                                         early_stop_recycle_period=datetime.timedelta(seconds=0))
  rr = svcreal.RealRunner('sqlfile', servicer=sv, pythia_obj=py)
  if known:
    rr.owners, rr.clients, rr.es_ids = list(known['owners']), list(known['clients']), set(known['es_ids'])
  return rr


def run_child(dbfile, known, req, die_at):
  """Forked child: replay `req` on the file and die before event `die_at` (None = trace only)."""
  pid = os.fork()
  if pid:
    _, status = os.waitpid(pid, 0)
    return os.WEXITSTATUS(status) if os.WIFEXITED(status) else -1
  try:
    rr = open_runner(dbfile, known)
    tr = Tracer(rr.sv.datastore._engine, die_at=die_at)  # pylint: disable=protected-access
    tr.active = True
    rr.step(req)
    os._exit(0)
  except BaseException:  # pylint: disable=broad-except
    os._exit(3)


def crash_stage(c):
  from vizier._src.service import custom_errors
  tmp = tempfile.mkdtemp(prefix='vverif_c05_')
  try:
    cfg = dict(svccheck.FIXED, esRecycle=True)
    # which variant of SuggestTrials' treatment of an abandoned operation the current tree has
    # (c05_same_worker_resumed / c05_same_worker_wedge_counterexample)
    cfg['resumesAbandonedOp'], probe = svccheck.probe_resume('sqlmem')
    c.flags['resumesAbandonedOp'] = cfg['resumesAbandonedOp']
    cfg['esResumesActive'], _ = svccheck.probe_es_resume('sqlmem')
    c.flags['esResumesActive'] = cfg['esResumesActive']
    n_prefix = len(PREFIXES) if c.tier == 'thorough' else 2
    for pi in range(n_prefix):
      prefix = PREFIXES[pi]
      base = os.path.join(tmp, 'base%d.db' % pi)
      rr0 = open_runner(base)
      for r in prefix:
        rr0.step(r)
      before = rr0.snapshot()
      known = {'owners': sorted(set(rr0.owners + ['o'])), 'clients': sorted(set(rr0.clients + ['w1', 'w2', 'w3', 'w9'])), 'es_ids': sorted(set(list(rr0.es_ids) + [1, 2, 3]))}
      del rr0
      targets = targets_for(pi)
      if c.tier == 'quick':
        targets = targets[:5] + targets[6:7] + targets[8:11]
      models = c.lean('Svc', [{'op': 'crash', 'cfg': cfg, 'prefix': prefix, 'req': t} for t in targets])
      for t, m in zip(targets, models):
        if 'error' in m:
          raise core.InfraError('driver: %s' % m)
        # ---- tracing pass (no crash): event list, call structure, final state
        f0 = os.path.join(tmp, 'trace.db')
        shutil.copy(base, f0)
        rr = open_runner(f0, known)
        tr = Tracer(rr.sv.datastore._engine)  # pylint: disable=protected-access
        wrap_datastore_calls(rr.sv.datastore, tr)
        tr.active = True
        resp = rr.step(t)
        tr.active = False
        final = rr.snapshot()
        del rr
        evs = tr.events
        # (a) every datastore call is one transaction: at most one commit and it is the call's last SQL event
        cur, depth = [], 0
        for e in evs:
          if e[0] == 'call':
            depth += 1
            cur = [] if depth == 1 else cur
          elif e[0] == 'end':
            depth -= 1
            if depth == 0:
              sql = [x for x in cur if x[0] in ('stmt', 'commit', 'rollback')]
              commits = [i for i, x in enumerate(sql) if x[0] == 'commit']
              writes = [x for x in sql if x[0] == 'stmt' and x[1] in ('INSERT', 'UPDATE', 'DELETE')]
              c.count(1, kind='sql-call:' + e[1])
              rolled_back = any(x[0] == 'rollback' for x in sql)
              if len(commits) > 1 or (commits and commits[0] != len(sql) - 1) or (writes and not commits and not rolled_back):
                c.prop_fail('datastore-call-not-one-transaction:' + e[1],
                            'SQL datastore call %s is not a single transaction (events %s): a crash inside it can tear its effect' % (e[1], sql),
                            {'prefix': prefix, 'request': t, 'call': e[1], 'events': sql})
          else:
            cur.append(e)
        real_after = svcreal.canon_db(m['after'])
        if final != real_after:
          c.tie_break('final state of the traced run vs model', {'prefix': prefix, 'request': t}, final, real_after)
        n_events = len([e for e in evs if e[0] in ('stmt', 'commit')])
        model_states = [svcreal.canon_db(s) for s in m['states']]
        model_before = svcreal.canon_db(m['before'])
        if before != model_before:
          c.tie_break('state before the crashed call vs model', {'prefix': prefix}, before, model_before)
        # ---- crash before every event
        last_idx = 0
        judge_reqs, judge_ctx = [], []
        for k in range(n_events + 1):
          f = os.path.join(tmp, 'crash.db')
          for ext in ('', '-journal', '-wal', '-shm'):
            if os.path.exists(f + ext):
              os.remove(f + ext)
          shutil.copy(base, f)
          code = run_child(f, known, t, k)
          if code not in (137, 0):
            raise core.InfraError('crash child failed with status %s' % code)
          c.traces += 1
          case = {'prefix': prefix, 'request': t, 'crash_before_event': k, 'of_events': n_events,
                  'events': [list(e) for e in evs if e[0] in ('stmt', 'commit')][:k + 1][-3:]}
          c.count(1, ('crash', pi, json.dumps(t, sort_keys=True), k), kind='crash:' + t['op'])
          try:
            rr2 = open_runner(f, known)           # restart
            rec = rr2.snapshot()                  # every stored record must be readable
          except Exception as e:  # pylint: disable=broad-except
            c.prop_fail('unreadable-after-crash:' + t['op'], 'after a crash before SQL event %d of %s the restarted server cannot read its data: %r' % (k, t['op'], e), case)
            continue
          case['recovered'] = rec
          orphans = raw_orphans(f)
          if orphans:
            c.prop_fail('orphan-rows-after-crash:' + t['op'],
                        'a crash before SQL event %d of %s left rows of a study that no longer exists on disk (%s): the call is neither applied nor not applied' % (k, t['op'], orphans), case)
          if rec not in model_states:
            c.tie_break('recovered state after crash vs model crash states', case, rec, {'n_states': len(model_states)})
          else:
            idx = max(i for i, s in enumerate(model_states) if s == rec)
            if idx < last_idx and model_states[idx] != model_states[last_idx]:
              c.tie_break('recovered states not monotone in the crash point', case, idx, last_idx)
            last_idx = max(last_idx, idx)
          # property: all-or-nothing for single-resource calls
          if t['op'] in SINGLE and rec != before and rec != final:
            c.prop_fail('torn-single-resource-call:' + t['op'],
                        'a crash before SQL event %d of %s left a state that is neither the old nor the new one' % (k, t['op']), case)
          if k == n_events and rec != final:
            c.prop_fail('acknowledged-change-lost:' + t['op'], 'the call returned but its effect is not on disk after restart', case)
          judge_reqs.append({'op': 'judge', 'before': before, 'after': rec})
          judge_ctx.append(case)
          # continuation: another worker suggests and completes
          rr2.py.alg = {'kind': 'ok', 'sugg': [{'params': 900, 'md': []}, {'params': 901, 'md': []}], 'delta': []}
          study_alive = any(s['sid'] == 's' and s['state'] in ('ACTIVE', 'STATE_UNSPECIFIED') for s in rec['studies'])
          if study_alive:
            r1 = rr2.step({'op': 'suggest', 'client': 'w9', 'count': 1, 'alg': rr2.py.alg})
            ok = r1.get('k') == 'op' and r1['v']['done'] and len(r1.get('handed', [])) == 1
            if ok:
              r2 = rr2.step({'op': 'complete', 'id': r1['handed'][0]['id'], 'final': [1, True]})
              ok = r2.get('k') == 'trial' and r2['v']['state'] == 'SUCCEEDED'
            if not ok:
              c.prop_fail('cannot-continue-after-crash:' + t['op'], 'after the restart a fresh worker cannot suggest+complete: %s' % r1, case)
            # the crashed worker itself
            if t['op'] == 'suggest':
              r3 = rr2.step({'op': 'suggest', 'client': t['client'], 'count': 1, 'alg': rr2.py.alg})
              if r3.get('k') == 'op' and not r3['v']['done']:
                c.prop_fail(KEY_WEDGE, 'after a crash inside SuggestTrials (before SQL event %d) the same worker is handed its abandoned unfinished operation on every later call' % k, case)
          elif not any(s['sid'] == 's' for s in rec['studies']):
            # the study is gone: a study created again under the same name must start empty
            r1 = rr2.step({'op': 'createStudy', 'owner': 'o', 'display': 's', 'state': 'ACTIVE'})
            r2 = rr2.step({'op': 'listTrials'})
            if r1.get('k') != 'study' or r2.get('k') != 'trials' or r2['v']:
              c.prop_fail('deleted-study-resurrects-trials:' + t['op'], 'after the restart a study re-created under the deleted name is not empty: %s / %s' % (r1, json.dumps(r2)[:300]), case)
          del rr2
        for v, case in zip(c.lean('Svc', judge_reqs), judge_ctx):
          if not (v['lifecycle'] and v['fresh'] and v['nodup'] and v['clients']):
            c.prop_fail('illegal-state-after-crash:' + case['request']['op'],
                        'the recovered state violates the trial invariants (legal states / unique increasing ids): %s' % json.dumps(v)[:300], case)
      c.sample({'prefix': prefix, 'request': targets[0], 'sql_events_of_traced_run': [list(e) for e in evs][:40]})
  finally:
    shutil.rmtree(tmp, ignore_errors=True)


# ------------------------------------------------------------------ client-level calls under a crash
def _client_calls():
  """single-resource calls of the CLIENT LIBRARY (VizierClient): name -> callable(client).  Each is documented as
  one update of one resource; the property lifts from RPCs to these calls only if each issues one writing RPC."""
  from vizier import pyvizier as vz

  def md_both(cl):
    d = vz.MetadataDelta()
    d.on_study.ns('exp')['stage'] = 'done'
    d.on_trials[1].ns('exp')['tag'] = 'a'
    d.on_trials[2].ns('exp')['tag'] = 'b'
    cl.update_metadata(d)
  return [
      ('update_metadata(study+trials)', md_both),
      ('complete_trial', lambda cl: cl.complete_trial(2, vz.Measurement(metrics={'obj': 1.0}))),
      ('complete_trial(infeasible)', lambda cl: cl.complete_trial(2, None, infeasibility_reason='')),
      ('report_intermediate_objective_value', lambda cl: cl.report_intermediate_objective_value(3, 1.5, [{'obj': 0.5}], trial_id=2)),
      ('stop_trial', lambda cl: cl.stop_trial(2)),
      ('delete_trial', lambda cl: cl.delete_trial(2)),
      ('add_trial', lambda cl: cl.add_trial(vz.Trial(parameters={'x': 5.0}))),
      ('set_study_state', lambda cl: cl.set_study_state(vz.StudyState.ABORTED)),
      ('delete_study', lambda cl: cl.delete_study()),
  ]


def _client_child(dbfile, known, idx, die_at):
  pid = os.fork()
  if pid:
    _, status = os.waitpid(pid, 0)
    return os.WEXITSTATUS(status) if os.WIFEXITED(status) else -1
  try:
    from vizier._src.service import vizier_client
    rr = open_runner(dbfile, known)
    cl = vizier_client.VizierClient('owners/o/studies/s', 'w1', rr.sv)
    tr = Tracer(rr.sv.datastore._engine, die_at=die_at)  # pylint: disable=protected-access
    tr.active = True
    try:
      _client_calls()[idx][1](cl)
    except SystemExit:
      raise
    except Exception:  # pylint: disable=broad-except
      os._exit(0)                # a call the library refuses: nothing to tear
    os._exit(0)
  except BaseException:  # pylint: disable=broad-except
    os._exit(3)


def large_transaction_stage(c):
  """The same fault enumeration with LARGE records (1.5 MB of metadata on the study and on each of three trials, so
  that one UpdateMetadata / DeleteStudy transaction is several MB - more than SQLite keeps in its page cache): whether
  a half-done transaction can be undone after a process death depends on what the storage engine wrote where, not
  only on where the commits are.  Oracle without the model (values this large are not sent to the driver): the
  recovered snapshot is the real snapshot before the call or the one after it, and the file passes
  `PRAGMA integrity_check`."""
  import sqlite3
  tmp = tempfile.mkdtemp(prefix='vverif_c05L_')
  big = lambda ch: ch * 1500000
  try:
    base = os.path.join(tmp, 'base.db')
    rr0 = open_runner(base)
    rr0.step({'op': 'createStudy', 'display': 's', 'state': 'ACTIVE'})
    for i in range(3):
      rr0.step({'op': 'createTrial', 'trial': {'state': 'SUCCEEDED', 'params': i + 1, 'meas': [], 'final': [i + 1, True], 'md': []}})
    rr0.step({'op': 'updateMetadata', 'us': [{'t': None, 'kv': ['', 'blob', big('a')]}] + [{'t': i + 1, 'kv': ['', 'blob', big('a')]} for i in range(3)]})
    before = rr0.snapshot()
    known = {'owners': sorted(set(rr0.owners + ['o'])), 'clients': sorted(set(rr0.clients + ['w1'])), 'es_ids': sorted(set(list(rr0.es_ids) + [1, 2, 3]))}
    del rr0
    targets = [{'op': 'updateMetadata', 'us': [{'t': None, 'kv': ['', 'blob', big('b')]}] + [{'t': i + 1, 'kv': ['', 'blob', big('b')]} for i in range(3)]},
               {'op': 'deleteStudy'}]

    def short(snap):
      return json.loads(json.dumps(snap).replace(big('a'), '<1.5MB of a>').replace(big('b'), '<1.5MB of b>'))
    for t in targets:
      f0 = os.path.join(tmp, 'trace.db')
      shutil.copy(base, f0)
      rr = open_runner(f0, known)
      tr = Tracer(rr.sv.datastore._engine)  # pylint: disable=protected-access
      tr.active = True
      rr.step(t)
      tr.active = False
      after = rr.snapshot()
      del rr
      n_events = len([e for e in tr.events if e[0] in ('stmt', 'commit')])
      points = range(n_events + 1) if c.tier == 'thorough' else [k for k in range(n_events + 1) if k % 2 == 1 or k >= n_events - 1]
      for k in points:
        f = os.path.join(tmp, 'crash.db')
        for ext in ('', '-journal', '-wal', '-shm'):
          if os.path.exists(f + ext):
            os.remove(f + ext)
        shutil.copy(base, f)
        code = run_child(f, known, t, k)
        if code not in (137, 0):
          raise core.InfraError('crash child (large transaction) failed with status %s' % code)
        c.traces += 1
        c.count(1, ('crash-large', t['op'], k), kind='crash-large:' + t['op'])
        case = {'request': t['op'] + ' with 1.5 MB values on the study and three trials', 'crash_before_event': k, 'of_events': n_events}
        try:
          rr2 = open_runner(f, known)
          rec = rr2.snapshot()
          del rr2
        except Exception as e:  # pylint: disable=broad-except
          c.prop_fail('unreadable-after-crash:large-' + t['op'], 'after a crash before SQL event %d of a %s that writes several MB the restarted server cannot read its data: %r' % (k, t['op'], e), case)
          continue
        con = sqlite3.connect(f)
        try:
          integ = [r[0] for r in con.execute('PRAGMA integrity_check').fetchall()]
        except Exception as e:  # pylint: disable=broad-except
          integ = ['integrity_check raised %r' % (e,)]
        finally:
          con.close()
        if integ != ['ok']:
          c.prop_fail('database-corrupt-after-crash:large-' + t['op'], 'after a crash before SQL event %d of a %s that writes several MB the database file fails its integrity check: %s' % (k, t['op'], str(integ)[:200]), case)
        elif rec != before and rec != after:
          c.prop_fail('torn-large-transaction:' + t['op'],
                      'after a crash before SQL event %d of a %s that writes several MB the restarted server shows neither the state before the call nor the state after it' % (k, t['op']),
                      dict(case, recovered=short(rec)))
  finally:
    shutil.rmtree(tmp, ignore_errors=True)


def client_crash_stage(c):
  from vizier._src.service import vizier_client
  tmp = tempfile.mkdtemp(prefix='vverif_c05c_')
  try:
    prefix = PREFIXES[1]
    base = os.path.join(tmp, 'base.db')
    rr0 = open_runner(base)
    for r in prefix:
      rr0.step(r)
    before = rr0.snapshot()
    known = {'owners': sorted(set(rr0.owners + ['o'])), 'clients': sorted(set(rr0.clients + ['w1', 'w2', 'w9'])), 'es_ids': sorted(set(list(rr0.es_ids) + [1, 2, 3]))}
    del rr0
    calls = _client_calls()
    if c.tier == 'quick':
      calls = calls[:3] + calls[5:6]
    for name, fn in calls:
      idx = [n for n, _ in _client_calls()].index(name)
      f0 = os.path.join(tmp, 'trace.db')
      shutil.copy(base, f0)
      rr = open_runner(f0, known)
      cl = vizier_client.VizierClient('owners/o/studies/s', 'w1', rr.sv)
      tr = Tracer(rr.sv.datastore._engine)  # pylint: disable=protected-access
      tr.active = True
      try:
        fn(cl)
        refused = None
      except Exception as e:  # pylint: disable=broad-except
        refused = type(e).__name__
      tr.active = False
      final = rr.snapshot()
      del rr
      n_events = len([e for e in tr.events if e[0] in ('stmt', 'commit')])
      commits = len([e for e in tr.events if e[0] == 'commit'])
      c.count(1, ('client-crash-call', name), kind='client-crash-call:' + name)
      for k in range(n_events + 1):
        f = os.path.join(tmp, 'crash.db')
        for ext in ('', '-journal', '-wal', '-shm'):
          if os.path.exists(f + ext):
            os.remove(f + ext)
        shutil.copy(base, f)
        code = _client_child(f, known, idx, k)
        if code not in (137, 0):
          raise core.InfraError('client crash child failed with status %s' % code)
        c.traces += 1
        c.count(1, ('client-crash', name, k), kind='client-crash:' + name)
        case = {'prefix': prefix, 'client_call': name, 'crash_before_event': k, 'of_events': n_events, 'commits_in_call': commits,
                'events': [list(e) for e in tr.events if e[0] in ('stmt', 'commit')][:k + 1][-3:]}
        try:
          rec = open_runner(f, known).snapshot()
        except Exception as e:  # pylint: disable=broad-except
          c.prop_fail('unreadable-after-crash:client:' + name, 'after a crash before SQL event %d of the client call %s the restarted server cannot read its data: %r' % (k, name, e), case)
          continue
        case['recovered'] = rec
        if rec != before and rec != final:
          c.prop_fail('torn-single-resource-call:client:' + name,
                      'a crash before SQL event %d of the client call %s (which commits %d times) left a state that is neither the old nor the new one' % (k, name, commits), case)
        if k == n_events and rec != final:
          c.prop_fail('acknowledged-change-lost:client:' + name, 'the client call returned but its effect is not on disk after restart', case)
  finally:
    shutil.rmtree(tmp, ignore_errors=True)


def run(c):
  # translator: regenerate the transaction shape of every SQLDataStore method from the current source; the
  # kernel decides that every path is one transaction (Props/C05Txn.lean)
  from translators import sql_txn
  table, helper, unknown = sql_txn.write(core.REPO, core.LEAN_DIR)
  c.add_obligation('translator: every database call of sql_datastore.py recognised', not unknown, '; '.join(unknown[:8]))
  c.coverage_extra['sql_transaction_shape'] = {k: [' '.join(p) for p in v] for k, v in table.items()}
  # translator: which RPCs every client-library method issues (one writing RPC per single-resource call)
  from vcheck import clientshapecheck
  clientshapecheck.translate(c)
  c.proof_stage()
  clientshapecheck.stage(c)
  crash_stage(c)
  client_crash_stage(c)
  large_transaction_stage(c)
  svc.cleanup()
  c.coverage_extra['exhaustive'] = True
  c.coverage_extra['exhaustive_over'] = 'every SQL statement/commit event of every listed RPC after every listed prefix'
  return c.finish(
      level='proof',
      rule='fault enumeration: process death (os._exit in a forked child) before EVERY SQL statement/commit event of each target RPC (suggest with over/under/failed delivery, create/complete/measure/stop/delete trial, update-metadata ok/failing, set-state, delete/create study, early-stop) after each prefix, on a SQLite file; the same before every SQL event of single-resource calls of the client library (VizierClient.update_metadata with study and trial parts, complete_trial, ...); distinct non-trivial = distinct (prefix, request, crash point)',
      assumptions=['crash = process death; SQLite journal atomicity, fsync and the file system are trusted (no power loss)',
                   'the recovered state is compared with the model\'s crash states as a set (a failed, rolled-back write has no commit of its own)'])
