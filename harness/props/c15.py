"""C15 — numeric encoding of trials is invertible and always decodes into the space.

Proof stage: Props/C15.lean.  Tie: the real converters of vizier/pyvizier/converters
(DefaultModelInputConverter via DefaultTrialConverter, TrialToArrayConverter,
PaddedTrialToArrayConverter, TrialToModelInputConverter, ProblemAndTrialsScaler,
DefaultModelOutputConverter) against the Lean codec model run over `Float`, on generated
flat spaces x converter options x feasible points x arbitrary arrays.  Property stage: on
the REAL outputs — decode(encode(p)) == p, unit interval / orientation / monotonicity of
scaled features, one-hot blocks, decode(any finite array) inside the space (judged by the
Lean `inSpace`), label round trip."""
import itertools
import math

import numpy as np

from vcheck import core
from vcheck import codec as cd

KEY_D11 = 'decode-overflow-drops-parameter'
KEY_RLOG = 'reverse-log-absorbs-lower-bound'
VARIANT = {'clipScaled': False, 'stableRlog': False}     # identified on every run
DRIVER = 'C15'


# ------------------------------------------------------------------ configurations
def gen_cfg(rng, i):
  grid = list(itertools.product([True, False], [True, False], [True, False], [0, 10, None], [True, False], [True, False]))
  scale, onehot, pad, maxd, f32, clip = grid[i % len(grid)] if i < len(grid) else rng.choice(grid)
  return {'scale': scale, 'onehot': onehot, 'pad': pad, 'maxd': maxd, 'clip': clip, 'f32': f32}


def cfg_json(cfg, clip_scaled=None):
  return {'scale': cfg['scale'], 'onehot': cfg['onehot'], 'pad': cfg['pad'], 'clip': cfg['clip'],
          'maxd': cfg['maxd'], 'clipScaled': VARIANT['clipScaled'], 'stableRlog': VARIANT['stableRlog']}


def ftol(p, f32, scaled):
  return cd.feature_tol(p, f32, scaled, VARIANT['stableRlog'])


def continuified(p, cfg):
  return p['t'] in 'IS' and cfg['maxd'] is not None and cd.num_feasible(p) > cfg['maxd']


def spec_kind(p, cfg):
  """'cont' (one floating column), 'idx' (one integer column) or 'onehot' (n [+1] columns)."""
  if p['t'] == 'D' or continuified(p, cfg):
    return 'cont'
  return 'onehot' if cfg['onehot'] else 'idx'


def width(p, cfg):
  k = spec_kind(p, cfg)
  if k == 'onehot':
    return cd.num_feasible(p) + (1 if cfg['pad'] else 0)
  return 1


def doc_scaled(p, v):
  """The documented scaled feature of value v of a numeric parameter (core.py: scaler_from_spec), in float64."""
  lo, hi = cd.bounds(p)
  try:
    if p['sc'] == 'LOG':
      return (math.log(v) - math.log(lo)) / (math.log(hi) - math.log(lo))
    if p['sc'] == 'RLOG':
      return 1.0 - (math.log(lo + (hi - v)) - math.log(lo)) / (math.log(hi) - math.log(lo))
    return (v - lo) / (hi - lo)
  except (ValueError, ZeroDivisionError, OverflowError):
    return None


def sibling_space(rng, space, f32=False):
  """Same names and parameter types, different feasible sets (one category / value / integer more or less)."""
  out = []
  for p in space:
    q = dict(p)
    if p['t'] == 'C' and not p.get('bool'):
      cats = list(p['cats'])
      extra = [x for x in cd.CAT_POOL if x not in cats]
      if len(cats) > 1 and (not extra or rng.random() < 0.4):
        cats.remove(rng.choice(cats))
      elif extra:
        cats = sorted(cats + [rng.choice(extra)])
      q['cats'] = cats
    elif p['t'] == 'I' and p['sc'] in (None, 'LIN') and abs(p['hi']) < 10 ** 5:
      q['hi'] = p['hi'] + rng.choice([1, 2])
    elif p['t'] == 'D' and p['sc'] in (None, 'LIN') and abs(p['hi']) < 1e6 and abs(p['lo']) < 1e6:
      q['hi'] = float(p['hi'] + (p['hi'] - p['lo']) + 1.0)
      if f32:
        q['hi'] = float(np.float32(q['hi']))
    out.append(q)
  return out


# ------------------------------------------------------------------ points and arrays
def gen_points(rng, space, n):
  """feasible points: boundaries, midpoints, every feasible value of small domains, random."""
  pts = []
  for k in range(n):
    pt = {}
    for p in space:
      if p['t'] == 'D':
        lo, hi = p['lo'], p['hi']
        c = [lo, hi, lo + (hi - lo) / 2, lo + (hi - lo) * rng.random(), lo + (hi - lo) * rng.random() ** 4]
        v = float(c[k] if k < 3 else rng.choice(c[3:]))
        pt[p['name']] = min(max(v, lo), hi)
      else:
        fv = cd.feasible_values(p)
        pt[p['name']] = fv[(k if k % 2 == 0 else -((k + 1) // 2)) % len(fv)] if k < 2 * len(fv) and k < 6 else rng.choice(fv)
    pts.append(pt)
  return pts


def gen_entry(rng, p, cfg, kind):
  """one continuous array entry of the given kind, in the units of the (scaled?) feature"""
  if cfg['scale']:
    lo, hi = (0.5, 0.5) if cd.bounds(p)[0] == cd.bounds(p)[1] else (0.0, 1.0)
  else:
    lo, hi = cd.bounds(p)
  r = (hi - lo) or 1.0
  if kind == 'in':
    return lo + (hi - lo) * rng.random()
  if kind == 'boundary':
    return rng.choice([lo, hi])
  if kind == 'near':
    return rng.choice([lo - 0.1 * r, hi + 0.1 * r, lo - 1e-9 * r, hi + 1e-9 * r])
  if kind == 'far':
    return rng.choice([lo - 100 * r, hi + 100 * r, hi + 1e4 * r, lo - 1e4 * r, 100.0, -100.0, 1e6, -745.0, 710.0])
  return rng.choice([1e300, -1e300, 1e30, -1e30, 3e38, -3e38])   # 'extreme'


def gen_array(rng, space, cfg, kind, carrier_max):
  """flat feature list for the whole space; continuous / one-hot entries are floats, index
  entries ints.  Returns (array, tags) where tags name what is outside the theorem's
  hypotheses: 'oov-index' (index == len -> missing), 'bad-index' (index < -len -> error)."""
  arr, tags = [], set()
  for p in space:
    k = spec_kind(p, cfg)
    n = cd.num_feasible(p)
    if k == 'cont':
      kk = kind if kind != 'mixed' else rng.choice(['in', 'boundary', 'near', 'far', 'extreme'])
      v = float(gen_entry(rng, p, cfg, kk))
      if abs(v) > carrier_max:
        v = math.copysign(carrier_max, v)
      arr.append(v)
    elif k == 'idx':
      r = rng.random()
      if kind in ('in', 'boundary') or r < 0.8:
        arr.append(rng.choice([0, n - 1, rng.randrange(n)]))
      elif r < 0.9:
        arr.append(-rng.randrange(1, n + 1))             # python negative index: still a member
      elif r < 0.95:
        arr.append(n); tags.add('oov-index')
      else:
        arr.append(-n - 1 - rng.randrange(3)); tags.add('bad-index')
    else:
      w = width(p, cfg)
      if kind == 'in':
        row = [0.0] * w; row[rng.randrange(n)] = 1.0
      elif kind == 'boundary':
        row = [rng.choice([0.0, 1.0]) for _ in range(w)]                 # ties
      else:
        row = [float(gen_entry(rng, {'t': 'D', 'lo': 0.0, 'hi': 1.0, 'sc': None}, {'scale': False}, rng.choice(['in', 'near', 'far', 'extreme'] if kind != 'in' else ['in']))) for _ in range(w)]
        row = [math.copysign(min(abs(x), carrier_max), x) for x in row]
        if cfg['pad'] and rng.random() < 0.5:
          row[-1] = max(row) + 1.0                                       # OOV column is the largest
      arr += row
  return arr, tags


# ------------------------------------------------------------------ real converters
class RealCodec:
  """One converter class on one (space, cfg); encode trials -> flat feature lists, decode a
  flat array -> assignment, or 'ERR:<class>'."""

  def __init__(self, path, space, cfg, problem, padding_kind=None):
    from vizier.pyvizier.converters import core as ccore
    from vizier.pyvizier.converters import jnp_converters, padding
    self.path, self.space, self.cfg = path, space, cfg
    self.dtype = np.float32 if cfg['f32'] else np.float64
    maxd = np.inf if cfg['maxd'] is None else cfg['maxd']
    self.kinds = [spec_kind(p, cfg) for p in space]
    self.widths = [width(p, cfg) for p in space]
    self.jax = path in ('padded', 'modelinput')
    pk = padding_kind or 'NONE'
    if path == 'dict':
      self.convs = [ccore.DefaultModelInputConverter(
          pc, scale=cfg['scale'], max_discrete_indices=maxd, onehot_embed=cfg['onehot'],
          float_dtype=self.dtype, pad_oovs=cfg['pad'], should_clip=cfg['clip']) for pc in problem.search_space.parameters]
      self.conv = ccore.DefaultTrialConverter(self.convs)
    elif path == 'array':
      self.conv = ccore.TrialToArrayConverter.from_study_config(
          problem, scale=cfg['scale'], pad_oovs=cfg['pad'], max_discrete_indices=maxd,
          should_clip=cfg['clip'], dtype=self.dtype)
    elif path == 'padded':
      sched = padding.PaddingSchedule(num_trials=getattr(padding.PaddingType, pk), num_features=getattr(padding.PaddingType, pk))
      self.conv = jnp_converters.PaddedTrialToArrayConverter.from_study_config(
          problem, scale=cfg['scale'], padding_schedule=sched, pad_oovs=cfg['pad'],
          max_discrete_indices=maxd, dtype=self.dtype)
    elif path == 'modelinput':
      sched = padding.PaddingSchedule(num_trials=getattr(padding.PaddingType, pk), num_features=getattr(padding.PaddingType, pk))
      self.sched = sched
      self.conv = jnp_converters.TrialToModelInputConverter.from_problem(
          problem, scale=cfg['scale'], max_discrete_indices=maxd, dtype=self.dtype, padding_schedule=sched)
    else:
      raise ValueError(path)

  def _flat_rows(self, mat):
    return [[x.item() if hasattr(x, 'item') else x for x in row] for row in np.asarray(mat)]

  def encode(self, trials):
    """-> list (per trial) of flat feature lists in space order"""
    n = len(trials)
    if self.path == 'dict':
      feats = self.conv.to_features(trials)
      cols = [np.asarray(feats[p['name']]) for p in self.space]
      rows = []
      for i in range(n):
        row = []
        for c in cols:
          row += [x.item() for x in c[i]]
        rows.append(row)
      return rows
    if self.path == 'array':
      return self._flat_rows(self.conv.to_features(trials))
    if self.path == 'padded':
      pa = self.conv.to_features(trials)
      full = np.asarray(pa.padded_array)
      un = np.asarray(pa.unpad())
      f = sum(self.widths)
      if un.shape != (n, f) or not np.array_equal(full[:n, :f], un, equal_nan=True):
        # the padding is part of the encoding: `unpad()` must give back exactly the n x f real block
        self.unpad_wrong = 'PaddedArray.unpad() of %d encoded trials x %d features has shape %s (padded %s)' % (n, f, tuple(un.shape), tuple(full.shape))
        un = full[:n, :f]
      if full.shape[0] > n and not np.all(np.isnan(full[n:, :])) or full.shape[1] > f and not np.all(np.isnan(full[:, f:])):
        self.padding_not_nan = True
      return self._flat_rows(un)
    mi = self.conv.to_features(trials)
    cont = np.asarray(mi.continuous.unpad())
    cat = np.asarray(mi.categorical.unpad())
    nco, nca = self.kinds.count('cont'), len(self.kinds) - self.kinds.count('cont')
    if cont.shape != (n, nco) or cat.shape != (n, nca):
      self.unpad_wrong = 'ModelInput.unpad() of %d encoded trials with %d continuous / %d categorical features has shapes %s / %s' % (
          n, nco, nca, tuple(cont.shape), tuple(cat.shape))
      cont = np.asarray(mi.continuous.padded_array)[:n, :nco]
      cat = np.asarray(mi.categorical.padded_array)[:n, :nca]
    rows = []
    for i in range(n):
      ci = ki = 0
      row = []
      for k in self.kinds:
        if k == 'cont':
          row.append(cont[i, ci].item()); ci += 1
        else:
          row.append(int(cat[i, ki])); ki += 1
      rows.append(row)
    return rows

  def array_dtype(self, use_f64):
    return np.float64 if use_f64 else self.dtype

  def decode_batch(self, flats, use_f64=False):
    """several flat feature lists in ONE call -> list of ParameterDict (None for paths not covered)"""
    fd = self.array_dtype(use_f64)
    if self.path == 'array':
      return list(self.conv.to_parameters(np.asarray(flats, dtype=fd)))
    if self.path == 'padded':
      arr = np.asarray(flats, dtype=fd)
      padded = np.asarray(self.conv.padding_schedule.pad_features(arr).padded_array)
      return list(self.conv.to_parameters(padded))[:len(flats)]     # trial padding may add rows
    if self.path == 'dict':
      feats, pos = {}, 0
      for p, k, w in zip(self.space, self.kinds, self.widths):
        feats[p['name']] = np.asarray([f[pos:pos + w] for f in flats], dtype=np.int32 if k == 'idx' else fd)
        pos += w
      return list(self.conv.to_parameters(feats))
    return None

  def decode(self, flat, use_f64=False):
    """flat feature list -> ParameterDict"""
    fd = self.array_dtype(use_f64)
    if self.path == 'dict':
      feats, pos = {}, 0
      for p, k, w in zip(self.space, self.kinds, self.widths):
        seg = flat[pos:pos + w]; pos += w
        feats[p['name']] = np.asarray([seg], dtype=np.int32 if k == 'idx' else fd)
      return self.conv.to_parameters(feats)[0]
    if self.path == 'array':
      return self.conv.to_parameters(np.asarray([flat], dtype=fd))[0]
    if self.path == 'padded':
      from vizier.pyvizier.converters import padding
      arr = np.asarray([flat], dtype=fd)
      padded = np.asarray(self.conv.padding_schedule.pad_features(arr).padded_array)
      return self.conv.to_parameters(padded)[0]
    from vizier._src.jax import types
    cont = [x for x, k in zip(flat, self.kinds) if k == 'cont']
    cat = [x for x, k in zip(flat, self.kinds) if k != 'cont']
    mi = types.ContinuousAndCategorical(
        self.sched.pad_features(np.asarray([cont], dtype=fd).reshape(1, len(cont))),
        self.sched.pad_features(np.asarray([cat], dtype=np.int32).reshape(1, len(cat))))
    return self.conv.to_parameters(mi)[0]


def safe(fn, *a, **kw):
  try:
    return fn(*a, **kw)
  except core.InfraError:
    raise
  except Exception as e:  # pylint: disable=broad-except
    return 'ERR:' + type(e).__name__


# ------------------------------------------------------------------ comparison helpers
def feat_json(x):
  return x if isinstance(x, int) and not isinstance(x, bool) else cd.hexf(x)


def feat_from_json(j):
  return cd.unhex(j) if isinstance(j, str) else int(j)


def feats_close(space, cfg, real, model, f32):
  """compare flat feature lists entry by entry: integers and one-hot entries exactly,
  continuous entries under the stated tolerance"""
  if len(real) != len(model):
    return False
  pos = 0
  for p in space:
    k, w = spec_kind(p, cfg), width(p, cfg)
    for a, b in zip(real[pos:pos + w], model[pos:pos + w]):
      if k == 'cont':
        if isinstance(a, int) or isinstance(b, int):
          return False
        if math.isnan(a) or math.isnan(b):
          if not (math.isnan(a) and math.isnan(b)):
            return False
        elif a != b and not abs(a - b) <= ftol(p, f32, cfg['scale']):
          return False
      elif a != b or type(a) is not type(b):
        return False
    pos += w
  return True


def assign_close(space, real, model, f32, cfg=None, arr=None):
  """compare assignments: names, order-insensitive; INTEGER/DISCRETE/CATEGORICAL exactly,
  DOUBLE under tolerance.  Returns (ok, [names of discrete mismatches]).  With clipping off
  (cfg, arr given) an unclipped out-of-range value carries the error of the scaling constants
  amplified by the distance from the range: tolerance * (1 + condition number * |entry|)."""
  by = {p['name']: p for p in space}
  r, m = dict(map(tuple, real)), dict(map(tuple, model))
  if set(r) != set(m) or len(r) != len(real):
    return False, []
  entry = {}
  if cfg is not None and arr is not None and not cfg['clip'] and cfg['scale']:
    pos = 0
    for p in space:
      entry[p['name']] = arr[pos]
      pos += width(p, cfg)
  bad_discrete = []
  for n in r:
    p = by[n]
    a, b = r[n], m[n]
    if p['t'] == 'D':
      if not (isinstance(a, float) and isinstance(b, float)):
        return False, []
      tol = cd.value_tol(p, f32, a, b)
      if n in entry:
        tol *= 1 + abs(entry[n]) * ftol(p, f32, True) / (1e-5 if f32 else 1e-9)
      if a != b and not abs(a - b) <= tol:
        return False, []
    elif type(a) is not type(b) or a != b:
      bad_discrete.append(n)
  return not bad_discrete, bad_discrete


# ------------------------------------------------------------------ variant identification
def identify_variant(c):
  """Replay the witnesses of the two known defect classes on the real code and select the
  model variant of the current tree (DESIGN 2.4).  D11: a LOG-scaled parameter and the finite
  array entry 100.0.  Reverse-log: bounds [1e-10, 1e7], the point x = high."""
  import shim
  shim.install()
  from vizier import pyvizier as vz
  from vizier.pyvizier.converters import core as ccore
  problem = vz.ProblemStatement()
  problem.search_space.root.add_float_param('x', 1e-3, 10.0, scale_type=vz.ScaleType.LOG)
  conv = ccore.TrialToArrayConverter.from_study_config(problem)
  out = conv.to_parameters(np.array([[100.0]]))[0]
  fixed = 'x' in out
  c.flags['decodeClipsInScaledSpace'] = fixed
  VARIANT['clipScaled'] = fixed
  if not fixed:
    c.prop_fail(KEY_D11,
                "TrialToArrayConverter.to_parameters([[100.0]]) on a LOG-scaled DOUBLE parameter [1e-3, 10] returns %r: the parameter is dropped (exp overflows to inf, non-finite values decode to None)" % dict(out),
                {'space': [{'name': 'x', 't': 'D', 'lo': 1e-3, 'hi': 10.0, 'sc': 'LOG'}], 'array': [100.0], 'decoded': {}})
  problem = vz.ProblemStatement()
  problem.search_space.root.add_float_param('x', 1e-10, 1e7, scale_type=vz.ScaleType.REVERSE_LOG)
  conv = ccore.TrialToArrayConverter.from_study_config(problem)
  f = float(conv.to_features([vz.Trial(parameters={'x': 1e7})])[0, 0])
  stable = f == 1.0
  c.flags['reverseLogStable'] = stable
  VARIANT['stableRlog'] = stable
  if not stable:
    back = conv.to_parameters(np.array([[f]]))[0]
    c.prop_fail(KEY_RLOG,
                'REVERSE_LOG parameter [1e-10, 1e7] (float64): the feasible point x=1e7 is encoded as %r instead of 1.0 ((low+high)-x absorbs low, log(0)); decoding it gives %r' % (f, dict(back)),
                {'space': [{'name': 'x', 't': 'D', 'lo': 1e-10, 'hi': 1e7, 'sc': 'RLOG'}], 'point': {'x': 1e7}, 'feature': repr(f)})
  return fixed


# ------------------------------------------------------------------ the codec stage
def codec_stage(c, clip_scaled=None):
  import shim
  shim.install()
  import jax
  from vizier import pyvizier as vz
  x64 = bool(jax.config.jax_enable_x64)
  c.flags['jax_enable_x64'] = x64

  n_cases = 70 if c.tier == 'quick' else 900
  n_points = 8 if c.tier == 'quick' else 12
  n_arrays = 10 if c.tier == 'quick' else 16
  cases = []
  for i in range(n_cases):
    cfg = gen_cfg(c.rng, i)
    paths = ['dict']
    r = i % 6
    if r in (1, 4):
      paths.append('array')
    if r == 2:
      paths.append('padded')
    if r == 5:
      paths.append('modelinput')
    uses_jax32 = not x64 and ('padded' in paths or 'modelinput' in paths)
    space = cd.gen_space(c.rng, f32=cfg['f32'] or uses_jax32, max_params=6)
    for path in paths:
      pcfg = dict(cfg)
      if path == 'array':
        pcfg['onehot'] = True
      elif path == 'padded':
        pcfg['onehot'], pcfg['clip'] = True, True
      elif path == 'modelinput':
        pcfg['onehot'], pcfg['clip'], pcfg['pad'] = False, True, True
      cases.append((space, pcfg, path, c.rng.choice(['NONE', 'MULTIPLES_OF_10', 'POWERS_OF_2'])))
      if path in ('array', 'padded') and c.rng.random() < 0.6:
        # a SIBLING study in the same process (a tuning job with two studies, a benchmark sweeping search spaces):
        # same parameter names and types, other feasible sets and padding — every converter instance must behave
        # as if it were alone (nothing learnt from one search space may be applied to another)
        cases.append((sibling_space(c.rng, space, cfg['f32'] or uses_jax32), dict(pcfg, pad=not pcfg['pad']) if c.rng.random() < 0.5 else dict(pcfg),
                      path, c.rng.choice(['NONE', 'MULTIPLES_OF_10', 'POWERS_OF_2'])))

  reqs, metas = [], []
  for space, cfg, path, padk in cases:
    problem = cd.build_problem(vz, space)
    real = safe(RealCodec, path, space, cfg, problem, padk)
    jaxpath = path in ('padded', 'modelinput')
    eff_f32 = cfg['f32'] or (jaxpath and not x64)          # jnp.asarray rounds to float32 unless x64
    carrier_max = 3e38 if eff_f32 else 1e300
    pts = gen_points(c.rng, space, n_points)
    # one point with a missing parameter (OOV / NaN imputation)
    miss = dict(pts[-1]); miss_name = c.rng.choice(space)['name']; del miss[miss_name]
    pts_all = pts + [miss]
    arrays, tags = [], []
    for k in range(n_arrays):
      kind = ['in', 'boundary', 'near', 'far', 'extreme', 'mixed'][k % 6]
      a, t = gen_array(c.rng, space, cfg, kind, carrier_max)
      # the array the converter sees is float32 when jnp.asarray rounds it (x64 off), when the
      # converter dtype is float32 and the array is built in / cast to that dtype (dict_like().astype)
      is64 = (k % 2 == 1) and path == 'dict'
      if (jaxpath and not x64) or (cfg['f32'] and not is64):
        a = [x if isinstance(x, int) else float(np.float32(x)) for x in a]
      arrays.append(a); tags.append(t | {kind})
    meta = {'space': space, 'cfg': cfg, 'path': path, 'pad': padk, 'pts': pts_all, 'n_feasible_pts': len(pts),
            'miss': miss_name, 'eff_f32': eff_f32, 'arrays': arrays, 'tags': tags}
    if isinstance(real, str):
      meta['ctor_err'] = real
      meta['enc'] = [real] * len(pts_all)
      meta['dec'] = [real] * len(arrays)
      meta['rt'] = []
    else:
      trials = [vz.Trial(parameters=pt) for pt in pts_all]
      enc = safe(real.encode, trials)
      if isinstance(enc, str):
        # a missing value without OOV padding raises for the whole batch: encode one by one
        enc = [(lambda e: e if isinstance(e, str) else e[0])(safe(real.encode, [t])) for t in trials]
      meta['enc'] = enc
      # arrays to decode: the generated ones, then the real encodings (round trip)
      use64 = [(k % 2 == 1) and path == 'dict' for k in range(len(arrays))]   # dict_like() casts to the converter dtype
      meta['use64'] = use64
      meta['dec'] = [assign_or_err(space, safe(real.decode, a, u)) for a, u in zip(arrays, use64)]
      meta['rt'] = [None if isinstance(e, str) else assign_or_err(space, safe(real.decode, e)) for e in enc]
      # decoding a BATCH must give, row for row, what decoding each row alone gives (any batch size,
      # in particular batches with more rows than the feature width)
      good = [k for k, d in enumerate(meta['dec']) if not isinstance(d, str) and not use64[k]]
      if len(good) >= 2:
        big = (good * 8)[:max(len(good), 2 * sum(real.widths) + 3)]
        batch = safe(real.decode_batch, [arrays[k] for k in big])
        if batch is not None and not isinstance(batch, str):
          rows = [assign_or_err(space, b) for b in batch]
          want = [meta['dec'][k] for k in big]
          if len(rows) != len(want) or any((isinstance(r, str) != isinstance(w, str)) or (not isinstance(r, str) and not assign_close(space, r, w, eff_f32, cfg)[0]) for r, w in zip(rows, want)):
            c.prop_fail('batch-decode-differs-from-rowwise:' + path,
                        'decoding %d feature rows in one call returned %d parameter sets%s (converter path %s, feature width %d)' % (
                            len(want), len(rows), '' if len(rows) != len(want) else ' that differ from decoding the rows one by one', path, sum(real.widths)),
                        {'space': space, 'cfg': cfg, 'path': path, 'n_rows': len(want), 'n_returned': len(rows)})
        elif isinstance(batch, str):
          c.prop_fail('batch-decode-raises:' + path, 'decoding %d feature rows in one call raised %s although each row decodes alone' % (len(big), batch),
                      {'space': space, 'cfg': cfg, 'path': path})
      if getattr(real, 'unpad_wrong', None):
        c.prop_fail('unpad-wrong-shape:' + path, 'padding leaks out of the encoding: ' + real.unpad_wrong, {'space': space, 'cfg': cfg, 'path': path})
      if getattr(real, 'padding_not_nan', False):
        c.prop_fail('padding-not-nan', 'padded feature entries are not NaN', {'space': space, 'cfg': cfg})
      c.traces += len(pts_all) + len(arrays) + len(enc)
    rt_arrays = [e for e in meta['enc'] if not isinstance(e, str)]
    assigns = [a for a in meta['dec'] + [x for x in meta['rt'] if x is not None] if not isinstance(a, str) and all(cd.is_jsonable_value(v) for _, v in a)]
    meta['n_assigns'] = len(assigns)
    a32 = (not x64) if path == 'modelinput' else cfg['f32']     # 'padded' goes through dict_like().astype(converter dtype)
    arith32 = [a32 and not u for u in meta.get('use64', [False] * len(arrays))] + [a32] * len(rt_arrays)
    meta['arith32'] = arith32
    reqs.append({'op': 'codec', 'f32': cfg['f32'], 'cfg': cfg_json(cfg, clip_scaled),
                 'params': [cd.param_json(p) for p in space],
                 'points': [[[n, cd.val_json(v)] for n, v in pt.items()] for pt in pts_all],
                 'arrays': [[feat_json(x) for x in a] for a in arrays + rt_arrays], 'arith32': arith32,
                 'assigns': [cd.assign_json(a) for a in assigns]})
    metas.append(meta)

  model = c.lean(DRIVER, reqs)
  recheck = []
  for meta, m in zip(metas, model):
    if 'error' in m:
      raise core.InfraError('driver: %s' % m['error'])
    judge_case(c, meta, m, recheck)
  run_rechecks(c, recheck, clip_scaled)
  if metas:
    m0 = metas[0]
    c.sample({'space': m0['space'], 'cfg': m0['cfg'], 'path': m0['path'], 'point': m0['pts'][0],
              'real_features': m0['enc'][0], 'array': m0['arrays'][3], 'real_decoded': m0['dec'][3]})


def assign_or_err(space, r):
  if isinstance(r, str):
    return r
  return cd.assignment_of(space, r)


def describe(meta):
  return {'space': meta['space'], 'cfg': meta['cfg'], 'converter': meta['path'], 'padding': meta['pad']}


def judge_case(c, meta, m, recheck):
  space, cfg, f32 = meta['space'], meta['cfg'], meta['eff_f32']
  by = {p['name']: p for p in space}
  n_arr = len(meta['arrays'])
  widths = [width(p, cfg) for p in space]
  if m['widths'] != widths:
    c.tie_break('block widths', describe(meta), widths, m['widths'])
  nontriv = any(p['sc'] in ('LOG', 'RLOG') or cd.bounds(p)[0] == cd.bounds(p)[1] or continuified(p, cfg) for p in space if p['t'] != 'C')
  case_key = ('case', repr(space), repr(sorted(cfg.items())), meta['path'])

  # ---- encode: tie + unit interval / orientation / monotonicity / one-hot on the real features
  for k, (pt, real, me) in enumerate(zip(meta['pts'], meta['enc'], m['enc'])):
    feasible_pt = k < meta['n_feasible_pts']
    c.count(1, case_key + ('enc', k) if nontriv or not feasible_pt else None, kind='encode:' + meta['path'])
    if isinstance(real, str) or 'err' in me:
      if not (isinstance(real, str) and 'err' in me):
        c.tie_break('encode (error vs value)', dict(describe(meta), point=pt), real, me)
      if feasible_pt and isinstance(real, str) and 'ctor_err' not in meta:
        c.prop_fail('encode-raises-on-feasible-point', 'encoding a feasible point raised %s' % real, dict(describe(meta), point=pt))
      continue
    mf = [feat_from_json(x) for x in me['ok']]
    if not feats_close(space, cfg, real, mf, f32):
      c.tie_break('encode (features)', dict(describe(meta), point=pt), real, mf)
    if len(real) != sum(widths):
      # the blocks cannot be told apart any more: the layout itself (one column per continuous / index
      # feature, one per feasible value [+1 when padded] per one-hot block) is not the documented one
      c.prop_fail('feature-layout-width', 'the feature vector of %r has %d columns; the documented layout of this space has %d (%s)' % (
          pt, len(real), sum(widths), widths), dict(describe(meta), point=pt, real=real))
      continue
    pos = 0
    for p, w in zip(space, widths):
      seg = real[pos:pos + w]; pos += w
      kind = spec_kind(p, cfg)
      present = p['name'] in pt
      if kind == 'onehot':
        n = cd.num_feasible(p)
        ones = [i for i, x in enumerate(seg) if x == 1.0]
        ok = len(ones) == 1 and all(x in (0.0, 1.0) for x in seg)
        if ok and present:
          ok = ones[0] == cd.feasible_values(p).index(pt[p['name']])
        if ok and cfg['pad']:
          ok = (seg[-1] == 1.0) == (not present)
        if not ok:
          c.prop_fail('onehot-block', 'one-hot block of %s for %r is %r (exactly one 1, at the index of the value; OOV column iff missing)' % (p['name'], pt.get(p['name']), seg),
                      dict(describe(meta), point=pt, block=seg))
      elif kind == 'idx':
        want = cd.feasible_values(p).index(pt[p['name']]) if present else cd.num_feasible(p)
        if seg != [want]:
          c.prop_fail('index-feature', 'index feature of %s for %r is %r, expected %d' % (p['name'], pt.get(p['name']), seg, want), dict(describe(meta), point=pt))
      elif present and cfg['scale']:
        x = seg[0]
        tol = ftol(p, f32, True)
        lo, hi = cd.bounds(p)
        v = pt[p['name']]
        if not (-tol <= x <= 1 + tol):
          c.prop_fail(KEY_RLOG if (cd.rlog_absorbs(p, f32) and not VARIANT['stableRlog']) else 'unit-interval',
                      'scaled feature of %s=%r (bounds %r..%r, %s) is %r, outside [0,1]' % (p['name'], v, lo, hi, p['sc'], x), dict(describe(meta), point=pt))
        elif lo == hi:
          if x != 0.5:
            c.prop_fail('unit-interval', 'singleton-domain feature of %s is %r, not 0.5' % (p['name'], x), dict(describe(meta), point=pt))
        elif lo < v < hi and doc_scaled(p, v) is not None and abs(x - doc_scaled(p, v)) > max(10 * tol, 1e-3) and not (cd.rlog_absorbs(p, f32) and not VARIANT['stableRlog']):
          # the documented scaling formulas (linear / log / reverse log), computed here in float64, at INTERIOR points;
          # the tolerance is wide: this predicate is about WHICH formula is applied, the tie is about its digits
          c.prop_fail('scaling-formula', 'scaled feature of %s=%r (bounds %r..%r, declared scale %s) is %r; the documented %s scaling gives %r' % (
              p['name'], v, lo, hi, p['sc'], x, {'LOG': 'logarithmic', 'RLOG': 'reverse-logarithmic'}.get(p['sc'], 'linear'), doc_scaled(p, v)),
                      dict(describe(meta), point=pt))
        elif (v == lo and abs(x) > tol) or (v == hi and abs(x - 1) > tol):
          c.prop_fail(KEY_RLOG if (cd.rlog_absorbs(p, f32) and not VARIANT['stableRlog']) else 'orientation', 'scaled feature of %s=%r (bounds %r..%r, %s) is %r; lower bound must map to 0 and upper bound to 1' % (p['name'], v, lo, hi, p['sc'], x),
                      dict(describe(meta), point=pt))
  # monotonicity over the feasible points of the case (real features)
  good = [(pt, e) for pt, e in list(zip(meta['pts'], meta['enc']))[:meta['n_feasible_pts']]
          if not isinstance(e, str) and len(e) == sum(widths)]
  pos = 0
  for p, w in zip(space, widths):
    if spec_kind(p, cfg) == 'cont' and good:
      pairs = sorted((pt[p['name']], e[pos]) for pt, e in good)
      tol = ftol(p, f32, cfg['scale'])
      for (v1, x1), (v2, x2) in zip(pairs, pairs[1:]):
        if v1 < v2 and x1 > x2 + 2 * tol:
          c.prop_fail('monotone', 'feature of %s is not monotone: %r -> %r but %r -> %r' % (p['name'], v1, x1, v2, x2), describe(meta))
    pos += w

  # ---- decode arbitrary arrays and the real encodings: tie
  dec_model = m['dec']
  rt_real = [x for x in meta['rt'] if x is not None]
  all_inputs = meta['arrays'] + [e for e in meta['enc'] if not isinstance(e, str)]
  all_real = meta['dec'] + rt_real
  tags = meta['tags'] + [set(['roundtrip'])] * len(rt_real)
  ins = iter(m['ins'])
  for k, (arr, real, md, tg) in enumerate(zip(all_inputs, all_real, dec_model, tags)):
    c.count(1, case_key + ('dec', k) if (tg & {'near', 'far', 'extreme', 'mixed', 'boundary'} or nontriv) else None,
            kind='decode:' + meta['path'] + ':' + sorted(tg - {'oov-index', 'bad-index'})[0])
    jsonable = not isinstance(real, str) and all(cd.is_jsonable_value(v) for _, v in real)
    in_space = next(ins) if jsonable else None
    if isinstance(real, str) or 'err' in md:
      if not (isinstance(real, str) and 'err' in md):
        c.tie_break('decode (error vs value)', dict(describe(meta), array=arr), real, md)
      if isinstance(real, str) and 'bad-index' not in tg and 'ctor_err' not in meta:
        c.prop_fail('decode-raises', 'decoding a finite array raised %s' % real, dict(describe(meta), array=arr))
      continue
    if not jsonable:
      c.prop_fail('decoded-value-type', 'decoded values have unexpected python types: %r' % (real,), dict(describe(meta), array=arr))
      continue
    ma = [[n, cd.val_from_json(v)] for n, v in md['ok']]
    ok, bad = assign_close(space, real, ma, f32, cfg, arr)
    if not ok:
      if bad and all(continuified(by[n], cfg) for n in bad):
        recheck.append((meta, arr, real, ma, bad, meta['arith32'][k]))        # possibly a near tie of nearest-feasible
      else:
        c.tie_break('decode (values)', dict(describe(meta), array=arr), real, ma)
    # ---- property: any finite array decodes into the space (clipping on, indices < len)
    if 'roundtrip' in tg:
      continue
    if cfg['clip'] and 'oov-index' not in tg and not in_space:
      missing = [p['name'] for p in space if p['name'] not in dict(map(tuple, real))]
      overflow = bool(missing) and all(spec_kind(by[n], cfg) == 'cont' and cfg['scale'] for n in missing)
      if overflow and len(missing) + len(real) == len(space) and judge_without(c, meta, real, missing):
        c.prop_fail(KEY_D11, 'decoding the finite array %r drops parameter(s) %s (un-scaling overflows to a non-finite value)' % (arr, missing),
                    dict(describe(meta), array=arr, decoded=real))
      else:
        c.prop_fail('decode-outside-space', 'decoding the finite array %r gives %r which is not inside the search space' % (arr, real),
                    dict(describe(meta), array=arr, decoded=real))

  # ---- property: round trip of feasible points on the real code
  rt = meta['rt']
  for k, (pt, r) in enumerate(zip(meta['pts'], rt)):
    if r is None or k >= meta['n_feasible_pts']:
      continue
    if isinstance(r, str):
      c.prop_fail('roundtrip-raises', 'decode(encode(p)) raised %s' % r, dict(describe(meta), point=pt))
      continue
    want = [[p['name'], pt[p['name']]] for p in space]
    ok, bad = assign_close(space, r, want, f32)
    if not ok:
      enc_k = meta['enc'][k]
      pos, nonfinite = 0, []
      for p, w in zip(space, widths):
        if len(enc_k) != sum(widths):
          break                                 # reported as feature-layout-width above
        if spec_kind(p, cfg) == 'cont' and not math.isfinite(enc_k[pos]) and cd.rlog_absorbs(p, f32) and cfg['scale']:
          nonfinite.append(p['name'])
        pos += w
      rlog = bool(nonfinite) and not VARIANT['stableRlog'] and set(n for n, _ in r) | set(nonfinite) == set(pt)
      c.prop_fail(KEY_RLOG if rlog else 'roundtrip', 'decode(encode(p)) = %r differs from p = %r' % (r, pt), dict(describe(meta), point=pt, decoded=r))


_judge_cache = {}


def judge_without(c, meta, real, missing):
  """is the rest of the assignment (without the dropped parameters) inside the rest of the space?"""
  space = [p for p in meta['space'] if p['name'] not in missing]
  if not space:
    return True
  res = c.lean(DRIVER, [{'op': 'codec', 'f32': False, 'cfg': cfg_json(meta['cfg'], False), 'params': [cd.param_json(p) for p in space],
                        'assigns': [cd.assign_json(real)]}])
  return bool(res[0]['ins'][0])


def run_rechecks(c, recheck, clip_scaled=None):
  """A discrete mismatch on a continuified parameter is accepted as a rounding near-tie iff the
  real value equals the model's value at an array entry perturbed by the stated tolerance, or
  evaluated in the other floating-point precision (numpy / jax mix float32 and float64 within
  one decode; far outside the range the candidates' distances coincide in float32)."""
  for meta, arr, real, ma, bad, a32 in recheck:
    space, cfg, f32 = meta['space'], meta['cfg'], meta['eff_f32']
    variants = []
    pos = 0
    for p in space:
      w = width(p, cfg)
      if p['name'] in bad:
        tol = ftol(p, f32, cfg['scale']) * 4 + abs(arr[pos]) * (1e-6 if f32 else 1e-12)
        for d in (-tol, tol):
          a2 = list(arr); a2[pos] = arr[pos] + d
          variants.append(a2)
      pos += w
    variants = [arr] + variants
    res = c.lean(DRIVER, [{'op': 'codec', 'f32': cfg['f32'], 'cfg': cfg_json(cfg, clip_scaled), 'params': [cd.param_json(p) for p in space],
                          'arrays': [[feat_json(x) for x in a] for a in variants + variants],
                          'arith32': [True] * len(variants) + [False] * len(variants)}])[0]['dec']
    r = dict(map(tuple, real))
    okn = set()
    for d in res:
      if 'ok' in d:
        for n, v in d['ok']:
          if n in bad and cd.val_from_json(v) == r.get(n):
            okn.add(n)
    if okn == set(bad):
      c.dist['decode:near-tie-accepted'] = c.dist.get('decode:near-tie-accepted', 0) + 1
    else:
      c.tie_break('decode (nearest feasible value)', dict(describe(meta), array=arr), real, ma)


# ------------------------------------------------------------------ eagle scaler (map / unmap)
def scaler_stage(c, clip_scaled=None):
  """ProblemAndTrialsScaler = DefaultModelInputConverter(scale=True, max_discrete_indices=0)
  per numeric parameter (float32); categorical values pass through."""
  from vizier import pyvizier as vz
  from vizier.pyvizier import converters
  n = 25 if c.tier == 'quick' else 300
  cfg = {'scale': True, 'onehot': False, 'pad': True, 'maxd': 0, 'clip': True, 'f32': True}
  reqs, metas = [], []
  for i in range(n):
    space = cd.gen_space(c.rng, f32=True, max_params=4)
    problem = cd.build_problem(vz, space)
    sc = safe(converters.ProblemAndTrialsScaler, problem)
    if isinstance(sc, str):
      rlog = sc == 'ERR:OverflowError' and not VARIANT['stableRlog'] and any(cd.rlog_absorbs(p, True) for p in space if p['t'] == 'S')
      c.prop_fail(KEY_RLOG if rlog else 'scaler-ctor-raises', 'ProblemAndTrialsScaler raised %s on a valid flat space%s' % (sc, ' (a scaled feasible value is infinite)' if rlog else ''), {'space': space})
      continue
    pts = gen_points(c.rng, space, 6)
    mapped = safe(sc.map, [vz.TrialSuggestion(pt) for pt in pts])
    if isinstance(mapped, str):
      c.prop_fail('scaler-map-raises', 'ProblemAndTrialsScaler.map raised %s' % mapped, {'space': space})
      continue
    back = safe(sc.unmap, mapped)
    emb = sc.problem_statement.search_space
    c.traces += 2 * len(pts)
    for k, (pt, mt) in enumerate(zip(pts, mapped)):
      c.count(1, ('scaler', i, k), kind='scaler:map/unmap')
      for p in space:
        v = mt.parameters[p['name']].value
        if p['t'] == 'C':
          okv = v == pt[p['name']]
        elif p['t'] == 'S':
          okv = v in emb.get(p['name']).feasible_values
        else:
          tol = ftol(p, True, True)
          okv = (v == 0.5) if cd.bounds(p)[0] == cd.bounds(p)[1] else (-tol <= v <= 1 + tol)
        if not okv:
          c.prop_fail('scaler-map-outside-embedded-space', 'mapped value %r of %s=%r is outside the embedded domain' % (v, p['name'], pt[p['name']]), {'space': space, 'point': pt})
      if isinstance(back, str):
        c.prop_fail('scaler-unmap-raises', 'unmap(map(p)) raised %s' % back, {'space': space, 'point': pt})
        continue
      r = cd.assignment_of(space, back[k].parameters)
      ok, _ = assign_close(space, r, [[p['name'], pt[p['name']]] for p in space], True)
      if not ok:
        c.prop_fail('scaler-roundtrip', 'unmap(map(p)) = %r differs from p = %r' % (r, pt), {'space': space, 'point': pt})
    # unmap of arbitrary finite embedded values: tie with the model's decode, membership by inSpace
    nspace = [p for p in space if p['t'] != 'C']
    arrays, reals = [], []
    for k in range(6):
      kind = ['in', 'near', 'far', 'mixed', 'extreme', 'boundary'][k]
      a, _ = gen_array(c.rng, nspace, cfg, kind, 3e38)
      emb_pt = {p['name']: x for p, x in zip(nspace, a)}
      for p in space:
        if p['t'] == 'C':
          emb_pt[p['name']] = c.rng.choice(p['cats'])
      r = safe(sc.unmap, [vz.TrialSuggestion(emb_pt)])
      arrays.append(a)
      reals.append(r if isinstance(r, str) else cd.assignment_of(space, r[0].parameters))
      c.traces += 1
    good = [r for r in reals if not isinstance(r, str) and all(cd.is_jsonable_value(v) for _, v in r)]
    reqs.append({'op': 'codec', 'f32': True, 'cfg': cfg_json(cfg, clip_scaled), 'params': [cd.param_json(p) for p in nspace],
                 'arrays': [[feat_json(x) for x in a] for a in arrays], 'arith32': [False] * len(arrays)})   # unmap passes float64 0-d arrays
    reqs.append({'op': 'codec', 'f32': False, 'cfg': cfg_json(cfg, clip_scaled), 'params': [cd.param_json(p) for p in space],
                 'assigns': [cd.assign_json(r) for r in good]})
    metas.append((space, nspace, arrays, reals))
  model = c.lean(DRIVER, reqs)
  for i, (space, nspace, arrays, reals) in enumerate(metas):
    md, jd = model[2 * i], model[2 * i + 1]
    if 'error' in md or 'error' in jd:
      raise core.InfraError('driver: %r %r' % (md, jd))
    ins = iter(jd['ins'])
    names = {p['name'] for p in nspace}
    for arr, real, d in zip(arrays, reals, md['dec']):
      c.count(1, ('unmap', i, repr(arr)), kind='scaler:unmap-arbitrary')
      if isinstance(real, str):
        # as written, a dropped parameter (None) makes ParameterDict.__setitem__ raise TypeError
        dropped = 'ok' in d and len(d['ok']) < len(nspace)
        c.prop_fail(KEY_D11 if (dropped and real == 'ERR:TypeError') else 'scaler-unmap-raises',
                    'ProblemAndTrialsScaler.unmap raised %s on the finite embedded values %r%s' % (real, arr, ' (un-scaling overflows, the value decodes to None)' if dropped else ''),
                    {'space': space, 'values': arr})
        continue
      if not all(cd.is_jsonable_value(v) for _, v in real):
        # a dropped parameter shows up as a ParameterValue(None)-less entry: value None
        missing = [n for n, v in real if v is None]
        c.prop_fail(KEY_D11 if missing else 'scaler-unmap-value-type', 'ProblemAndTrialsScaler.unmap of finite values %r gives %r' % (arr, real), {'space': space, 'values': arr, 'decoded': repr(real)})
        continue
      inside = next(ins)
      rn = [e for e in real if e[0] in names]
      if 'err' in d:
        c.tie_break('scaler.unmap vs decode (error)', {'space': space, 'values': arr}, real, d)
      else:
        ma = [[n, cd.val_from_json(v)] for n, v in d['ok']]
        ok, bad = assign_close(nspace, rn, ma, True)
        if not ok and not bad:
          c.tie_break('scaler.unmap vs decode', {'space': space, 'values': arr}, rn, ma)
      if not inside:
        c.prop_fail('scaler-unmap-outside-space', 'unmap of finite embedded values %r gives %r, outside the space' % (arr, real), {'space': space, 'values': arr})


# ------------------------------------------------------------------ labels
def labels_stage(c):
  from vizier import pyvizier as vz
  from vizier.pyvizier.converters import core as ccore
  n = 60 if c.tier == 'quick' else 600
  reqs, metas = [], []
  for i in range(n):
    goal = c.rng.choice(['MAXIMIZE', 'MINIMIZE'])
    flipopt = c.rng.choice([True, False])
    f32 = c.rng.choice([True, False])
    safety = c.rng.random() < 0.25
    thr = c.rng.choice([0.0, 1.5, -3.0, 100.0]) if safety else None
    shift = c.rng.choice([True, False]) if safety else True
    mi = vz.MetricInformation('m', goal=getattr(vz.ObjectiveMetricGoal, goal), **({'safety_threshold': thr} if safety else {}))
    conv = ccore.DefaultModelOutputConverter(mi, flip_sign_for_minimization_metrics=flipopt, shift_safe_metrics=shift,
                                             dtype=np.float32 if f32 else np.float64)
    big = 30 if f32 else 300
    xs = [c.rng.choice([0.0, 1.0, -1.0, 10.0 ** c.rng.uniform(-big, big), -10.0 ** c.rng.uniform(-big, big), c.rng.uniform(-5, 5), float(c.rng.randrange(-9, 9))]) for _ in range(8)]
    ms = [vz.Measurement(metrics={'m': x}) for x in xs]
    lab = conv.convert(ms)
    back = conv.to_metrics(np.array(lab))
    flip = flipopt and goal == 'MINIMIZE'
    reqs.append({'op': 'labels', 'f32': f32, 'flip': flip, 'shift': cd.hexf(thr) if (safety and shift) else None, 'xs': [cd.hexf(x) for x in xs]})
    metas.append((xs, [float(v) for v in lab[:, 0]], [None if b is None else float(b.value) for b in back], f32, safety and shift and thr != 0.0, goal, flipopt, thr))
    c.traces += 1
  model = c.lean(DRIVER, reqs)
  for (xs, lab, back, f32, shifted, goal, flipopt, thr), m in zip(metas, model):
    eps = 1e-5 if f32 else 0.0
    mconv = [cd.unhex(h) for h in m['conv']]
    mback = [cd.unhex(h) for h in m['back']]
    for x, l, b, ml, mb in zip(xs, lab, back, mconv, mback):
      c.count(1, ('labels', goal, flipopt, f32, thr, x), kind='labels:' + ('safety' if thr is not None else 'objective'))
      tol = eps * max(abs(x), abs(thr or 0.0))
      if abs(l - ml) > tol or b is None or abs(b - mb) > 2 * tol:
        c.tie_break('DefaultModelOutputConverter.convert/to_metrics', {'x': x, 'goal': goal, 'flip': flipopt, 'threshold': thr, 'f32': f32}, [l, b], [ml, mb])
      if not shifted:     # objective metrics (and unshifted safety metrics) round-trip
        if b is None or abs(b - x) > eps * abs(x):
          c.prop_fail('labels-roundtrip', 'to_metrics(convert(%r)) = %r (goal %s, flip %s, float32 %s)' % (x, b, goal, flipopt, f32), {'x': x, 'goal': goal, 'flip': flipopt, 'f32': f32})
      want_sign = -1.0 if (flipopt and goal == 'MINIMIZE') else 1.0
      if not shifted and abs(l - want_sign * x) > eps * abs(x):
        c.prop_fail('labels-sign', 'convert(%r) = %r, expected %r' % (x, l, want_sign * x), {'x': x, 'goal': goal, 'flip': flipopt})
  # the array / dict level entry points use the same per-metric converters
  problem = vz.ProblemStatement()
  problem.search_space.root.add_float_param('x', 0.0, 1.0)
  problem.metric_information.append(vz.MetricInformation('a', goal=vz.ObjectiveMetricGoal.MINIMIZE))
  problem.metric_information.append(vz.MetricInformation('b', goal=vz.ObjectiveMetricGoal.MAXIMIZE))
  for flipopt in (True, False):
    conv = ccore.TrialToArrayConverter.from_study_config(problem, flip_sign_for_minimization_metrics=flipopt)
    trials = []
    vals = [(c.rng.uniform(-9, 9), c.rng.uniform(-9, 9)) for _ in range(5)]
    for a, b in vals:
      t = vz.Trial(parameters={'x': 0.5}); t.complete(vz.Measurement(metrics={'a': a, 'b': b})); trials.append(t)
    lab = conv.to_labels(trials)
    ms = conv._impl._to_measurements({'a': lab[:, 0:1], 'b': lab[:, 1:2]})
    c.traces += 1
    for (a, b), row, mm in zip(vals, lab, ms):
      c.count(1, ('labels-array', flipopt, a, b), kind='labels:array')
      if row[0] != (-a if flipopt else a) or row[1] != b or mm.metrics['a'].value != a or mm.metrics['b'].value != b:
        c.prop_fail('labels-roundtrip', 'TrialToArrayConverter labels (%r, %r) -> %r -> %r' % (a, b, list(row), {k: v.value for k, v in mm.metrics.items()}), {'a': a, 'b': b, 'flip': flipopt})


# ------------------------------------------------------------------ malformed stream
def mapper_stage(c):
  """ContinuousCategoricalFeatureMapper (feature_mapper.py) on the REAL TrialToArrayConverter output of
  generated mixed spaces (continuous columns and one-hot blocks in any order): map -> (continuous
  columns, index of the active entry per block), unmap -> the row again, decode -> the point again.
  Tie: Model/FeatureMapper.lean (mapRow / unmapRow) on the same rows."""
  import shim
  shim.install()
  import numpy as np
  from vizier import pyvizier as vz
  from vizier.pyvizier import converters
  from vizier.pyvizier.converters import feature_mapper
  n = 30 if c.tier == 'quick' else 300
  reqs, metas = [], []
  for i in range(n):
    space = cd.gen_space(c.rng, f32=True, max_params=6, max_int_width=12)
    if i % 3 == 0:
      # make sure a continuous column PRECEDES a one-hot block and that block widths differ
      space = [dict(cd.gen_double(c.rng, True), name='lead')] + space + [dict(cd.gen_categorical(c.rng), name='tail')]
    mdi = c.rng.choice([0, 10])
    pad = c.rng.random() < 0.5
    try:
      problem = cd.build_problem(vz, space)
      conv = converters.TrialToArrayConverter.from_study_config(problem, max_discrete_indices=mdi, pad_oovs=pad)
      mapper = feature_mapper.ContinuousCategoricalFeatureMapper(conv)
      pts = gen_points(c.rng, space, 6)
      pts = [pt for pt in pts if len(pt) == len(space)]
      if not pts:
        continue
      trials = [vz.Trial(parameters=pt) for pt in pts]
      feats = np.asarray(conv.to_features(trials))
      mapped = mapper.map(feats)
      back = np.asarray(mapper.unmap(mapped))
      dec_direct = conv.to_parameters(feats)
      dec_back = conv.to_parameters(back)
    except Exception as e:  # pylint: disable=broad-except
      c.count(1, kind='mapper:refused:' + type(e).__name__)
      continue
    c.traces += 1
    specs = []
    for sp in conv.output_specs:
      specs.append(0 if sp.type == converters.NumpyArraySpecType.CONTINUOUS else int(sp.num_dimensions))
    has_mixed = any(a == 0 and any(b > 0 for b in specs[k + 1:]) for k, a in enumerate(specs))
    c.count(len(pts), ('mapper', i) if has_mixed else None, kind='mapper:' + ('mixed' if has_mixed else 'plain'))
    case = {'space': space, 'max_discrete_indices': mdi, 'pad_oovs': pad, 'specs': specs}
    cont = np.asarray(mapped.continuous)
    cat = np.asarray(mapped.categorical)
    rows = []
    for r in range(feats.shape[0]):
      col, cells, exp_cat, exp_cont = 0, [], [], []
      for w in specs:
        if w == 0:
          cells.append(feat_json(float(feats[r, col]))); exp_cont.append(float(feats[r, col])); col += 1
        else:
          blk = [int(v != 0) for v in feats[r, col:col + w]]
          cells.append(blk); col += w
          if sum(blk) != 1:
            c.prop_fail('onehot-block-not-one-hot', 'a one-hot block of the encoded features has %d active entries' % sum(blk), dict(case, point=pts[r]))
          exp_cat.append(blk.index(1) if 1 in blk else -1)
      rows.append(cells)
      # property predicates on the REAL outputs
      if [int(v) for v in cat[r]] != exp_cat:
        c.prop_fail('mapper-categorical-index-wrong', 'map() gives categorical indices %s, the active entries of the one-hot blocks are at %s (layout %s)' % (
            [int(v) for v in cat[r]], exp_cat, specs), dict(case, point=pts[r], features=[float(v) for v in feats[r]]))
        break
      if len(cont[r]) != len(exp_cont) or not np.allclose([float(v) for v in cont[r]], exp_cont, rtol=2e-6, atol=1e-7):
        c.prop_fail('mapper-continuous-columns-wrong', 'map() gives continuous values %s, the continuous columns hold %s' % ([float(v) for v in cont[r]], exp_cont), dict(case, point=pts[r]))
        break
      # one-hot columns exactly; continuous columns to float32 accuracy (the mapper's arrays are jax float32)
      hot_cols = [k for k, w in zip(range(len(specs)), specs) if w]
      col, hot_mask = 0, []
      for w in specs:
        hot_mask += [w != 0] * (w or 1)
      hot_mask = np.asarray(hot_mask)
      if back[r].shape != feats[r].shape or not np.array_equal(back[r][hot_mask], feats[r][hot_mask]) or \
         not np.allclose(back[r][~hot_mask], feats[r][~hot_mask], rtol=2e-6, atol=1e-7):
        c.prop_fail('mapper-unmap-not-inverse', 'unmap(map(row)) = %s differs from the row %s (layout %s)' % ([float(v) for v in back[r]], [float(v) for v in feats[r]], specs),
                    dict(case, point=pts[r]))
        break
      db, dd = dict(dec_back[r]), dict(dec_direct[r])
      same = set(db) == set(dd) and all(
          (np.isclose(float(db[k].value), float(dd[k].value), rtol=1e-5, atol=1e-30) if isinstance(dd[k].value, float) and not float(dd[k].value).is_integer()
           else db[k].value == dd[k].value or (isinstance(dd[k].value, float) and np.isclose(float(db[k].value), float(dd[k].value), rtol=1e-5)))
          for k in dd)
      if not same:
        c.prop_fail('mapper-roundtrip-changes-point', 'decoding unmap(map(features)) gives %s, decoding the features gives %s' % (dict(dec_back[r]), dict(dec_direct[r])), dict(case, point=pts[r]))
        break
    reqs.append({'op': 'fmap', 'specs': specs, 'rows': rows})
    metas.append((case, cont, cat, feats))
  for (case, cont, cat, feats), m in zip(metas, c.lean(DRIVER, reqs) if reqs else []):
    if 'error' in m:
      raise core.InfraError('driver: %s' % m['error'])
    for r, mr in enumerate(m['rows']):
      if mr['cat'] != [int(v) for v in cat[r]] or len(mr['cont']) != len(cont[r]) or mr['back'] is None:
        c.tie_break('feature mapper (map / unmap)', dict(case, row=r), {'cat': [int(v) for v in cat[r]]}, {'cat': mr['cat'], 'back': mr['back'] is not None})
        break


def malformed_stage(c):
  """documented preconditions violated: the only oracle is 'refused with an error'."""
  from vizier import pyvizier as vz
  from vizier.pyvizier.converters import core as ccore
  problem = vz.ProblemStatement()
  problem.search_space.root.add_float_param('x', -1.0, 10.0, scale_type=vz.ScaleType.LOG)
  r = safe(ccore.TrialToArrayConverter.from_study_config, problem)
  c.count(1, 'malformed:log-negative-bound', kind='malformed')
  m = c.lean(DRIVER, [{'op': 'codec', 'f32': False, 'cfg': cfg_json({'scale': True, 'onehot': True, 'pad': True, 'clip': True, 'maxd': 0}, False),
                      'params': [cd.param_json({'name': 'x', 't': 'D', 'lo': -1.0, 'hi': 10.0, 'sc': 'LOG'})],
                      'points': [[['x', cd.val_json(1.0)]]]}])[0]
  if not (isinstance(r, str) and 'err' in m['enc'][0]):
    c.tie_break('LOG scale with a negative bound must be refused', {'lo': -1.0, 'hi': 10.0}, r if isinstance(r, str) else 'accepted', m['enc'][0])


def run(c):
  c.proof_stage()
  fixed = identify_variant(c)
  codec_stage(c, fixed)
  scaler_stage(c, fixed)
  labels_stage(c)
  mapper_stage(c)
  malformed_stage(c)
  return c.finish(
      level='proof',
      rule='a (space, options, converter, input) evaluation is non-trivial when the space has a LOG/REVERSE_LOG, singleton-domain or continuified parameter, or the input is a point with a missing parameter or an array with boundary / out-of-range / extreme entries; scaler and label evaluations are keyed by their input',
      assumptions=[
          'flat spaces; LOG / REVERSE_LOG only with positive bounds (documented precondition; a negative bound is checked to be refused)',
          'float32 converters are exercised with |bounds| in [1e-30, 1e30] and integers below 2**24, float64 ones with |bounds| <= 1e300 and integers below 2**52 (values the dtype represents)',
          'arrays handed to jax-based converters are finite in float32 unless jax_enable_x64',
          'continuous values compared under eps*magnitude (eps = 1e-9 float64, 1e-5 float32 paths; scaled features under eps*condition number of the scaling); discrete outcomes exactly, except that a nearest-feasible decision may differ when the array entry is within that tolerance of the decision boundary',
          'membership for DOUBLE parameters is claimed with should_clip=True (the default, used by every designer); with should_clip=False only the correspondence is checked',
          'index features are decoded for indices in [-len, len); index == len decodes to "missing" as documented',
      ])
