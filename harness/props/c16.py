"""C16 — search-space definitions are validated and membership is decided correctly.

Proof stage: Props/C16.lean.  Tie: the real builders / ParameterConfig.factory /
SearchSpace.contains / SequentialParameterBuilder / clients.Study.add_trial against the
Lean model (Model/Space.lean) on generated definitions (valid-typed stream with at most
one injected fault, separate malformed stream), near-miss assignments and conditional
trees to depth 3.  Property stage: the REAL outputs judged by the specification
predicates of Model/SpaceSpec.lean through the driver (memberSpec, normalised,
activeSpace) and by the generator's fault labels."""
import json

from vcheck import core
from props import spacelib as sl

KEY_INT_INF = 'contains-integer-param-infinity-overflowerror'


def _try(f):
  try:
    return ('ok', f())
  except Exception as e:  # pylint: disable=broad-except
    return ('err', sl.exc_class(e))


def identify_flags(c):
  """Replay the witness of c16_int_inf_counterexample on the real code."""
  from vizier._src.pyvizier.shared import parameter_config as pcm
  ss = pcm.SearchSpace()
  ss.root.add_int_param('i', 0, 5)
  r = _try(lambda: ss.contains({'i': sl.INF}))
  guard = (r == ('ok', False))
  c.flags['intInfGuard'] = guard
  if not guard:
    c.prop_fail(KEY_INT_INF,
                'SearchSpace.contains({"i": inf}) on an INTEGER parameter gives %s instead of False' % (r,),
                {'space': 'add_int_param("i", 0, 5)', 'assignment': {'i': 'inf'}, 'real': list(r)})
  return {'intInfGuard': guard}


# ------------------------------------------------------------------ definitions
def definitions_stage(c, cfg):
  n_valid = 1200 if c.tier == 'quick' else 8000
  n_fault = 1500 if c.tier == 'quick' else 10000
  n_mal = 150 if c.tier == 'quick' else 1000
  cases = []
  for i in range(n_valid + n_fault):
    names = sl.name_stream(c.rng)
    depth = c.rng.choice([1, 1, 2, 3])
    root = sl.gen_tree(c.rng, names, depth, allow_custom=True)
    fault = None
    if i >= n_valid:
      fault = sl.inject_fault(c.rng, root)
    cases.append((root, fault))
  reqs = [dict(cfg, op='build', node=sl.node_json(r)) for r, _ in cases]
  model = c.lean('C16', reqs)
  norm_reqs, norm_cases = [], []
  for (root, fault), m in zip(cases, model):
    if 'error' in m:
      raise core.InfraError('driver: %s on %s' % (m, sl.node_json(root)))
    real = _try(lambda: sl.build_pc(root))
    c.traces += 1
    label = fault[0] if fault else None
    nontrivial = fault is not None or bool(root.get('children'))
    c.count(1, ('def', json.dumps(sl.node_json(root), sort_keys=True)) if nontrivial else None,
            kind='definition:' + (label or ('valid-depth%d' % len(_levels(root)))))
    case = {'node': sl.node_json(root), 'fault': label}
    if real[0] == 'ok':
      dumped = sl.dump_pc(real[1])
      if 'ok' not in m or m['ok'] != dumped:
        c.tie_break('builders/factory: normalised config', case, dumped, m)
      norm_reqs.append(dict(cfg, op='normalised', pc=dumped))
      norm_cases.append((case, dumped))
      if fault and fault[1]:
        c.prop_fail('invalid-definition-accepted:' + label,
                    'a definition with the invalid feature "%s" was accepted by the builders' % label,
                    dict(case, real=dumped))
    else:
      if 'err' not in m or not sl.err_matches(real[1], m['err']):
        c.tie_break('builders/factory: accept/reject + error class', case, real[1], m)
      if fault is None and 'ok' in m:
        # a definition that is valid by construction AND by the specification's verdict was refused by the builders
        c.prop_fail('valid-definition-refused:' + str(real[1]),
                    'a valid definition was refused by the builders (%s)' % (real[1],), case)
  # property: accepted definitions are normalised (judged by the Lean predicate on the real dump)
  for (case, dumped), r in zip(norm_cases, c.lean('C16', norm_reqs)):
    if 'error' in r:
      raise core.InfraError('driver: %s' % r)
    if not r['normalised']:
      c.prop_fail('definition-not-normalised:' + r['why'],
                  'accepted definition is not normalised (%s)' % r['why'], dict(case, real=dumped))
  c.sample({'definition': cases[n_valid][0] and sl.node_json(cases[n_valid][0]), 'fault': cases[n_valid][1][0],
            'model': model[n_valid]})

  # malformed stream: only oracle "refused with an error"
  mal = [sl.gen_malformed(c.rng) for _ in range(n_mal)]
  mal_model = c.lean('C16', [dict(cfg, op='build', node=sl.node_json(node)) for _, node in mal])
  for (kind, node), m in zip(mal, mal_model):
    real = _try(lambda: _build_malformed(node))
    c.count(1, ('malformed', kind), kind='malformed:' + kind)
    c.traces += 1
    if real[0] == 'ok':
      c.prop_fail('malformed-definition-accepted:' + kind,
                  'malformed definition (%s) was accepted' % kind, {'node': repr(node)})
    if kind != 'bounds-list' and 'err' not in m:
      c.tie_break('malformed definition: model accepts', {'node': repr(node)}, real[1], m)


def _build_malformed(node):
  if node.get('as_list'):
    from vizier._src.pyvizier.shared import parameter_config as pcm
    return pcm.ParameterConfig.factory(node['name'], bounds=list(node['bounds']))
  return sl.build_pc(node)


def _levels(n):
  kids = [ch for _, ch in n.get('children', [])]
  return [n] + (max((_levels(k) for k in kids), key=len) if kids else [])


# ------------------------------------------------------------------ spaces (duplicate names)
def spaces_stage(c, cfg):
  n = 400 if c.tier == 'quick' else 3000
  cases = []
  for _ in range(n):
    names = sl.name_stream(c.rng)
    nodes = [sl.gen_tree(c.rng, names, c.rng.choice([1, 1, 2])) for _ in range(c.rng.randrange(1, 5))]
    dup = c.rng.random() < 0.4 and len(nodes) >= 2
    if dup:
      i, j = c.rng.sample(range(len(nodes)), 2)
      nodes[j]['name'] = nodes[i]['name']
      if 'index' in nodes[i]:
        nodes[j]['index'] = nodes[i]['index']
      else:
        nodes[j].pop('index', None)
      if nodes[j]['call'] in ('factory', 'custom'):
        nodes[j].pop('index', None)
        nodes[i].pop('index', None)
    cases.append((nodes, dup))
  model = c.lean('C16', [dict(cfg, op='space', nodes=[sl.node_json(x) for x in nodes]) for nodes, _ in cases])
  for (nodes, dup), m in zip(cases, model):
    if 'error' in m:
      raise core.InfraError('driver: %s' % m)
    real = _try(lambda: sl.build_space(nodes))
    c.traces += 1
    case = {'nodes': [sl.node_json(x) for x in nodes], 'duplicate_name': dup}
    c.count(1, ('space', json.dumps(case, sort_keys=True)) if dup else None, kind='space:' + ('dup-name' if dup else 'ok'))
    if real[0] == 'ok':
      dumped = sl.dump_space(real[1])
      if m.get('ok') != dumped:
        c.tie_break('SearchSpace.add sequence', case, dumped, m)
      names = [d['name'] for d in dumped]
      if dup or len(set(names)) != len(names):
        c.prop_fail('duplicate-name-accepted', 'two parameters with the same name in one subspace were accepted', case)
    else:
      if 'err' not in m or not sl.err_matches(real[1], m['err']):
        c.tie_break('SearchSpace.add sequence: error class', case, real[1], m)


# ------------------------------------------------------------------ membership
def membership_stage(c, cfg):
  n_spaces = 300 if c.tier == 'quick' else 2500
  per = 16 if c.tier == 'quick' else 25
  reqs, meta = [], []
  for si in range(n_spaces):
    names = sl.name_stream(c.rng)
    conditional = c.rng.random() < 0.12
    nodes = [sl.gen_tree(c.rng, names, 2 if conditional else 1, allow_custom=(c.rng.random() < 0.1),
                         p_child=1.0 if conditional else 0.0)
             for _ in range(c.rng.randrange(1, 5))]
    try:
      # every other space is READ (is_conditional / contains / listings) between its builder calls
      ss = sl.build_space(nodes, probed=(si % 2 == 1))
    except Exception:  # pylint: disable=broad-except
      continue
    dumped = sl.dump_space(ss)
    for _ in range(per):
      a, kind = sl.gen_assignment(c.rng, dumped)
      real = _try(lambda: ss.contains(a))
      c.traces += 1
      reqs.append(dict(cfg, op='contains', pcs=dumped, assign=sl.assign_json(a)))
      meta.append((dumped, a, kind, real))
  model = c.lean('C16', reqs)
  for (dumped, a, kind, real), m in zip(meta, model):
    if 'error' in m:
      raise core.InfraError('driver: %s' % m)
    case = {'space': dumped, 'assignment': {k: sl.tag(v) for k, v in a.items()}, 'kind': kind}
    key = ('mem', json.dumps(case, sort_keys=True, default=str)) if kind != 'inside' else None
    c.count(1, key, kind='assignment:' + kind + (':conditional' if m['conditional'] else ''))
    # tie: verdict / error class
    mm = m['model']
    real_c = {'ok': real[1]} if real[0] == 'ok' else {'err': real[1]}
    if ('ok' in mm) != (real[0] == 'ok') or ('ok' in mm and mm['ok'] != real[1]) or \
       ('err' in mm and not sl.err_matches(real[1], mm['err'])):
      c.tie_break('SearchSpace.contains', case, real_c, mm)
    # property (on the real verdict, with the Lean specification predicate)
    has_custom = any(d['type'] == 'CUSTOM' for d in dumped)
    if m['conditional']:
      if real != ('err', 'NotImplementedError'):
        c.prop_fail('conditional-membership-answered', 'contains() on a conditional space answered %s' % (real,), case)
      continue
    if has_custom:
      continue          # CUSTOM parameters have no declared domain; the code documents a RuntimeError
    if real[0] == 'ok':
      if bool(real[1]) != m['spec']:
        c.prop_fail('membership-wrong:' + kind, 'contains() = %s but the specification says %s' % (real[1], m['spec']), case)
    else:
      is_inf_int = (real[1] == 'OverflowError' and not m['spec'] and any(
          d['type'] == 'INTEGER' and isinstance(a.get(d['name']), float) and a[d['name']] in (sl.INF, -sl.INF)
          for d in dumped))
      c.prop_fail(KEY_INT_INF if is_inf_int else 'membership-raises:' + real[1],
                  'contains() raised %s (specification: %s)' % (real[1], m['spec']), case)
  if meta:
    c.sample({'membership': {'assignment': {k: sl.tag(v) for k, v in meta[3][1].items()}, 'kind': meta[3][2],
                             'real': list(meta[3][3]), 'model': model[3]}})

  # single-parameter near-miss grid through ParameterConfig.contains
  from vizier._src.pyvizier.shared import parameter_config as pcm
  grid_pcs = [
      pcm.ParameterConfig.factory('d', bounds=(-1.5, 2.5)),
      pcm.ParameterConfig.factory('i', bounds=(-1, 3)),
      pcm.ParameterConfig.factory('i01', bounds=(0, 1)),
      pcm.ParameterConfig.factory('k', feasible_values=[0, 1, 2.5, 3.0]),
      pcm.ParameterConfig.factory('c', feasible_values=['True', 'False', '3', 'a']),
      pcm.ParameterConfig.factory('c2', feasible_values=['x', '']),
  ]
  vals = [sl.NAN, sl.INF, -sl.INF, True, False, 'True', 'False', 'true', 0, 1, 3, -1, 4, -2, 3.0, 2.5, -1.5,
          sl.ulp_up(2.5), sl.ulp_down(-1.5), sl.ulp_up(3.0), sl.ulp_down(3.0), 0.0, -0.0, 1.0, '3', '3.0', 'a', '', 'x',
          2 ** 60, 1e300, -1e300, 5e-324]
  reqs, meta = [], []
  for pc in grid_pcs:
    d = sl.dump_pc(pc)
    for v in vals:
      real = _try(lambda: pc.contains(v))
      c.traces += 1
      reqs.append(dict(cfg, op='pccontains', pc=d, v=sl.enc(v)))
      meta.append((d, v, real))
  for (d, v, real), m in zip(meta, c.lean('C16', reqs)):
    case = {'pc': d, 'value': sl.tag(v)}
    c.count(1, ('grid', d['name'], repr(v)), kind='near-miss-grid')
    mm = m['model']
    if ('ok' in mm) != (real[0] == 'ok') or ('ok' in mm and mm['ok'] != real[1]) or \
       ('err' in mm and not sl.err_matches(real[1], mm['err'])):
      c.tie_break('ParameterConfig.contains', case, list(real), mm)
    if real[0] == 'ok':
      if bool(real[1]) != m['spec']:
        c.prop_fail('membership-wrong:grid', 'ParameterConfig.contains = %s, specification %s' % (real[1], m['spec']), case)
    else:
      inf_int = d['type'] == 'INTEGER' and isinstance(v, float) and v in (sl.INF, -sl.INF) and real[1] == 'OverflowError'
      c.prop_fail(KEY_INT_INF if inf_int else 'membership-raises:' + real[1],
                  'ParameterConfig.contains raised %s' % real[1], case)


# ------------------------------------------------------------------ sequential builder
def _walk_real(ss, order, choice):
  from vizier._src.pyvizier.shared import parameter_iterators as pi
  b = pi.SequentialParameterBuilder(ss, traverse_order=order)
  seen = []
  for pc in b:
    seen.append(pc.name)
    if len(seen) > 500:
      raise RuntimeError('builder does not terminate')
    v = choice.get(pc.name)
    if v is None:
      b.skip()
    else:
      b.choose_value(v)
  return seen, dict(b.parameters.as_dict())


def walk_stage(c, cfg):
  n = 600 if c.tier == 'quick' else 5000
  reqs, meta, defs = [], [], []
  for _ in range(n):
    names = sl.name_stream(c.rng)
    nodes = [sl.gen_tree(c.rng, names, c.rng.choice([1, 2, 3, 3]), p_child=0.85) for _ in range(c.rng.randrange(1, 4))]
    mode = c.rng.choice(['unique', 'unique', 'unique', 'clash'])
    if mode == 'clash':
      # a child that carries the name of a root-level parameter: the builder's add() refuses it when both are pending
      allnodes = [x for r in nodes for x in sl.nodes_of(r)]
      kids = [x for x in allnodes if x not in nodes]
      if kids and len(nodes) >= 2:
        k = c.rng.choice(kids)
        k['name'] = sl.created_name(nodes[-1])
        k.pop('index', None)
    try:
      ss = sl.build_space(nodes, probed=(c.rng.random() < 0.5))
    except Exception:  # pylint: disable=broad-except
      continue
    dumped = sl.dump_space(ss)
    choice = {}
    bad_choice = c.rng.random() < 0.12
    allp = sl.all_pcs(dumped)
    for d in allp:
      r = c.rng.random()
      if r < 0.08:
        choice[d['name']] = None
      else:
        # prefer values that have a subspace so that deep parameters are reached
        keys = [sl.dec(kc[0]) for kc in d['kids']]
        if keys and c.rng.random() < 0.7:
          v = c.rng.choice(keys)
          if v in ('True', 'False') and c.rng.random() < 0.3:
            v = (v == 'True')
          elif isinstance(v, int) and not isinstance(v, bool) and c.rng.random() < 0.3:
            v = float(v)
          elif isinstance(v, float) and v == int(v) and c.rng.random() < 0.3:
            v = int(v)
        else:
          v = sl.inside_value(c.rng, d)
        choice[d['name']] = v
    if bad_choice and allp:
      d = c.rng.choice(allp)
      choice[d['name']] = sl.near_miss(c.rng, d)
    for order in ('dfs', 'bfs'):
      real = _try(lambda: _walk_real(ss, order, choice))
      c.traces += 1
      reqs.append(dict(cfg, op='walk', pcs=dumped, bfs=(order == 'bfs'),
                       choice=[[k, sl.enc_opt(v)] for k, v in choice.items()]))
      meta.append((dumped, order, choice, real, mode))
      defs.append([sl.node_json(x) for x in nodes])
  # the space the builder calls produced against the DEFINITION they spell (Lean `space` on the same
  # calls): where they differ the walk is judged against the definition as well
  built = c.lean('C16', [dict(cfg, op='space', nodes=d) for d in defs[::2]])
  rereqs, remeta = [], []
  for i, b in enumerate(built):
    dumped = meta[2 * i][0]
    if 'ok' in b and b['ok'] != dumped:
      for j in (2 * i, 2 * i + 1):
        rereqs.append(dict(reqs[j], pcs=b['ok']))
        remeta.append((j, b['ok']))
  for (j, want_space), m in zip(remeta, c.lean('C16', rereqs) if rereqs else []):
    dumped, order, choice, real, mode = meta[j]
    case = {'definition': defs[j], 'built': dumped, 'defined': want_space, 'order': order,
            'choice': {k: sl.tag(v) for k, v in choice.items()}}
    want = m.get('model', {}).get('ok')
    if real[0] == 'ok' and want is not None and m.get('nodeOK') and sorted(real[1][0]) != sorted(want):
      c.prop_fail('builder-visits-not-active-in-definition:' + order,
                  'walking the space the builder calls produced yields %s, the parameters active under the '
                  'chosen values in the definition those calls spell are %s' % (real[1][0], want), case)
    else:
      c.tie_break('builder calls: space built vs definition', case, dumped, want_space)
  model = c.lean('C16', reqs)
  for (dumped, order, choice, real, mode), m in zip(meta, model):
    if 'error' in m:
      raise core.InfraError('driver: %s' % m)
    depth = sl.depth_of(dumped)
    case = {'space': dumped, 'order': order, 'choice': {k: sl.tag(v) for k, v in choice.items()}}
    c.count(1, ('walk', json.dumps(case, sort_keys=True, default=str)) if depth >= 2 else None,
            kind='walk:%s:depth%d' % (order, depth))
    mm = m['model']
    if real[0] == 'ok':
      seen, params = real[1]
      if mm.get('ok') != seen:
        c.tie_break('SequentialParameterBuilder visit order', case, seen, mm)
      # property: exactly the active parameters (Lean activeSpace on the real tree), each once; dfs = preorder
      if not m['nodeOK']:
        c.prop_fail('tree-subspace-keys-not-of-internal-kind', 'a built tree stores a subspace under a key that is not of the parent\'s internal kind', case)
      if m['uniqueNames'] and m['nodeOK']:
        act = m['active']
        if sorted(seen) != sorted(act) or (order == 'dfs' and seen != act):
          c.prop_fail('builder-visits-not-active:' + order,
                      'builder yielded %s, active parameters are %s' % (seen, act), case)
        want = {k: v for k, v in choice.items() if v is not None and k in act}
        if set(params) != set(want) or any(sl.tag(params[k]) != sl.tag(want[k]) for k in want):
          c.prop_fail('builder-parameters-wrong', 'builder.parameters = %r, chosen %r' % (params, want), case)
    else:
      if 'err' not in mm or not sl.err_matches(real[1], mm['err']):
        c.tie_break('SequentialParameterBuilder error class', case, real[1], mm)
  if meta:
    c.sample({'walk': {'order': meta[0][1], 'choice': {k: sl.tag(v) for k, v in meta[0][2].items()},
                       'real': meta[0][3][1] if meta[0][3][0] == 'err' else meta[0][3][1][0], 'model': model[0]}})


def _numnorm(j):
  """numbers by VALUE (the wire may change the Python type: True -> 1.0, 2 -> 2.0), everything else as is"""
  from fractions import Fraction
  if isinstance(j, dict):
    if len(j) == 1:
      (k, v), = j.items()
      if k == 'b':
        return {'n': '1' if v else '0'}
      if k in ('i', 'f'):
        return {'n': str(Fraction(v))}
    return {k: _numnorm(v) for k, v in j.items()}
  if isinstance(j, list):
    return [_numnorm(v) for v in j]
  return j


# ------------------------------------------------------------------ clients.Study.add_trial
def client_stage(c, cfg):
  from vcheck import svc
  from vizier import pyvizier as vz
  from vizier.service import pyvizier as svz
  from vizier._src.service import clients, vizier_client
  n_spaces = 6 if c.tier == 'quick' else 30
  per = 14 if c.tier == 'quick' else 25
  backends = [('ram', {'database_url': None}), ('sql', {'database_url': 'sqlite:///:memory:'})]
  reqs, meta = [], []
  saved = dict(vizier_client.environment_variables.servicer_kwargs)
  try:
    for bname, kw in backends:
      # the client reaches the local servicer through the cached factory keyed by NO_ENDPOINT
      vizier_client.environment_variables.servicer_kwargs = dict(kw)
      vizier_client._create_local_vizier_servicer.cache_clear()   # pylint: disable=protected-access
      for si in range(n_spaces):
        names = sl.name_stream(c.rng)
        conditional = si in (0, 1)
        # wire_safe: an INTEGER parameter with a bool bound/default cannot be written to the StudySpec proto (int64 field)
        nodes = [sl.gen_tree(c.rng, names, 2 if conditional else 1, p_child=1.0 if conditional else 0.0, wire_safe=True)
                 for _ in range(c.rng.randrange(1, 4))]
        if si == 1:
          # a conditional space whose ROOT parent is numeric (integer / discrete), next to a flat parameter
          nodes = [sl.gen_tree(c.rng, names, 2, kind=c.rng.choice(['int', 'discrete']), p_child=1.0, wire_safe=True),
                   sl.gen_tree(c.rng, names, 1, p_child=0.0, wire_safe=True)]
        try:
          ss = sl.build_space(nodes)
        except Exception:  # pylint: disable=broad-except
          continue
        sc = svz.StudyConfig(search_space=ss, algorithm='RANDOM_SEARCH')
        sc.metric_information.append(vz.MetricInformation(name='obj', goal=vz.ObjectiveMetricGoal.MAXIMIZE))
        study = clients.Study.from_study_config(sc, owner='o', study_id='c16_%s_%d_%d' % (bname, c.seed, si))
        dumped = sl.dump_space(ss)
        # the definition the service holds is the one that was given (what add_trial validates against)
        try:
          held = sl.dump_space(study.materialize_study_config().search_space)
        except Exception as e:  # pylint: disable=broad-except
          held = 'ERR:' + type(e).__name__
        c.count(1, kind='definition-read-back:' + bname)
        if _numnorm(held) != _numnorm(dumped):
          c.prop_fail('definition-changed-by-study-creation',
                      'the search space read back from the study differs from the definition it was created with (backend %s)' % bname,
                      {'backend': bname, 'defined': dumped, 'read_back': held})
        # what the client hands out is a VALUE: a caller that edits the materialised configuration (deriving the next
        # study from this one) must not change what add_trial on THIS study is validated against
        if si % 2 == 1:
          try:
            cfg2 = study.materialize_study_config()
            names = [pc.name for pc in cfg2.search_space.parameters]
            if names:
              cfg2.search_space.pop(names[0])
            cfg2.search_space.root.add_float_param('c16_added', 0.0, 1.0)
          except Exception:  # pylint: disable=broad-except
            pass
        for _ in range(per):
          a, kind = sl.gen_assignment(c.rng, dumped)
          before = len(list(study.trials().get()))
          real = _try(lambda: study.add_trial(vz.Trial(parameters=a)).id)
          after = len(list(study.trials().get()))
          c.traces += 1
          reqs.append(dict(cfg, op='contains', pcs=dumped, assign=sl.assign_json(a)))
          meta.append((bname, dumped, a, kind, real, after - before))
  finally:
    # never leave the default (a SQLite FILE inside the repo tree, constants.SQL_LOCAL_URL) behind
    vizier_client.environment_variables.servicer_kwargs = dict(saved, database_url=saved.get('database_url'))
    vizier_client._create_local_vizier_servicer.cache_clear()     # pylint: disable=protected-access
  for (bname, dumped, a, kind, real, delta), m in zip(meta, c.lean('C16', reqs)):
    case = {'backend': bname, 'space': dumped, 'assignment': {k: sl.tag(v) for k, v in a.items()}, 'kind': kind}
    c.count(1, ('client', json.dumps(case, sort_keys=True, default=str)), kind='add_trial:' + bname + ':' + kind)
    accepted = real[0] == 'ok'
    mm = m['model']
    model_accepts = mm.get('ok') is True
    if accepted != model_accepts:
      c.tie_break('clients.Study.add_trial guard', case, list(real), mm)
    # property: reaches the service only if inside the space; refused otherwise, nothing stored
    if accepted and not (m['spec'] and not m['conditional']):
      c.prop_fail('add-trial-outside-space-accepted', 'Study.add_trial stored a trial outside the space', case)
    if accepted and delta != 1:
      c.prop_fail('add-trial-not-stored', 'accepted trial changed the trial count by %d' % delta, case)
    if not accepted and delta != 0:
      c.prop_fail('add-trial-refused-but-stored', 'refused trial (%s) changed the trial count by %d' % (real[1], delta), case)
    if not accepted and m['spec'] and not m['conditional']:
      c.prop_fail('add-trial-inside-space-refused', 'Study.add_trial refused (%s) a trial inside a flat space' % real[1], case)
  svc.cleanup()


def run(c):
  c.proof_stage()
  from vcheck import svc  # noqa: F401  (installs the shims before vizier is imported)
  cfg = identify_flags(c)
  definitions_stage(c, cfg)
  spaces_stage(c, cfg)
  membership_stage(c, cfg)
  walk_stage(c, cfg)
  client_stage(c, cfg)
  return c.finish(
      level='proof',
      rule='definitions: non-trivial = carries an injected fault or conditional children; assignments: non-trivial = '
           'not the unmodified inside point (near-miss value, missing/extra key); walks: non-trivial = tree depth >= 2; '
           'every add_trial through the client counts',
      assumptions=[
          'Python ints are within +-2^53 or exactly representable as double (float(int) is exact in the model)',
          'strings handed to numeric coercions: only the error/None outcome is modelled (float("3") parsing is not)',
          'float defaults / integer bounds that are within 1e-9 relative of an integer but not integral are not generated (math.isclose boundary computed exactly in the model)',
          'scale_type and fidelity_config are passed through by the code unvalidated and are not modelled',
          'ParameterDict / SearchSpace are dicts: assignments and subspaces have unique keys',
      ])
