"""Shared by the C16 and C17 checks: value codec for the Lean search-space model,
dump of real ParameterConfig objects, type-directed generators of parameter
definitions (valid stream with at most one injected fault, malformed stream) and
the code that replays a definition on the real builders."""
import math

INF = float('inf')
NAN = float('nan')


# ------------------------------------------------------------------ codec
def enc(v):
  """Python value -> JSON value of the Lean `PVal` (exact)."""
  if isinstance(v, bool):
    return {'b': v}
  if isinstance(v, int):
    return {'i': str(v)}
  if isinstance(v, float):
    if math.isnan(v):
      return {'f': 'nan'}
    if math.isinf(v):
      return {'f': 'inf' if v > 0 else '-inf'}
    p, q = v.as_integer_ratio()
    return {'f': str(p) if q == 1 else '%d/%d' % (p, q)}
  if isinstance(v, str):
    return {'s': v}
  raise TypeError('not in the value zoo: %r' % (v,))


def dec(j):
  if j is None:
    return None
  if 'b' in j:
    return bool(j['b'])
  if 'i' in j:
    return int(j['i'])
  if 's' in j:
    return j['s']
  f = j['f']
  if f == 'nan':
    return NAN
  if f == 'inf':
    return INF
  if f == '-inf':
    return -INF
  if '/' in f:
    p, q = f.split('/')
    return int(p) / int(q)
  return float(int(f))


def tag(v):
  """Python value with its type tag, for printing / comparing presented values."""
  if isinstance(v, (list, tuple)):
    return [tag(x) for x in v]
  if isinstance(v, float) and v == 0:
    v = 0.0                       # signed zero is not modelled; -0.0 == 0.0 numerically
  return [type(v).__name__, repr(v)]


def enc_opt(v):
  return None if v is None else enc(v)


def dump_pc(pc):
  """A real ParameterConfig in the shape of the driver's `jsonOfPC`."""
  kids = []
  for value, sub in pc._children.items():    # pylint: disable=protected-access
    for child in sub.parameters:
      kids.append([enc(value), dump_pc(child)])
  b = pc._bounds                               # pylint: disable=protected-access
  fv = pc._feasible_values                     # pylint: disable=protected-access
  return {
      'name': pc.name, 'type': pc.type.name,
      'bounds': None if b is None else [enc(b[0]), enc(b[1])],
      'feasible': [enc(x) for x in (fv or [])],
      'default': enc_opt(pc.default_value),
      'ext': pc.external_type.name,
      'kids': kids,
  }


def dump_space(ss):
  return [dump_pc(p) for p in ss.parameters]


def all_pcs(dumped):
  """every config dump in a list of dumped trees, preorder"""
  out = []
  for p in dumped:
    out.append(p)
    out += all_pcs([kc[1] for kc in p['kids']])
  return out


def depth_of(dumped):
  return 0 if not dumped else 1 + max(depth_of([kc[1] for kc in p['kids']]) for p in dumped)


# ------------------------------------------------------------------ node specs
# A node is a dict: call, name, args (python values), children [(values, node)],
# plus 'fault' (None or a label of the single injected fault) on the root of a tree.

def node_json(n):
  j = {'call': n['call'], 'name': n['name'], 'default': enc_opt(n.get('default')),
       'index': n.get('index')}
  c = n['call']
  if c in ('float', 'int'):
    j['lo'], j['hi'] = enc(n['lo']), enc(n['hi'])
  elif c == 'discrete':
    j['feasible'] = [enc(x) for x in n['feasible']]
    j['auto_cast'] = n.get('auto_cast', True)
  elif c == 'categorical':
    j['feasible'] = [enc(x) for x in n['feasible']]
  elif c == 'bool':
    j['feasible'] = None if n.get('feasible') is None else [enc(x) for x in n['feasible']]
  elif c == 'factory':
    j['bounds'] = None if n.get('bounds') is None else [enc(x) for x in n['bounds']]
    j['feasible'] = None if n.get('feasible') is None else [enc(x) for x in n['feasible']]
    j['ext'] = n.get('ext', 'INTERNAL')
  j['children'] = [[[enc(v) for v in vals], node_json(ch)] for vals, ch in n.get('children', [])]
  return j


def created_name(n):
  return n['name'] if n.get('index') is None else '%s[%d]' % (n['name'], n['index'])


def _call_builder(sel, n):
  """One add_*_param call on a SearchSpaceSelector."""
  c = n['call']
  kw = {}
  if n.get('default') is not None:
    kw['default_value'] = n['default']
  if n.get('index') is not None and c != 'custom':
    kw['index'] = n['index']
  if c == 'float':
    return sel.add_float_param(n['name'], n['lo'], n['hi'], **kw)
  if c == 'int':
    return sel.add_int_param(n['name'], n['lo'], n['hi'], **kw)
  if c == 'discrete':
    return sel.add_discrete_param(n['name'], n['feasible'], auto_cast=n.get('auto_cast', True), **kw)
  if c == 'categorical':
    return sel.add_categorical_param(n['name'], n['feasible'], **kw)
  if c == 'bool':
    return sel.add_bool_param(n['name'], n.get('feasible'), **kw)
  if c == 'custom':
    return sel.add_custom_param(n['name'], **kw)
  raise ValueError(c)


def build_factory_pc(n):
  """ParameterConfig.factory(..., children=[(values, child)]) bottom-up."""
  from vizier._src.pyvizier.shared import parameter_config as pcm
  kids = [(list(vals), build_pc(ch)) for vals, ch in n.get('children', [])]
  b = n.get('bounds')
  return pcm.ParameterConfig.factory(
      n['name'], bounds=None if b is None else tuple(b),
      feasible_values=n.get('feasible'), children=kids or None,
      default_value=n.get('default'),
      external_type=getattr(pcm.ExternalType, n.get('ext', 'INTERNAL')))


def add_node(sel, n, probe=None):
  """Add node `n` (and its subtree) to every space selected by `sel`.  `probe()` (if given) is called
  after every builder call: a space may be READ at any point of its construction."""
  if n['call'] == 'factory':
    pc = build_factory_pc(n)
    sel._add_parameters([pc])                  # pylint: disable=protected-access
    if probe:
      probe()
    return
  ret = _call_builder(sel, n)
  if probe:
    probe()
  name = created_name(n)
  # the three documented, equivalent ways of reaching the subspace(s) of the parameter just created
  # (root.select(name, values) / root.select(name).select_values(values) / the selector the builder
  # returned); the choice is a function of the definition so that a replay rebuilds the same calls
  style = (sum(map(ord, name)) + len(n.get('children', []))) % 3
  for vals, ch in n.get('children', []):
    if style == 0 or (style == 2 and ret is None):
      sub = sel.select(name, list(vals))
    else:
      try:
        sub = (sel.select(name) if style == 1 else ret).select_values(list(vals))
      except ValueError:
        # select_values validates first and reports every refusal as ValueError; the class of the
        # refusal the model predicts is the one of select(name, values).  If THAT accepts the values
        # the documented equivalents disagree and the refusal stands.
        sel.select(name, list(vals))
        raise
    add_node(sub, ch, probe)


def build_pc(n):
  """The real ParameterConfig of one node (built in a scratch space for builder calls)."""
  from vizier._src.pyvizier.shared import parameter_config as pcm
  if n['call'] == 'factory':
    return build_factory_pc(n)
  ss = pcm.SearchSpace()
  add_node(ss.root, n)
  return ss.parameters[0]


def build_space(nodes, probed=False):
  """`probed`: read the space (is_conditional, contains, parameter listing, default walk) after every
  builder call - reads must not change what the finished space answers."""
  from vizier._src.pyvizier.shared import parameter_config as pcm
  ss = pcm.SearchSpace()

  def probe():
    for f in (lambda: ss.is_conditional, lambda: ss.contains({}), lambda: [p.name for p in ss.parameters],
              lambda: ss.num_parameters(), lambda: ss.parameter_names):
      try:
        f()
      except Exception:  # pylint: disable=broad-except
        pass
  for n in nodes:
    add_node(ss.root, n, probe if probed else None)
  return ss


def exc_class(e):
  """error classes as the model names them"""
  from vizier._src.pyvizier.shared import parameter_config as pcm
  if isinstance(e, pcm.InvalidParameterError):
    return 'InvalidParameterError'
  for cls in (NotImplementedError, OverflowError, IndexError, KeyError, RuntimeError, TypeError, ValueError):
    if isinstance(e, cls):
      return cls.__name__
  return type(e).__name__


def err_matches(real_cls, model_cls):
  if model_cls == 'TypeOrValueError':
    return real_cls in ('TypeError', 'ValueError')
  return real_cls == model_cls


# ------------------------------------------------------------------ generators
NAMES = ['a', 'b', 'c', 'x', 'y', 'lr', 'units', 'é']
CATS = ['a', 'b', 'c', 'True', 'False', '3', '3.0', 'é', 'A', '']
FLOATS = [0.0, 1.0, -1.5, 0.5, 2.5, 3.0, 4.0, 1e-3, 7.25, 100.0, -0.0]
INTS = [-2, -1, 0, 1, 2, 3, 5, 10]


def ulp_up(x):
  return math.nextafter(x, INF)


def ulp_down(x):
  return math.nextafter(x, -INF)


def gen_leaf(rng, name, kind=None, allow_custom=False, wire_safe=False):
  """A valid builder call (no fault)."""
  kinds = ['float', 'int', 'discrete', 'categorical', 'bool', 'factory']
  if allow_custom and rng.random() < 0.05:
    return {'call': 'custom', 'name': name}
  k = kind or rng.choice(kinds)
  n = {'call': k, 'name': name}
  if rng.random() < 0.15 and k != 'factory':
    n['index'] = rng.randrange(0, 3)
  if k == 'float':
    lo = rng.choice(FLOATS + INTS)
    hi = lo + rng.choice([0, 1, 2.5, 10])
    n['lo'], n['hi'] = lo, hi
    if rng.random() < 0.3:
      n['default'] = rng.choice([lo, hi, float(lo), 0.25, 17])
  elif k == 'int':
    lo = rng.choice(INTS)
    hi = lo + rng.choice([0, 1, 3, 7])
    if rng.random() < 0.2:
      lo, hi = float(lo), float(hi)           # integral floats are accepted
    if rng.random() < 0.1 and not wire_safe:
      lo, hi = bool(rng.getrandbits(1)), True
      lo = min(lo, hi)
    n['lo'], n['hi'] = lo, hi
    if rng.random() < 0.3:
      n['default'] = rng.choice([int(lo), int(hi), float(int(lo)), 42] + ([] if wire_safe else [True]))
      if rng.random() < 0.25:
        # the integer as float arithmetic delivers it: one ulp below the upper / above the lower bound
        # (4.35 * 100 == 434.99999999999994); such a float stands for the integer and is accepted
        import math
        cand = [math.nextafter(float(int(hi)), -math.inf)] * (int(hi) != 0) + [math.nextafter(float(int(lo)), math.inf)] * (int(lo) != 0)
        if cand:
          n['default'] = rng.choice(cand)
  elif k == 'discrete':
    pool = rng.choice([INTS, FLOATS[:8], INTS + FLOATS[:8], [0, 1, 2, 3.0, 4.0], [True, 2, 3.5]])
    vals = []
    for v in rng.sample(pool, min(len(pool), rng.randrange(1, 5))):
      if not any(v == w for w in vals):
        vals.append(v)
    n['feasible'] = vals
    n['auto_cast'] = rng.random() < 0.7
    if rng.random() < 0.3:
      n['default'] = rng.choice(vals + [9, 0.75])
  elif k == 'categorical':
    n['feasible'] = rng.sample(CATS, rng.randrange(1, 5))
    if rng.random() < 0.3:
      n['default'] = rng.choice(n['feasible'] + ['zzz'])
  elif k == 'bool':
    n['feasible'] = rng.choice([None, None, [True], [False], [True, False], [False, True], (1, 0)])
    if rng.random() < 0.3:
      n['default'] = rng.choice([True, False])
  elif k == 'factory':
    sub = rng.choice(['int', 'double', 'discrete', 'categorical'])
    n['ext'] = rng.choice(['INTERNAL', 'INTERNAL', 'BOOLEAN', 'INTEGER', 'FLOAT'])
    if sub == 'int':
      lo = rng.choice(INTS)
      n['bounds'] = [lo, lo + rng.choice([0, 1, 4])]
      n['feasible'] = rng.choice([None, []])
    elif sub == 'double':
      lo = rng.choice(FLOATS)
      n['bounds'] = [lo, lo + rng.choice([0.0, 0.5, 3.0])]
    elif sub == 'discrete':
      n['feasible'] = rng.sample(INTS + FLOATS[1:6], rng.randrange(1, 5))
      n['feasible'] = [v for i, v in enumerate(n['feasible']) if not any(v == w for w in n['feasible'][:i])]
      n['bounds'] = rng.choice([None, ()])
    else:
      n['feasible'] = rng.sample(CATS, rng.randrange(1, 4))
  return n


def feasible_points(n, rng, k=2):
  """some feasible parent values of the (valid) node n, as the user would write them"""
  c = n['call']
  if c == 'float' or c == 'custom' or (c == 'factory' and n.get('bounds') and isinstance(n['bounds'][0], float)):
    return []
  if c == 'int' or (c == 'factory' and n.get('bounds')):
    lo, hi = (n['lo'], n['hi']) if c == 'int' else n['bounds']
    lo, hi = int(lo), int(hi)
    pts = list(range(lo, min(hi, lo + 3) + 1))
  elif c == 'bool':
    fv = n.get('feasible')
    pts = ['True', 'False'] if fv is None else ['True' if x else 'False' for x in fv]
  else:
    pts = list(n['feasible'])
  rng.shuffle(pts)
  return pts[:k]


def gen_tree(rng, name_iter, depth, kind=None, allow_custom=False, p_child=0.6, wire_safe=False):
  """A valid (conditional) definition of depth <= `depth` with distinct names."""
  n = gen_leaf(rng, next(name_iter), kind, allow_custom, wire_safe)
  if depth > 1 and rng.random() < p_child:
    pts = feasible_points(n, rng, 3)
    if pts:
      children = []
      for _ in range(rng.randrange(1, 3)):
        vals = rng.sample(pts, rng.randrange(1, len(pts) + 1))
        # users may write a bool / float for a categorical / integer parent
        if n['call'] == 'bool' and rng.random() < 0.3:
          vals = [v == 'True' for v in vals]
        if n['call'] == 'int' and rng.random() < 0.3:
          vals = [float(v) for v in vals]
        try:
          vals = sorted(vals)
        except TypeError:
          pass
        children.append((vals, gen_tree(rng, name_iter, depth - 1, None, False, p_child, wire_safe)))
      n['children'] = children
  return n


def name_stream(rng, prefix=''):
  i = 0
  base = list(NAMES)
  rng.shuffle(base)
  while True:
    yield prefix + (base[i] if i < len(base) else 'p%d' % i)
    i += 1


def nodes_of(n):
  out = [n]
  for _, ch in n.get('children', []):
    out += nodes_of(ch)
  return out


# faults of the *valid-typed* stream: arguments of the documented types whose
# combination is invalid; the model predicts the error class exactly.
# (label, listed) -- listed = the property text lists this class as "must be rejected"
def inject_fault(rng, root):
  """Mutates one node of the tree; returns (label, listed_in_property) or None."""
  n = rng.choice(nodes_of(root))
  c = n['call']
  opts = ['empty-name']
  if c in ('float', 'int'):
    opts += ['reversed-bounds', 'nonfinite-bounds', 'negative-index']
    if c == 'int':
      opts += ['fractional-int-bound', 'fractional-int-default', 'str-default']
    else:
      opts += ['str-default', 'children-under-double']
  elif c == 'discrete':
    opts += ['duplicate-feasible', 'nonfinite-feasible', 'str-default', 'negative-index']
  elif c == 'categorical':
    opts += ['duplicate-feasible', 'numeric-default', 'nonstr-category', 'negative-index']
  elif c == 'bool':
    opts += ['bad-bool-feasible', 'negative-index']
  elif c == 'factory':
    opts += ['both-bounds-and-feasible', 'mixed-feasible', 'mixed-bounds']
    if n.get('feasible'):
      opts += ['duplicate-feasible']
    if n.get('bounds'):
      opts += ['reversed-bounds', 'nonfinite-bounds', 'bounds-length-3']
  if n.get('children'):
    opts += ['infeasible-parent-value', 'duplicate-child-name', 'illtyped-parent-value']
  f = rng.choice(opts)
  listed = f in ('empty-name', 'reversed-bounds', 'nonfinite-bounds', 'duplicate-feasible',
                 'nonfinite-feasible', 'children-under-double', 'duplicate-child-name')
  if f == 'empty-name':
    if n.get('index') is not None:
      n.pop('index')                # '' with an index is named '[i]' by the code, not empty
    n['name'] = ''
  elif f == 'reversed-bounds':
    if c == 'factory':
      lo, hi = n['bounds']
      n['bounds'] = [hi + (1 if isinstance(hi, int) else 0.5), lo]
    else:
      n['lo'], n['hi'] = n['hi'] + 1, n['lo']
      if c == 'int':
        n['lo'], n['hi'] = int(n['lo']), int(n['hi'])
        n.pop('default', None)
  elif f == 'nonfinite-bounds':
    bad = rng.choice([INF, -INF, NAN])
    if c == 'factory':
      if isinstance(n['bounds'][0], int):
        n['bounds'] = [float(n['bounds'][0]), float(n['bounds'][1])]
      n['bounds'][rng.randrange(2)] = bad
    elif c == 'float':
      n[rng.choice(['lo', 'hi'])] = bad
    else:
      n[rng.choice(['lo', 'hi'])] = bad    # int(inf) OverflowError / int(nan) ValueError
  elif f == 'negative-index':
    n['index'] = -rng.randrange(1, 3)
  elif f == 'fractional-int-bound':
    n[rng.choice(['lo', 'hi'])] = rng.choice([0.5, 2.25, -1.5])
    n.pop('default', None)
  elif f == 'fractional-int-default':
    n['default'] = rng.choice([0.5, 2.25])
  elif f == 'str-default':
    n['default'] = 'oops'
  elif f == 'numeric-default':
    n['default'] = rng.choice([1, 2.5, True])
  elif f == 'children-under-double':
    n['index'] = None
    n['children'] = [([rng.choice([n['lo'], 0.5])], gen_leaf(rng, 'kid'))]
  elif f == 'duplicate-feasible':
    fv = list(n['feasible'])
    d = rng.choice(fv)
    if isinstance(d, (int, float)) and not isinstance(d, bool) and d == int(d) and rng.random() < 0.5:
      d = float(d) if isinstance(d, int) else int(d)       # 1 and 1.0 are duplicates
    fv.insert(rng.randrange(len(fv) + 1), d)
    n['feasible'] = fv
    n.pop('default', None)
  elif f == 'nonfinite-feasible':
    n['feasible'] = list(n['feasible']) + [rng.choice([INF, -INF])]
    n['auto_cast'] = False                                  # round(inf) would raise OverflowError first
  elif f == 'nonstr-category':
    n['feasible'] = list(n['feasible']) + [rng.choice([1, 2.5, True])]
  elif f == 'bad-bool-feasible':
    n['feasible'] = rng.choice([[True, True], [], [True, False, True], [2], ['True']])
    if n['feasible'] == []:
      pass
  elif f == 'both-bounds-and-feasible':
    n['bounds'] = [0, 1]
    n['feasible'] = [0, 1]
    n.pop('default', None)
  elif f == 'mixed-feasible':
    n['bounds'] = None
    n['feasible'] = [1, 'a']
    n.pop('default', None)
    n.pop('children', None)
  elif f == 'mixed-bounds':
    n['feasible'] = None
    n['bounds'] = rng.choice([[0, 1.0], [0.0, 1], ['a', 'b']])
    n.pop('default', None)
    n.pop('children', None)
  elif f == 'bounds-length-3':
    n['bounds'] = list(n['bounds']) + [n['bounds'][1]]
  elif f == 'infeasible-parent-value':
    vals, ch = n['children'][0]
    if c in ('categorical', 'bool') or (c == 'factory' and n.get('feasible') and isinstance(n['feasible'][0], str)):
      bad = 'nope'
    else:
      bad = 12345
    n['children'][0] = ([bad], ch)
  elif f == 'illtyped-parent-value':
    vals, ch = n['children'][0]
    if c in ('categorical', 'bool') or (c == 'factory' and n.get('feasible') and isinstance(n['feasible'][0], str)):
      bad = 7
    else:
      bad = 0.123
      if c == 'discrete' or (c == 'factory' and n.get('feasible')):
        f = 'infeasible-parent-value'     # a float is the right type for DISCRETE: merely infeasible
    n['children'][0] = ([bad], ch)
  elif f == 'duplicate-child-name':
    vals, ch = n['children'][0]
    twin = gen_leaf(rng, created_name(ch))
    twin.pop('index', None)
    twin['name'] = created_name(ch)
    n['children'].append((list(vals), twin))
  return f, listed


def gen_malformed(rng):
  """Definitions outside the documented argument types; the only oracle is
  'refused with an error' (every case here is one the code must refuse)."""
  k = rng.choice(['str-bounds', 'nan-feasible', 'nan-parent', 'bounds-len1', 'bounds-list',
                  'mixed-sort', 'str-int-bound', 'inf-discrete-autocast', 'nan-default-int'])
  if k == 'str-bounds':
    return k, {'call': 'float', 'name': 'x', 'lo': 'abc', 'hi': 1.0}
  if k == 'nan-feasible':
    return k, {'call': rng.choice(['discrete', 'factory']), 'name': 'x', 'feasible': [1.0, NAN, 2.0],
               'auto_cast': rng.random() < 0.5}
  if k == 'nan-parent':
    return k, {'call': 'discrete', 'name': 'x', 'feasible': [1.0, 2.0],
               'children': [([NAN], {'call': 'float', 'name': 'k', 'lo': 0.0, 'hi': 1.0})]}
  if k == 'bounds-len1':
    return k, {'call': 'factory', 'name': 'x', 'bounds': [1]}
  if k == 'bounds-list':
    return k, {'call': 'factory', 'name': 'x', 'bounds': [0, 1], 'as_list': True}
  if k == 'mixed-sort':
    return k, {'call': 'discrete', 'name': 'x', 'feasible': [1, 'a'], 'auto_cast': False}
  if k == 'str-int-bound':
    return k, {'call': 'int', 'name': 'x', 'lo': 'abc', 'hi': 3}
  if k == 'inf-discrete-autocast':
    return k, {'call': 'discrete', 'name': 'x', 'feasible': [1.0, INF], 'auto_cast': True}
  return k, {'call': 'int', 'name': 'x', 'lo': 0, 'hi': 3, 'default': NAN}


# ------------------------------------------------------------------ assignments
def inside_value(rng, d):
  """a value inside the domain of the dumped config d (as a user would write it)"""
  t = d['type']
  if t == 'DOUBLE':
    lo, hi = dec(d['bounds'][0]), dec(d['bounds'][1])
    return rng.choice([lo, hi, lo + (hi - lo) * rng.random()])
  if t == 'INTEGER':
    lo, hi = int(dec(d['bounds'][0])), int(dec(d['bounds'][1]))
    v = rng.randint(lo, hi)
    return rng.choice([v, v, float(v)])
  if t == 'DISCRETE':
    v = dec(rng.choice(d['feasible']))
    if not isinstance(v, bool) and v == int(v) and rng.random() < 0.4:
      v = int(v) if isinstance(v, float) else float(v)
    return v
  if t == 'CATEGORICAL':
    v = dec(rng.choice(d['feasible']))
    if v in ('True', 'False') and rng.random() < 0.4:
      return v == 'True'
    return v
  return 0


def near_miss(rng, d):
  """a value at or just across the edge of the domain of d, or of the wrong type"""
  t = d['type']
  generic = [NAN, INF, -INF, 'True', True, False, 1, 0, '3', 3, 3.0, '', 'abc', 2 ** 60]
  if t in ('DOUBLE', 'INTEGER'):
    lo, hi = dec(d['bounds'][0]), dec(d['bounds'][1])
    edge = [lo, hi, lo - 1, hi + 1, float(lo), float(hi), ulp_down(float(lo)), ulp_up(float(hi)),
            ulp_up(float(lo)), ulp_down(float(hi)), lo + 0.5, str(lo), bool(lo)]
    if t == 'INTEGER':
      edge += [int(lo), int(hi), float(int(hi)), int(hi) + 1.0, int(lo) - 1.0, int(lo) + 1e-9]
    return rng.choice(edge + generic)
  if t == 'DISCRETE':
    f = dec(rng.choice(d['feasible']))
    edge = [f, float(f), ulp_up(float(f)), ulp_down(float(f)), f + 1, str(f)]
    if float(f) == int(f):
      edge += [int(f), bool(f) if f in (0, 1) else int(f)]
    return rng.choice(edge + generic)
  if t == 'CATEGORICAL':
    f = dec(rng.choice(d['feasible']))
    edge = [f, f + 'x', f.lower(), f.upper()]
    if f in ('True', 'False'):
      edge += [f == 'True', not (f == 'True'), 1 if f == 'True' else 0, 1.0]
    try:
      edge += [int(f), float(f)]
    except ValueError:
      pass
    return rng.choice(edge + generic)
  return rng.choice(generic)


def gen_assignment(rng, dumped):
  """(assignment dict, kind) for a flat list of dumped configs"""
  a = {d['name']: inside_value(rng, d) for d in dumped}
  r = rng.random()
  kind = 'inside'
  if r < 0.25 or not dumped:
    pass
  elif r < 0.65:
    d = rng.choice(dumped)
    a[d['name']] = near_miss(rng, d)
    kind = 'near-miss'
  elif r < 0.75:
    a.pop(rng.choice(dumped)['name'])
    kind = 'missing-key'
  elif r < 0.85:
    a['extra_' + rng.choice(NAMES)] = rng.choice([1, 0.5, 'a'])
    kind = 'extra-key'
  elif r < 0.93:
    a.pop(rng.choice(dumped)['name'])
    a['extra_' + rng.choice(NAMES)] = rng.choice([1, 0.5, 'a'])
    kind = 'missing+extra'
  else:
    for d in rng.sample(dumped, min(2, len(dumped))):
      a[d['name']] = near_miss(rng, d)
    kind = 'near-miss-2'
  return a, kind


def assign_json(a):
  return [[k, enc(v)] for k, v in a.items()]
