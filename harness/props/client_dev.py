"""Stand-alone runner of the client-layer stage (vcheck/clientcheck.py) while it is not yet wired into C01 / C02 / C06.

  /venv/bin/python harness/props/client_dev.py [--tier quick|thorough] [--seed N] [--props C01,C02,C06]

Proof stage over lean/theorems/Client.json, then `clientcheck.stage` once per property.  Evidence goes to
evidence/Client.json, replays to replays/Client/ (the Check object is built with the id of the first property for its
random stream and then renamed, so nothing of C01 / C02 / C06 is overwritten)."""
import json
import os
import sys

HERE = os.path.dirname(os.path.dirname(os.path.abspath(__file__)))
sys.path.insert(0, HERE)
os.environ.setdefault('GRPC_VERBOSITY', 'NONE')
os.environ.setdefault('TF_CPP_MIN_LOG_LEVEL', '3')
os.environ.setdefault('JAX_PLATFORMS', 'cpu')
os.environ.setdefault('PYTHONHASHSEED', '0')

from vcheck import core  # noqa: E402


def run(c, props=('C01', 'C02', 'C06')):
  import time
  from vcheck import clientcheck
  c.theorems = json.load(open(os.path.join(core.LEAN_DIR, 'theorems', 'Client.json')))
  c.proof_stage()
  walls = {}
  for p in props:
    t = time.time()
    n = clientcheck.stage(c, p)
    walls[p] = round(time.time() - t, 1)
    print('stage %s: %d programs, %.1f s, tie breaks so far %d, violations so far %d' % (p, n, walls[p], len(c.tie_breaks), len(c.violations)))
  c.coverage_extra['stage_wall_s'] = walls
  return c.finish(
      level='proof',
      rule='client-level programs (one clients.Study handle, three workers, infeasible reasons None/""/"bad"/" ", missing / deleted ids, '
           'inactive / completed / deleted studies, scripted algorithm ok n-2..n+3 | raise) on the real client library over the in-process '
           'servicer (RAM, SQLite memory) vs Drivers/Client.lean per step (observation, RPCs issued, stored data); non-trivial = program '
           'with >= 1 error observation mixing >= 2 of suggest/complete/delete_trial/request/add_trial/check_early_stopping',
      assumptions=['in-process deployment only (remote transports are C08)', 'timestamps and messages are not compared; errors by class'])


def main():
  import argparse
  try:
    from absl import logging as absl_logging
    absl_logging.set_verbosity(absl_logging.FATAL)
    absl_logging.set_stderrthreshold('fatal')
    import logging
    logging.disable(logging.CRITICAL)
  except Exception:  # pylint: disable=broad-except
    pass
  ap = argparse.ArgumentParser()
  ap.add_argument('--tier', default=None)
  ap.add_argument('--seed', default=None)
  ap.add_argument('--props', default='C01,C02,C06')
  a = ap.parse_args()
  props = [p for p in a.props.split(',') if p]
  c = core.Check(props[0], a.tier, a.seed)
  c.pid = 'Client'
  c.known = [e for e in core.load_known_findings() if e['property'] == 'Client' and e.get('status') == 'known']
  try:
    code = run(c, props)
  except core.InfraError as e:
    print('INFRA-ERROR property=Client %s' % e, file=sys.stderr)
    sys.exit(2)
  sys.exit(code)


if __name__ == '__main__':
  main()
