"""C04 — concurrent clients: every interleaving is equivalent to a serial order.

Real-code part: a deterministic scheduler (vcheck/sched.py) runs pairs of RPCs on the real
VizierServicer under EVERY interleaving of datastore calls and service-lock acquisitions, after
several prefixes; each outcome (responses by class + full snapshot, trial ids created during the
run renamed canonically, early-stopping answers dropped) must equal the outcome of one of the two
serial orders."""
import concurrent.futures
import copy
import itertools
import json
import multiprocessing
import os

from vcheck import core, svc, svcreal

PREFIX_A = [
    {'op': 'createStudy', 'display': 's', 'state': 'ACTIVE', 'md': [['', 'k0', 'v0']]},
    {'op': 'suggest', 'client': 'w1', 'count': 2, 'alg': {'kind': 'ok', 'sugg': [{'params': 1, 'md': []}, {'params': 2, 'md': []}, {'params': 3, 'md': []}], 'delta': []}},
    {'op': 'createTrial', 'trial': {'state': 'SUCCEEDED', 'params': 4, 'meas': [], 'final': [4, True], 'md': []}},
]   # trials: 1 ACTIVE w1, 2 ACTIVE w1, 3 REQUESTED, 4 SUCCEEDED
PREFIX_B = [
    {'op': 'createStudy', 'display': 's', 'state': 'ACTIVE'},
]   # empty study
PREFIX_C = [
    {'op': 'createStudy', 'display': 's', 'state': 'ACTIVE'},
    {'op': 'suggest', 'client': 'w1', 'count': 1, 'alg': {'kind': 'ok', 'sugg': [{'params': 1, 'md': []}], 'delta': []}},
    {'op': 'suggest', 'client': 'w2', 'count': 1, 'alg': {'kind': 'ok', 'sugg': [{'params': 2, 'md': []}], 'delta': []}},
    {'op': 'addMeasurement', 'id': 1, 'm': [5, True]},
]   # trials: 1 ACTIVE w1 (one measurement), 2 ACTIVE w2
_DONE = lambda p: {'state': 'SUCCEEDED', 'params': p, 'meas': [], 'final': [p, True], 'md': []}
PREFIX_D = [
    {'op': 'createStudy', 'display': 's', 'state': 'ACTIVE'},
    {'op': 'createStudy', 'display': 't', 'state': 'ACTIVE'},
    {'op': 'createTrial', 'trial': _DONE(1)}, {'op': 'createTrial', 'trial': _DONE(2)},
    {'op': 'createTrial', 'sid': 't', 'trial': _DONE(11)}, {'op': 'createTrial', 'sid': 't', 'trial': _DONE(12)},
    {'op': 'createTrial', 'sid': 't', 'trial': _DONE(13)}, {'op': 'createTrial', 'sid': 't', 'trial': _DONE(14)},
]   # TWO studies of one owner with 2 and 4 completed trials, no algorithm state yet: their first suggestions are independent
PREFIX_E = [
    {'op': 'createStudy', 'display': 's', 'state': 'ACTIVE'},
    {'op': 'createTrial', 'trial': {'state': 'REQUESTED', 'params': 1, 'meas': [], 'final': None, 'md': []}},
    {'op': 'suggest', 'client': 'w1', 'count': 1, 'alg': {'kind': 'ok', 'sugg': [], 'delta': []}},     # takes the queued trial: no algorithm call
]   # trial 1 is the study's ONLY ACTIVE trial (used with the service's own early-stopping algorithm)
PREFIX_F = [
    {'op': 'createStudy', 'display': 's', 'state': 'ACTIVE', 'algorithm': 'GRID_SEARCH'},
    {'op': 'suggest', 'client': 'w0', 'count': 1, 'alg': {'kind': 'ok', 'sugg': [], 'delta': []}},
    {'op': 'complete', 'id': 1, 'final': [3, True]},
]   # a GRID_SEARCH study served by the service's OWN policy factory (deterministic algorithm, persisted state)
PREFIXES = {'A': PREFIX_A, 'B': PREFIX_B, 'C': PREFIX_C, 'D': PREFIX_D, 'E': PREFIX_E, 'F': PREFIX_F}


def S(n, base, delta=None):
  return {'kind': 'ok', 'sugg': [{'params': base + i, 'md': []} for i in range(n)], 'delta': delta or []}


# request templates: name -> (kind, request)
REQS = {
    'suggestNew': ('SuggestTrials', {'op': 'suggest', 'client': 'w3', 'count': 2, 'alg': S(2, 100)}),
    'suggestNew2': ('SuggestTrials', {'op': 'suggest', 'client': 'w4', 'count': 1, 'alg': S(2, 200)}),
    'suggestMd': ('SuggestTrials', {'op': 'suggest', 'client': 'w5', 'count': 1, 'alg': S(1, 300, [{'t': None, 'kv': [':algo', 'state', 'x']}, {'t': 1, 'kv': [':algo', 'seen', 'y']}])}),
    'suggestOwn': ('SuggestTrials', {'op': 'suggest', 'client': 'w1', 'count': 1, 'alg': S(1, 400)}),
    'createTrial': ('CreateTrial', {'op': 'createTrial', 'trial': {'state': 'REQUESTED', 'params': 50, 'meas': [], 'final': None, 'md': []}}),
    'createTrial2': ('CreateTrial', {'op': 'createTrial', 'trial': {'state': 'SUCCEEDED', 'params': 51, 'meas': [], 'final': [9, True], 'md': []}}),
    'complete1': ('CompleteTrial', {'op': 'complete', 'id': 1, 'final': [7, True]}),
    'complete1inf': ('CompleteTrial', {'op': 'complete', 'id': 1, 'final': None, 'infeasible': True, 'reason': 'bad'}),
    'complete2': ('CompleteTrial', {'op': 'complete', 'id': 2, 'final': [8, True]}),
    'measure1': ('AddTrialMeasurement', {'op': 'addMeasurement', 'id': 1, 'm': [6, True]}),
    'measure1b': ('AddTrialMeasurement', {'op': 'addMeasurement', 'id': 1, 'm': [66, True]}),
    'stop1': ('StopTrial', {'op': 'stop', 'id': 1}),
    'delete1': ('DeleteTrial', {'op': 'deleteTrial', 'id': 1}),
    'deleteStudy': ('DeleteStudy', {'op': 'deleteStudy'}),
    'mdStudy': ('UpdateMetadata', {'op': 'updateMetadata', 'us': [{'t': None, 'kv': ['', 'k', 'v']}]}),
    'mdTrial1': ('UpdateMetadata', {'op': 'updateMetadata', 'us': [{'t': 1, 'kv': ['', 'k', 'v']}]}),
    'mdTrial3': ('UpdateMetadata', {'op': 'updateMetadata', 'us': [{'t': 3, 'kv': ['', 'k', 'v']}]}),      # trial 3 of prefix A waits in the REQUESTED pool
    'mdStudyK0': ('UpdateMetadata', {'op': 'updateMetadata', 'us': [{'t': None, 'kv': ['', 'k0', 'v1']}]}),   # overwrites the key prefix A created
    'delete3': ('DeleteTrial', {'op': 'deleteTrial', 'id': 3}),
    'mdBoth': ('UpdateMetadata', {'op': 'updateMetadata', 'us': [{'t': None, 'kv': ['', 'k', 'w']}, {'t': 1, 'kv': ['', 'k', 'w']}]}),
    'setInactive': ('SetStudyState', {'op': 'setStudyState', 'state': 'INACTIVE'}),
    'setActive': ('SetStudyState', {'op': 'setStudyState', 'state': 'ACTIVE'}),
    'createStudyS': ('CreateStudy', {'op': 'createStudy', 'display': 's', 'state': 'ACTIVE'}),
    'createStudyT': ('CreateStudy', {'op': 'createStudy', 'display': 't', 'state': 'ACTIVE'}),
    'mdMissing': ('UpdateMetadata', {'op': 'updateMetadata', 'us': [{'t': None, 'kv': ['', 'k', 'm']}, {'t': 99, 'kv': ['', 'k', 'm']}]}),
    'suggestPool': ('SuggestTrials', {'op': 'suggest', 'client': 'w6', 'count': 1, 'alg': S(1, 500)}),
    # the study named by a string that is not its canonical name ('owners/o/studies/s/'): refused today; if a name
    # parser ever accepts it, the servicer's per-study locks (keyed by the request string) and the datastore
    # (keyed by the parsed name) disagree about which study it is
    'mdStudyAlias': ('UpdateMetadata', {'op': 'updateMetadata', 'sid': 's/', 'us': [{'t': None, 'kv': ['', 'k', 'a']}]}),
    'createTrialAlias': ('CreateTrial', {'op': 'createTrial', 'sid': 's/', 'trial': {'state': 'REQUESTED', 'params': 52, 'meas': [], 'final': None, 'md': []}}),
    'setInactiveAlias': ('SetStudyState', {'op': 'setStudyState', 'sid': 's/', 'state': 'INACTIVE'}),
    # another study of the same owner (prefix D): RPCs on different studies take different locks, so anything they
    # share inside the process (a policy's loader, a cache) is exposed to every interleaving
    'suggestOnT': ('SuggestTrials', {'op': 'suggest', 'sid': 't', 'client': 'w7', 'count': 1, 'alg': S(1, 600)}),
    'createTrialOnT': ('CreateTrial', {'op': 'createTrial', 'sid': 't', 'trial': {'state': 'REQUESTED', 'params': 53, 'meas': [], 'final': None, 'md': []}}),
    'earlyStop1': ('CheckTrialEarlyStoppingState', {'op': 'checkEarlyStop', 'id': 1, 'es': {'kind': 'ok', 'decisions': [[1, True]], 'delta': []}}),
}


def canon(run, before):
  """Outcome up to renumbering of the trials created during the run; early-stop answers dropped."""
  if run.get('deadlock'):
    return 'DEADLOCK'
  old_ids = set()
  for st in before['studies']:
    old_ids |= {(st['owner'], st['sid'], t['id']) for t in st['trials']}
  final = copy.deepcopy(run['final'])
  ren = {}
  # the trials created during the run, wherever they are still visible: in the final state, or - when their study
  # was deleted during the run - only in the responses (trials handed out / created carry their parameter token)
  newp = {}
  for st in final['studies']:
    key = (st['owner'], st['sid'])
    for t in st['trials']:
      if (key[0], key[1], t['id']) not in old_ids:
        newp.setdefault(key, {})[t['id']] = t['params']
  for r in run['resps']:
    if isinstance(r, dict):
      key = ('o', 's')
      seen = list(r.get('handed', [])) if r.get('k') == 'op' else ([r['v']] if (r.get('k') == 'trial' and isinstance(r.get('v'), dict)) else [])
      for t in seen:
        if isinstance(t, dict) and 'id' in t and 'params' in t and (key[0], key[1], t['id']) not in old_ids:
          newp.setdefault(key, {}).setdefault(t['id'], t['params'])
  for key, d in newp.items():
    base = max([i for (o, s, i) in old_ids if (o, s) == key] + [0])
    for j, (tid, _) in enumerate(sorted(d.items(), key=lambda kv: (kv[1], kv[0]))):
      ren[(key, tid)] = base + 1 + j
  def rid(key, i):
    return ren.get((key, i), i)
  for st in final['studies']:
    key = (st['owner'], st['sid'])
    for t in st['trials']:
      t['id'] = rid(key, t['id'])
    st['trials'].sort(key=lambda t: t['id'])
    for o in st['ops']:
      if isinstance(o['result'], list):
        o['result'] = [rid(key, i) for i in o['result']]
    for e in st['es']:
      e['trial'] = rid(key, e['trial'])
      e.pop('stop', None)
    st['es'].sort(key=lambda e: e['trial'])
  # what the property compares of a response: success or error class, and the trials handed out
  resps = []
  for r in run['resps']:
    if r is None:
      resps.append('NO-RESPONSE')
      continue
    k = r.get('k')
    key = ('o', 's')
    if k == 'err':
      code = r['code']
      resps.append({'err': code if code in ('FAILED_PRECONDITION', 'NOT_FOUND', 'ALREADY_EXISTS') else 'OTHER:' + code})
    elif k == 'mdError':
      resps.append({'err': 'NOT_FOUND'})
    elif k == 'op':
      resps.append({'ok': 'op', 'done': r['v']['done'], 'error': r['v']['result'] == 'error',
                    'handed': [[rid(key, t['id']), t['params'], t['state'], t['client']] for t in r.get('handed', [])]})
    elif k == 'trial' and 'v' in r:
      resps.append({'ok': 'trial', 'id': rid(key, r['v']['id'])})
    else:
      resps.append({'ok': k})
  return json.dumps({'resps': resps, 'final': final}, sort_keys=True)


def explore_pair(args):
  """Worker: all interleavings of two requests after a prefix. Returns a summary."""
  from vcheck import sched
  backend, pname, na, nb, limit = args[:5]
  fine = len(args) > 5 and args[5]
  prefix = PREFIXES[pname]
  reqs = [REQS[na][1], REQS[nb][1]]
  ser = {}
  before = None
  for order in ((0, 1), (1, 0)):
    r = sched.serial(backend, prefix, reqs, order)
    rr = svcreal.make_runner(backend)
    for p in prefix:
      rr.step(p)
    before = rr.snapshot()
    ser[order] = canon(r, before)
  n = 0
  bad = []
  outcomes = set()
  for res in itertools.chain(sched.one_preemption(backend, prefix, reqs, fine=fine), sched.explore(backend, prefix, reqs, limit=limit, fine=fine)):
    n += 1
    co = canon(res, res['before'])
    outcomes.add(co)
    if co not in ser.values():
      if len(bad) < 3:
        what = 'deadlock' if co == 'DEADLOCK' else None
        if what is None:
          o = json.loads(co)
          sa = json.loads(ser[(0, 1)])
          sb = json.loads(ser[(1, 0)])
          if o['resps'] not in (sa['resps'], sb['resps']):
            what = 'responses'
          else:
            what = 'state'
        bad.append({'what': what, 'choices': res['choices'],
                    'events': [[t, list(e)] for t, e in res['events']],
                    'outcome': co if co == 'DEADLOCK' else json.loads(co),
                    'serial_ab': json.loads(ser[(0, 1)]), 'serial_ba': json.loads(ser[(1, 0)])})
  return {'backend': backend, 'prefix': pname, 'a': na, 'b': nb, 'schedules': n, 'distinct_outcomes': len(outcomes),
          'bad': bad, 'truncated': n >= limit, 'fine': fine}


def explore_triple(args):
  """Worker: all interleavings of THREE requests after a prefix, compared with the six serial orders."""
  from vcheck import sched
  backend, pname, names, limit = args
  prefix = PREFIXES[pname]
  reqs = [REQS[n][1] for n in names]
  ser = {}
  for order in itertools.permutations(range(3)):
    r = sched.serial(backend, prefix, reqs, order)
    rr = svcreal.make_runner(backend)
    for p in prefix:
      rr.step(p)
    ser[order] = canon(r, rr.snapshot())
  n, bad, outcomes = 0, [], set()
  for res in sched.explore(backend, prefix, reqs, limit=limit):
    n += 1
    co = canon(res, res['before'])
    outcomes.add(co)
    if co not in ser.values() and len(bad) < 2:
      bad.append({'what': 'deadlock' if co == 'DEADLOCK' else 'outcome', 'choices': res['choices'],
                  'events': [[t, list(e)] for t, e in res['events']],
                  'outcome': co if co == 'DEADLOCK' else json.loads(co),
                  'serial': {''.join(map(str, o)): json.loads(v) for o, v in ser.items()}})
  return {'backend': backend, 'prefix': pname, 'names': list(names), 'schedules': n, 'distinct_outcomes': len(outcomes),
          'distinct_serial_outcomes': len(set(ser.values())), 'bad': bad, 'truncated': n >= limit}


def local_servicer_stage(c):
  """Clients that name no endpoint share ONE in-process servicer: every lock the property rests on lives inside
  that object, so threads that get different servicers are not serialised at all.  N threads released together ask
  the client library for the local servicer while its constructor is held open (a rendezvous inside
  VizierServicer.__init__: two constructors running at once both pass it), from a cold cache and again later."""
  import threading
  from vizier._src.service import vizier_client, vizier_service
  saved_kwargs = dict(vizier_client.environment_variables.servicer_kwargs)
  saved_endpoint = vizier_client.environment_variables.server_endpoint
  real_cls = vizier_service.VizierServicer
  built = []
  rendezvous = threading.Barrier(2)

  class Slow(real_cls):
    def __init__(self, *a, **kw):
      try:
        rendezvous.wait(timeout=0.6)      # passes at once when a second constructor runs concurrently
      except threading.BrokenBarrierError:
        rendezvous.reset()
      super().__init__(*a, **kw)
      built.append(self)
  try:
    vizier_client.environment_variables.servicer_kwargs = {'database_url': None}
    vizier_client.environment_variables.server_endpoint = vizier_client.constants.NO_ENDPOINT
    vizier_service.VizierServicer = Slow
    for rnd in ('cold cache', 'warm cache'):
      if rnd == 'cold cache':
        vizier_client._create_local_vizier_servicer.cache_clear()   # pylint: disable=protected-access
      got, errs = [], []
      start = threading.Barrier(3)

      def worker():
        try:
          start.wait(timeout=5)
          got.append(vizier_client.create_vizier_servicer_or_stub())
        except Exception as e:  # pylint: disable=broad-except
          errs.append('%s: %s' % (type(e).__name__, e))
      ths = [threading.Thread(target=worker) for _ in range(3)]
      for t in ths:
        t.start()
      for t in ths:
        t.join(20)
      c.traces += 1
      c.count(1, ('local-servicer', rnd), kind='local-servicer:' + rnd)
      distinct = len(set(id(x) for x in got))
      if errs or distinct != 1:
        c.prop_fail('local-servicer-not-shared',
                    'three threads of one process asking the client library for the local servicer (%s) got %d distinct servicer objects (%d constructed, errors %s): their service locks and datastores are not shared, concurrent calls are not serialised at all' % (
                        rnd, distinct, len(built), errs[:2]),
                    {'round': rnd, 'distinct_servicers': distinct, 'constructed': len(built), 'errors': errs})
  finally:
    vizier_service.VizierServicer = real_cls
    vizier_client.environment_variables.servicer_kwargs = saved_kwargs
    vizier_client.environment_variables.server_endpoint = saved_endpoint
    vizier_client._create_local_vizier_servicer.cache_clear()   # pylint: disable=protected-access


def pairs_for(tier, rng):
  names = [n for n in REQS if not n.endswith('Alias') and not n.endswith('OnT')]       # alias-name templates: directed pairs only (run)
  allpairs = [(a, b) for i, a in enumerate(names) for b in names[i:]]
  tasks = []
  for pname in PREFIXES:
    if pname in ('D', 'E', 'F'):
      continue            # the two-study prefix: directed pairs only (run)
    for a, b in allpairs:
      # requests on trial 1/2 need the prefix with those trials
      needs_trials = any(x in (a, b) for x in ('mdMissing', 'suggestPool', 'mdTrial3', 'delete3', 'mdStudyK0', 'complete1', 'complete1inf', 'complete2', 'measure1', 'measure1b', 'stop1', 'delete1', 'mdTrial1', 'mdBoth', 'earlyStop1', 'suggestOwn', 'suggestMd'))
      if needs_trials and pname == 'B':
        continue
      tasks.append((pname, a, b))
  if tier == 'quick':
    # all pairs on prefixes A and B (prefix C only in the thorough tier)
    tasks = [t for t in tasks if t[0] in ('A', 'B')]
  return tasks


def run(c):
  # translator: regenerate the lock/datastore-call shape from the current source (a proof obligation)
  from translators import servicer_shape
  shape, unknown, missing = servicer_shape.write(core.REPO, core.LEAN_DIR)
  c.add_obligation('translator: every RPC method found and every lock/datastore expression recognised',
                   not unknown and not missing, '; '.join(unknown + ['missing ' + m for m in missing]))
  c.coverage_extra['servicer_shape'] = {k: [[cname, list(locks)] for cname, locks in v] for k, v in shape.items()}
  c.proof_stage()
  local_servicer_stage(c)
  tasks = pairs_for(c.tier, c.rng)
  backends = ['ram'] if c.tier == 'quick' else ['ram', 'sqlmem']
  limit = 1200 if c.tier == 'quick' else 12000
  jobs = [(be, p, a, b, limit) for be in backends for (p, a, b) in tasks]
  # FINE granularity (preemption also right after a datastore method releases the datastore's own lock,
  # i.e. inside the method) on the SQL datastore, where a method is more than one statement: pairs of a
  # read-modify-write RPC with an RPC whose datastore call rolls back or commits on the shared connection
  fine_pairs = [('complete1', 'createStudyT'), ('measure1', 'createStudyT'), ('stop1', 'createStudyT'), ('suggestPool', 'mdMissing'),
                ('complete1', 'mdMissing'), ('suggestPool', 'createStudyT'), ('mdTrial1', 'createStudyT'), ('createTrial', 'mdMissing'),
                ('setInactive', 'createStudyT'), ('suggestNew', 'mdMissing')]
  if c.tier == 'thorough':
    fine_pairs += [(a, b) for (p, a, b) in tasks if p == 'A' and (a, b) not in fine_pairs and
                   REQS[a][0] != REQS[b][0]][:60]
  jobs += [('sqlmem', 'A', a, b, limit, True) for a, b in fine_pairs]
  # the SQL datastore keeps trials / operations in tables of their own: a study deleted between the steps of a call
  # that creates such rows must not leave rows behind (the snapshot counts rows whose study row is gone)
  if c.tier == 'quick':
    jobs += [('sqlmem', 'A', a, 'deleteStudy', limit) for a in ('createTrial', 'suggestNew', 'suggestPool', 'earlyStop1', 'mdBoth')]
  # HOSTED: the real PythiaServicer and the real PartiallySerializableDesignerPolicy (config check, trial
  # loader, state dump through UpdateMetadata) between SuggestTrials and a scripted designer: the policy's
  # own datastore traffic (GetStudy, ListTrials, UpdateMetadata via the policy supporter) is interleaved too
  hosted_pairs = [('suggestNew', 'mdStudy'), ('suggestNew', 'mdBoth'), ('suggestNew', 'complete1'), ('suggestNew', 'suggestNew2'),
                  ('suggestOwn', 'mdBoth'), ('suggestNew', 'createTrial2'), ('suggestNew', 'setInactive'), ('suggestNew', 'delete1'),
                  ('suggestNew', 'mdMissing'), ('suggestPool', 'complete2'), ('suggestNew', 'mdStudyK0'), ('suggestPool', 'mdTrial3')]
  if c.tier == 'thorough':
    hosted_pairs += [(a, b) for a in ('suggestNew', 'suggestOwn', 'suggestPool', 'suggestMd') for b in REQS if (a, b) not in hosted_pairs and b not in ('earlyStop1',) and not b.endswith('Alias') and not b.endswith('OnT')]
  jobs += [('hosted:ram', 'A', a, b, limit) for a, b in hosted_pairs]
  # an EMPTY study (prefix B), hosted: both calls must ask the algorithm, so the second one's view of the persisted
  # algorithm state matters (on prefix A one of the two is served from the REQUESTED pool)
  jobs += [('hosted:ram', 'B', 'suggestNew', 'suggestNew2', limit), ('hosted:ram', 'B', 'suggestNew', 'mdStudy', limit)]
  # two studies, hosted: the real policy objects of both studies run in one process
  jobs += [('hosted:ram', 'D', 'suggestNew', 'suggestOnT', limit), ('hosted:ram', 'D', 'suggestNew', 'createTrialOnT', limit),
           ('ram', 'D', 'suggestNew', 'suggestOnT', limit)]
  if c.tier == 'thorough':
    jobs += [('hosted:sqlmem', 'D', 'suggestNew', 'suggestOnT', limit)]
  # the service's own early-stopping algorithm (RandomPolicy over the ACTIVE trials it lists itself) against calls
  # that take the checked trial - the study's only ACTIVE one - away between the check and the algorithm's read
  jobs += [('realalg:ram', 'E', 'earlyStop1', b, limit) for b in ('complete1', 'delete1', 'stop1', 'complete1inf')]
  # ... and the service's own policy factory with a stateful deterministic algorithm (GRID_SEARCH): the policy is
  # built, restored and dumped by the code that production uses, while metadata / trial writes of other callers land
  jobs += [('realalg:ram', 'F', 'suggestNew', b, limit) for b in ('mdStudy', 'suggestNew2', 'createTrial2', 'setInactive')]
  alias_pairs = [('setInactiveAlias', 'mdStudy'), ('createTrialAlias', 'createTrial'), ('mdStudyAlias', 'setInactive'),
                 ('mdStudyAlias', 'mdStudyK0'), ('createTrialAlias', 'suggestNew'), ('setInactiveAlias', 'complete1')]
  jobs += [(be, 'A', a, b, limit) for be in backends for a, b in alias_pairs]
  if c.tier == 'thorough':
    jobs += [('hosted:sqlmem', 'A', a, b, limit) for a, b in hosted_pairs[:10]]
  ctx = multiprocessing.get_context('fork')
  results = []
  with concurrent.futures.ProcessPoolExecutor(max_workers=min(14, os.cpu_count() or 4), mp_context=ctx) as ex:
    for r in ex.map(explore_pair, jobs, chunksize=2):
      results.append(r)
  # THREE concurrent RPCs (the theorems and the pair exploration cover two): every interleaving of a few triples
  # against the six serial orders
  triples = [('complete1', 'mdTrial1', 'setInactive'), ('measure1', 'stop1', 'delete1'), ('createTrial', 'complete1', 'mdBoth'),
             ('complete1', 'complete1inf', 'measure1'), ('setInactive', 'setActive', 'createTrial'), ('suggestPool', 'complete2', 'createTrial')]
  if c.tier == 'thorough':
    triples += [('suggestNew', 'createTrial', 'complete1'), ('suggestNew', 'suggestOwn', 'mdStudy'), ('createTrial', 'createTrial2', 'suggestPool'),
                ('deleteStudy', 'suggestNew', 'createTrial'), ('delete1', 'complete1', 'suggestOwn')]
  tlimit = 1500 if c.tier == 'quick' else 20000
  with concurrent.futures.ProcessPoolExecutor(max_workers=min(14, os.cpu_count() or 4), mp_context=ctx) as ex:
    tres = list(ex.map(explore_triple, [('ram', 'A', t, tlimit) for t in triples]))
  for r in tres:
    kinds = tuple(sorted(REQS[x][0] for x in r['names']))
    c.count(r['schedules'], ('triple', r['backend'], r['prefix']) + tuple(r['names']) if r['schedules'] > 6 else None, kind='triple:%s|%s|%s' % kinds)
    c.traces += r['schedules']
    for b in r['bad']:
      c.prop_fail('not-serialisable-3:%s|%s|%s:%s' % (kinds + (b['what'],)),
                  'an interleaving of %s, %s and %s (prefix %s, backend %s) is equivalent to none of the six serial orders' % (
                      tuple(r['names']) + (r['prefix'], r['backend'])),
                  {'backend': r['backend'], 'prefix': PREFIXES[r['prefix']], 'requests': [REQS[x][1] for x in r['names']],
                   'schedule': b['choices'], 'events': b['events'], 'outcome': b['outcome'], 'serial_orders': b['serial']})
    if r['truncated']:
      c.notes.append('schedule enumeration truncated at %d for the triple %s' % (tlimit, r['names']))
  c.coverage_extra['triples'] = [{'requests': r['names'], 'schedules': r['schedules'], 'distinct_outcomes': r['distinct_outcomes'],
                                  'distinct_serial_outcomes': r['distinct_serial_outcomes'], 'exhaustive': not r['truncated']} for r in tres]
  total = 0
  for r in results:
    total += r['schedules']
    ka, kb = REQS[r['a']][0], REQS[r['b']][0]
    c.count(r['schedules'], ('pair', r['backend'], r['prefix'], r['a'], r['b'], r.get('fine', False)) if r['schedules'] > 2 else None,
            kind=('fine-pair:%s|%s' if r.get('fine') else 'hosted-pair:%s|%s' if r['backend'].startswith('hosted:') else 'pair:%s|%s') % tuple(sorted((ka, kb))))
    c.traces += r['schedules']
    for b in r['bad']:
      key = 'not-serialisable:%s|%s:%s' % (tuple(sorted((ka, kb))) + (b['what'],))
      c.prop_fail(key, 'an interleaving of %s and %s (prefix %s, backend %s) is equivalent to neither serial order (%s differ)' % (
          r['a'], r['b'], r['prefix'], r['backend'], b['what']),
                  {'backend': r['backend'], 'prefix': PREFIXES[r['prefix']], 'a': REQS[r['a']][1], 'b': REQS[r['b']][1],
                   'schedule': b['choices'], 'events': b['events'], 'outcome': b['outcome'],
                   'serial_ab': b['serial_ab'], 'serial_ba': b['serial_ba']})
    if r['truncated']:
      c.notes.append('schedule enumeration truncated at %d for %s|%s on prefix %s' % (limit, r['a'], r['b'], r['prefix']))
  c.coverage_extra['schedules_explored'] = total
  c.coverage_extra['pairs'] = len(results)
  c.coverage_extra['exhaustive'] = not any(r['truncated'] for r in results)
  big = sorted(results, key=lambda r: -r['schedules'])[:3]
  for r in big:
    c.sample({'pair': [r['a'], r['b']], 'prefix': r['prefix'], 'schedules': r['schedules'], 'distinct_outcomes': r['distinct_outcomes']})
  svc.cleanup()
  return c.finish(
      level='proof',
      rule='all interleavings (datastore calls + service-lock acquisitions; explored up to commutation of independent events by sleep sets: two datastore reads commute) of 2 concurrent RPCs for %d (prefix, request-pair) combinations drawn from %d request templates of the 11 RPC kinds; outcome compared with both serial orders up to renumbering of new trials; non-trivial = pair with more than 2 schedules' % (len(results), len(REQS)),
      assumptions=['two concurrent RPCs for every pair of templates; three concurrent RPCs for the listed triples only (coverage.triples)',
                   'a datastore method call is atomic (it holds the datastore lock for its whole body)',
                   'early-stopping answers are exempt from the comparison'])
