"""Stand-alone runner of the client-shape stage (vcheck/clientshapecheck.py) while it is not yet wired into C01 / C05 / C06.

  /venv/bin/python harness/props/clientshape_dev.py [--tier quick|thorough] [--seed N] [--no-proof]

`clientshapecheck.translate` (regenerates Generated/ClientShape.lean from `VERIF_REPO`), proof stage over
lean/theorems/ClientShape.json, then `clientshapecheck.stage`.  Evidence goes to evidence/ClientShape.json, replays to
replays/ClientShape/ (the Check object is built with the id C05 for its random stream and then renamed, so nothing of C05 is
overwritten)."""
import json
import os
import sys

HERE = os.path.dirname(os.path.dirname(os.path.abspath(__file__)))
sys.path.insert(0, HERE)
os.environ.setdefault('GRPC_VERBOSITY', 'NONE')
os.environ.setdefault('TF_CPP_MIN_LOG_LEVEL', '3')
os.environ.setdefault('JAX_PLATFORMS', 'cpu')
os.environ.setdefault('PYTHONHASHSEED', '0')

from vcheck import core  # noqa: E402


def run(c, proof=True):
  import time
  from vcheck import clientshapecheck
  c.theorems = json.load(open(os.path.join(core.LEAN_DIR, 'theorems', 'ClientShape.json')))
  t = time.time()
  clientshapecheck.translate(c)
  if proof:
    c.proof_stage()
  t1 = time.time()
  n = clientshapecheck.stage(c)
  print('translate+proof %.1f s; stage: %d client calls, %.1f s, obligations %d/%d, tie breaks %d, violations %d' % (
      t1 - t, n, time.time() - t1, sum(1 for _, ok, _ in c.obligations if ok), len(c.obligations), len(c.tie_breaks), len(c.violations)))
  return c.finish(
      level='proof',
      rule='every public method / property of VizierClient, every public function of vizier_client.py and every public method of '
           'clients.Study / clients.Trial called once on a small study through the real client library over an in-process servicer '
           'behind a recording proxy (update_metadata with a study part AND trial parts; complete_trial feasible / from an intermediate '
           'measurement / infeasible by seed); recorded RPC names vs `admits` of the table generated from the tree and vs "at most one '
           'writing RPC per call"; non-trivial = one arrangement (one servicer, both layers)',
      assumptions=['the translator is sound for straight-line / if / try / loop code that calls the service through self._service or a '
                   'local bound to it; everything else is reported as unrecognised, not dropped',
                   'in-process deployment only; exceptional exits are covered by the prefix-closed conformance statement'])


def main():
  import argparse
  try:
    from absl import logging as absl_logging
    absl_logging.set_verbosity(absl_logging.FATAL)
    absl_logging.set_stderrthreshold('fatal')
    import logging
    logging.disable(logging.CRITICAL)
  except Exception:  # pylint: disable=broad-except
    pass
  ap = argparse.ArgumentParser()
  ap.add_argument('--tier', default=None)
  ap.add_argument('--seed', default=None)
  ap.add_argument('--no-proof', action='store_true')
  a = ap.parse_args()
  c = core.Check('C05', a.tier, a.seed)
  c.pid = 'ClientShape'
  c.known = [e for e in core.load_known_findings() if e['property'] == 'ClientShape' and e.get('status') == 'known']
  try:
    code = run(c, proof=not a.no_proof)
  except core.InfraError as e:
    print('INFRA-ERROR property=ClientShape %s' % e, file=sys.stderr)
    sys.exit(2)
  sys.exit(code)


if __name__ == '__main__':
  main()
