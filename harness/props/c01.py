"""C01 — trial lifecycle, immutability of completed trials, failing calls change nothing,
documented error classes, agreement with the sequential reference model (Model/Service.lean)."""
from vcheck import core, svccheck, svc


def run(c):
  # translator: which RPCs every client-library method issues (one writing RPC per single-resource call)
  from vcheck import clientshapecheck
  clientshapecheck.translate(c)
  c.proof_stage()
  clientshapecheck.stage(c)
  backends = ['ram', 'sqlmem']
  cfgs = svccheck.identify_flags(c, backends, report=('metadataAtomic', 'createKeepsInfeasible'))
  n = 120 if c.tier == 'quick' else 1500
  svccheck.differential(c, 'C01', n, backends, cfgs, lengths=(4, 24) if c.tier == 'quick' else (4, 40))
  # the client library (clients.Study / clients.Trial / VizierClient) on top of the service: Model/Client.lean
  from vcheck import clientcheck
  clientcheck.stage(c, 'C01')
  # "any call on a missing study or trial": what a name denotes (resources.py) against its Lean model
  from vcheck import resourcecheck
  resourcecheck.stage(c)
  svc.cleanup()
  return c.finish(
      level='proof',
      rule='histories of the 17 RPC kinds generated statefully against a shadow in-RAM servicer (ids 85% live by state / 8% deleted / 7% never existing; 1-2 owners, 1-2 studies, 2 workers; scripted algorithm delivering n-2..n+3 suggestions or raising); a history is non-trivial when it mixes >=2 of suggest/complete/deleteTrial/deleteStudy/checkEarlyStop',
      assumptions=['timestamps are not compared', 'opaque payloads (parameters, measurements) are tokens',
                   'ListOptimalTrials content is C11\'s subject; here only its status and read-only nature'])
