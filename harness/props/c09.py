"""C09 — study configs, trials and measurements survive the wire format unchanged.

Proof stage: Props/C09.lean (round trip + idempotence per pair, counterexamples per defect).
Tie: a type-directed generator of pyvizier objects -> real to_proto / from_proto / to_proto
-> canonical JSON, the same values through the Lean model (Drivers/C09.lean) run with the
variant flags identified on the current tree.
Property stage (always): on the REAL outputs, from_proto(to_proto(x)) ~ x where ~ is equality of
the Lean normal forms (documented non-transmitted fields dropped), and
to_proto(from_proto(to_proto(x))) byte-identical to to_proto(x); plus a dense time-stamp sweep
and a float stream for elapsed seconds (tolerance: 1 ns + 4 ulp)."""
import datetime
import hashlib
import json
import math
from fractions import Fraction

from vcheck import core

# ---------------------------------------------------------------- finding keys
KEY_NANOS = 'measurement-elapsed-nanos-dropped'
KEY_DEFAULT = 'paramconfig-falsy-default-dropped'
KEY_DEPTH = 'paramconfig-grandchildren-dropped'
KEY_INFEASIBLE_TIME = 'trial-infeasible-end-time-ignored'
KEY_UNIFORM = 'scale-type-uniform-discrete-not-on-wire'
KEY_METRIC_ORDER = 'studyconfig-metrics-reordered-by-name'
KEY_TRAILING_BS = 'ns-component-trailing-backslash'
KEY_NO_PREDICTION = 'earlystop-decision-without-prediction'
KEY_ENDPOINT_ORDER = 'studyconfig-endpoint-appended-after-metadata'

EPOCH = datetime.datetime(1970, 1, 1, tzinfo=datetime.timezone.utc)
US = datetime.timedelta(microseconds=1)

V = {}          # vizier modules, filled by _imports()


def _imports():
  if V:
    return
  import shim
  shim.install_proto()
  from vizier._src.pyvizier.oss import proto_converters, study_config, metadata_util
  from vizier._src.pyvizier.shared import parameter_config, trial, base_study_config, common
  from vizier._src.pyvizier.pythia import study as pstudy
  from vizier._src.pythia import policy
  from vizier._src.service import study_pb2, key_value_pb2, vizier_service_pb2, pythia_service_pb2
  from google.protobuf import any_pb2, duration_pb2, struct_pb2
  V.update(pc=proto_converters, sc=study_config, mu=metadata_util, pcfg=parameter_config,
           tr=trial, bsc=base_study_config, common=common, pstudy=pstudy, policy=policy,
           study_pb2=study_pb2, kv_pb2=key_value_pb2, vs_pb2=vizier_service_pb2,
           py_pb2=pythia_service_pb2, any_pb2=any_pb2, duration_pb2=duration_pb2, struct_pb2=struct_pb2)


# ================================================================= canonical forms
def cps(s):
  return [ord(ch) for ch in s]


def rat(x):
  if isinstance(x, bool):
    x = int(x)
  f = Fraction(x)          # exact for int and for finite float
  return '%d/%d' % (f.numerator, f.denominator)


def opt(f, x):
  return None if x is None else f(x)


def finite(x):
  return isinstance(x, int) or (isinstance(x, float) and math.isfinite(x))


def us_of(dt):
  """datetime -> exact whole microseconds since the epoch."""
  if dt is None:
    return None
  if dt.tzinfo is None:
    dt = dt.astimezone()
  return (dt - EPOCH) // US


def dt_of(us, naive=False):
  dt = (EPOCH + us * US).astimezone()
  return dt.replace(tzinfo=None) if naive else dt


# ---- parameter configs
def canon_pc(p):
  PT = V['tr'].ParameterType
  t = p.type
  d = p.default_value
  if t == PT.DOUBLE:
    dom = {'k': 'double', 'lo': rat(p.bounds[0]), 'hi': rat(p.bounds[1]), 'd': opt(rat, d)}
    key = None
  elif t == PT.INTEGER:
    dom = {'k': 'integer', 'lo': int(p.bounds[0]), 'hi': int(p.bounds[1]), 'd': opt(int, d)}
    key = lambda v: {'i': int(v)}
  elif t == PT.DISCRETE:
    dom = {'k': 'discrete', 'vs': [rat(v) for v in p.feasible_values], 'd': opt(rat, d)}
    key = lambda v: {'q': rat(v)}
  elif t == PT.CATEGORICAL:
    dom = {'k': 'categorical', 'vs': [cps(v) for v in p.feasible_values], 'd': opt(cps, d)}
    key = lambda v: {'s': cps(v)}
  else:
    raise ValueError('unsupported parameter type %s' % t)
  children = []
  for value, sub in p.subspaces():
    children.append([key(value), [canon_pc(c) for c in sub.parameters]])
  return {'name': cps(p.name), 'dom': dom, 'scale': opt(lambda s: s.name, p.scale_type),
          'ext': p.external_type.name, 'children': children}


_SCALE = {0: 'UNSPECIFIED', 1: 'LINEAR', 2: 'LOG', 3: 'REVERSE_LOG'}
_EXT = {0: 'INTERNAL', 1: 'BOOLEAN', 2: 'INTEGER', 3: 'FLOAT'}


def canon_pspec(q):
  which = q.WhichOneof('parameter_value_spec')
  spec = getattr(q, which)
  has = spec.HasField('default_value')
  if which == 'double_value_spec':
    kind = {'k': 'double', 'lo': rat(spec.min_value), 'hi': rat(spec.max_value),
            'd': rat(spec.default_value.value) if has else None}
  elif which == 'integer_value_spec':
    kind = {'k': 'integer', 'lo': spec.min_value, 'hi': spec.max_value,
            'd': spec.default_value.value if has else None}
  elif which == 'discrete_value_spec':
    kind = {'k': 'discrete', 'vs': [rat(v) for v in spec.values],
            'd': rat(spec.default_value.value) if has else None}
  else:
    kind = {'k': 'categorical', 'vs': [cps(v) for v in spec.values],
            'd': cps(spec.default_value.value) if has else None}
  conds = []
  for c in q.conditional_parameter_specs:
    w = c.WhichOneof('parent_value_condition')
    if w is None:
      par = None
    elif w == 'parent_discrete_values':
      par = {'discrete': [rat(v) for v in c.parent_discrete_values.values]}
    elif w == 'parent_int_values':
      par = {'ints': list(c.parent_int_values.values)}
    else:
      par = {'cats': [cps(v) for v in c.parent_categorical_values.values]}
    conds.append([par, canon_pspec(c.parameter_spec)])
  return {'id': cps(q.parameter_id), 'kind': kind, 'scale': _SCALE[q.scale_type],
          'ext': _EXT[q.external_type], 'conds': conds}


# ---- metrics, measurements
def canon_metric(m):
  return {'name': cps(m.name), 'goal': m.goal.name, 'thr': opt(rat, m.safety_threshold),
          'frac': opt(rat, m.desired_min_safe_trials_fraction)}


def canon_pmetric(q):
  safety = None
  if q.HasField('safety_config'):
    s = q.safety_config
    safety = {'thr': rat(s.safety_threshold),
              'frac': rat(s.desired_min_safe_trials_fraction) if s.HasField('desired_min_safe_trials_fraction') else None}
  return {'id': cps(q.metric_id), 'goal': {0: 'UNSPECIFIED', 1: 'MAXIMIZE', 2: 'MINIMIZE'}[q.goal], 'safety': safety}


def canon_meas(m):
  return {'metrics': [[cps(k), {'v': rat(v.value), 'std': opt(rat, v.std)}] for k, v in m.metrics.items()],
          'elapsed': rat(m.elapsed_secs), 'steps': int(m.steps), 'ckpt': cps(m.checkpoint_path)}


def canon_pmeas(q):
  dur = {'s': q.elapsed_duration.seconds, 'n': q.elapsed_duration.nanos} if q.HasField('elapsed_duration') else None
  return {'dur': dur, 'steps': q.step_count,
          'metrics': [[cps(x.metric_id), rat(x.value)] for x in q.metrics]}


# ---- metadata
def any_token(a):
  return a.type_url + ':' + a.value.hex()


def canon_mdval(v):
  if isinstance(v, str):
    return {'s': cps(v)}
  if isinstance(v, V['any_pb2'].Any):
    return {'any': cps(any_token(v))}
  a = V['any_pb2'].Any()
  a.Pack(v)
  return {'msg': cps(any_token(a))}


def canon_md(md):
  out = []
  for ns, store in md._stores.items():   # pylint: disable=protected-access
    if not store:
      continue      # empty stores (the root store of every Metadata(), stores created by a read) are not observable
    out.append([[cps(c) for c in ns], [[cps(k), canon_mdval(v)] for k, v in store.items()]])
  return out


def canon_kv(kv):
  w = kv.WhichOneof('a_value')
  val = None if w is None else ({'value': cps(kv.value)} if w == 'value' else {'proto': cps(any_token(kv.proto))})
  return {'ns': cps(kv.ns), 'key': cps(kv.key), 'val': val}


def canon_delta(d):
  return {'study': canon_md(d.on_study), 'trials': [[int(t), canon_md(m)] for t, m in d.on_trials.items()]}


def canon_umu(u):
  return {'tid': int(u.trial_id) if u.HasField('trial_id') else None, 'kv': canon_kv(u.metadatum)}


# ---- parameter values, suggestions, trials
def canon_pyval(v):
  x = v.value
  if isinstance(x, bool):
    return {'b': x}
  if isinstance(x, int):
    return {'i': x}
  if isinstance(x, float):
    return {'f': rat(x)}
  return {'s': cps(x)}


def canon_pvalue(val):
  w = val.WhichOneof('kind')
  if w is None:
    return None
  if w == 'null_value':
    return 'null'
  if w == 'number_value':
    return {'n': rat(val.number_value)}
  if w == 'string_value':
    return {'s': cps(val.string_value)}
  if w == 'bool_value':
    return {'b': val.bool_value}
  return 'other'


def canon_params(pd):
  return [[cps(k), canon_pyval(v)] for k, v in pd.items()]


def canon_pparams(ps):
  return [[cps(p.parameter_id), canon_pvalue(p.value)] for p in ps]


def canon_suggestion(s):
  return {'params': canon_params(s.parameters), 'md': canon_md(s.metadata)}


def canon_psuggestion(q):
  return {'params': canon_pparams(q.parameters), 'md': [canon_kv(kv) for kv in q.metadata]}


def canon_trial(t):
  return {'id': t.id, 'desc': opt(cps, t.description), 'req': t.is_requested, 'worker': opt(cps, t.assigned_worker),
          'stop': opt(cps, t.stopping_reason), 'infeas': opt(cps, t.infeasibility_reason),
          'links': [[cps(k), cps(v)] for k, v in t.related_links.items()], 'params': canon_params(t.parameters),
          'final': opt(canon_meas, t.final_measurement), 'meas': [canon_meas(m) for m in t.measurements],
          'ctime': us_of(t.creation_time), 'etime': us_of(t.completion_time), 'md': canon_md(t.metadata)}


def canon_ts(ts):
  """Timestamp at microsecond resolution (float seconds carry ~240 ns of error in 2026)."""
  total = ts.seconds * 10**9 + ts.nanos
  us = (total + 500) // 1000
  return {'s': us // 10**6, 'n': (us % 10**6) * 1000}


_STATE = {0: 'STATE_UNSPECIFIED', 1: 'REQUESTED', 2: 'ACTIVE', 3: 'STOPPING', 4: 'SUCCEEDED', 5: 'INFEASIBLE'}


def canon_ptrial(q):
  return {'name': cps(q.name), 'id': int(q.id), 'state': _STATE[q.state], 'params': canon_pparams(q.parameters),
          'final': canon_pmeas(q.final_measurement) if q.HasField('final_measurement') else None,
          'meas': [canon_pmeas(m) for m in q.measurements],
          'start': canon_ts(q.start_time) if q.HasField('start_time') else None,
          'end': canon_ts(q.end_time) if q.HasField('end_time') else None,
          'client': cps(q.client_id), 'infeas': cps(q.infeasible_reason), 'md': [canon_kv(kv) for kv in q.metadata]}


# ---- problem, study, requests, decisions
def canon_problem(p):
  return {'space': [canon_pc(x) for x in p.search_space.parameters],
          'metrics': [canon_metric(m) for m in p.metric_information], 'md': canon_md(p.metadata)}


def canon_pproblem(q):
  return {'space': [canon_pspec(x) for x in q.search_space], 'metrics': [canon_pmetric(m) for m in q.metric_information],
          'md': [canon_kv(kv) for kv in q.metadata]}


_NOISE = {0: 'UNSPECIFIED', 1: 'LOW', 2: 'HIGH'}


def canon_study(s):
  return {'space': [canon_pc(x) for x in s.search_space.parameters],
          'metrics': [canon_metric(m) for m in s.metric_information], 'md': canon_md(s.metadata),
          'alg': cps(s.algorithm), 'noise': _NOISE[int(s.observation_noise.value)],
          'auto': s.automated_stopping_config is not None,
          'cached': s._study_config.HasField('default_stopping_spec'),   # pylint: disable=protected-access
          'endpoint': None if s.pythia_endpoint is None else canon_mdval(s.pythia_endpoint)}


def canon_pstudy(q):
  return {'metrics': [canon_pmetric(m) for m in q.metrics], 'params': [canon_pspec(x) for x in q.parameters],
          'alg': cps(q.algorithm), 'stopping': q.WhichOneof('automated_stopping_spec') is not None,
          'noise': _NOISE[q.observation_noise], 'md': [canon_kv(kv) for kv in q.metadata]}


def canon_descriptor(d):
  return {'config': canon_problem(d.config), 'guid': cps(d.guid), 'max': d.max_trial_id}


def canon_pdescriptor(q):
  return {'config': canon_pproblem(q.config), 'guid': cps(q.guid), 'max': q.max_trial_id}


def canon_sreq(r):
  return {'desc': canon_descriptor(r._study_descriptor), 'count': r.count, 'ckpt': opt(cps, r.checkpoint_dir)}   # pylint: disable=protected-access


def canon_psreq(q):
  return {'desc': canon_pdescriptor(q.study_descriptor), 'count': q.count, 'ckpt': cps(q.checkpoint_dir)}


def canon_sdec(d):
  return {'suggestions': [canon_suggestion(s) for s in d.suggestions], 'md': canon_delta(d.metadata)}


def canon_psdec(q):
  return {'suggestions': [canon_psuggestion(s) for s in q.suggestions], 'md': [canon_umu(u) for u in q.metadata]}


def canon_esreq(r):
  # trial_ids is a frozenset: compared as a set (sorted), its iteration order is not data
  return {'desc': canon_descriptor(r._study_descriptor), 'ids': opt(lambda s: sorted(s), r.trial_ids),   # pylint: disable=protected-access
          'ckpt': opt(cps, r.checkpoint_dir)}


def canon_pesreq(q):
  return {'desc': canon_pdescriptor(q.study_descriptor), 'ids': sorted(q.trial_ids), 'ckpt': cps(q.checkpoint_dir)}


def canon_esdec(d):
  return {'decisions': [{'id': e.id, 'reason': cps(e.reason), 'stop': e.should_stop,
                         'pred': opt(canon_meas, e.predicted_final_measurement)} for e in d.decisions],
          'md': canon_delta(d.metadata)}


def canon_pesdec(q):
  return {'decisions': [{'id': e.id, 'reason': cps(e.reason), 'stop': e.should_stop,
                         'pred': canon_pmeas(e.predicted_final_measurement) if e.HasField('predicted_final_measurement') else None}
                        for e in q.decisions],
          'md': [canon_umu(u) for u in q.metadata]}


def ser(p):
  """bytes of a proto or of a list of protos (deterministic map order; there are no maps)."""
  if isinstance(p, (list, tuple)):
    return [x.SerializeToString(deterministic=True) for x in p]
  return p.SerializeToString(deterministic=True)


def kinds():
  pc, mu, sc = V['pc'], V['mu'], V['sc']
  return {
      'pc': (pc.ParameterConfigConverter.to_proto, pc.ParameterConfigConverter.from_proto, canon_pc, canon_pspec),
      'metric': (pc.MetricInformationConverter.to_proto, pc.MetricInformationConverter.from_proto, canon_metric, canon_pmetric),
      'meas': (pc.MeasurementConverter.to_proto, pc.MeasurementConverter.from_proto, canon_meas, canon_pmeas),
      'md': (mu.make_key_value_list, mu.from_key_value_list, canon_md, lambda l: [canon_kv(kv) for kv in l]),
      'delta': (pc.MetadataDeltaConverter.to_protos, pc.MetadataDeltaConverter.from_protos, canon_delta,
                lambda l: [canon_umu(u) for u in l]),
      'suggestion': (pc.TrialSuggestionConverter.to_proto, pc.TrialSuggestionConverter.from_proto, canon_suggestion, canon_psuggestion),
      'trial': (pc.TrialConverter.to_proto, pc.TrialConverter.from_proto, canon_trial, canon_ptrial),
      'problem': (pc.ProblemStatementConverter.to_proto, pc.ProblemStatementConverter.from_proto, canon_problem, canon_pproblem),
      'study': (lambda s: s.to_proto(), sc.StudyConfig.from_proto, canon_study, canon_pstudy),
      'sreq': (pc.SuggestConverter.to_request_proto, pc.SuggestConverter.from_request_proto, canon_sreq, canon_psreq),
      'sdec': (pc.SuggestConverter.to_decision_proto, pc.SuggestConverter.from_decision_proto, canon_sdec, canon_psdec),
      'esreq': (pc.EarlyStopConverter.to_request_proto, pc.EarlyStopConverter.from_request_proto, canon_esreq, canon_pesreq),
      'esdec': (pc.EarlyStopConverter.to_decisions_proto, pc.EarlyStopConverter.from_decisions_proto, canon_esdec, canon_pesdec),
  }


# ================================================================= generators
NAMES = ['a', 'b', 'x', 'lr', 'é', '\U0001d6fc', 'a:b', 'a\\b', 'p[0]', '[', 'x y', '0', 'True', ':', '\\:', 'né中']
CATS = ['', 'a', 'b', 'True', 'False', 'é', 'a:b', 'x\\', '[', '\U0001d6fc', '0']
KEYS = ['k', '', 'é', 'k:1', 'j', '\\', 'K']
NSCOMP = ['a', 'b', ':', 'a:b', 'x\\y', 'é', '\U0001d6fc', '', '\\a', '[0]']
MDSTR = ['', 'v', 'é', '0', 'False', 'a:b\\']
FLOATS = [0.0, -0.0, 1.0, -1.0, 0.5, 0.1, 1e-3, 1e10, -2.5, 3.141592653589793, 5e-324, 1e-300,
          1.7976931348623157e308, float(2**53), 1.0000000000000002, 0.3, 100.0]
ELAPSED_EXACT = [0.0, 1.0, 1.5, 0.25, 2.75, 1234.125, 0.001953125, 86400.5, 3000000000.5, 7.0, 0.998046875, 59.0]
ELAPSED_FLOAT = [0.1, 0.3, 0.7, 1e-9, 1e-10, 2.5e-9, 0.999999999, 0.9999999999, 123.456, 1e6 + 0.1, 5e-324, 4.35, 0.57]


class Gen:
  """Type-directed generator of pyvizier values; every choice comes from `rng`."""

  def __init__(self, rng, allow_uniform=False, allow_trailing_bs=False, float_secs=False):
    self.r = rng
    self.n = 0
    self.allow_uniform = allow_uniform
    self.allow_trailing_bs = allow_trailing_bs
    self.float_secs = float_secs

  # -- scalars
  def flt(self):
    r = self.r
    x = r.random()
    if x < 0.5:
      return r.choice(FLOATS)
    if x < 0.75:
      return r.uniform(-10, 10)
    return r.gauss(0, 1) * 10 ** r.randrange(-6, 9)

  def name(self):
    self.n += 1
    base = self.r.choice(NAMES)
    return base if self.r.random() < 0.15 and self.n == 1 else '%s%d' % (base, self.n)

  def scale(self):
    S = V['pcfg'].ScaleType
    opts = [None, S.LINEAR, S.LOG, S.REVERSE_LOG]
    if self.allow_uniform:
      opts.append(S.UNIFORM_DISCRETE)
    return self.r.choice(opts)

  def ext(self):
    return self.r.choice(list(V['pcfg'].ExternalType))

  # -- parameter configs
  def pc(self, depth, name=None):
    r = self.r
    kind = r.choice(['double', 'integer', 'discrete', 'categorical'] if depth == 0 else
                    ['integer', 'discrete', 'categorical', 'categorical', 'double'])
    name = name or self.name()
    kw = dict(scale_type=self.scale(), external_type=self.ext())
    parent_values = None
    if kind == 'double':
      lo, hi = sorted([self.flt(), self.flt()])
      if r.random() < 0.1:
        hi = lo
      kw['bounds'] = (float(lo), float(hi))
      kw['default_value'] = r.choice([None, None, 0.0, -0.0, lo, hi, 0.5])
    elif kind == 'integer':
      lo = r.choice([-5, -1, 0, 0, 1, 3, 2**40, -2**50])
      hi = lo + r.choice([0, 1, 2, 5, 10**6])
      kw['bounds'] = (lo, hi)
      kw['default_value'] = r.choice([None, None, 0, 0, lo, hi, 1])
      parent_values = sorted(set([lo, hi, lo + (hi - lo) // 2, min(hi, lo + 1)]))
    elif kind == 'discrete':
      k = r.randrange(1, 5)
      vals = set()
      while len(vals) < k:
        vals.add(r.choice([0.0, 1.0, 2.0, 0.5, -1.5, 1e-3, 100.0, 1e10, 3.0]))
      vals = list(vals)
      r.shuffle(vals)
      if r.random() < 0.3:
        vals = [int(v) if float(v).is_integer() else v for v in vals]
      kw['feasible_values'] = vals
      kw['default_value'] = r.choice([None, None, 0.0, 0, float(vals[0]), 2.0])
      parent_values = [float(v) for v in vals]
    else:
      k = r.randrange(1, 5)
      vals = r.sample(CATS, k)
      kw['feasible_values'] = vals
      kw['default_value'] = r.choice([None, None, '', '', vals[0], 'zz'])
      parent_values = list(vals)
    if depth > 0 and parent_values and r.random() < 0.85:
      children = []
      for _ in range(r.randrange(1, 4)):
        pvs = r.sample(parent_values, r.randrange(1, min(3, len(parent_values)) + 1))
        children.append((pvs, self.pc(depth - 1 if r.random() < 0.8 else 0)))
      kw['children'] = children
    return V['pcfg'].ParameterConfig.factory(name, **kw)

  def space_via_builders(self, depth):
    """A search space made with the public builder API (add_*_param / select_values)."""
    r = self.r
    ss = V['pcfg'].SearchSpace()

    def fill(sel, d):
      for _ in range(r.randrange(1, 3)):
        nm = self.name()
        k = r.randrange(5)
        if k == 0:
          sel.add_float_param(nm, 0.0, r.choice([0.0, 1.0, 10.0]), default_value=r.choice([None, 0.0, 0.5]),
                              scale_type=r.choice([None, V['pcfg'].ScaleType.LOG]))
          continue
        if k == 1:
          new = sel.add_int_param(nm, 0, r.choice([0, 3]), default_value=r.choice([None, 0, 1]))
          vals = [0]
        elif k == 2:
          new = sel.add_discrete_param(nm, [0.0, 1.0, 2.5] if r.random() < 0.5 else [1, 2, 3],
                                       default_value=r.choice([None, 0.0]), scale_type=r.choice([None, V['pcfg'].ScaleType.LINEAR]))
          vals = [1.0] if new is not None else []
        elif k == 3:
          new = sel.add_categorical_param(nm, ['', 'a', 'é'], default_value=r.choice([None, '', 'a']))
          vals = ['', 'é'][:r.randrange(1, 3)]
        else:
          new = sel.add_bool_param(nm, default_value=r.choice([None, False, True]))
          vals = ['True']
        if d > 0 and r.random() < 0.8:
          if k == 2:
            vals = [1.0 if 1.0 in new._selected[0].feasible_values or 1 in new._selected[0].feasible_values else 2.5]   # pylint: disable=protected-access
          fill(new.select_values(vals), d - 1)
    fill(ss.root, depth)
    return ss

  # -- measurements
  def meas(self):
    r = self.r
    metrics = {}
    for _ in range(r.choice([0, 1, 1, 2, 3])):
      nm = r.choice(['', 'obj', 'é', 'a:b', 'm\\', '\U0001d6fc', 'loss'])
      metrics[nm] = V['tr'].Metric(value=self.flt(), std=r.choice([None, None, 0.0, 0.5]))
    if self.float_secs:
      secs = r.choice(ELAPSED_FLOAT + ELAPSED_EXACT) if r.random() < 0.5 else r.uniform(0, 10 ** r.randrange(0, 7))
    else:
      secs = r.choice(ELAPSED_EXACT) if r.random() < 0.7 else r.randrange(0, 10**6) + r.randrange(0, 512) / 512.0
    return V['tr'].Measurement(metrics=metrics, elapsed_secs=secs, steps=r.choice([0, 0, 1, 100, 2**40]),
                               checkpoint_path=r.choice(['', '', '/ckpt/1']))

  # -- metadata
  def ns(self):
    r = self.r
    comps = [r.choice(NSCOMP) for _ in range(r.choice([0, 1, 1, 2, 3]))]
    if self.allow_trailing_bs and r.random() < 0.5 and comps:
      comps[r.randrange(len(comps))] += '\\'
    return tuple(comps)

  def mdvalue(self):
    r = self.r
    x = r.random()
    if x < 0.7:
      return r.choice(MDSTR)
    d = V['duration_pb2'].Duration(seconds=r.choice([0, 1, 7]), nanos=r.choice([0, 5]))
    if x < 0.85:
      a = V['any_pb2'].Any()
      a.Pack(d)
      return a
    return d if x < 0.95 else V['struct_pb2'].Value(string_value=r.choice(['', 'é']))

  def md(self, big=False):
    r = self.r
    md = V['common'].Metadata()
    for _ in range(r.choice([0, 1, 1, 2, 3] if not big else [2, 3, 4])):
      ns = V['common'].Namespace(self.ns())
      if r.random() < 0.12:
        md.abs_ns(ns)            # an empty store (reading creates it)
        continue
      for _ in range(r.randrange(1, 4)):
        md.abs_ns(ns)[r.choice(KEYS)] = self.mdvalue()
    return md

  def delta(self):
    r = self.r
    d = V['tr'].MetadataDelta()
    if r.random() < 0.7:
      d.on_study.attach(self.md())
    for _ in range(r.choice([0, 1, 2, 3])):
      tid = r.choice([0, 1, 2, 7, 10, 2**31 - 1])
      if r.random() < 0.15:
        d.on_trials[tid]          # pylint: disable=pointless-statement  (an empty entry)
      else:
        d.on_trials[tid].attach(self.md())
    return d

  # -- parameter values
  def pyvalue(self):
    r = self.r
    x = r.random()
    if x < 0.3:
      return r.choice([0, 1, -1, 7, 2**53, -2**53, 10**6])
    if x < 0.6:
      return self.flt()
    if x < 0.85:
      return r.choice(CATS)
    return r.choice([True, False])

  def params(self):
    r = self.r
    return {self.name(): self.pyvalue() for _ in range(r.choice([0, 1, 2, 3, 5]))}

  def suggestion(self):
    return V['tr'].TrialSuggestion(parameters=self.params(), metadata=self.md())

  def time_us(self):
    r = self.r
    x = r.random()
    if x < 0.4:
      return 1790000000 * 10**6 + r.randrange(0, 10**13)         # around "now" (2026)
    if x < 0.55:
      return 2**31 * 10**6 + r.randrange(-10**7, 10**7)            # 2038
    if x < 0.7:
      return r.randrange(0, 10**6)                                 # sub-second after the epoch
    return r.randrange(0, 4102444800 * 10**6)                      # 1970 .. 2100

  def trial(self):
    r = self.r
    kw = dict(id=r.choice([0, 1, 2, 7, 2**31]), description=r.choice([None, '', 'd', 'é:\\']),
              is_requested=r.random() < 0.3, assigned_worker=r.choice([None, None, '', 'w', 'wé']),
              stopping_reason=r.choice([None, None, None, '', 'why']),
              infeasibility_reason=r.choice([None, None, None, '', 'bad']),
              related_links=r.choice([{}, {}, {'a': 'http://x'}]), parameters=self.params(), metadata=self.md(),
              measurements=[self.meas() for _ in range(r.choice([0, 0, 1, 2]))],
              final_measurement=self.meas() if r.random() < 0.4 else None)
    t0 = self.time_us()
    ct = r.random()
    if ct < 0.85:
      kw['creation_time'] = dt_of(t0, naive=r.random() < 0.3)
    elif ct < 0.93:
      kw['creation_time'] = None
    completed = kw['final_measurement'] is not None or kw['infeasibility_reason'] is not None
    if completed and r.random() < 0.7:
      kw['completion_time'] = dt_of(t0 + r.choice([0, 1, 999999, 3600 * 10**6, r.randrange(0, 10**9)]))
    t = V['tr'].Trial(**kw)
    if not completed and r.random() < 0.2:
      # completed through the public method (sets completion_time = now)
      t.complete(self.meas(), infeasibility_reason=r.choice([None, None, 'late']))
    return t

  # -- metrics, problems, studies
  def metric(self, name):
    r = self.r
    G = V['bsc'].ObjectiveMetricGoal
    kw = dict(name=name, goal=r.choice([G.MAXIMIZE, G.MINIMIZE]))
    if r.random() < 0.45:
      kw['safety_threshold'] = float(r.choice([0.0, 0.0, 1.5, -2.0, self.flt()]))
      kw['desired_min_safe_trials_fraction'] = r.choice([None, 0.0, 0.0, 0.5, 1.0])
    return V['bsc'].MetricInformation(**kw)

  def metrics(self, sorted_names=None):
    r = self.r
    names = r.sample(['', 'obj', 'é', 'a:b', 'loss', 'Z', '\U0001d6fc', 'b'], r.choice([1, 1, 2, 3]))
    if sorted_names is True:
      names.sort()
    elif sorted_names is False and len(names) > 1:
      names.sort(reverse=True)
    return [self.metric(n) for n in names]

  def space(self, depth=None):
    r = self.r
    if depth is None:
      depth = r.choice([0, 0, 1, 1, 2, 3])
    if r.random() < 0.3:
      return self.space_via_builders(min(depth, 3))
    ss = V['pcfg'].SearchSpace()
    for _ in range(r.choice([0, 1, 2, 3])):
      ss.add(self.pc(depth))
    return ss

  def problem(self):
    return V['bsc'].ProblemStatement(search_space=self.space(), metric_information=self.metrics(), metadata=self.md())

  def study(self, sorted_names=True):
    r = self.r
    sc = V['sc']
    kw = dict(search_space=self.space(), metric_information=self.metrics(sorted_names), metadata=self.md(),
              algorithm=r.choice(['ALGORITHM_UNSPECIFIED', 'RANDOM_SEARCH', '', 'my:algo\\', sc.Algorithm.NSGA2]),
              observation_noise=r.choice(list(sc.ObservationNoise)))
    if r.random() < 0.4:
      kw['automated_stopping_config'] = V['sc'].automated_stopping.AutomatedStoppingConfig.default_stopping_spec()
    if r.random() < 0.4:
      # pythia_endpoint: a view of the metadata entry ('service',) / PYTHIA_ENDPOINT.  Other entries of that
      # namespace, an entry under the key itself (same or another value) and later namespaces decide WHERE the
      # entry lands in the message
      kw['pythia_endpoint'] = r.choice(['localhost:8888', '', 'é:1', 'host:1'])
      md = V['common'].Metadata()
      x = r.random()
      if x < 0.5:
        md.ns('service')[r.choice(['a', 'PYTHIA_ENDPOINT_', 'é'])] = r.choice(['1', ''])
      if 0.3 < x < 0.7:
        md.ns('service')['PYTHIA_ENDPOINT'] = r.choice([kw['pythia_endpoint'], 'other:2'])
      old_md = kw['metadata']
      if r.random() < 0.5:
        md, old_md = old_md, md
      for ns in old_md.namespaces():
        for k, v in old_md.abs_ns(ns).items():
          md.abs_ns(ns)[k] = v
      kw['metadata'] = md
    elif r.random() < 0.15:
      # no endpoint configured, but the metadata holds the entry: the view shows it
      kw['metadata'].ns('service')['PYTHIA_ENDPOINT'] = r.choice(['h:1', ''])
    s = sc.StudyConfig(**kw)
    if r.random() < 0.25:
      # an object that came from a proto and was edited afterwards (keeps the original proto)
      try:
        s2 = sc.StudyConfig.from_proto(s.to_proto())
        s2.algorithm = r.choice(['GRID_SEARCH', ''])
        s2.metadata.ns('edited')['k'] = 'v'
        s = s2
      except Exception:   # pylint: disable=broad-except
        pass              # a converter that raises is reported by the batch on `s` itself
    return s

  def descriptor(self):
    r = self.r
    return V['pstudy'].StudyDescriptor(config=self.problem(), guid=r.choice(['', 'g', 'owners/o/studies/é']),
                                       max_trial_id=r.choice([0, 1, 7, 2**31 - 1]))

  def sreq(self):
    r = self.r
    return V['policy'].SuggestRequest(study_descriptor=self.descriptor(), count=r.choice([1, 2, 100]),
                                      checkpoint_dir=r.choice([None, '', '/tmp/c']))

  def sdec(self):
    r = self.r
    return V['policy'].SuggestDecision(suggestions=[self.suggestion() for _ in range(r.choice([0, 1, 2, 3]))],
                                       metadata=self.delta())

  def esreq(self):
    r = self.r
    ids = r.choice([None, frozenset(), frozenset([1]), frozenset([3, 1, 2]), frozenset([0, 8, 16, 2**31 - 1])])
    return V['policy'].EarlyStopRequest(study_descriptor=self.descriptor(), trial_ids=ids,
                                        checkpoint_dir=r.choice([None, '', '/tmp/c']))

  def esdec(self):
    r = self.r
    ds = [V['policy'].EarlyStopDecision(id=r.choice([1, 2, 7]), reason=r.choice(['r', 'é', 'no']),
                                        should_stop=r.random() < 0.5,
                                        predicted_final_measurement=self.meas() if r.random() < 0.6 else None)
          for _ in range(r.choice([0, 1, 2]))]
    return V['policy'].EarlyStopDecisions(decisions=ds, metadata=self.delta())


# ================================================================= classification of inputs
def has_frac_secs(j):
  """Does a canonical python-side value contain an elapsed time that is not whole seconds?"""
  if isinstance(j, dict):
    if 'elapsed' in j and not j['elapsed'].endswith('/1'):
      return True
    return any(has_frac_secs(v) for v in j.values())
  if isinstance(j, list):
    return any(has_frac_secs(v) for v in j)
  return False


def pcs_in(j):
  """All canonical parameter configs (roots) inside a canonical python-side value."""
  if isinstance(j, dict):
    if 'dom' in j and 'children' in j:
      return [j]
    return [p for v in j.values() for p in pcs_in(v)]
  if isinstance(j, list):
    return [p for v in j for p in pcs_in(v)]
  return []


def pc_nodes(p):
  yield p
  for _, sub in p['children']:
    for c in sub:
      yield from pc_nodes(c)


def pc_depth(p):
  return max([0] + [1 + pc_depth(c) for _, sub in p['children'] for c in sub])


def falsy_default(p):
  d = p['dom'].get('d')
  return d is not None and d in (0, '0/1', [])


def has_trailing_bs(j):
  s = json.dumps(j)
  return False if '92]' not in s else _trailing_bs_deep(j)


def _trailing_bs_deep(j):
  # namespaces are lists of lists of code points sitting at index 0 of an [ns, items] pair
  if isinstance(j, list):
    if len(j) == 2 and isinstance(j[0], list) and all(isinstance(c, list) and all(isinstance(x, int) for x in c) for c in j[0]) \
        and isinstance(j[1], list) and all(isinstance(e, list) and len(e) == 2 and isinstance(e[1], dict) for e in j[1]):
      if j[1] and any(c and c[-1] == 92 for c in j[0]):
        return True
    return any(_trailing_bs_deep(v) for v in j)
  if isinstance(j, dict):
    return any(_trailing_bs_deep(v) for v in j.values())
  return False


def infeasible_own_time(j):
  """trials (canonical) that are infeasible with a completion time that __attrs_post_init__ would not fill in"""
  if isinstance(j, dict):
    if 'infeas' in j and 'etime' in j and j['infeas'] is not None:
      truthy = j['final'] is not None or j['infeas'] != []
      want = j['ctime'] if truthy else None
      if j['etime'] != want:
        return True
    return any(infeasible_own_time(v) for v in j.values())
  if isinstance(j, list):
    return any(infeasible_own_time(v) for v in j)
  return False


def metrics_unsorted(j):
  if isinstance(j, dict) and 'alg' in j and 'metrics' in j:
    names = [''.join(chr(c) for c in m['name']) for m in j['metrics']]
    return names != sorted(names)
  return False


def classify(kind, cx, flags):
  """Keys of the recorded / flagged failure classes the input belongs to (in priority order)."""
  keys = []
  if has_trailing_bs(cx):
    keys.append(KEY_TRAILING_BS)
  pcs = pcs_in(cx)
  if any(n['scale'] == 'UNIFORM_DISCRETE' for p in pcs for n in pc_nodes(p)):
    keys.append(KEY_UNIFORM)
  if kind == 'study' and metrics_unsorted(cx):
    keys.append(KEY_METRIC_ORDER)
  if kind == 'study' and not flags.get('endpointMerged', True) and cx.get('endpoint') is not None:
    keys.append(KEY_ENDPOINT_ORDER)
  if kind == 'esdec' and not flags.get('optPred', True) and any(e['pred'] is None for e in cx['decisions']):
    keys.append(KEY_NO_PREDICTION)
  if not flags['readNanos'] and has_frac_secs(cx):
    keys.append(KEY_NANOS)
  if not flags['defaultHasField'] and any(falsy_default(n) for p in pcs for n in pc_nodes(p)):
    keys.append(KEY_DEFAULT)
  if not flags['recurseBeforeCopy'] and any(pc_depth(p) >= 2 for p in pcs):
    keys.append(KEY_DEPTH)
  if not flags['infeasibleEndTime'] and infeasible_own_time(cx):
    keys.append(KEY_INFEASIBLE_TIME)
  return keys


def features(cx):
  s = json.dumps(cx)
  f = []
  if has_frac_secs(cx):
    f.append('frac-secs')
  pcs = pcs_in(cx)
  if pcs:
    dmax = max(pc_depth(p) for p in pcs)
    if dmax:
      f.append('depth%d' % min(dmax, 3))
    if any(falsy_default(n) for p in pcs for n in pc_nodes(p)):
      f.append('falsy-default')
  if '"proto"' in s or '"any"' in s or '"msg"' in s:
    f.append('packed-proto')
  if any(c in s for c in (' 58,', ' 92,', ' 58]', ' 92]', '[58', '[92', ' 91')):
    f.append('separator-char')
  if any(tok in s for tok in ('233', '120572')):
    f.append('unicode')
  if '"b": false' in s or '"i": 0' in s or '"f": "0/1"' in s or '"s": []' in s:
    f.append('falsy-value')
  return f


# ================================================================= the stages
def identify_flags(c):
  """Replay the witness of each counterexample theorem on the real code."""
  pc, tr, pcfg = V['pc'], V['tr'], V['pcfg']
  flags = {}

  def replay(flag, kind, make, ok, key, describe):
    """flag := the witness survives; a converter that raises is reported and the intended variant assumed."""
    to, frm, cpy, _ = kinds()[kind]
    ws = make()
    bad = []
    for w in ws:
      try:
        b = frm(to(w))
      except Exception as e:   # pylint: disable=broad-except
        c.prop_fail('witness-raises:' + kind, '%s witness of %s: converter raised %s: %s' % (kind, flag, type(e).__name__, str(e)[:200]),
                    {'type': kind, 'x': cpy(w)})
        continue
      if not ok(w, b):
        bad.append((w, b))
    flags[flag] = not bad
    if bad:
      w, b = bad[0]
      c.prop_fail(key, describe(w, b, len(bad), len(ws)), {'type': kind, 'x': cpy(w), 'back': cpy(b)})

  F = pcfg.ParameterConfig.factory
  # c09_measurement_counterexample: elapsed_secs = 3/2
  replay('readNanos', 'meas', lambda: [tr.Measurement(elapsed_secs=1.5)], lambda w, b: b.elapsed_secs == 1.5, KEY_NANOS,
         lambda w, b, k, n: 'Measurement(elapsed_secs=1.5) comes back from its proto with elapsed_secs=%r (nanos never read)' % b.elapsed_secs)
  # c09_paramConfig_default(_str)_counterexample
  replay('defaultHasField', 'pc',
         lambda: [F('x', bounds=(-1.0, 1.0), default_value=0.0), F('c', feasible_values=['', 'a'], default_value=''),
                  F('i', bounds=(0, 3), default_value=0), F('d', feasible_values=[0.0, 1.0], default_value=0.0)],
         lambda w, b: b.default_value is not None, KEY_DEFAULT,
         lambda w, b, k, n: 'ParameterConfig %r with default_value=%r comes back with default_value=None (truthiness test); %d of %d falsy defaults lost' % (w.name, w.default_value, k, n))

  # c09_paramConfig_depth_counterexample
  def deep():
    g = F('c', bounds=(0.0, 1.0), scale_type=pcfg.ScaleType.LINEAR)
    ch = F('b', bounds=(0, 3), children=[([1], g)])
    return [F('a', feasible_values=['x', 'y'], children=[(['x'], ch)])]
  replay('recurseBeforeCopy', 'pc', deep, lambda w, b: pc_depth(canon_pc(b)) == 2, KEY_DEPTH,
         lambda w, b, k, n: 'conditional parameter a -> b -> c (depth 2) comes back with depth %d: the grandchild is not in the proto' % pc_depth(canon_pc(b)))
  # c09_trial_infeasible_time_counterexample
  replay('infeasibleEndTime', 'trial',
         lambda: [tr.Trial(id=1, creation_time=dt_of(10**6), completion_time=dt_of(2 * 10**6), infeasibility_reason='bad')],
         lambda w, b: us_of(b.completion_time) == 2 * 10**6, KEY_INFEASIBLE_TIME,
         lambda w, b, k, n: 'infeasible Trial created at t=1s, completed at t=2s comes back with completion time %s us (end_time only read for SUCCEEDED trials)' % us_of(b.completion_time))
  # c09_studyConfig_endpoint_order_counterexample: another `service` entry, a later namespace, an endpoint

  def endpoint_witness():
    w = V['sc'].StudyConfig(pythia_endpoint='host:1')
    w.metadata.ns('service')['a'] = '1'
    w.metadata.ns('o')['b'] = '2'
    return [w]
  replay('endpointMerged', 'study', endpoint_witness, lambda w, b: ser(w.to_proto()) == ser(b.to_proto()), KEY_ENDPOINT_ORDER,
         lambda w, b, k, n: 'StudyConfig(pythia_endpoint=host:1) with metadata service/a, o/b: to_proto appends the endpoint entry after ALL metadata (%s), a second conversion writes it inside its namespace (%s): not the identical message' % (
             [(kv.ns, kv.key) for kv in w.to_proto().metadata], [(kv.ns, kv.key) for kv in b.to_proto().metadata]))
  # c09_earlyStopDecisions_no_prediction_counterexample: one decision without a predicted final measurement
  pol = V['policy']
  replay('optPred', 'esdec',
         lambda: [pol.EarlyStopDecisions(decisions=[pol.EarlyStopDecision(id=1, reason='r', should_stop=False)])],
         lambda w, b: b.decisions[0].predicted_final_measurement is None, KEY_NO_PREDICTION,
         lambda w, b, k, n: 'EarlyStopDecision(id=1, predicted_final_measurement=None) comes back with the prediction %r (an empty Measurement() is always sent and converted unconditionally)' % (
             b.decisions[0].predicted_final_measurement,))
  c.flags.update(flags)
  return flags


class Batch:
  """Cases collected from all streams; the model is asked once for all of them."""

  def __init__(self, c, flags):
    self.c = c
    self.flags = flags
    self.recs = []

  def add(self, kind, objs, stream, exact=True):
    """to_proto / from_proto / to_proto on the real code for every object."""
    c, flags = self.c, self.flags
    to, frm, cpy, cproto = kinds()[kind]
    cfg = [flags['readNanos'], flags['defaultHasField'], flags['recurseBeforeCopy'], flags['infeasibleEndTime']]
    for x in objs:
      cx = cpy(x)
      rec = {'kind': kind, 'cx': cx, 'x': x, 'stream': stream, 'exact': exact}
      self.recs.append(rec)
      try:
        p = to(x)
      except Exception as e:   # pylint: disable=broad-except
        rec['err'] = ('to_proto', e)
        continue
      if cpy(x) != cx:
        c.prop_fail('to_proto-mutates-input:' + kind, 'to_proto modified its argument', {'type': kind, 'x': cx, 'after': cpy(x)})
      try:
        back = frm(p)
        p2 = to(back)
      except Exception as e:   # pylint: disable=broad-except
        rec['err'] = ('from_proto', e)
        continue
      rec.update(cp=cproto(p), cb=cpy(back), cp2=cproto(p2), same_bytes=(ser(p) == ser(p2)), back=back)
      rec['req'] = {'op': kind, 'cfg': cfg, 'x': cx, 'back': rec['cb']}
      if kind == 'study':
        rec['req']['endpointMerged'] = bool(flags.get('endpointMerged', True))
      if kind == 'esdec':
        rec['req']['optPred'] = bool(flags.get('optPred', True))

  def evaluate(self):
    """Same values through the model (one driver run); tie + property per case."""
    c, flags = self.c, self.flags
    model = c.lean('C09', [r['req'] for r in self.recs if 'req' in r])
    mi = iter(model)
    for rec in self.recs:
      kind, cx, exact, stream = rec['kind'], rec['cx'], rec['exact'], rec['stream']
      cls = classify(kind, cx, flags)
      feats = features(cx)
      h = hashlib.sha1(json.dumps(cx, sort_keys=True).encode()).hexdigest()[:16]
      c.count(1, (kind, h) if feats else None, kind='%s:%s' % (stream, kind))
      for f in feats:
        c.dist['feature:' + f] = c.dist.get('feature:' + f, 0) + 1
      case = {'type': kind, 'stream': stream, 'x': cx}
      if 'err' in rec:
        where, e = rec['err']
        key = cls[0] if cls and where == 'from_proto' and cls[0] == KEY_TRAILING_BS else '%s-raises:%s' % (where, kind)
        c.prop_fail(key, '%s %s raised %s: %s' % (kind, where, type(e).__name__, str(e)[:200]), case)
        continue
      c.traces += 1
      m = next(mi)
      if 'error' in m:
        raise core.InfraError('driver C09: %s on %s' % (m['error'], json.dumps(cx)[:300]))
      case.update(proto=rec['cp'], back=rec['cb'])
      # ---- tie: the model run with the identified variant predicts the real code
      tie_ok = True
      if exact:
        for nm, real, mod in (('to_proto', rec['cp'], m['proto']), ('from_proto', rec['cb'], m['back']),
                              ('to_proto(from_proto(to_proto))', rec['cp2'], m['again'])):
          if real != mod:
            tie_ok = False
            c.tie_break('%s.%s' % (kind, nm), {'type': kind, 'x': cx}, real, mod)
            break
      # ---- property on the real outputs: normal forms (Lean `norm`) agree, second conversion identical
      rt_ok = m['norm_back'] == m['norm'] if exact else approx_equal(m['norm_back'], m['norm'])
      idem_ok = rec['same_bytes'] or (not exact and approx_equal(rec['cp'], rec['cp2'], proto=True)) \
          or (kind == 'esreq' and rec['cp'] == rec['cp2'])
      if rt_ok and idem_ok:
        # secondary oracle: the library's own equality, where it is meaningful
        if kind in ('pc', 'metric') and not cls and rec['back'] != rec['x']:
          c.tie_break('%s: python == differs although the canonical forms agree' % kind, {'type': kind, 'x': cx}, repr(rec['back'])[:300], repr(rec['x'])[:300])
        continue
      what = []
      if not rt_ok:
        what.append('from_proto(to_proto(x)) differs from x: %s' % first_diff(m['norm'], m['norm_back']))
      if not idem_ok:
        what.append('to_proto(from_proto(to_proto(x))) is not identical to to_proto(x): %s' % first_diff(rec['cp'], rec['cp2']))
      if cls and (tie_ok or not exact):
        key = cls[0]          # explained: the model of the identified variant predicts exactly this failure on this input
                              # (a failure of a recorded class that the model does NOT reproduce is a different failure)
      elif cls:
        key = 'unexplained:' + kind
      else:
        key = 'roundtrip:' + kind if not rt_ok else 'idempotence:' + kind
      c.prop_fail(key, '%s %s' % (kind, '; '.join(what)), case)
    self.recs = []


def first_diff(a, b, path=''):
  if type(a) != type(b):
    return '%s: %s vs %s' % (path or '.', json.dumps(a)[:80], json.dumps(b)[:80])
  if isinstance(a, dict):
    for k in sorted(set(a) | set(b)):
      if a.get(k) != b.get(k):
        return first_diff(a.get(k), b.get(k), path + '.' + k)
  elif isinstance(a, list):
    if len(a) != len(b):
      return '%s: length %d vs %d' % (path or '.', len(a), len(b))
    for i, (x, y) in enumerate(zip(a, b)):
      if x != y:
        return first_diff(x, y, '%s[%d]' % (path, i))
  elif a != b:
    return '%s: %s vs %s' % (path or '.', json.dumps(a)[:80], json.dumps(b)[:80])
  return 'equal'


def approx_equal(a, b, proto=False):
  """Equality of canonical values up to the float arithmetic of elapsed seconds: python side
  `elapsed` within 1 ns + 4 ulp, proto side total nanoseconds within 1."""
  if isinstance(a, dict) and isinstance(b, dict):
    if set(a) != set(b):
      return False
    if proto and set(a) == {'s', 'n'}:
      return abs((a['s'] * 10**9 + a['n']) - (b['s'] * 10**9 + b['n'])) <= 1
    for k in a:
      if k == 'elapsed' and not proto:
        x, y = Fraction(a[k]), Fraction(b[k])
        tol = Fraction(1, 10**9) + 4 * Fraction(math.ulp(float(max(x, y))))
        if abs(x - y) > tol:
          return False
      elif not approx_equal(a[k], b[k], proto):
        return False
    return True
  if isinstance(a, list) and isinstance(b, list):
    return len(a) == len(b) and all(approx_equal(x, y, proto) for x, y in zip(a, b))
  return a == b


def main_streams(c, flags, scale=1):
  quick = c.tier == 'quick'
  n = {'pc': 420, 'meas': 260, 'trial': 320, 'md': 150, 'delta': 150, 'suggestion': 100, 'metric': 80,
       'problem': 80, 'study': 200, 'sreq': 40, 'sdec': 60, 'esreq': 40, 'esdec': 60}
  mult = (2 if quick else 14) * scale
  n = {k: v * mult for k, v in n.items()}
  side = (60 if quick else 400) * scale
  g = Gen(c.rng)
  b = Batch(c, flags)
  corpus = corpus_objects()
  for kind in n:
    objs = list(corpus.get(kind, []))
    for i in range(n[kind]):
      if kind == 'pc':
        objs.append(g.pc(depth=[0, 1, 1, 2, 2, 3][i % 6]))
      elif kind == 'metric':
        objs.append(g.metric(g.r.choice(['', 'obj', 'é', 'a:b'])))
      elif kind == 'study':
        objs.append(g.study(sorted_names=True))
      else:
        objs.append(getattr(g, kind)())
    b.add(kind, objs, 'main')
    if scale == 1:
      c.sample({kind: canon_small(kinds()[kind][2](objs[min(len(objs) - 1, len(corpus.get(kind, [])))]))}, limit=13)
  # ---- streams of the recorded findings (own keys)
  gk = Gen(c.rng, allow_uniform=True)
  objs = [V['pcfg'].ParameterConfig.factory('d', feasible_values=[1, 2, 3], scale_type=V['pcfg'].ScaleType.UNIFORM_DISCRETE)]
  objs += [gk.pc(depth=i % 3) for i in range(side)]
  b.add('pc', objs, 'uniform-discrete')
  b.add('study', [gk.study(sorted_names=False) for _ in range(side)], 'unsorted-metrics')
  gb = Gen(c.rng, allow_trailing_bs=True)
  b.add('md', [gb.md(big=True) for _ in range(side)], 'ns-trailing-backslash')
  b.add('trial', [gb.trial() for _ in range(side // 2)], 'ns-trailing-backslash')
  # ---- float stream: arbitrary doubles for elapsed seconds (property only, with tolerance)
  gf = Gen(c.rng, float_secs=True)
  b.add('meas', [gf.meas() for _ in range((300 if quick else 4000) * scale)], 'float-secs', exact=False)
  b.add('trial', [gf.trial() for _ in range((100 if quick else 1200) * scale)], 'float-secs', exact=False)
  b.evaluate()


def canon_small(j):
  s = json.dumps(j)
  return j if len(s) < 1500 else s[:1500] + '…'


def corpus_objects():
  """Witnesses of the counterexample theorems and hand-made boundary cases; run first."""
  pcfg, tr, bsc = V['pcfg'], V['tr'], V['bsc']
  F = pcfg.ParameterConfig.factory
  g = F('c', bounds=(0.0, 1.0), scale_type=pcfg.ScaleType.LINEAR)
  ch = F('b', bounds=(0, 3), children=[([1, 2], g)])
  deep = F('a', feasible_values=['x', 'y'], children=[(['x'], ch), (['x', 'y'], F('e', feasible_values=[0.0, 1.0], default_value=0.0))])
  d3 = F('r', bounds=(0, 1), children=[([0, 1], deep)])
  out = {
      'pc': [F('x', bounds=(-1.0, 1.0), default_value=0.0), F('c', feasible_values=['', 'a'], default_value=''),
             F('i', bounds=(0, 3), default_value=0), F('d', feasible_values=[0.0, 1.0], default_value=0.0),
             F('z', bounds=(0, 0)), F('w', bounds=(0.0, 0.0), default_value=0.0, external_type=pcfg.ExternalType.BOOLEAN),
             deep, d3, F('b', feasible_values=['False', 'True'], external_type=pcfg.ExternalType.BOOLEAN, default_value='False')],
      'meas': [tr.Measurement(elapsed_secs=1.5), tr.Measurement(), tr.Measurement(metrics={'': 0.0}, steps=0),
               tr.Measurement(metrics={'a': tr.Metric(1.0, std=0.5)}, elapsed_secs=0.001953125, checkpoint_path='/x')],
      'trial': [tr.Trial(), tr.Trial(id=1, creation_time=dt_of(10**6), completion_time=dt_of(2 * 10**6), infeasibility_reason='bad'),
                tr.Trial(id=2, parameters={'x': 0, 'y': 0.0, 'z': '', 'w': False}, final_measurement=tr.Measurement(elapsed_secs=1.5)),
                tr.Trial(id=3, is_requested=True), tr.Trial(id=4, stopping_reason='x', is_requested=True),
                tr.Trial(id=5, infeasibility_reason='', creation_time=None)],
      'metric': [bsc.MetricInformation(name='', goal=bsc.ObjectiveMetricGoal.MINIMIZE, safety_threshold=0.0, desired_min_safe_trials_fraction=0.0),
                 bsc.MetricInformation(name='m', goal=bsc.ObjectiveMetricGoal.MAXIMIZE)],
  }
  return out


def time_sweep(c):
  """Dense sweep of time stamps through the real converters (whole microseconds must survive)."""
  tr, pc = V['tr'], V['pc']
  n = 30000 if c.tier == 'quick' else 400000
  r = c.rng
  now = 1790000000 * 10**6
  vals = [0, 1, 999999, 10**6, 2**31 * 10**6 - 1, 2**31 * 10**6, 2**31 * 10**6 + 1, now, now + 1, 4102444799999999]
  for i in range(n):
    x = i % 5
    if x == 0:
      vals.append(now + r.randrange(0, 10**12))
    elif x == 1:
      vals.append(now + i)                                  # consecutive microseconds
    elif x == 2:
      vals.append(2**31 * 10**6 + r.randrange(-10**8, 10**8))
    elif x == 3:
      vals.append(r.randrange(0, 2 * 10**6))
    else:
      vals.append(r.randrange(0, 4102444800 * 10**6))       # 1970 .. 2100
  bad = 0
  protos = []
  for j, t in enumerate(vals):
    tt = t + (j % 7) * 1234567
    trial = tr.Trial(id=1, creation_time=dt_of(t), completion_time=dt_of(tt), final_measurement=tr.Measurement())
    c.count(1, kind='time-sweep')
    try:
      p = pc.TrialConverter.to_proto(trial)
      b = pc.TrialConverter.from_proto(p)
    except Exception as e:   # pylint: disable=broad-except
      bad += 1
      c.prop_fail('timestamp-raises', 'converting a trial created at %d us raised %s: %s' % (t, type(e).__name__, str(e)[:200]),
                  {'type': 'time', 'us': [t, tt]})
      if bad > 20:
        break
      continue
    got = (us_of(b.creation_time), us_of(b.completion_time))
    if got != (t, tt):
      bad += 1
      c.prop_fail('timestamp-microsecond', 'creation/completion time %s us came back as %s us' % ((t, tt), got),
                  {'type': 'time', 'us': [t, tt], 'back': list(got)})
    if j < 3000:
      protos.append((t, canon_ts(p.start_time)))
  c.traces += len(vals)
  m = c.lean('C09', [{'op': 'time', 'ts': [t for t, _ in protos]}])[0]
  for (t, real), mod, back in zip(protos, m['ts'], m['back']):
    if real != mod or back != t:
      c.tie_break('time stamp toTs/fromTs', {'us': t}, real, mod)
  c.coverage_extra['time_sweep'] = {'values': len(vals), 'range': '1970..2100 (float seconds resolve < 0.5 us until 2106)', 'failures': bad}


def schema_obligations(c):
  """Translator `proto_schema`: the messages, fields, oneofs, `optional` markers and enum numbers
  of the current tree's .proto files must be the ones the mirror types of Model/Wire.lean were
  written against (a new field would silently fall outside the model)."""
  import os
  from google.protobuf import descriptor as D
  from google.protobuf import descriptor_pool
  want = json.load(open(os.path.join(os.path.dirname(os.path.abspath(__file__)), 'c09_schema.json')))
  T = {v: k[5:].lower() for k, v in vars(D.FieldDescriptor).items() if k.startswith('TYPE_')}
  pool = descriptor_pool.Default()

  def fp(desc):
    out = {}
    for f in desc.fields:
      t = T[f.type]
      if f.message_type is not None:
        t += ':' + f.message_type.full_name
      if f.enum_type is not None:
        t += ':' + f.enum_type.full_name
      rep = f.is_repeated if hasattr(f, 'is_repeated') else f.label == f.LABEL_REPEATED
      if rep:
        t = 'repeated ' + t
      o = f.containing_oneof
      if o is not None:
        t += ' optional' if o.name.startswith('_') else ' oneof:' + o.name
      out[f.name] = t
    return out
  for name, fields in want['messages'].items():
    try:
      got = fp(pool.FindMessageTypeByName(name))
    except KeyError:
      got = None
    c.add_obligation('proto-schema ' + name, got == fields,
                     '' if got == fields else 'expected %s, the tree has %s' % (json.dumps(fields, sort_keys=True), json.dumps(got, sort_keys=True)))
  for name, values in want['enums'].items():
    try:
      e = pool.FindEnumTypeByName(name)
      got = {v.name: v.number for v in e.values}
    except KeyError:
      got = None
    c.add_obligation('proto-schema enum ' + name, got == values, '' if got == values else 'expected %s, the tree has %s' % (values, got))


def extra_probes(c):
  """Observations that are not judged (fields without a wire representation, outside the property's enumeration)."""
  try:
    _extra_probes(c)
  except Exception as e:   # pylint: disable=broad-except
    c.prop_fail('probe-raises', 'side probe raised %s: %s' % (type(e).__name__, str(e)[:200]), {'type': 'probe'})


def _extra_probes(c):
  bsc, pc = V['bsc'], V['pc']
  m = bsc.MetricInformation(name='m', goal=bsc.ObjectiveMetricGoal.MAXIMIZE, min_value=0.0, max_value=1.0)
  b = pc.MetricInformationConverter.from_proto(pc.MetricInformationConverter.to_proto(m))
  sc = V['sc']
  s = sc.StudyConfig(pythia_endpoint='localhost:1')
  s.metric_information.append(bsc.MetricInformation(name='m', goal=bsc.ObjectiveMetricGoal.MAXIMIZE))
  bs = sc.StudyConfig.from_proto(s.to_proto())
  c.coverage_extra['not_judged'] = {
      'MetricInformation.min_value/max_value (no wire field)': '%r -> %r' % ((m.min_value, m.max_value), (b.min_value, b.max_value)),
      'StudyConfig.pythia_endpoint (kept as a metadata entry)': '%r -> %r' % (s.pythia_endpoint, bs.pythia_endpoint),
  }
  if bs.pythia_endpoint != s.pythia_endpoint:
    c.prop_fail('studyconfig-pythia-endpoint', 'StudyConfig.pythia_endpoint %r came back as %r' % (s.pythia_endpoint, bs.pythia_endpoint), {'type': 'study-endpoint'})


def run(c):
  c.proof_stage()
  _imports()
  schema_obligations(c)
  flags = identify_flags(c)
  main_streams(c, flags)
  time_sweep(c)
  extra_probes(c)
  return c.finish(
      level='proof', search=lambda: main_streams(c, flags, scale=4),
      rule='an object counts as non-trivial when it has at least one of: fractional elapsed seconds, a falsy default/value '
           '(0, 0.0, "", False), a conditional tree of depth >= 1, a packed proto in metadata, a separator character '
           '(":", "\\", "[") or a non-ASCII character in a name; distinct = distinct canonical JSON',
      assumptions=[
          'numbers are exact rationals in the model; python ints are within +-2^53 where they travel as number_value (double)',
          'elapsed seconds in the model-tied streams are dyadic fractions (float arithmetic on them is exact); arbitrary doubles are '
          'checked on the real code only, with tolerance 1 ns + 4 ulp (python side) / 1 ns (proto side)',
          'time stamps are compared at microsecond resolution; the sweep covers 1970..2100',
          'None and the proto3 default coincide on the wire and in the normal form: Trial.description None/"", assigned_worker ""/None, '
          'checkpoint_dir None/"", EarlyStopRequest.trial_ids None/empty, EarlyStopDecision.predicted_final_measurement None/empty; '
          'is_requested and stopping_reason survive only through the trial status',
          'MetricInformation.min_value/max_value/safety_std_threshold, ParameterConfig.fidelity_config and StudyConfig.pythia_endpoint '
          'have no wire field of their own and are kept at their defaults by the generator (observed values under coverage.not_judged)',
          'from_proto is modelled on its success path; the check verifies on every generated object that the real from_proto '
          'accepts what the real to_proto produced',
          'namespaces with a component ending in a backslash (C10 finding) are generated in a separate stream'])
