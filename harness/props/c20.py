"""C20 — benchmark experimenters evaluate faithfully and leave suggestions intact.

Proof stage: Props/C20.lean over Model/Experimenter.lean (wrapper stacks over abstract base
objectives).  Tie: generated stackings (depth <= 3, valid arguments) of the REAL wrapper
experimenters over the REAL synthetic bases (BBOB, Branin, Hartmann, SimpleKD, WFG/DTLZ/ZDT,
DH) are evaluated on generated batches; the Lean model of the same stack
  (1) names, for every suggestion, the base points it must reach (`queries`),
  (2) given the REAL base objective's values at those points, computes every trial's final
      metrics / infeasibility (`evaluate`, with the noise-call counters threaded),
and the two are compared (1e-9 relative).  Property stage, on the REAL outputs: every trial
completed with the problem's metric names (plus the documented `_before_noise` copies) or
infeasible; parameters deep-equal before/after; the problem statement is returned by value
and equals the model's; the wrapper/base relation holds against the specification variant of
the model; seeded noise is reproducible and seed dependent; the normaliser's sigma is > 0."""
import copy
import itertools
import json
import math
import random

import numpy as np

from vcheck import core
from vcheck import codec as cd

DRIVER = 'C20'
KEY_BYREF = 'problem-statement-by-reference:infeasible-experimenters'
KEY_PERM_INT = 'permute-integer-valued-parameter-typeerror'
KEY_NORM_NAN = 'normalizer-statistics-nan-with-infeasible-samples'
KEY_INF_DROP = 'infeasibility-dropped:%s'          # hypercube | switch | multi
REL_TOL = 1e-9

_mods = {}


def M():
  """Imports of the real code (after the shims)."""
  if _mods:
    return _mods
  import shim
  shim.install()
  from vizier import pyvizier as vz
  from vizier._src.benchmarks.experimenters import (
      numpy_experimenter, shifting_experimenter, sign_flip_experimenter, permuting_experimenter,
      discretizing_experimenter, normalizing_experimenter, noisy_experimenter, sparse_experimenter,
      switch_experimenter, infeasible_experimenter, multiobjective_experimenter, experimenter_factory)
  from vizier._src.benchmarks.experimenters.synthetic import bbob, branin, hartmann, simplekd
  _mods.update(vz=vz, numpy_experimenter=numpy_experimenter, shifting=shifting_experimenter,
               signflip=sign_flip_experimenter, permuting=permuting_experimenter,
               discretizing=discretizing_experimenter, normalizing=normalizing_experimenter,
               noisy=noisy_experimenter, sparse=sparse_experimenter, switch=switch_experimenter,
               infeasible=infeasible_experimenter, multi=multiobjective_experimenter,
               factory=experimenter_factory, bbob=bbob, branin=branin, hartmann=hartmann, simplekd=simplekd)
  for name in ('multiobjective_optproblems', 'deb'):
    try:
      mod = __import__('vizier._src.benchmarks.experimenters.synthetic.' + name, fromlist=['x'])
      _mods[name] = mod
    except Exception as e:  # pylint: disable=broad-except
      _mods[name] = None
      _mods.setdefault('import_failures', []).append('%s: %r' % (name, e))
  _install_hash_recorder()
  # A BBOB function that cannot evaluate an ordinary point (before fix round g about half of bbob.py relied on
  # float() of a one-element array with ndim > 0, which this numpy refuses) is left out of the stackings and
  # reported by run() as a property failure: an experimenter over it completes no trial
  usable = []
  for fn in list(BBOB_FUNCTIONS):
    try:
      for d in (2, 3, 4, 5):
        float(getattr(bbob, fn)(np.linspace(-1.3, 2.1, d)))
      usable.append(fn)
    except Exception as e:  # pylint: disable=broad-except
      _mods.setdefault('bbob_failures', []).append((fn, '%s: %s' % (type(e).__name__, str(e)[:120])))
  BBOB_FUNCTIONS[:] = usable
  return _mods


# ------------------------------------------------------------------ instrumentation
HASH_REC = {}          # id(experimenter) -> [(canonical params, bool)]


def _install_hash_recorder():
  cls = _mods['infeasible'].HashingInfeasibleExperimenter
  if getattr(cls, '_c20_recorded', False):
    return
  orig = cls._is_infeasible

  def recorded(self, parameters):
    r = orig(self, parameters)
    HASH_REC.setdefault(id(self), []).append((canon_params(parameters), bool(r)))
    return r
  cls._is_infeasible = recorded
  cls._c20_recorded = True


class TableNoise:
  """noise_fn(v) = v * m[k] + a[k] at the k-th call: the model's abstract noise(seed, call#)."""

  def __init__(self, seed, additive_twin=None, size=6000):
    if additive_twin is not None:        # the real additive Gaussian noise of `from_type`, drawn from a twin
      self.m = [1.0] * size
      self.a = [float(additive_twin(0.0)) for _ in range(size)]
    else:
      r = random.Random(seed)
      self.m = [r.choice([1.0, 1.0, -0.5, 1.5, 0.25]) for _ in range(size)]
      self.a = [r.choice([0.0, 1.0, -2.5, r.uniform(-1, 1), r.uniform(-100, 100)]) for _ in range(size)]
    self.k = 0

  def __call__(self, v):
    k = self.k
    self.k += 1
    return v * self.m[k] + self.a[k]


# ------------------------------------------------------------------ canonical forms
def pyval(v):
  """numpy scalars -> python scalars (observable value, not representation)."""
  if isinstance(v, (np.floating,)):
    return float(v)
  if isinstance(v, (np.integer,)):
    return int(v)
  if isinstance(v, np.str_):
    return str(v)
  return v


def val_json(v):
  v = pyval(v)
  if isinstance(v, bool):
    raise TypeError('bool parameter value')
  if isinstance(v, str):
    return {'s': v}
  if isinstance(v, int):
    return {'i': v}
  return {'f': cd.hexf(v)}


def canon_params(parameters):
  """ParameterDict / dict -> [[name, value json], ...] (insertion order)."""
  out = []
  for name, pv in parameters.items():
    v = pv.value if hasattr(pv, 'value') else pv
    out.append([name, val_json(v)])
  return out


def snapshot_params(trial):
  """deep, type-sensitive snapshot of a trial's parameters."""
  return sorted((name, type(pv.value).__name__, repr(pv.value)) for name, pv in trial.parameters.items())


def un_json(vj):
  if 'f' in vj:
    return cd.unhex(vj['f'])
  if 'i' in vj:
    return vj['i']
  return vj['s']


def pspec_of_config(pc, conds):
  vz = M()['vz']
  j = {'name': pc.name, 'conds': [list(c) for c in conds]}
  t = pc.type
  if t == vz.ParameterType.DOUBLE:
    j.update(t='D', lo=cd.hexf(pc.bounds[0]), hi=cd.hexf(pc.bounds[1]))
  elif t == vz.ParameterType.INTEGER:
    j.update(t='I', lo=cd.hexf(pc.bounds[0]), hi=cd.hexf(pc.bounds[1]))
  elif t == vz.ParameterType.DISCRETE:
    j.update(t='S', vals=[cd.hexf(v) for v in sorted(float(x) for x in pc.feasible_values)])
  else:
    j.update(t='C', cats=sorted(str(x) for x in pc.feasible_values))
  return j


def flatten_space(space, conds=()):
  """[pspec json] of a (possibly conditional) search space, parents before their children."""
  out = []
  for pc in space.parameters:
    out.append(pspec_of_config(pc, conds))
    for value, sub in pc.subspaces():
      out += flatten_space(sub, conds + ((pc.name, int(value)),))
  return out


def canon_problem(problem):
  return {'params': flatten_space(problem.search_space),
          'metrics': [[m.name, 'MAX' if m.goal.is_maximize else 'MIN'] for m in problem.metric_information]}


def norm_pspec(j):
  """order-insensitive form of a pspec (feasible values as sorted lists)."""
  k = dict(j)
  if 'vals' in k:
    k['vals'] = sorted(k['vals'], key=cd.unhex)
  if 'cats' in k:
    k['cats'] = sorted(k['cats'])
  k['conds'] = [list(c) for c in k.get('conds', [])]
  for b in ('lo', 'hi'):
    if b in k:
      k[b] = cd.unhex(k[b]) + 0.0
  if 'vals' in k:
    k['vals'] = [cd.unhex(v) + 0.0 for v in k['vals']]
  return k


def codec_param(pc):
  """the C15 codec model's parameter json (hyper-cube decoder)."""
  vz = M()['vz']
  sc = {vz.ScaleType.LOG: 'LOG', vz.ScaleType.REVERSE_LOG: 'RLOG'}.get(pc.scale_type, 'LIN')
  j = {'name': pc.name, 'sc': sc}
  t = pc.type
  if t == vz.ParameterType.DOUBLE:
    j.update(t='D', lo=cd.hexf(pc.bounds[0]), hi=cd.hexf(pc.bounds[1]))
  elif t == vz.ParameterType.INTEGER:
    j.update(t='I', lo=int(pc.bounds[0]), hi=int(pc.bounds[1]))
  elif t == vz.ParameterType.DISCRETE:
    j.update(t='S', vals=[cd.hexf(v) for v in sorted(float(x) for x in pc.feasible_values)])
  else:
    j.update(t='C', cats=[str(x) for x in pc.feasible_values])
  return j


def close(a, b, tol=REL_TOL):
  if isinstance(a, str) or isinstance(b, str):
    return a == b
  if math.isnan(a) or math.isnan(b):
    return math.isnan(a) and math.isnan(b)
  if math.isinf(a) or math.isinf(b):
    return a == b
  return abs(a - b) <= tol * max(1.0, abs(a), abs(b))


# ------------------------------------------------------------------ bases
BBOB_FUNCTIONS = ['Sphere', 'Rastrigin', 'BuecheRastrigin', 'LinearSlope', 'AttractiveSector', 'StepEllipsoidal',
                  'RosenbrockRotated', 'Ellipsoidal', 'Discus', 'BentCigar', 'SharpRidge', 'DifferentPowers',
                  'Weierstrass', 'SchaffersF7', 'SchaffersF7IllConditioned', 'GriewankRosenbrock', 'Schwefel',
                  'Katsuura', 'Lunacek', 'Gallagher101Me', 'Gallagher21Me', 'NegativeSphere',
                  'NegativeMinDifference', 'FonsecaFleming']


def gen_base(rng, family=None, dim=None):
  m = M()
  fams = ['bbob'] * 6 + ['branin', 'hartmann', 'simplekd', 'simplekd']
  if m.get('multiobjective_optproblems'):
    fams += ['optproblems']
  if m.get('deb'):
    fams += ['dh']
  fam = family or rng.choice(fams)
  if fam == 'bbob':
    return {'k': 'base', 'fam': 'bbob', 'fn': rng.choice(BBOB_FUNCTIONS), 'dim': dim or rng.choice([2, 3, 4, 2, 3, 4, 2, 3, 11, 12]),      # from x10 on, name order is not declaration order
           
            'seed': rng.randrange(0, 3)}
  if fam == 'branin':
    return {'k': 'base', 'fam': 'branin'}
  if fam == 'hartmann':
    return {'k': 'base', 'fam': 'hartmann', 'd': rng.choice([3, 6])}
  if fam == 'simplekd':
    return {'k': 'base', 'fam': 'simplekd', 'best': rng.choice(['corner', 'center', 'mixed']),
            'nf': rng.randrange(1, 3), 'nd': rng.randrange(1, 3), 'ni': rng.randrange(1, 3),
            'rel': rng.random() < 0.5}
  if fam == 'optproblems':
    kind = rng.choice(['WFG', 'DTLZ', 'ZDT'])
    if kind == 'WFG':
      nobj = rng.choice([2, 3])
      dimm = (nobj - 1) + 2 * rng.randrange(1, 3)
      return {'k': 'base', 'fam': 'optproblems', 'kind': 'WFG', 'name': 'WFG%d' % rng.randrange(1, 10), 'dim': dimm, 'nobj': nobj}
    if kind == 'DTLZ':
      nobj = rng.choice([2, 3])
      return {'k': 'base', 'fam': 'optproblems', 'kind': 'DTLZ', 'name': 'DTLZ%d' % rng.randrange(1, 8),
              'dim': nobj + rng.randrange(1, 4), 'nobj': nobj}
    return {'k': 'base', 'fam': 'optproblems', 'kind': 'ZDT', 'name': rng.choice(['ZDT1', 'ZDT2', 'ZDT3', 'ZDT4', 'ZDT6']), 'dim': rng.randrange(2, 5)}
  name = rng.choice(['DH1', 'DH2', 'DH3', 'DH4'])
  return {'k': 'base', 'fam': 'dh', 'name': name, 'dim': rng.randrange(3 if name in ('DH3', 'DH4') else 2, 5)}


def build_base(spec):
  m = M()
  fam = spec['fam']
  if fam == 'bbob':
    return m['factory'].BBOBExperimenterFactory(spec['fn'], spec['dim'], spec['seed'])()
  if fam == 'branin':
    return m['branin'].Branin2DExperimenter()
  if fam == 'hartmann':
    return m['hartmann'].HartmannExperimenter.from_3d() if spec['d'] == 3 else m['hartmann'].HartmannExperimenter.from_6d()
  if fam == 'simplekd':
    return m['simplekd'].SimpleKDExperimenter(spec['best'], num_float_param=spec['nf'], num_discrete_param=spec['nd'],
                                             num_int_param=spec['ni'], output_relative_error=spec['rel'])
  if fam == 'optproblems':
    mo = m['multiobjective_optproblems']
    if spec['kind'] == 'WFG':
      return mo.WFGExperimenterFactory(spec['name'], spec['dim'], spec['nobj'])()
    if spec['kind'] == 'DTLZ':
      return mo.DTLZExperimenterFactory(spec['name'], spec['dim'], spec['nobj'])()
    return mo.ZDTExperimenterFactory(spec['name'], spec.get('dim', 2))()
  if fam == 'dh':
    return getattr(m['deb'].DHExperimenter, spec['name'])(spec['dim'])
  raise ValueError(fam)


# ------------------------------------------------------------------ traits of a real problem
def traits(problem):
  vz = M()['vz']
  ps = problem.search_space.parameters
  flat = not problem.search_space.is_conditional
  return {
      'flat': flat,
      'all_double': flat and all(p.type == vz.ParameterType.DOUBLE for p in ps),
      'double': [p.name for p in ps if p.type == vz.ParameterType.DOUBLE] if flat else [],
      'finite': [p.name for p in ps if p.type != vz.ParameterType.DOUBLE] if flat else [],
      'single_metric': len(problem.metric_information) == 1,
      'names': [p.name for p in ps],
  }


def int_valued(pc):
  """feasible values are python ints (INTEGER parameters, DISCRETE built from ints)."""
  vz = M()['vz']
  return pc.type != vz.ParameterType.CATEGORICAL and any(isinstance(v, int) for v in pc.feasible_values)


# ------------------------------------------------------------------ nodes (real object + model json)
class Node:
  """One experimenter of a stack: spec (arguments), real object, children."""

  def __init__(self, spec, kids, real, extra=None):
    self.spec, self.kids, self.real, self.extra = spec, kids, real, extra or {}
    self.kind = spec['k']

  def walk(self):
    yield self
    for k in self.kids:
      yield from k.walk()

  def kinds(self):
    return [n.kind for n in self.walk()]

  def at(self, path):
    n = self
    for i in path:
      n = n.kids[i]
    return n


class Invalid(Exception):
  """The generated arguments are not valid for the wrapped experimenter (documented precondition)."""


def build(spec, flags):
  """spec tree -> Node tree with real objects (bottom up)."""
  m = M()
  vz = m['vz']
  k = spec['k']
  if k == 'base':
    real = build_base(spec)
    return Node(spec, [], real, {'problem': canon_problem(real.problem_statement())})
  if k in ('switch', 'multi'):
    kids = [build(s, flags) for s in spec['kids']]
    if k == 'switch':
      real = m['switch'].SwitchExperimenter([n.real for n in kids], switch_param_name=spec['sw'], metric_name=spec['metric'])
    else:
      real = m['multi'].MultiObjectiveExperimenter({name: n.real for name, n in zip(spec['names'], kids)})
    return Node(spec, kids, real)
  inner = build(spec['e'], flags)
  e = inner.real
  extra = {}
  if k == 'shift':
    real = m['shifting'].ShiftingExperimenter(e, np.array(spec['s']) if len(spec['s']) > 1 or spec.get('vec') else spec['s'][0],
                                              should_restrict=spec['restrict'])
    extra['dim'] = len(e.problem_statement().search_space.parameters)
  elif k == 'signflip':
    real = m['signflip'].SignFlipExperimenter(e, flip_objectives_only=spec['objOnly'])
  elif k == 'permute':
    real = m['permuting'].PermutingExperimenter(e, spec['names'], seed=spec['seed'])
    extra['perm'] = [[name, [[val_json(a), val_json(b)] for a, b in d.items()]]
                     for name, d in real._parameter_permutation_dict.items()]   # pylint: disable=protected-access
    space = e.problem_statement().search_space
    extra['int_valued'] = any(int_valued(space.get(n)) for n in spec['names'])
  elif k == 'discretize':
    if spec.get('grid'):
      real = m['discretizing'].DiscretizingExperimenter.create_with_grid(e, spec['grid'], spec['to_str'])
    else:
      real = m['discretizing'].DiscretizingExperimenter(e, spec['disc'])
    disc = real._discretization   # pylint: disable=protected-access
    extra['disc'] = [[name, [val_json(v) for v in vals]] for name, vals in disc.items()]
    extra['parse'] = [[v, cd.hexf(float(v))] for vals in disc.values() for v in vals if isinstance(v, str)]
  elif k == 'hypercube':
    real = m['normalizing'].HyperCubeExperimenter(e)
    ps = e.problem_statement().search_space.parameters
    extra['codec'] = [codec_param(pc) for pc in ps]
    extra['dim'] = sum(len(pc.feasible_values) if pc.type == vz.ParameterType.CATEGORICAL else 1 for pc in ps)
  elif k == 'normalize':
    real = m['normalizing'].NormalizingExperimenter(e, num_normalization_samples=spec['n'], noise_seed=spec['seed'])
    extra['mu'] = [[n, cd.hexf(v)] for n, v in real._norm_means.items()]     # pylint: disable=protected-access
    extra['sigma'] = [[n, cd.hexf(v)] for n, v in real._norm_stds.items()]   # pylint: disable=protected-access
  elif k == 'noisy':
    if spec.get('type'):
      twin = m['noisy']._create_noise_fn(spec['type'], dimension=1, seed=spec['seed'])   # pylint: disable=protected-access
      extra['table'] = TableNoise(0, additive_twin=twin)
      real = m['noisy'].NoisyExperimenter.from_type(e, spec['type'], seed=spec['seed'])
      extra['from_type'] = True
      extra['counting'] = Counting(real.noise_fn)      # counts the draws (also those of an outer constructor)
      real.noise_fn = extra['counting']
    else:
      extra['table'] = TableNoise(spec['seed'])
      real = m['noisy'].NoisyExperimenter(e, extra['table'])
  elif k == 'sparse':
    space = vz.SearchSpace()
    for p in spec['space']:
      cd.add_to_search_space(vz, space.root, p)
    real = m['sparse'].SparseExperimenter(e, space, prefix=spec['pre'])
    extra['extra'] = flatten_space(space)
  elif k == 'hashinf':
    real = m['infeasible'].HashingInfeasibleExperimenter(e, infeasible_prob=spec['prob'], seed=spec['seed'])
  elif k == 'regioninf':
    real = m['infeasible'].ParamRegionInfeasibleExperimenter(e, spec['param'], infeasible_interval=tuple(spec['interval']))
    pc = e.problem_statement().search_space.get(spec['param'])
    extra['plo'], extra['phi'] = cd.hexf(pc.bounds[0]), cd.hexf(pc.bounds[1])
  else:
    raise ValueError(k)
  return Node(spec, [inner], real, extra)


def ex_json(node, flags, base_tables=None, path=()):
  """Model json of the stack; `flags` = keepInf variant per kind; base tables keyed by path."""
  k = node.kind
  sp, ex = node.spec, node.extra
  if k == 'base':
    prob = ex['problem']
    j = {'k': 'base', 'params': prob['params'], 'metrics': prob['metrics']}
    if base_tables is not None:
      j['table'] = base_tables.get(path, [])
    return j
  if k in ('switch', 'multi'):
    names = sp['names'] if k == 'multi' else ['c%d' % i for i in range(len(node.kids))]
    kids = [[nm, ex_json(n, flags, base_tables, path + (i,))] for i, (nm, n) in enumerate(zip(names, node.kids))]
    if k == 'switch':
      return {'k': 'switch', 'sw': sp['sw'], 'metric': sp['metric'], 'keepInf': flags['switch'], 'kids': kids}
    return {'k': 'multi', 'keepInf': flags['multi'], 'kids': kids}
  e = ex_json(node.kids[0], flags, base_tables, path + (0,))
  if k == 'shift':
    s = list(np.broadcast_to(np.array(sp['s'], dtype=float), (ex['dim'],)))
    return {'k': 'shift', 's': [cd.hexf(x) for x in s], 'restrict': sp['restrict'], 'e': e}
  if k == 'signflip':
    return {'k': 'signflip', 'objOnly': sp['objOnly'], 'e': e}
  if k == 'permute':
    return {'k': 'permute', 'perm': ex['perm'], 'e': e}
  if k == 'discretize':
    return {'k': 'discretize', 'disc': ex['disc'], 'parse': ex['parse'], 'e': e}
  if k == 'hypercube':
    return {'k': 'hypercube', 'keepInf': flags['hypercube'], 'dim': ex['dim'], 'codec': ex['codec'],
            'clipScaled': flags.get('clipScaled', False), 'e': e}
  if k == 'normalize':
    return {'k': 'normalize', 'mu': ex['mu'], 'sigma': ex['sigma'], 'e': e}
  if k == 'noisy':
    t = ex['table']
    n = min(len(t.m), ex.get('send', t.k + 64))
    return {'k': 'noisy', 'm': [cd.hexf(x) for x in t.m[:n]], 'a': [cd.hexf(x) for x in t.a[:n]], 'e': e}
  if k == 'sparse':
    return {'k': 'sparse', 'pre': sp['pre'], 'extra': ex['extra'], 'e': e}
  if k == 'hashinf':
    rec = ex.get('hash_rec', [])
    return {'k': 'infeasible', 'mode': 'table', 'table': [{'x': x, 'r': r} for x, r in rec], 'e': e}
  if k == 'regioninf':
    return {'k': 'infeasible', 'mode': 'region', 'param': sp['param'], 'plo': ex['plo'], 'phi': ex['phi'],
            'lo': cd.hexf(sp['interval'][0]), 'hi': cd.hexf(sp['interval'][1]), 'e': e}
  raise ValueError(k)


def st_json(node, counters):
  """the model's RNG state tree; `counters` = noise calls already made per noisy node (by id)."""
  k = node.kind
  if k == 'base':
    return {'n': 0, 'kids': []}
  if k in ('switch', 'multi'):
    return {'n': 0, 'kids': [st_json(n, counters) for n in node.kids]}
  if k == 'noisy':
    return {'n': counters[id(node)], 'kids': [st_json(node.kids[0], counters)]}
  return st_json(node.kids[0], counters)


# ------------------------------------------------------------------ generation of stacks
def gen_shift(rng, problem):
  s = []
  for pc in problem.search_space.parameters:
    lo, hi = pc.bounds
    u = rng.choice([0.0, rng.uniform(-0.9, 0.9), rng.uniform(-0.9, 0.9), rng.uniform(-0.2, 0.2)])
    s.append(float(u * (hi - lo)))
  if rng.random() < 0.2:
    w = min(pc.bounds[1] - pc.bounds[0] for pc in problem.search_space.parameters)
    return {'s': [float(rng.uniform(-0.5, 0.5) * w)], 'vec': False}
  return {'s': s, 'vec': True}


SPARSE_SPACES = [
    [{'t': 'D', 'name': 'F0', 'lo': -5.0, 'hi': 5.0, 'sc': None}],
    [{'t': 'D', 'name': 'F0', 'lo': 0.0, 'hi': 1.0, 'sc': None}, {'t': 'I', 'name': 'I0', 'lo': -5, 'hi': 5, 'sc': None}],
    [{'t': 'S', 'name': 'D0', 'vals': [0.0, 1.0, 2.0, 3.5], 'sc': None}, {'t': 'C', 'name': 'C0', 'cats': ['a', 'b', 'c'], 'sc': None}],
    [{'t': 'D', 'name': 'F0', 'lo': -1.0, 'hi': 2.0, 'sc': None}, {'t': 'D', 'name': 'F1', 'lo': 10.0, 'hi': 20.0, 'sc': None}],
    [{'t': 'C', 'name': 'C0', 'cats': ['x', 'y'], 'sc': None}],
]


def base_families(spec):
  if spec['k'] == 'base':
    return {spec['fam']}
  out = set()
  for sub in (spec['kids'] if spec['k'] in ('switch', 'multi') else [spec['e']]):
    out |= base_families(sub)
  return out


def tolerates_out_of_bounds(spec):
  """base objectives that are plain formulas (the optproblems bases check their bounds): only
  over those may a shift be applied without restricting the search space"""
  return base_families(spec) <= {'bbob', 'branin', 'hartmann'}


def gen_wrapper(rng, inner_spec, inner_node, level, allow):
  """A wrapper spec valid for the wrapped real experimenter, or None."""
  vz = M()['vz']
  problem = inner_node.real.problem_statement()
  tr = traits(problem)
  kinds = inner_node.kinds()
  choices = ['signflip', 'noisy', 'hashinf', 'sparse']
  if tr['flat']:
    choices += ['normalize', 'hypercube', 'hypercube']
    if tr['all_double']:
      choices += ['shift', 'shift', 'shift', 'regioninf']
    if tr['double']:
      choices += ['discretize', 'discretize']
    if tr['finite']:
      choices += ['permute', 'permute', 'permute']
  choices = [c for c in choices if c in allow]
  if not choices:
    return None
  k = rng.choice(choices)
  if k == 'shift':
    d = gen_shift(rng, problem)
    restrict = rng.random() < 0.75 or not tolerates_out_of_bounds(inner_spec)
    return {'k': 'shift', 's': d['s'], 'vec': d['vec'], 'restrict': restrict, 'e': inner_spec}
  if k == 'signflip':
    return {'k': 'signflip', 'objOnly': rng.random() < 0.7, 'e': inner_spec}
  if k == 'permute':
    names = [n for n in tr['finite'] if rng.random() < 0.7] or [rng.choice(tr['finite'])]
    return {'k': 'permute', 'names': names, 'seed': rng.randrange(0, 1000), 'e': inner_spec}
  if k == 'discretize':
    names = [n for n in tr['double'] if rng.random() < 0.5] or [rng.choice(tr['double'])]
    if rng.random() < 0.35:
      return {'k': 'discretize', 'grid': {n: rng.randrange(2, 6) for n in names},
              'to_str': {n: rng.random() < 0.5 for n in names}, 'e': inner_spec}
    disc = {}
    for n in names:
      lo, hi = problem.search_space.get(n).bounds
      vals = sorted(set([float(lo), float(hi)][:rng.randrange(0, 3)] + [round(rng.uniform(lo, hi), 3) for _ in range(rng.randrange(1, 5))]))
      vals = [v for v in vals if lo <= v <= hi]
      disc[n] = [repr(v) for v in vals] if rng.random() < 0.4 else vals
    return {'k': 'discretize', 'disc': disc, 'e': inner_spec}
  if k == 'hypercube':
    return {'k': 'hypercube', 'e': inner_spec}
  if k == 'normalize':
    return {'k': 'normalize', 'n': rng.randrange(3, 9), 'seed': rng.randrange(0, 100), 'e': inner_spec}
  if k == 'noisy':
    if rng.random() < 0.3:
      return {'k': 'noisy', 'type': rng.choice(['LIGHT_ADDITIVE_GAUSSIAN', 'MODERATE_ADDITIVE_GAUSSIAN', 'SEVERE_ADDITIVE_GAUSSIAN']),
              'seed': rng.choice([0, rng.randrange(1, 1000), rng.randrange(1, 1000)]), 'e': inner_spec}     # 0 is a seed like any other
    return {'k': 'noisy', 'seed': rng.randrange(0, 10 ** 6), 'e': inner_spec}
  if k == 'sparse':
    return {'k': 'sparse', 'pre': 'SP%d' % level, 'space': rng.choice(SPARSE_SPACES), 'e': inner_spec}
  if k == 'hashinf':
    return {'k': 'hashinf', 'prob': rng.choice([0.0, 0.3, 0.3, 0.5, 1.0]), 'seed': rng.randrange(0, 50), 'e': inner_spec}
  if k == 'regioninf':
    a = rng.choice([0.0, rng.uniform(0, 0.6)])
    return {'k': 'regioninf', 'param': rng.choice(tr['double']), 'interval': [a, a + rng.uniform(0.05, 0.4)], 'e': inner_spec}
  raise ValueError(k)


ALL_WRAPPERS = ['shift', 'signflip', 'permute', 'discretize', 'hypercube', 'normalize', 'noisy', 'sparse', 'hashinf', 'regioninf']
SPACE_PRESERVING = ['signflip', 'noisy', 'normalize', 'hashinf', 'regioninf']


def gen_chain(rng, flags, depth, base=None, allow=ALL_WRAPPERS, level0=0):
  """base + `depth` unary wrappers; returns (spec, node)."""
  spec = base or gen_base(rng)
  node = build(spec, flags)
  for lvl in range(depth):
    for _attempt in range(6):
      w = gen_wrapper(rng, spec, node, level0 + lvl, allow)
      if w is None:
        break
      try:
        HASH_REC.clear()
        n2 = build(w, flags)
      except (ValueError, KeyError) as e:       # arguments refused by the constructor: try other arguments
        continue
      spec, node = w, n2
      break
  return spec, node


def gen_stack(rng, flags, depth):
  """A stacking of wrapper depth <= `depth` (switch / multi count as one level)."""
  r = rng.random()
  if depth >= 1 and r < 0.14:
    # switch over single-metric children
    kids = []
    for _ in range(rng.randrange(2, 4)):
      fam = rng.choice(['bbob', 'bbob', 'branin', 'hartmann', 'simplekd'])
      s, n = gen_chain(rng, flags, rng.randrange(0, depth), base=gen_base(rng, fam), allow=[w for w in ALL_WRAPPERS], level0=10)
      kids.append(s)
    spec = {'k': 'switch', 'sw': rng.choice(['switch', 'sel']), 'metric': rng.choice(['switch_metric', 'm']), 'kids': kids}
    node = build(spec, flags)
    rest = depth - 1 - max(depth_of(s) for s in kids)
    for lvl in range(max(0, min(rest, rng.randrange(0, 2)))):
      w = gen_wrapper(rng, spec, node, 20 + lvl, ['signflip', 'noisy', 'hashinf', 'sparse'])
      spec, node = w, build(w, flags)
    return spec
  if depth >= 1 and r < 0.28:
    # multi-objective combination of single-objective children over one search space
    fam = rng.choice(['bbob', 'bbob', 'branin', 'hartmann'])
    b0 = gen_base(rng, fam)
    common = None
    if fam == 'bbob' and rng.random() < 0.4:
      common = gen_shift(rng, build_base(b0).problem_statement())
      common['restrict'] = rng.random() < 0.7
    kids, names = [], []
    for i in range(rng.randrange(2, 4)):
      b = dict(b0)
      if fam == 'bbob':
        b['fn'] = rng.choice(BBOB_FUNCTIONS)
      d_in = rng.randrange(0, depth)
      if common is not None:
        b = {'k': 'shift', 's': common['s'], 'vec': common['vec'], 'restrict': common['restrict'], 'e': b}
        d_in = max(0, d_in - 1)
      s, n = gen_chain(rng, flags, d_in, base=b, allow=SPACE_PRESERVING, level0=10)
      kids.append(s)
      names.append('obj%d' % i)
    spec = {'k': 'multi', 'names': names, 'kids': kids}
    node = build(spec, flags)
    rest = depth - 1 - max(depth_of(s) for s in kids)
    for lvl in range(max(0, min(rest, rng.randrange(0, 2)))):
      w = gen_wrapper(rng, spec, node, 20 + lvl, [w for w in ALL_WRAPPERS])
      if w is None:
        break
      try:
        n2 = build(w, flags)
      except (ValueError, KeyError):
        continue
      spec, node = w, n2
    return spec
  d = rng.choice([x for x in (1, 2, 2, 3, 3, 3) if x <= depth] or [0])
  spec, _ = gen_chain(rng, flags, d)
  return spec


def depth_of(spec):
  if spec['k'] == 'base':
    return 0
  if spec['k'] in ('switch', 'multi'):
    return 1 + max(depth_of(s) for s in spec['kids'])
  return 1 + depth_of(spec['e'])


def describe(spec):
  k = spec['k']
  if k == 'base':
    return spec['fam'] + (':' + spec['fn'] if 'fn' in spec else '')
  if k in ('switch', 'multi'):
    return '%s[%s]' % (k, ','.join(describe(s) for s in spec['kids']))
  return '%s(%s)' % (k, describe(spec['e']))


# ------------------------------------------------------------------ points
def sample_space(rng, space, vary_types=True):
  vz = M()['vz']
  out = {}
  for pc in space.parameters:
    t = pc.type
    if t == vz.ParameterType.DOUBLE:
      lo, hi = pc.bounds
      v = rng.choice([lo, hi]) if rng.random() < 0.12 else rng.uniform(lo, hi)
      out[pc.name] = float(v)
    elif t == vz.ParameterType.INTEGER:
      out[pc.name] = rng.randint(int(pc.bounds[0]), int(pc.bounds[1]))
    else:
      out[pc.name] = rng.choice(list(pc.feasible_values))
      if vary_types and t == vz.ParameterType.DISCRETE and rng.random() < 0.5:
        # the same point as designers and converters deliver it: DISCRETE values are floats on the wire (1 -> 1.0)
        out[pc.name] = float(out[pc.name])
    for value, sub in pc.subspaces():
      if float(value) == float(out[pc.name]) if not isinstance(value, str) else value == out[pc.name]:
        out.update(sample_space(rng, sub, vary_types))
  return out


def typed_params(problem, assign):
  """model parameters (numbers are floats) -> python values of the types the base space declares."""
  vz = M()['vz']
  out = {}
  for name, vj in assign:
    v = un_json(vj)
    try:
      pc = problem.search_space.get(name)
    except Exception:  # pylint: disable=broad-except
      out[name] = v
      continue
    if pc.type == vz.ParameterType.INTEGER:
      v = int(round(v))
    elif pc.type == vz.ParameterType.CATEGORICAL:
      v = str(v)
    else:
      v = float(v)
    out[name] = v
  return out


def trial_result(t):
  fm = t.final_measurement
  return {'final': None if fm is None else {n: float(mt.value) for n, mt in fm.metrics.items()},
          'inf': bool(t.infeasible), 'status': t.status.name}


class Counting:
  """counts the calls of a real `from_type` noise function"""

  def __init__(self, fn):
    self.fn, self.k = fn, 0

  def __call__(self, v):
    self.k += 1
    return self.fn(v)


def noise_counter(node):
  return node.extra['counting'].k if 'counting' in node.extra else node.extra['table'].k


# ------------------------------------------------------------------ one stacking, real side
class Case:
  pass


def mutate_problem(problem):
  """what a careless caller might do to a problem statement it was handed"""
  vz = M()['vz']
  try:
    problem.search_space.root.add_float_param('c20_injected', 0.0, 1.0)
  except Exception:  # pylint: disable=broad-except
    pass
  for mi in problem.metric_information:
    try:
      mi.goal = vz.ObjectiveMetricGoal.MINIMIZE if mi.goal.is_maximize else vz.ObjectiveMetricGoal.MAXIMIZE
      mi.name = mi.name + '_c20'
    except Exception:  # pylint: disable=broad-except
      pass
  try:
    problem.metric_information.append(vz.MetricInformation(name='c20_extra', goal=vz.ObjectiveMetricGoal.MAXIMIZE))
  except Exception:  # pylint: disable=broad-except
    pass
  try:
    problem.metadata['c20'] = 'x'
  except Exception:  # pylint: disable=broad-except
    pass


def by_value_check(c, node, desc):
  """problem_statement() must hand out a value: mutating it must not show in the next one."""
  real = node.real
  p1 = real.problem_statement()
  before = canon_problem(p1)
  md_before = len(list(p1.metadata.all_items())) if hasattr(p1.metadata, 'all_items') else 0
  mutate_problem(p1)
  p2 = real.problem_statement()
  after = canon_problem(p2)
  md_after = len(list(p2.metadata.all_items())) if hasattr(p2.metadata, 'all_items') else 0
  c.count(1, kind='by-value:' + node.kind)
  if after != before or md_after != md_before:
    cls = type(real).__name__
    key = KEY_BYREF if cls in ('HashingInfeasibleExperimenter', 'ParamRegionInfeasibleExperimenter') else 'problem-statement-by-reference:' + cls
    c.prop_fail(key, '%s.problem_statement() returns its internal object: a caller that mutated the returned statement changed the next one (%s)' % (cls, desc),
                {'stack': desc, 'class': cls, 'before': before, 'after': after})
    return False
  return True


def run_real(c, spec, flags, rng, n_batches, max_batch, points=None):
  """Builds the real stack, checks the problem statement, evaluates generated batches."""
  vz = M()['vz']
  case = Case()
  case.spec, case.desc = spec, describe(spec)
  HASH_REC.clear()
  node = build(spec, flags)
  case.node = node
  HASH_REC.clear()
  case.counters0 = {id(n): noise_counter(n) for n in node.walk() if n.kind == 'noisy'}
  case.problem = canon_problem(node.real.problem_statement())
  top = node.real.problem_statement()
  case.batches, case.results, case.error = [], [], None
  for bi in range(n_batches):
    if points is not None:
      pts = points[bi] if bi < len(points) else []
    else:
      size = rng.choice([0, 1, 1, 2, 3, max_batch])
      # HashingInfeasibleExperimenter hashes json.dumps of the parameter dict: 8 and 8.0 are different keys of its
      # (trusted, recorded) decision table, which the model matches by VALUE - below such a node one spelling only
      hashed = any(n.kind == 'hashinf' for n in node.walk())
      pts = [sample_space(rng, top.search_space, vary_types=not hashed) for _ in range(size)]
    trials = [vz.Trial(parameters=p) for p in pts]
    before = [snapshot_params(t) for t in trials]
    eq_before = [copy.deepcopy(t.parameters) for t in trials]
    try:
      node.real.evaluate(trials)
    except Exception as e:  # pylint: disable=broad-except
      case.error = {'batch': bi, 'exc': type(e).__name__, 'msg': str(e)[:300], 'points': [canon_params(p) for p in pts]}
      # parameters must be intact even then? (not claimed) -- stop this case
      break
    after = [snapshot_params(t) for t in trials]
    case.batches.append([canon_params(p) for p in pts])
    case.results.append([dict(trial_result(t), params_ok=(b == a and t.parameters == q), before=b, after=a)
                         for t, b, a, q in zip(trials, before, after, eq_before)])
    c.traces += len(trials)
  case.problem_after = canon_problem(node.real.problem_statement())
  for n in reversed(list(node.walk())):           # innermost first; the first offender is the culprit
    if not by_value_check(c, n, case.desc):
      break
  case.counters1 = {id(n): noise_counter(n) for n in node.walk() if n.kind == 'noisy'}
  for n in node.walk():
    if n.kind == 'noisy':
      n.extra['send'] = noise_counter(n) + 64
  for n in node.walk():
    if n.kind == 'hashinf':
      n.extra['hash_rec'] = list(HASH_REC.get(id(n.real), []))
  case.hash_rec = {id(n): n.extra['hash_rec'] for n in node.walk() if n.kind == 'hashinf'}
  return case


# ------------------------------------------------------------------ model side and comparison
def params_close(x, y):
  dx, dy = {n: un_json(v) for n, v in x}, {n: un_json(v) for n, v in y}
  return dx.keys() == dy.keys() and all(close(dx[k], dy[k]) for k in dx)


def eval_bases(case, qres):
  """REAL base objectives at the model-computed mapped points -> base tables per path; also
  checks that the points reaching a hashing-infeasible node are those the real one hashed."""
  vz = M()['vz']
  tables, twins, inf_points = {}, {}, {}
  for batch_q in qres:
    for q in batch_q:
      path = tuple(q['path'])
      n = case.node.at(path)
      if q['base']:
        if path not in twins:
          twins[path] = build_base(n.spec)
        twin = twins[path]
        t = vz.Trial(parameters=typed_params(twin.problem_statement(), q['x']))
        twin.evaluate([t])
        fm = t.final_measurement
        tables.setdefault(path, []).append(
            {'x': q['x'], 'ms': [[nm, cd.hexf(mt.value)] for nm, mt in (fm.metrics.items() if fm else [])],
             'inf': bool(t.infeasible)})
      elif n.kind == 'hashinf':
        inf_points.setdefault(path, []).append(q['x'])
  return tables, inf_points


def compare_trial(real, model):
  """real trial result vs model trial json -> list of differences"""
  diffs = []
  mfinal = None if model['final'] is None else {n: cd.unhex(v) for n, v in model['final']}
  if (real['final'] is None) != (mfinal is None):
    diffs.append('final measurement present: real=%s model=%s' % (real['final'] is not None, mfinal is not None))
  elif mfinal is not None:
    if set(mfinal) != set(real['final']):
      diffs.append('metric names real=%s model=%s' % (sorted(real['final']), sorted(mfinal)))
    else:
      for n in mfinal:
        if not close(real['final'][n], mfinal[n]):
          diffs.append('metric %s real=%r model=%r' % (n, real['final'][n], mfinal[n]))
  if real['inf'] != model['inf']:
    diffs.append('infeasible real=%s model=%s' % (real['inf'], model['inf']))
  return diffs


def top_kind(case):
  return case.node.kind


def property_stage(c, case, has_noise):
  """The property's own predicates on the REAL outputs (no model involved)."""
  names = [m[0] for m in case.problem['metrics']]
  for bi, (pts, res) in enumerate(zip(case.batches, case.results)):
    for ti, (pt, r) in enumerate(zip(pts, res)):
      where = {'stack': case.desc, 'spec': case.spec, 'batch': bi, 'trial': ti, 'point': pt}
      if not r['params_ok']:
        c.prop_fail('params-not-restored:' + culprit_params(case), 'trial parameters differ after evaluate(): before=%s after=%s (%s)' % (r['before'], r['after'], case.desc),
                    dict(where, before=r['before'], after=r['after']))
      if r['status'] != 'COMPLETED' or (r['final'] is None and not r['inf']):
        c.prop_fail('not-completed:' + top_kind(case), 'evaluate() left a trial uncompleted (status %s) in %s' % (r['status'], case.desc), dict(where, result=r))
        continue
      if not r['inf']:
        got = set(r['final'] or {})
        extra = got - set(names)
        missing = set(names) - got
        bad_extra = [n for n in extra if not (has_noise and n.endswith('_before_noise'))]
        if missing or bad_extra:
          c.prop_fail('metric-names:' + top_kind(case), 'completed trial carries metrics %s, problem statement names %s (%s)' % (sorted(got), names, case.desc),
                      dict(where, metrics=sorted(got), problem_metrics=names))
  if case.problem_after != case.problem:
    c.prop_fail('problem-changed-by-evaluate:' + top_kind(case), 'problem_statement() differs after evaluate() in %s' % case.desc,
                {'stack': case.desc, 'before': case.problem, 'after': case.problem_after})


def culprit_params(case):
  return case.node.kind


def strip_model_problem(mp):
  return {'params': [norm_pspec(p) for p in mp['params']], 'metrics': mp['metrics']}


def check_sigma(c, case):
  """the normaliser's statistics fixed at construction: finite mean, finite sigma > 0 (the
  hypothesis of c20_normalise_monotone)"""
  ok = True
  for n in case.node.walk():
    if n.kind != 'normalize':
      continue
    mus = {k: cd.unhex(v) for k, v in n.extra['mu']}
    sig = {k: cd.unhex(v) for k, v in n.extra['sigma']}
    bad = [k for k in sig if not (math.isfinite(sig[k]) and sig[k] > 0 and math.isfinite(mus[k]))]
    c.count(1, kind='normaliser-sigma')
    if bad:
      ok = False
      inf_below = any(x.kind in ('hashinf', 'regioninf') for x in n.walk())
      is_nan = any(math.isnan(sig[k]) or math.isnan(mus[k]) for k in bad)
      c.prop_fail(KEY_NORM_NAN if (inf_below and is_nan) else 'normalizer-sigma-not-positive',
                  'NormalizingExperimenter fixed mean=%s std=%s at construction for metrics %s: normalised values are NaN / order is not preserved (%s)' % (
                      {k: mus[k] for k in bad}, {k: sig[k] for k in bad}, bad, case.desc),
                  {'stack': case.desc, 'spec': case.spec, 'mu': mus, 'sigma': sig})
  return ok


# ------------------------------------------------------------------ variant identification (witness replays)
SPHERE2 = {'k': 'base', 'fam': 'bbob', 'fn': 'Sphere', 'dim': 2, 'seed': 0}
ALWAYS_INF = {'k': 'hashinf', 'prob': 1.0, 'seed': 0, 'e': SPHERE2}
SPEC_FLAGS = {'hypercube': True, 'switch': True, 'multi': True}


def identify_variants(c):
  """Replays the witness of every known defect class on the real code; reports it when the
  defect is present; returns the variant flags of the current tree."""
  m = M()
  vz = m['vz']
  flags = {}
  # (1) problem statement by reference (the two infeasible experimenters)
  byval = True
  for spec in ({'k': 'hashinf', 'prob': 0.2, 'seed': 0, 'e': SPHERE2}, {'k': 'regioninf', 'param': 'x0', 'interval': [0.0, 0.2], 'e': SPHERE2}):
    node = build(spec, SPEC_FLAGS)
    before_violations = len(c.violations) + sum(v[1] for v in c.known_hits.values())
    ok = by_value_check(c, node, describe(spec))
    byval = byval and ok
  flags['byValue'] = byval
  if not byval:
    install_by_value_shim()
    c.notes.append('HashingInfeasibleExperimenter/ParamRegionInfeasibleExperimenter.problem_statement() return their internal object (reported); '
                   'the generated stackings are evaluated with a by-value shim around these two getters so that the other comparisons stay meaningful')
  # (2) infeasibility carried through hyper-cube / switch / multi-objective wrappers
  for kind, spec, pt in (
      ('hypercube', {'k': 'hypercube', 'e': ALWAYS_INF}, {'h0': 0.25, 'h1': 0.75}),
      ('switch', {'k': 'switch', 'sw': 'switch', 'metric': 'switch_metric', 'kids': [ALWAYS_INF, SPHERE2]}, {'switch': 0, 'x0': 1.0, 'x1': 2.0}),
      ('multi', {'k': 'multi', 'names': ['a', 'b'], 'kids': [SPHERE2, ALWAYS_INF]}, {'x0': 1.0, 'x1': 2.0})):
    node = build(spec, SPEC_FLAGS)
    t = vz.Trial(parameters=pt)
    try:
      node.real.evaluate([t])
      keeps = bool(t.infeasible)
      res = trial_result(t)
    except Exception as e:  # pylint: disable=broad-except
      keeps, res = False, {'exc': repr(e)[:200]}
    flags[kind] = keeps
    c.count(1, ('witness', kind), kind='witness')
    if not keeps:
      c.prop_fail(KEY_INF_DROP % kind,
                  '%s over an experimenter that marks the point infeasible reports the trial as feasible: %s' % (describe(spec), res),
                  {'stack': describe(spec), 'spec': spec, 'point': pt, 'real': res})
  # (3) permuting an integer-valued parameter
  kd = {'k': 'base', 'fam': 'simplekd', 'best': 'corner', 'nf': 1, 'nd': 1, 'ni': 1, 'rel': True}
  spec = {'k': 'permute', 'names': ['discrete_0', 'int_0'], 'seed': 1, 'e': kd}
  node = build(spec, SPEC_FLAGS)
  pt = {'float_0': 0.5, 'discrete_0': 2, 'int_0': 2, 'categorical': 'mixed'}
  t = vz.Trial(parameters=pt)
  try:
    node.real.evaluate([t])
    flags['permuteInt'] = t.final_measurement is not None
    res = trial_result(t)
  except TypeError as e:
    flags['permuteInt'] = False
    res = {'exc': 'TypeError: ' + str(e)[:160]}
  c.count(1, ('witness', 'permuteInt'), kind='witness')
  if not flags['permuteInt']:
    c.prop_fail(KEY_PERM_INT, 'PermutingExperimenter over integer-valued DISCRETE/INTEGER parameters cannot evaluate any trial: %s' % res,
                {'stack': describe(spec), 'spec': spec, 'point': pt, 'real': res})
  # (0) variant of the converter the hyper-cube wrapper decodes with (C15's flag, no finding of C20)
  try:
    from vizier.pyvizier import converters
    pb = vz.ProblemStatement()
    pb.search_space.root.add_float_param('x', 1e-3, 10.0, scale_type=vz.ScaleType.LOG)
    conv = converters.TrialToArrayConverter.from_study_config(pb, scale=True, pad_oovs=False)
    flags['clipScaled'] = 'x' in conv.to_parameters(np.array([[100.0]]))[0]
  except Exception:  # pylint: disable=broad-except
    flags['clipScaled'] = False
  # (4) normaliser statistics with infeasible samples
  spec = {'k': 'normalize', 'n': 8, 'seed': 42, 'e': {'k': 'hashinf', 'prob': 0.5, 'seed': 3, 'e': SPHERE2}}
  node = build(spec, SPEC_FLAGS)
  sig = {k: cd.unhex(v) for k, v in node.extra['sigma']}
  flags['normSkipsInfeasible'] = all(math.isfinite(v) and v > 0 for v in sig.values()) and bool(sig)
  c.count(1, ('witness', 'normNan'), kind='witness')
  if not flags['normSkipsInfeasible']:
    c.prop_fail(KEY_NORM_NAN if any(math.isnan(v) for v in sig.values()) else 'normalizer-sigma-not-positive',
                'NormalizingExperimenter over an experimenter with infeasible points fixes mean/std = NaN (or std <= 0) at construction, normalised objectives are NaN / unordered: std=%s' % sig,
                {'stack': describe(spec), 'spec': spec, 'sigma': {k: repr(v) for k, v in sig.items()}})
  return flags


def install_by_value_shim():
  inf = M()['infeasible']
  for cls in (inf.HashingInfeasibleExperimenter, inf.ParamRegionInfeasibleExperimenter):
    if getattr(cls, '_c20_byvalue', False):
      continue
    orig = cls.problem_statement

    def by_value(self, _orig=orig):
      return copy.deepcopy(_orig(self))
    cls.problem_statement = by_value
    cls._c20_byvalue = True


# ------------------------------------------------------------------ corpus: every wrapper once, defect witnesses
def corpus_specs():
  kd = {'k': 'base', 'fam': 'simplekd', 'best': 'mixed', 'nf': 1, 'nd': 1, 'ni': 1, 'rel': False}
  br = {'k': 'base', 'fam': 'branin'}
  ros = {'k': 'base', 'fam': 'bbob', 'fn': 'RosenbrockRotated', 'dim': 3, 'seed': 1}
  out = [
      {'k': 'shift', 's': [2.0, -3.0], 'vec': True, 'restrict': True, 'e': SPHERE2},
      {'k': 'shift', 's': [2.0, -3.0], 'vec': True, 'restrict': False, 'e': SPHERE2},
      {'k': 'shift', 's': [0.5], 'vec': False, 'restrict': True, 'e': br},
      {'k': 'signflip', 'objOnly': True, 'e': {'k': 'signflip', 'objOnly': True, 'e': ros}},
      {'k': 'signflip', 'objOnly': False, 'e': {'k': 'noisy', 'seed': 5, 'e': ros}},
      {'k': 'permute', 'names': ['categorical'], 'seed': 3, 'e': kd},
      {'k': 'permute', 'names': ['categorical', 'discrete_0', 'int_0'], 'seed': 4, 'e': kd},
      {'k': 'discretize', 'disc': {'x0': [-1.0, 0.0, 2.5], 'x1': ['-5.0', '0.25']}, 'e': SPHERE2},
      {'k': 'discretize', 'grid': {'x1': 4}, 'to_str': {'x1': True}, 'e': br},
      {'k': 'hypercube', 'e': br},
      {'k': 'hypercube', 'e': kd},
      {'k': 'normalize', 'n': 6, 'seed': 42, 'e': ros},
      {'k': 'noisy', 'seed': 7, 'e': {'k': 'noisy', 'seed': 8, 'e': SPHERE2}},
      {'k': 'noisy', 'type': 'MODERATE_ADDITIVE_GAUSSIAN', 'seed': 11, 'e': br},
      {'k': 'sparse', 'pre': 'SP0', 'space': SPARSE_SPACES[1], 'e': kd},
      {'k': 'switch', 'sw': 'switch', 'metric': 'switch_metric', 'kids': [SPHERE2, kd, br]},
      {'k': 'hashinf', 'prob': 0.5, 'seed': 2, 'e': ros},
      {'k': 'regioninf', 'param': 'x1', 'interval': [0.0, 0.4], 'e': br},
      {'k': 'multi', 'names': ['a', 'b'], 'kids': [SPHERE2, {'k': 'signflip', 'objOnly': True, 'e': dict(SPHERE2, fn='SharpRidge')}]},
      {'k': 'hypercube', 'e': {'k': 'hashinf', 'prob': 0.5, 'seed': 1, 'e': SPHERE2}},
      {'k': 'signflip', 'objOnly': True, 'e': {'k': 'switch', 'sw': 'switch', 'metric': 'm', 'kids': [{'k': 'hashinf', 'prob': 0.5, 'seed': 4, 'e': SPHERE2}, br]}},
      {'k': 'multi', 'names': ['a', 'b'], 'kids': [SPHERE2, {'k': 'regioninf', 'param': 'x0', 'interval': [0.0, 0.5], 'e': SPHERE2}]},
      {'k': 'normalize', 'n': 8, 'seed': 1, 'e': {'k': 'hashinf', 'prob': 0.3, 'seed': 7, 'e': SPHERE2}},
      {'k': 'shift', 's': [0.25, -0.5], 'vec': True, 'restrict': True, 'e': {'k': 'hypercube', 'e': {'k': 'shift', 's': [1.0, 1.0], 'vec': True, 'restrict': True, 'e': br}}},
  ]
  m = M()
  if m.get('multiobjective_optproblems'):
    out.append({'k': 'signflip', 'objOnly': True, 'e': {'k': 'base', 'fam': 'optproblems', 'kind': 'DTLZ', 'name': 'DTLZ2', 'dim': 4, 'nobj': 2}})
    out.append({'k': 'normalize', 'n': 5, 'seed': 2, 'e': {'k': 'base', 'fam': 'optproblems', 'kind': 'ZDT', 'name': 'ZDT1', 'dim': 3}})
  if m.get('deb'):
    out.append({'k': 'shift', 's': [0.1], 'vec': False, 'restrict': True, 'e': {'k': 'base', 'fam': 'dh', 'name': 'DH1', 'dim': 3}})
  return out


# ------------------------------------------------------------------ the stacking stage
def has_kind(spec, kinds):
  if spec['k'] in kinds:
    return True
  if spec['k'] == 'base':
    return False
  return any(has_kind(s, kinds) for s in (spec['kids'] if spec['k'] in ('switch', 'multi') else [spec['e']]))


def perm_int_nodes(node):
  return [n for n in node.walk() if n.kind == 'permute' and n.extra.get('int_valued')]


def run_cases(c, specs, flags, n_batches, max_batch, tag, points=None):
  """real runs -> model queries -> real bases -> model evaluation -> comparisons"""
  SPEC_FLAGS = dict(globals()['SPEC_FLAGS'], clipScaled=flags.get('clipScaled', False))
  cases = []
  for spec in specs:
    try:
      case = run_real(c, spec, flags, c.rng, n_batches, max_batch, points=points)
    except Invalid:
      continue
    if case.error is not None:
      if perm_int_nodes(case.node) and not flags['permuteInt'] and case.error['exc'] == 'TypeError':
        c.prop_fail(KEY_PERM_INT, 'evaluate() raises TypeError in %s: %s' % (case.desc, case.error['msg'][:120]),
                    {'stack': case.desc, 'spec': spec, 'error': case.error})
        c.count(1, kind='stack-skipped:permute-int')
      else:
        c.prop_fail('evaluate-raises:%s:%s' % (case.node.kind, case.error['exc']),
                    'evaluate() of a valid stacking raised %s: %s (%s)' % (case.error['exc'], case.error['msg'][:200], case.desc),
                    {'stack': case.desc, 'spec': spec, 'error': case.error})
      continue
    cases.append(case)
  if not cases:
    return
  # problem statements
  probs = c.lean(DRIVER, [{'op': 'problem', 'ex': ex_json(k.node, SPEC_FLAGS)} for k in cases])
  for case, mp in zip(cases, probs):
    if 'error' in mp:
      raise core.InfraError('driver: %s on %s' % (mp, case.desc))
    real_p = {'params': [norm_pspec(p) for p in case.problem['params']], 'metrics': case.problem['metrics']}
    model_p = strip_model_problem(mp)
    c.count(1, kind='problem-statement')
    if not problems_equal(real_p, model_p):
      c.prop_fail('problem-statement:' + case.node.kind,
                  'problem statement of %s differs from the documented one: real=%s expected=%s' % (case.desc, json.dumps(real_p)[:400], json.dumps(model_p)[:400]),
                  {'stack': case.desc, 'spec': case.spec, 'real': real_p, 'model': model_p})
      c.tie_break('problem_statement()', {'stack': case.desc}, real_p, model_p)
    case.out_names = mp['outNames']
  # phase 1: which base points does every suggestion reach?
  q = c.lean(DRIVER, [{'op': 'queries', 'ex': ex_json(k.node, SPEC_FLAGS), 'points': [p for b in k.batches for p in b]} for k in cases])
  reqs, variants = [], []
  for case, qr in zip(cases, q):
    if 'error' in qr:
      raise core.InfraError('driver: %s on %s' % (qr, case.desc))
    tables, inf_points = eval_bases(case, qr['q'])
    case.tables = tables
    # the points reaching a hashing node, model vs what the real node hashed
    for path, pts in inf_points.items():
      rec = [x for x, _ in case.hash_rec.get(id(case.node.at(path)), [])]
      unmatched = [x for x in pts if not any(params_close(x, y) for y in rec)]
      if unmatched:
        c.tie_break('parameters reaching HashingInfeasibleExperimenter', {'stack': case.desc, 'spec': case.spec}, rec[:5], unmatched[:5])
        case.hash_mismatch = unmatched
    st0 = st_json(case.node, {id(n): case.counters0[id(n)] for n in case.node.walk() if n.kind == 'noisy'})
    reqs.append({'op': 'evaluate', 'ex': ex_json(case.node, SPEC_FLAGS, tables), 'st': st0, 'batches': case.batches})
    variants.append((case, 'spec'))
    tree_flags = {k: flags[k] for k in SPEC_FLAGS}
    if tree_flags != SPEC_FLAGS and has_kind(case.spec, [k for k in ('hypercube', 'switch', 'multi') if not flags[k]]):
      reqs.append({'op': 'evaluate', 'ex': ex_json(case.node, tree_flags, tables), 'st': st0, 'batches': case.batches})
      variants.append((case, 'tree'))
  res = c.lean(DRIVER, reqs)
  by_case = {}
  for (case, var), r in zip(variants, res):
    if 'error' in r:
      raise core.InfraError('driver: %s on %s' % (r, case.desc))
    by_case.setdefault(id(case), {})[var] = r
  for case in cases:
    r = by_case[id(case)]
    judge_case(c, case, r['spec'], r.get('tree'), flags, tag)


def problems_equal(a, b):
  if a['metrics'] != b['metrics'] or len(a['params']) != len(b['params']):
    return False
  for p, q in zip(a['params'], b['params']):
    if p['name'] != q['name'] or p['t'] != q['t'] or p['conds'] != q['conds']:
      return False
    for f in ('lo', 'hi'):
      if (f in p) != (f in q) or (f in p and not close(p[f], q[f])):
        return False
    if 'vals' in p and (len(p['vals']) != len(q['vals']) or not all(close(x, y) for x, y in zip(p['vals'], q['vals']))):
      return False
    if 'cats' in p and p['cats'] != q['cats']:
      return False
  return True


def noisy_nodes_in_order(node):
  return [n for n in node.walk() if n.kind == 'noisy']


def st_counters(node, st):
  """noise counters of the model state tree, in `walk` order"""
  k = node.kind
  if k == 'base':
    return []
  if k in ('switch', 'multi'):
    out = []
    for i, n in enumerate(node.kids):
      out += st_counters(n, st['kids'][i] if i < len(st['kids']) else {'n': 0, 'kids': []})
    return out
  if k == 'noisy':
    return [st['n']] + st_counters(node.kids[0], st['kids'][0] if st['kids'] else {'n': 0, 'kids': []})
  return st_counters(node.kids[0], st)


def judge_case(c, case, spec_res, tree_res, flags, tag):
  has_noise = has_kind(case.spec, ['noisy'])
  kinds = case.node.kinds()
  nontrivial = len([k for k in kinds if k != 'base']) >= 2 or any(k in ('switch', 'multi') for k in kinds)
  n_trials = sum(len(b) for b in case.batches)
  c.count(n_trials, ('stack', case.desc, json.dumps(case.spec, sort_keys=True, default=str)[:2000]) if nontrivial and n_trials else None,
          kind='%s:depth%d' % (tag, depth_of(case.spec)))
  for k in set(kinds):
    c.dist['wrapper:' + k] = c.dist.get('wrapper:' + k, 0) + 1
  c.sample({'stack': case.desc, 'batches': [len(b) for b in case.batches]})
  property_stage(c, case, has_noise)
  check_sigma(c, case)
  first = None
  for bi, (pts, res) in enumerate(zip(case.batches, case.results)):
    for ti, (pt, r) in enumerate(zip(pts, res)):
      ms = spec_res['batches'][bi][ti]
      d_spec = compare_trial(r, ms)
      if not d_spec:
        continue
      where = {'stack': case.desc, 'spec': case.spec, 'batch': bi, 'trial': ti, 'point': pt, 'real': {k: r[k] for k in ('final', 'inf')},
               'expected': {'final': ms['final'] and {n: cd.unhex(v) for n, v in ms['final']}, 'inf': ms['inf']}}
      if tree_res is not None and not compare_trial(r, tree_res['batches'][bi][ti]):
        dropped = [k for k in ('hypercube', 'switch', 'multi') if not flags[k] and k in kinds]
        c.prop_fail(KEY_INF_DROP % dropped[0], 'a point the wrapped experimenter marks infeasible comes back feasible from %s' % case.desc, where)
        continue
      if first is None:
        first = (where, d_spec)
  if first is not None:
    where, diffs = first
    culprit = localise(c, case, flags) or case.node.kind
    c.prop_fail('relation:' + culprit,
                '%s does not evaluate as documented: %s (point %s)' % (case.desc, '; '.join(diffs)[:300], json.dumps(where['point'])[:200]), where)
    c.tie_break('evaluate()', {'stack': case.desc, 'point': where['point']}, where['real'], where['expected'])
  # noise call counters after the run (model state vs the real RNG wrappers)
  if has_noise:
    res = tree_res or spec_res
    model_k = st_counters(case.node, res['st'])
    real_k = [case.counters1[id(n)] for n in noisy_nodes_in_order(case.node)]
    if model_k != real_k and first is None:
      c.tie_break('noise draws consumed', {'stack': case.desc, 'spec': case.spec}, real_k, model_k)


def substacks(spec):
  """proper sub-stackings, innermost first"""
  if spec['k'] == 'base':
    return []
  kids = spec['kids'] if spec['k'] in ('switch', 'multi') else [spec['e']]
  out = []
  for s in kids:
    out += substacks(s)
    if s['k'] != 'base':
      out.append(s)
  return out


def localise(c, case, flags):
  """re-runs the proper sub-stackings (innermost first) to name the wrapper whose relation fails"""
  for sub in substacks(case.spec):
    probe = core.Check.__new__(core.Check)
    probe.__dict__.update(c.__dict__)
    probe.violations, probe.tie_breaks, probe.known_hits = [], [], {}
    probe.rng = random.Random(c.rng.random())
    probe.dist, probe.samples, probe.nontrivial = {}, [], set()
    try:
      run_cases(probe, [sub], flags, 2, 3, 'localise')
    except core.InfraError:
      return None
    if any(v['key'].startswith('relation:') for v in probe.violations):
      return sub['k']
  return None


def guarded(c, stage, fn, i):
  """an exception of the real code on a valid input is a failure of the property, not of the harness"""
  try:
    fn(i)
  except core.InfraError:
    raise
  except Exception as e:  # pylint: disable=broad-except
    import traceback
    tb = traceback.extract_tb(e.__traceback__)
    in_real = any('/vizier/' in fr.filename for fr in tb)
    if not in_real:
      raise
    c.prop_fail('real-code-raises:%s:%s' % (stage, type(e).__name__),
                'the real code raised %s: %s in the %s on valid arguments' % (type(e).__name__, str(e)[:200], stage),
                {'stage': stage, 'iteration': i, 'traceback': [(fr.filename, fr.lineno) for fr in tb][-4:]})


# ------------------------------------------------------------------ seeded noise of NoisyExperimenter.from_type
NOISE_TYPES = ['NO_NOISE', 'MODERATE_GAUSSIAN', 'SEVERE_GAUSSIAN', 'MODERATE_UNIFORM', 'SEVERE_UNIFORM',
               'MODERATE_SELDOM_CAUCHY', 'SEVERE_SELDOM_CAUCHY', 'LIGHT_ADDITIVE_GAUSSIAN',
               'MODERATE_ADDITIVE_GAUSSIAN', 'SEVERE_ADDITIVE_GAUSSIAN']


def noise_stage(c, n_rounds):
  m = M()
  vz = m['vz']
  def one(i):
    base_spec = gen_base(c.rng, c.rng.choice(['bbob', 'bbob', 'branin', 'hartmann', 'simplekd']))
    nt = NOISE_TYPES[i % len(NOISE_TYPES)]
    s1 = c.rng.randrange(1, 10 ** 6)
    s2 = s1 + c.rng.randrange(1, 1000)
    objs = [m['noisy'].NoisyExperimenter.from_type(build_base(base_spec), nt, seed=s) for s in (s1, s1, s2)]
    problem = objs[0].problem_statement()
    names = [mi.name for mi in problem.metric_information]
    plain = build_base(base_spec)
    pts = [[sample_space(c.rng, problem.search_space) for _ in range(c.rng.randrange(1, 5))] for _ in range(4)]
    outs = []
    for o in objs + [plain]:
      vals = []
      for batch in pts:
        trials = [vz.Trial(parameters=p) for p in batch]
        o.evaluate(trials)
        vals.append([trial_result(t) for t in trials])
      outs.append(vals)
    a, b, d, base_vals = outs
    case = {'noise': nt, 'seed': s1, 'other_seed': s2, 'base': base_spec, 'points': [[canon_params(p) for p in bt] for bt in pts]}
    c.count(sum(len(bt) for bt in pts), ('noise', nt, describe(base_spec)), kind='noise:' + nt)
    c.traces += 4 * sum(len(bt) for bt in pts)
    if json.dumps(a, sort_keys=True) != json.dumps(b, sort_keys=True):
      c.prop_fail('noise-not-reproducible', 'two NoisyExperimenter.from_type(%s, seed=%d) objects disagree on the same sequence of batches' % (nt, s1), dict(case, first=a, second=b))
    flat_a = [r['final'][n] for bt in a for r in bt for n in names]
    flat_d = [r['final'][n] for bt in d for r in bt for n in names]
    flat_0 = [r['final'][n] for bt in base_vals for r in bt for n in names]
    if nt not in ('NO_NOISE', 'MODERATE_SELDOM_CAUCHY', 'SEVERE_SELDOM_CAUCHY') and len(flat_a) >= 3 and flat_a == flat_d and any(v >= 1e-8 for v in flat_0):
      c.prop_fail('noise-ignores-seed', 'NoisyExperimenter.from_type(%s) gives identical values for seeds %d and %d' % (nt, s1, s2), dict(case, values=flat_a))
    # the unnoised copy is the base objective; NO_NOISE is the stabilising offset only
    bad_names = [sorted(r['final']) for bt in a for r in bt
                 if set(r['final']) != set(names) | set(n + '_before_noise' for n in names)]
    if bad_names:
      c.prop_fail('metric-names:noisy', 'noisy trial carries %s, documented: the problem\'s metrics and their `_before_noise` copies' % bad_names[0], case)
      return
    before = [r['final'][n + '_before_noise'] for bt in a for r in bt for n in names]
    if any(not close(x, y) for x, y in zip(before, flat_0)):
      c.prop_fail('relation:noisy', '`_before_noise` metrics differ from the base objective (%s)' % nt, dict(case, before=before, base=flat_0))
    if nt == 'NO_NOISE':
      want = [v + 1.01 * 1e-8 if v >= 1e-8 else v for v in flat_0]
      if any(not close(x, y, 1e-12) for x, y in zip(flat_a, want)):
        c.prop_fail('relation:noisy', 'NO_NOISE values differ from the base objective + stabilising offset', dict(case, real=flat_a, want=want))

  for i in range(n_rounds):
    guarded(c, 'noise_stage', one, i)

# ------------------------------------------------------------------ NumpyExperimenter directly (non-finite objective)
def numpy_stage(c, n):
  m = M()
  vz = m['vz']
  def one(i):
    dim = c.rng.choice([1, 2, 3, 4, 2, 3, 11, 13])
    problem = m['bbob'].DefaultBBOBProblemStatement(dim, metric_name=c.rng.choice(['bbob_eval', 'obj', 'y']))
    thr = c.rng.uniform(-3, 3)
    bad = c.rng.choice([float('inf'), float('-inf'), float('nan')])
    w = [c.rng.uniform(-2, 2) for _ in range(dim)]

    def impl(arr, w=w, thr=thr, bad=bad):
      return bad if arr[0] > thr else float(np.dot(arr, np.array(w)))
    e = m['numpy_experimenter'].NumpyExperimenter(impl, problem)
    mutate_problem(problem)          # the experimenter must have kept its own copy
    name = e.problem_statement().metric_information.item().name
    pts = [sample_space(c.rng, e.problem_statement().search_space) for _ in range(c.rng.randrange(0, 6))]
    trials = [vz.Trial(parameters=p) for p in pts]
    before = [snapshot_params(t) for t in trials]
    e.evaluate(trials)
    c.traces += len(trials)
    c.count(len(trials), ('numpy', i), kind='numpy-direct')
    if len(e.problem_statement().search_space.parameters) != dim or name.endswith('_c20'):
      c.prop_fail('problem-statement-by-reference:NumpyExperimenter', 'NumpyExperimenter keeps a reference to the caller\'s problem statement', {'dim': dim})
    for p, t, b in zip(pts, trials, before):
      case = {'point': canon_params(p), 'w': w, 'thr': thr, 'bad': repr(bad)}
      x = [p['x%d' % k] for k in range(dim)]
      if snapshot_params(t) != b:
        c.prop_fail('params-not-restored:base', 'NumpyExperimenter changed the parameters', case)
      if x[0] > thr:
        if not t.infeasible or t.status.name != 'COMPLETED':
          c.prop_fail('not-completed:base', 'non-finite objective: trial not marked infeasible', dict(case, real=trial_result(t)))
      else:
        r = trial_result(t)
        want = float(np.dot(np.array(x), np.array(w)))
        if r['inf'] or r['final'] is None or set(r['final']) != {name} or not close(r['final'][name], want):
          c.prop_fail('relation:base', 'NumpyExperimenter does not complete the trial with impl(features)', dict(case, real=r, want=want))

  for i in range(n):
    guarded(c, 'numpy_stage', one, i)

# ------------------------------------------------------------------ the factory stacks like a manual stacking
def factory_stage(c, n):
  m = M()
  vz = m['vz']
  F = m['factory']
  def one(i):
    dim = c.rng.randrange(2, 5)
    fn = c.rng.choice(BBOB_FUNCTIONS)
    bf = F.BBOBExperimenterFactory(fn, dim, c.rng.randrange(0, 3))
    shift = [c.rng.uniform(-4, 4) for _ in range(dim)] if c.rng.random() < 0.7 else None
    restrict = c.rng.random() < 0.7
    nn = c.rng.choice([0, 0, 5])
    idx = list(range(dim))
    c.rng.shuffle(idx)
    dd = {idx[0]: c.rng.randrange(2, 5)} if c.rng.random() < 0.6 else {}
    cc = {idx[1]: c.rng.randrange(2, 5)} if c.rng.random() < 0.6 else {}
    perm = bool(cc) and c.rng.random() < 0.7
    pseed = c.rng.randrange(0, 100)
    noise = c.rng.choice([None, 'SEVERE_ADDITIVE_GAUSSIAN', 'MODERATE_GAUSSIAN'])
    nseed = c.rng.randrange(1, 100)
    kw = dict(shift=None if shift is None else np.array(shift), should_restrict=restrict, noise_type=noise, noise_seed=nseed,
              num_normalization_samples=nn, discrete_dict=dd, categorical_dict=cc, permute_categoricals=perm, permute_seed=pseed)
    fac = F.SingleObjectiveExperimenterFactory(bf, **kw)
    e1 = fac()
    # the same stacking by hand, in the documented order
    e2 = bf()
    if shift is not None:
      e2 = m['shifting'].ShiftingExperimenter(e2, np.array(shift), should_restrict=restrict)
    if nn:
      e2 = m['normalizing'].NormalizingExperimenter(e2, num_normalization_samples=nn)
    pcs = list(e2.problem_statement().search_space.parameters)
    if dd:
      e2 = m['discretizing'].DiscretizingExperimenter.create_with_grid(e2, {pcs[k].name: v for k, v in dd.items()}, convert_to_str=False)
    if cc:
      e2 = m['discretizing'].DiscretizingExperimenter.create_with_grid(e2, {pcs[k].name: v for k, v in cc.items()}, convert_to_str=True)
    if perm:
      cats = [p.name for p in e2.problem_statement().search_space.parameters if p.type == vz.ParameterType.CATEGORICAL]
      e2 = m['permuting'].PermutingExperimenter(e2, cats, seed=pseed)
    if noise:
      e2 = m['noisy'].NoisyExperimenter.from_type(e2, noise, seed=nseed)
    p1, p2 = canon_problem(e1.problem_statement()), canon_problem(e2.problem_statement())
    case = {'fn': fn, 'dim': dim, 'kw': {k: (v.tolist() if isinstance(v, np.ndarray) else v) for k, v in kw.items()}}
    c.count(1, ('factory', i), kind='factory')
    if p1 != p2:
      c.prop_fail('factory-stacking', 'SingleObjectiveExperimenterFactory builds a problem different from the documented stacking', dict(case, real=p1, manual=p2))
      return
    pts = [sample_space(c.rng, e1.problem_statement().search_space) for _ in range(4)]
    t1 = [vz.Trial(parameters=p) for p in pts]
    t2 = [vz.Trial(parameters=p) for p in pts]
    e1.evaluate(t1)
    e2.evaluate(t2)
    c.traces += 8
    r1, r2 = [trial_result(t) for t in t1], [trial_result(t) for t in t2]
    if json.dumps(r1, sort_keys=True) != json.dumps(r2, sort_keys=True):
      c.prop_fail('factory-stacking', 'factory-built experimenter and the documented manual stacking disagree', dict(case, factory=r1, manual=r2))
    e3 = fac()
    t3 = [vz.Trial(parameters=p) for p in pts]
    e3.evaluate(t3)
    if json.dumps([trial_result(t) for t in t3], sort_keys=True) != json.dumps(r1, sort_keys=True):
      c.prop_fail('factory-not-deterministic', 'two calls of the same factory give experimenters that disagree', case)

  for i in range(n):
    guarded(c, 'factory_stage', one, i)

# ------------------------------------------------------------------ through the benchmark runner
def runner_stage(c, flags, n):
  """BenchmarkRunner subroutines hand the suggested trials to the experimenter, which completes
  them in place: what the algorithm's trial store holds afterwards must be what a twin of the
  experimenter answers at the stored parameters, and those are the suggested ones."""
  m = M()
  vz = m['vz']
  from vizier._src.benchmarks.runners import benchmark_runner, benchmark_state
  from vizier._src.algorithms.designers import random as random_designer

  def one(i):
    allow = [w for w in ALL_WRAPPERS if w != 'noisy']
    spec, node = gen_chain(c.rng, flags, c.rng.randrange(0, 3), allow=allow)
    if perm_int_nodes(node) and not flags['permuteInt']:
      return
    twin = build(spec, flags).real
    problem = node.real.problem_statement()
    seed = c.rng.randrange(1, 10 ** 6)

    def factory(p, seed=None):
      return random_designer.RandomDesigner(p.search_space, seed=seed)
    state = benchmark_state.BenchmarkState(
        experimenter=node.real,
        algorithm=benchmark_state.PolicySuggester.from_designer_factory(problem, factory, seed=seed))
    subs = [benchmark_runner.GenerateSuggestions(c.rng.randrange(1, 4)), benchmark_runner.EvaluateActiveTrials(c.rng.choice([None, 1, 2])),
            benchmark_runner.GenerateAndEvaluate(c.rng.randrange(1, 4)), benchmark_runner.FillActiveTrials(c.rng.randrange(1, 4))]
    c.rng.shuffle(subs)
    benchmark_runner.BenchmarkRunner(subs, num_repeats=c.rng.randrange(1, 4)).run(state)
    trials = state.algorithm.supporter.GetTrials()
    names = [mi.name for mi in problem.metric_information]
    c.count(len(trials), ('runner', describe(spec), i), kind='runner')
    c.traces += len(trials)
    for t in trials:
      case = {'stack': describe(spec), 'spec': spec, 'trial': t.id, 'point': canon_params(t.parameters)}
      if not problem.search_space.contains(t.parameters):
        c.prop_fail('runner:parameters-outside-space', 'after the run trial %d holds parameters outside the experimenter\'s search space (%s)' % (t.id, describe(spec)), case)
      if t.status.name != 'COMPLETED':
        if t.final_measurement is not None:
          c.prop_fail('runner:active-trial-touched', 'an unevaluated trial carries a measurement', case)
        continue
      fresh = vz.Trial(parameters=t.parameters.as_dict())
      twin.evaluate([fresh])
      a, b = trial_result(t), trial_result(fresh)
      same = a['inf'] == b['inf'] and (a['final'] is None) == (b['final'] is None) and (
          a['final'] is None or (set(a['final']) == set(b['final']) and all(close(a['final'][k], b['final'][k]) for k in a['final'])))
      if not same:
        c.prop_fail('runner:stored-result-differs', 'the trial store holds %s for trial %d, the experimenter answers %s at its parameters (%s)' % (a, t.id, b, describe(spec)), dict(case, stored=a, twin=b))
      if not a['inf'] and set(a['final'] or {}) != set(names):
        c.prop_fail('metric-names:' + node.kind, 'completed trial carries %s, problem names %s' % (sorted(a['final'] or {}), names), case)

  for i in range(n):
    guarded(c, 'runner_stage', one, i)


def observe_allow_oov(c):
  """Outside the property (its quantifier is over points of the search space): recorded as a note."""
  try:
    m = M()
    vz = m['vz']
    base = build_base(SPHERE2)
    res = {}
    for flag in (False, True):
      e = m['discretizing'].DiscretizingExperimenter(base, {'x0': [-1.0, 0.0, 2.5]}, allow_oov=flag)
      t = vz.Trial(parameters={'x0': 1.234, 'x1': 0.5})
      try:
        e.evaluate([t])
        res[flag] = 'evaluated'
      except ValueError:
        res[flag] = 'ValueError'
    if res == {False: 'evaluated', True: 'ValueError'}:
      c.notes.append('observation outside the property: DiscretizingExperimenter(allow_oov=False) evaluates an out-of-vocabulary value and '
                     'allow_oov=True refuses it with ValueError - the flag is inverted with respect to its docstring (not judged: C20 quantifies over points of the search space)')
  except Exception:  # pylint: disable=broad-except
    pass


# ------------------------------------------------------------------ run
def run(c):
  c.proof_stage()
  m = M()
  if m.get('import_failures'):
    c.notes.append('bases that do not import here: %s' % m['import_failures'])
  for fn, err in m.get('bbob_failures', []):
    c.prop_fail('bbob-base-raises:' + fn,
                'the BBOB base function %s cannot evaluate a point of its search space (%s): NumpyExperimenter(bbob.%s, …).evaluate() raises and completes no trial' % (fn, err, fn),
                {'base': {'k': 'base', 'fam': 'bbob', 'fn': fn, 'dim': 3}, 'point': [-1.3, 0.4, 2.1]})
  flags = identify_variants(c)
  c.flags.update({'hypercubeKeepsInfeasible': flags['hypercube'], 'switchKeepsInfeasible': flags['switch'],
                  'multiKeepsInfeasible': flags['multi'], 'permuteIntegerValued': flags['permuteInt'],
                  'infeasibleProblemByValue': flags['byValue'], 'normaliserSkipsInfeasible': flags['normSkipsInfeasible'],
                  'converterClipsInScaledSpace': flags['clipScaled']})
  quick = c.tier == 'quick'
  observe_allow_oov(c)
  if getattr(c, 'replay_path', None):
    # the witnesses of the known defect classes were replayed by identify_variants above; a
    # replay file of a generated stacking is evaluated again at its point and on fresh batches
    obj = getattr(c, 'replay_obj', None) or {}
    case = obj.get('case', {})
    c.notes.append('replay of %s' % c.replay_path)
    if isinstance(case, dict) and case.get('spec'):
      pts = None
      pt = case.get('point')
      if isinstance(pt, dict):
        pts = [[pt]]
      elif isinstance(pt, list) and pt:
        pts = [[{n: un_json(v) for n, v in pt}]]
      run_cases(c, [case['spec']], flags, 1 if pts else 4, 4, 'replay', points=pts)
      if pts:
        run_cases(c, [case['spec']], flags, 4, 4, 'replay')
    return c.finish(level='proof', rule='replay of ' + c.replay_path)
  run_cases(c, corpus_specs(), flags, 3, 4, 'corpus')
  n = 180 if quick else 3000
  chunk = 60 if quick else 200
  done = 0
  while done < n:
    specs = []
    for _ in range(min(chunk, n - done)):
      try:
        specs.append(gen_stack(c.rng, flags, 3))
      except Invalid:
        pass
    run_cases(c, specs, flags, 3, 4 if quick else 6, 'generated')
    done += chunk
  noise_stage(c, 20 if quick else 150)
  numpy_stage(c, 20 if quick else 200)
  factory_stage(c, 8 if quick else 80)
  runner_stage(c, flags, 10 if quick else 100)
  return c.finish(
      level='proof',
      rule='stackings of the real wrapper experimenters over the real synthetic bases; a stacking counts as non-trivial when it has at least two wrappers or a switch / multi-objective node and was evaluated on at least one trial; noise cases count per (noise type, base)',
      assumptions=[
          'base objectives are abstract in the model: their values come from the REAL base experimenter evaluated at the model-computed mapped points',
          'noise is an abstract deterministic function of (seed, call#): stacked noise wrappers use a table noise function (v*m[k]+a[k]) or the real additive Gaussian noise drawn from a twin; the other noise types are checked for reproducibility / seed dependence only',
          'HashingInfeasibleExperimenter\'s hash decision is an abstract predicate of the parameters: its values are recorded from the real run and the model must reach the node with the same parameters',
          'the hyper-cube decoder is the scaled converter of the C15 codec model (float64)',
          'tolerance 1e-9 relative (float64 paths only; no float32 converter is used by these experimenters)',
          'generated arguments respect the documented preconditions (flat DOUBLE spaces for shifting, |shift| < range, discretisation values inside the bounds, distinct sparse prefixes, single-objective children of switch / multi-objective)'])
