"""Stand-alone runner of the SQL-keys stage (vcheck/sqlkeyscheck.py) while it is not yet wired into C07 / C12.

  /venv/bin/python harness/props/sqlkeys_dev.py [--tier quick|thorough] [--seed N] [--no-proof]

Translator first (Generated/SqlWhere.lean of the tree under test, `VERIF_REPO`), proof stage over
lean/theorems/SqlKeys.json, then `sqlkeyscheck.stage`.  Evidence goes to evidence/SqlKeys.json, replays to
replays/SqlKeys/ (the Check object is built with the id C07 for its random stream and then renamed, so nothing of
C07 is overwritten)."""
import json
import os
import sys

HERE = os.path.dirname(os.path.dirname(os.path.abspath(__file__)))
sys.path.insert(0, HERE)
os.environ.setdefault('PYTHONHASHSEED', '0')

from vcheck import core  # noqa: E402


def run(c, proof=True):
  import time
  from vcheck import sqlkeyscheck
  c.theorems = json.load(open(os.path.join(core.LEAN_DIR, 'theorems', 'SqlKeys.json')))
  sqlkeyscheck.translate(c)
  if proof:
    c.proof_stage()
  t = time.time()
  n = sqlkeyscheck.stage(c)
  print('stage: %d calls checked, %.1f s, violations %d, obligations broken %d' % (n, time.time() - t, len(c.violations), len(c.proof_broken)))
  return c.finish(
      level='proof',
      rule='directed experiment on the real SQLDataStore: owners o / o1, studies s / s1 / s_ / S / % / _ with overlapping trial ids and '
           'operation numbers; every per-study, per-owner, per-row read and every write compared with what was created / with the raw rows',
      assumptions=['SQLAlchemy renders `col == value` as an SQL equality with a bound parameter (trusted)',
                   'the translator follows assignments inside one method; helpers that build queries elsewhere are reported as unrecognised'])


def main():
  import argparse
  ap = argparse.ArgumentParser()
  ap.add_argument('--tier', default=None)
  ap.add_argument('--seed', default=None)
  ap.add_argument('--no-proof', action='store_true')
  a = ap.parse_args()
  c = core.Check('C07', a.tier, a.seed)
  c.pid = 'SqlKeys'
  c.known = [e for e in core.load_known_findings() if e['property'] == 'SqlKeys' and e.get('status') == 'known']
  try:
    code = run(c, proof=not a.no_proof)
  except core.InfraError as e:
    print('INFRA-ERROR property=SqlKeys %s' % e, file=sys.stderr)
    sys.exit(2)
  sys.exit(code)


if __name__ == '__main__':
  main()
