"""C03 — every suggestion lies inside the search space, for every algorithm.

Proof stage: Props/C03.lean (+ the decode theorems shared with C15).  Tie: the value-producing
mechanisms of the designers (grid points, default/centre seeding, Halton index, random_sample,
NSGA-II mutation, eagle clamping) against the Lean models on generated spaces; the feature
decoder is tied by C15 and re-sampled here on out-of-range arrays.  Property stage: REAL
suggestions — every registered algorithm name through the real service, the designers used
directly, batch sizes 1-5, histories with infeasible / duplicate / active trials fed back —
each judged by the Lean `inSpace` predicate through the driver.  A configuration an algorithm
refuses with an error is acceptable; an out-of-domain or incomplete suggestion is not."""
import math

import numpy as np

from vcheck import core
from vcheck import codec as cd
from props import c15

DRIVER = 'C03'
KEY_D11 = 'decode-overflow-drops-parameter'
KEY_DEFAULT = 'default-seed-double-default-out-of-range'
VARIANT = {'clipScaled': False, 'stableRlog': False, 'validateDouble': False}

FAST_ALGOS = ['RANDOM_SEARCH', 'QUASI_RANDOM_SEARCH', 'GRID_SEARCH', 'SHUFFLED_GRID_SEARCH', 'NSGA2', 'EAGLE_STRATEGY']
BOOL_ALGOS = ['BOCS', 'HARMONICA']
GP_ALGOS = ['GAUSSIAN_PROCESS_BANDIT', 'DEFAULT']          # DEFAULT = GP_UCB_PE
SEEDED_ALGOS = ['DEFAULT', 'GP_UCB_PE', 'ALGORITHM_UNSPECIFIED', 'GAUSSIAN_PROCESS_BANDIT', 'BOCS', 'HARMONICA']


def safe(fn, *a, **kw):
  try:
    return fn(*a, **kw)
  except core.InfraError:
    raise
  except Exception as e:  # pylint: disable=broad-except
    return 'ERR:' + type(e).__name__ + ':' + str(e)[:160]


# ------------------------------------------------------------------ judging real suggestions
class Judge:
  """Collects real suggestions and has them judged by the Lean `inSpace` in one driver call.
  Refusals (an exception instead of a suggestion) are acceptable behaviour: they are counted
  and listed in the evidence, and only an algorithm that never suggests anything is reported."""

  def __init__(self, c):
    self.c = c
    self.items = []     # (space, assignment, source, context)
    self.produced = {}  # source prefix -> number of suggestions
    self.refusals = {}  # source prefix -> [messages]

  def refuse(self, source, msg):
    self.refusals.setdefault(source, []).append(msg[:200])
    self.c.dist['refusal:' + source] = self.c.dist.get('refusal:' + source, 0) + 1

  def add(self, space, params, source, context=None, key=None):
    """params: ParameterDict / dict name -> ParameterValue.  `key`: the finding class a failure
    of this suggestion belongs to (default: suggestion-outside-space:<source>)."""
    a = cd.assignment_of(space, params)
    self.items.append((space, a, source, dict(context or {}, _key=key)))
    k = source.split(':')[0]
    self.produced[k] = self.produced.get(k, 0) + 1

  def flush(self):
    c = self.c
    by_space, reqs = {}, []
    for i, (space, a, source, ctx) in enumerate(self.items):
      if not all(cd.is_jsonable_value(v) for _, v in a) or any(n not in {p['name'] for p in space} for n, _ in a):
        c.prop_fail('suggestion-outside-space:' + source.split(':')[0],
                    '%s suggested %r: unknown parameter names or values of unexpected python types' % (source, a),
                    {'space': space, 'suggestion': repr(a), 'source': source, 'context': ctx})
        continue
      key = repr(space)
      if key not in by_space:
        by_space[key] = len(reqs)
        reqs.append({'op': 'judge', 'params': [cd.param_json(p) for p in space], 'assigns': [], '_idx': []})
      r = reqs[by_space[key]]
      r['assigns'].append(cd.assign_json(a)); r['_idx'].append(i)
    idxs = [r.pop('_idx') for r in reqs]
    res = c.lean(DRIVER, reqs)
    for r, ix in zip(res, idxs):
      if 'error' in r:
        raise core.InfraError('driver: %s' % r['error'])
      for ok, i in zip(r['ins'], ix):
        space, a, source, ctx = self.items[i]
        nontrivial = any(p['sc'] in ('LOG', 'RLOG') or cd.bounds(p)[0] == cd.bounds(p)[1] or cd.num_feasible(p) > 10 for p in space if p['t'] != 'C')
        c.count(1, ('sugg', i) if nontrivial else None, kind='suggestion:' + source)
        if not ok:
          names = [n for n, _ in a]
          missing = [p['name'] for p in space if p['name'] not in names]
          c.prop_fail((ctx or {}).get('_key') or 'suggestion-outside-space:' + source.split(':')[0],
                      '%s suggested %r, which is not inside the search space%s' % (source, a, (' (missing: %s)' % missing) if missing else ''),
                      {'space': space, 'suggestion': a, 'source': source, 'context': ctx})
    n = len(self.items)
    self.items = []
    return n


# ------------------------------------------------------------------ variants / known defect classes
def identify_variants(c):
  import shim
  shim.install()
  from vizier import pyvizier as vz
  from vizier.pyvizier.converters import core as ccore
  from vizier._src.pythia import suggest_default
  # D11 (shared with C15): finite out-of-range array entry on a LOG-scaled parameter
  problem = vz.ProblemStatement()
  problem.search_space.root.add_float_param('x', 1e-3, 10.0, scale_type=vz.ScaleType.LOG)
  conv = ccore.TrialToArrayConverter.from_study_config(problem)
  out = conv.to_parameters(np.array([[100.0]]))[0]
  VARIANT['clipScaled'] = 'x' in out
  c.flags['decodeClipsInScaledSpace'] = VARIANT['clipScaled']
  if not VARIANT['clipScaled']:
    c.prop_fail(KEY_D11, "to_parameters([[100.0]]) on a LOG-scaled DOUBLE parameter [1e-3, 10] returns %r: an incomplete suggestion (exp overflows, the parameter is dropped)" % dict(out),
                {'space': [{'name': 'x', 't': 'D', 'lo': 1e-3, 'hi': 10.0, 'sc': 'LOG'}], 'array': [100.0]})
  problem = vz.ProblemStatement()
  problem.search_space.root.add_float_param('x', 1e-10, 1e7, scale_type=vz.ScaleType.REVERSE_LOG)
  conv = ccore.TrialToArrayConverter.from_study_config(problem)
  VARIANT['stableRlog'] = float(conv.to_features([vz.Trial(parameters={'x': 1e7})])[0, 0]) == 1.0
  c15.VARIANT['clipScaled'], c15.VARIANT['stableRlog'] = VARIANT['clipScaled'], VARIANT['stableRlog']
  # default seeding: witness of c03_default_counterexample
  ss = vz.SearchSpace()
  ss.root.add_float_param('x', 0.0, 1.0, default_value=5.0)
  r = safe(suggest_default.get_default_parameters, ss)
  VARIANT['validateDouble'] = isinstance(r, str)
  c.flags['defaultSeedValidatesDouble'] = VARIANT['validateDouble']
  if not VARIANT['validateDouble']:
    c.prop_fail(KEY_DEFAULT, "default/centre seeding suggests %r for a DOUBLE parameter [0, 1] declared with default_value=5.0 (INTEGER / DISCRETE / CATEGORICAL defaults outside the domain are refused with ValueError)" % dict(r),
                {'space': [{'name': 'x', 't': 'D', 'lo': 0.0, 'hi': 1.0, 'sc': 'LIN'}], 'default': 5.0, 'suggestion': {'x': 5.0}})


# ------------------------------------------------------------------ mechanism ties
def cfg_json(cfg):
  return dict(c15.cfg_json(cfg), clipScaled=VARIANT['clipScaled'], stableRlog=VARIANT['stableRlog'])


def vals_close(p, a, b, f32=True):
  if p['t'] == 'D':
    return isinstance(a, float) and isinstance(b, float) and (a == b or abs(a - b) <= cd.value_tol(p, f32, a, b))
  return type(a) is type(b) and a == b


def grid_stage(c, judge):
  from vizier import pyvizier as vz
  from vizier._src.algorithms.designers import grid
  n = 12 if c.tier == 'quick' else 150
  cfg = {'scale': True, 'onehot': False, 'pad': True, 'maxd': 10, 'clip': True, 'f32': True}
  reqs, metas = [], []
  for i in range(n):
    space = cd.gen_space(c.rng, f32=True, max_params=4, max_int_width=12)
    problem = cd.build_problem(vz, space)
    d = safe(grid.GridSearchDesigner, problem.search_space)
    if isinstance(d, str):
      judge.refuse('GRID_SEARCH', d)
      continue
    sizes = [len(d._grid_values[p['name']]) for p in space]
    total = math.prod(sizes)
    idxs = sorted(set(i for i in [0, 1, total - 1, total, total + 1] + [c.rng.randrange(0, 2 * total + 3) for _ in range(6)] if i >= 0))
    real = []
    for ix in idxs:
      d._current_index = ix
      s = safe(d.suggest, 1)
      real.append(s if isinstance(s, str) else cd.assignment_of(space, s[0].parameters))
      if not isinstance(s, str):
        judge.add(space, s[0].parameters, 'GRID_SEARCH:designer-index', {'index': ix})
    c.traces += len(idxs)
    reqs.append({'op': 'grid', 'params': [cd.param_json(p) for p in space], 'cfg': cfg_json(cfg), 'res': 10, 'indices': idxs})
    metas.append((space, idxs, real, sizes))
  for (space, idxs, real, sizes), m in zip(metas, c.lean(DRIVER, reqs)):
    if 'error' in m:
      raise core.InfraError('driver: %s' % m['error'])
    if m['sizes'] != sizes:
      c.tie_break('grid sizes', {'space': space}, sizes, m['sizes'])
    by = {p['name']: p for p in space}
    for ix, r, ms in zip(idxs, real, m['suggestions']):
      c.count(1, ('grid', repr(space), ix) if ix >= math.prod(sizes) - 1 else None, kind='tie:grid-point')
      mm = None if ms is None else [[nm, cd.val_from_json(v)] for nm, v in ms]
      if isinstance(r, str) or mm is None:
        if not (isinstance(r, str) and mm is None):
          c.tie_break('grid point (error vs value)', {'space': space, 'index': ix}, r, mm)
        continue
      if [nm for nm, _ in r] != [nm for nm, _ in mm] or not all(vals_close(by[nm], a, b) for (nm, a), (_, b) in zip(r, mm)):
        c.tie_break('grid point', {'space': space, 'index': ix}, r, mm)


def default_stage(c, judge):
  from vizier import pyvizier as vz
  from vizier._src.pythia import suggest_default
  n = 40 if c.tier == 'quick' else 400
  reqs, metas = [], []
  # directed: ranges at the edge of the double format (valid bounds: finite, lo <= hi) - the centre of
  # the range must still be a point of the range
  big = 1.7976931348623157e308
  extreme = [(1e308, 1.5e308), (-1.7e308, -1e308), (-1e308, 1e308), (-1.5e308, 0.5e308), (big / 2, big), (-big, big),
             (5e-324, 1.5e-323), (-5e-324, 5e-324), (2.2250738585072014e-308, 4.4501477170144028e-308), (1e300, 3e300)]
  for i in range(n + len(extreme)):
    if i < len(extreme):
      space = [{'name': 'x', 't': 'D', 'lo': extreme[i][0], 'hi': extreme[i][1], 'sc': 'LIN'},
               {'name': 'y', 't': 'D', 'lo': 0.0, 'hi': 1.0, 'sc': 'LIN'}]
    else:
      space = cd.gen_space(c.rng, f32=False, max_params=5, max_int_width=20)
    defaults, malformed = {}, False
    for p in (space if i >= len(extreme) else []):
      r = c.rng.random()
      if r < 0.45:
        continue
      if r < 0.9 or i % 4 != 3:
        if p['t'] == 'D':
          defaults[p['name']] = c.rng.choice([p['lo'], p['hi'], p['lo'] + (p['hi'] - p['lo']) * c.rng.random()])
          defaults[p['name']] = min(max(defaults[p['name']], p['lo']), p['hi'])
        else:
          defaults[p['name']] = c.rng.choice(cd.feasible_values(p))
      else:       # malformed stream: a default outside the domain must be refused
        malformed = True
        if p['t'] == 'D':
          defaults[p['name']] = p['hi'] + (abs(p['hi']) or 1.0)
        elif p['t'] == 'I':
          defaults[p['name']] = p['hi'] + 3
        elif p['t'] == 'S':
          defaults[p['name']] = p['vals'][-1] + (abs(p['vals'][-1]) or 1.0)
        else:
          defaults[p['name']] = 'not-a-category'
    problem = safe(cd.build_problem, vz, space, (('obj', 'MAXIMIZE'),), defaults)
    if isinstance(problem, str):
      c.count(1, kind='default:space-refused')
      continue
    r = safe(suggest_default.get_default_parameters, problem.search_space)
    c.traces += 1
    real = r if isinstance(r, str) else cd.assignment_of(space, r)
    if not isinstance(r, str):
      only_double = malformed and all(p['t'] == 'D' or p['name'] not in defaults or defaults[p['name']] in cd.feasible_values(p) for p in space)
      judge.add(space, r, 'SEED:get_default_parameters' + (':malformed-default' if malformed else ''), {'defaults': defaults},
                key=KEY_DEFAULT if (only_double and not VARIANT['validateDouble']) else None)
    elif not malformed:
      judge.refuse('SEED', r)
    reqs.append({'op': 'default', 'params': [cd.param_json(p) for p in space],
                 'defaults': [cd.val_json(cd.canon_value(p, defaults[p['name']])) if p['name'] in defaults else None for p in space],
                 'validateDouble': VARIANT['validateDouble']})
    metas.append((space, defaults, real, malformed))
  for (space, defaults, real, malformed), m in zip(metas, c.lean(DRIVER, reqs)):
    if 'error' in m:
      raise core.InfraError('driver: %s' % m['error'])
    c.count(1, ('default', repr(space), repr(defaults)), kind='tie:default-seed' + (':malformed' if malformed else ''))
    by = {p['name']: p for p in space}
    if isinstance(real, str) or 'err' in m:
      if not (isinstance(real, str) and 'err' in m):
        c.tie_break('default seeding (error vs value)', {'space': space, 'defaults': defaults}, real, m)
      continue
    mm = [[nm, cd.val_from_json(v)] for nm, v in m['ok']]
    if [nm for nm, _ in real] != [nm for nm, _ in mm] or not all(vals_close(by[nm], a, b, False) for (nm, a), (_, b) in zip(real, mm)):
      c.tie_break('default seeding', {'space': space, 'defaults': defaults}, real, mm)


class FakeRng:
  """np.random.Generator stand-in fed with explicit variates (the theorems quantify over them)."""

  def __init__(self, us, ks):
    self.us, self.ks = list(us), list(ks)

  def uniform(self, low=0.0, high=1.0, size=None):
    if size is not None:
      return np.asarray([low + (high - low) * self.us.pop(0) for _ in range(int(np.prod(size)))]).reshape(size)
    return low + (high - low) * self.us.pop(0)

  def choice(self, seq):
    return seq[self.ks.pop(0)]


def sampling_stage(c, judge):
  from vizier import pyvizier as vz
  from vizier._src.algorithms.random import random_sample
  from vizier._src.algorithms.designers import quasi_random
  from vizier._src.algorithms.evolution import numpy_populations
  n = 60 if c.tier == 'quick' else 600
  reqs, metas = [], []
  for i in range(n):
    space = cd.gen_space(c.rng, f32=False, max_params=5, max_int_width=30)
    problem = cd.build_problem(vz, space)
    us = [c.rng.choice([0.0, 0.5, 1.0 - 2 ** -53, c.rng.random(), c.rng.random()]) for _ in space]
    ks = [c.rng.randrange(len(p['cats'])) if p['t'] == 'C' else 0 for p in space]
    # the fake generator is consumed in space order: one uniform per non-categorical, one choice per categorical
    r = safe(random_sample.sample_parameters, FakeRng([u for u, p in zip(us, space) if p['t'] != 'C'], [k for k, p in zip(ks, space) if p['t'] == 'C']), problem.search_space)
    c.traces += 1
    real = r if isinstance(r, str) else cd.assignment_of(space, r)
    if isinstance(r, str):
      judge.refuse('random_sample', r)
    else:
      judge.add(space, r, 'random_sample:sample_parameters', {'us': us, 'ks': ks})
    reqs.append({'op': 'sample', 'params': [cd.param_json(p) for p in space], 'us': [cd.hexf(u) for u in us], 'ks': ks})
    metas.append(('sample', space, (us, ks), real))
  # Halton index
  for i in range(10 if c.tier == 'quick' else 60):
    nf = c.rng.choice([1, 2, 3, 7, 10, 31])
    space = [{'name': 'c', 't': 'I', 'lo': 5, 'hi': 5 + nf - 1, 'sc': None}]
    d = quasi_random.QuasiRandomDesigner(cd.build_problem(vz, space).search_space, seed=1)
    spec = d._output_specs[0]
    hs = [0.0, 1.0 - 2 ** -53, 0.5, min(1.0 / nf, 1.0 - 2 ** -53), (nf - 1.0) / nf] + [c.rng.random() for _ in range(5)]
    real = [int(d._generate_discrete_point(spec, h)) for h in hs]
    c.traces += len(hs)
    for h, ix in zip(hs, real):
      if not 0 <= ix <= nf - 1:
        c.prop_fail('halton-index-out-of-range', 'QuasiRandomDesigner index %d for halton value %r with %d feasible values' % (ix, h, nf), {'h': h, 'n': nf})
    reqs.append({'op': 'halton', 'hs': [cd.hexf(h) for h in hs], 'n': nf})
    metas.append(('halton', nf, hs, real))
  # NSGA-II mutation
  for i in range(6 if c.tier == 'quick' else 40):
    m = c.rng.randrange(1, 7)
    xs = [c.rng.choice([0.0, 1.0, c.rng.random()]) for _ in range(m)]
    norm = c.rng.choice([0.001, 0.1, 0.6, 3.0])
    deltas = [c.rng.choice([-norm, norm, c.rng.uniform(-norm, norm)]) for _ in range(m)]
    mut = numpy_populations.LinfMutation(norm=norm, seed=0)
    mut._rng = FakeRng([(d + norm) / (2 * norm) for d in deltas], [])
    pop = numpy_populations.Population(np.asarray([xs]), np.zeros([1, 1]), np.zeros([1, 0]), np.zeros([1]), np.zeros([1]), np.zeros([1]), np.zeros([1]))
    arr = np.asarray([xs]) * 0 + 0  # placeholder to keep shapes explicit
    real_deltas = [-norm + (2 * norm) * ((d + norm) / (2 * norm)) for d in deltas]      # what the fake generator returns
    out = mut.mutate(pop, 1).xs[0]
    c.traces += 1
    for y in out:
      if not 0.0 <= y <= 1.0:
        c.prop_fail('mutation-outside-unit-interval', 'LinfMutation produced %r' % float(y), {'xs': xs, 'deltas': real_deltas})
    reqs.append({'op': 'mutate', 'xs': [cd.hexf(x) for x in xs], 'deltas': [cd.hexf(d) for d in real_deltas]})
    metas.append(('mutate', xs, real_deltas, [float(y) for y in out]))
  for meta, m in zip(metas, c.lean(DRIVER, reqs)):
    if 'error' in m:
      raise core.InfraError('driver: %s' % m['error'])
    kind = meta[0]
    if kind == 'sample':
      _, space, (us, ks), real = meta
      c.count(1, ('sample', repr(space), repr(us)), kind='tie:random_sample')
      by = {p['name']: p for p in space}
      mm = None if m['assign'] is None else [[nm, cd.val_from_json(v)] for nm, v in m['assign']]
      if isinstance(real, str) or mm is None:
        if not (isinstance(real, str) and mm is None):
          c.tie_break('sample_parameters (error vs value)', {'space': space, 'us': us, 'ks': ks}, real, mm)
      elif [nm for nm, _ in real] != [nm for nm, _ in mm] or not all(vals_close(by[nm], a, b, False) for (nm, a), (_, b) in zip(real, mm)):
        c.tie_break('sample_parameters', {'space': space, 'us': us, 'ks': ks}, real, mm)
    elif kind == 'halton':
      _, nf, hs, real = meta
      c.count(len(hs), ('halton', nf, repr(hs)), kind='tie:halton-index')
      if real != m['idx']:
        c.tie_break('quasi-random discrete index', {'n': nf, 'hs': hs}, real, m['idx'])
    else:
      _, xs, deltas, real = meta
      c.count(len(xs), ('mutate', repr(xs), repr(deltas)), kind='tie:linf-mutation')
      mm = [cd.unhex(h) for h in m['ys']]
      if real != mm:
        c.tie_break('LinfMutation.mutate', {'xs': xs, 'deltas': deltas}, real, mm)


def eagle_stage(c, judge):
  """combine_two_parameters / perturb_parameter on crafted inputs (the dynamics are arbitrary:
  weights far outside [0, 1], huge perturbations)."""
  from vizier import pyvizier as vz
  from vizier._src.algorithms.designers.eagle_strategy import eagle_strategy_utils as esu
  n = 30 if c.tier == 'quick' else 300
  reqs, metas = [], []
  for i in range(n):
    p = c.rng.choice([cd.gen_double, cd.gen_discrete])(c.rng, False) if c.rng.random() < 0.7 else cd.gen_integer(c.rng, False, 30)
    p['name'] = 'x'
    p['sc'] = None if p['sc'] in ('LOG', 'RLOG') else p['sc']
    space = [p]
    problem = cd.build_problem(vz, space)
    utils = esu.EagleStrategyUtils(problem, esu.FireflyAlgorithmConfig(), np.random.default_rng(0))
    pc = problem.search_space.get('x')
    lo, hi = cd.bounds(p)
    pick = (lambda: c.rng.choice(cd.feasible_values(p))) if p['t'] != 'D' else (lambda: lo + (hi - lo) * c.rng.random())
    ws, real_c, real_p = [], [], []
    for k in range(6):
      v1, v2 = pick(), pick()
      w = c.rng.choice([0.3, 1.0, 0.0, -2.5, 7.0, c.rng.uniform(-1, 2)])
      weighted = v1 * w + v2 * (1 - w)
      rc = safe(utils.combine_two_parameters, pc, vz.ParameterDict({'x': v1}), vz.ParameterDict({'x': v2}), w)
      pert = c.rng.choice([0.0, 1.0, -1.0, 0.01, 30.0, c.rng.uniform(-1, 1)])
      perturbed = v1 + pert * (hi - lo)
      rp = safe(utils.perturb_parameter, pc, v1, pert)
      c.traces += 2
      for val, src in ((rc, 'EAGLE:combine_two_parameters'), (rp, 'EAGLE:perturb_parameter')):
        if isinstance(val, str):
          judge.refuse('EAGLE', val)
        else:
          judge.add(space, {'x': val}, src, {'v1': v1, 'v2': v2, 'w': w, 'perturbation': pert})
      ws += [weighted, perturbed]
      real_c.append(rc); real_p.append(rp)
    reqs.append({'op': 'eagle', 'param': cd.param_json(p), 'ws': [cd.hexf(w) for w in ws]})
    metas.append((p, ws, real_c, real_p))
  for (p, ws, real_c, real_p), m in zip(metas, c.lean(DRIVER, reqs)):
    if 'error' in m:
      raise core.InfraError('driver: %s' % m['error'])
    for k in range(len(real_c)):
      c.count(2, ('eagle', repr(p), k), kind='tie:eagle-clamp')
      for real, mv, what, w in ((real_c[k], m['combine'][2 * k], 'combine', ws[2 * k]), (real_p[k], m['perturb'][2 * k + 1], 'perturb', ws[2 * k + 1])):
        if isinstance(real, str):
          continue
        mval = None if mv is None else cd.val_from_json(mv)
        if mval is None or not vals_close(p, cd.canon_value(p, real), mval, False):
          c.tie_break('eagle ' + what, {'param': p, 'value': w}, real, mval)


def acquisition_stage(c, judge):
  """The acquisition optimiser behind the GP designers (vectorised eagle strategy, as configured by
  VizierGPBandit) run directly on cheap score functions over spaces with several categorical
  parameters of DIFFERENT cardinality, integers and discretes; its best candidates are decoded by
  `best_candidates_to_trials` (the GP designers' own path) and judged for membership.  Priors make
  the mutation / categorical re-sampling path run from the first iteration."""
  import jax
  import jax.numpy as jnp
  from vizier import pyvizier as vz
  from vizier.pyvizier import converters
  from vizier._src.algorithms.optimizers import eagle_strategy as es
  from vizier._src.algorithms.optimizers import vectorized_base as vb
  from vizier._src.jax import types
  n = 4 if c.tier == 'quick' else 24
  for i in range(n):
    ncat = c.rng.choice([2, 2, 3])
    sizes = c.rng.sample([2, 3, 4, 5, 7], ncat)
    space = [{'name': 'k%d' % j, 't': 'C', 'cats': ['v%d' % v for v in range(sz)], 'sc': None} for j, sz in enumerate(sizes)]
    space.append({'name': 'x', 't': 'D', 'lo': -1.0, 'hi': 3.0, 'sc': 'LIN'})
    if c.rng.random() < 0.5:
      space.append(cd.gen_integer(c.rng, True, 12)); space[-1]['name'] = 'n'
    if c.rng.random() < 0.4:
      space.append(cd.gen_discrete(c.rng, True)); space[-1]['name'] = 'd'
    try:
      problem = cd.build_problem(vz, space)
      conv = converters.TrialToModelInputConverter.from_problem(problem)
      opt = vb.VectorizedOptimizerFactory(strategy_factory=es.VectorizedEagleStrategyFactory(),
                                          max_evaluations=2000, suggestion_batch_size=25)(conv)
      w = jnp.asarray([c.rng.uniform(-1, 1) for _ in range(8)])
      # half of the score functions increase with the category INDEX: an index beyond a parameter's
      # own cardinality (but below the largest one) would be the optimum
      up = 1.0 if i % 2 == 0 else 0.0

      def score(x, seed=None, w=w, up=up):
        cont, cat = x.continuous.padded_array, x.categorical.padded_array
        catf = cat.astype(cont.dtype)
        sc = jnp.sum(jnp.sin(3.0 * cont + w[0]) * w[1], axis=-1) + jnp.sum((1.0 - up) * jnp.cos(catf * w[2] + w[3]) + up * catf, axis=-1)
        return sc.reshape(sc.shape[0], -1)[:, 0] if sc.ndim > 1 else sc
      priors = []
      for t in range(c.rng.choice([0, 3, 6])):
        d = {}
        for sp in space:
          d[sp['name']] = (c.rng.choice(cd.feasible_values(sp)) if sp['t'] != 'D' else c.rng.uniform(sp['lo'], sp['hi']))
        priors.append(vz.Trial(parameters=d))
      pf = vb.trials_to_sorted_array(priors, conv)
      count = c.rng.choice([1, 3, 8])
      res = opt(score, count=count, prior_features=pf, seed=jax.random.PRNGKey(c.rng.randrange(1 << 30)))
      trials = vb.best_candidates_to_trials(res, conv)
    except Exception as e:  # pylint: disable=broad-except
      judge.refuse('ACQUISITION', '%s: %s' % (type(e).__name__, e))
      continue
    c.traces += 1
    for t in trials:
      judge.add(space, t.parameters, 'ACQUISITION:vectorized-eagle', {'sizes': sizes, 'count': count, 'priors': len(priors)})


def decode_stage(c, judge):
  """Out-of-range arrays through the array converters the designers use (the full tie is C15's)."""
  from vizier import pyvizier as vz
  n = 10 if c.tier == 'quick' else 120
  for i in range(n):
    f32 = i % 2 == 0
    cfg = {'scale': True, 'onehot': True, 'pad': True, 'maxd': 0, 'clip': True, 'f32': f32}
    space = cd.gen_space(c.rng, f32=f32, max_params=5)
    problem = cd.build_problem(vz, space)
    real = safe(c15.RealCodec, 'array', space, cfg, problem)
    if isinstance(real, str):
      judge.refuse('DECODE', real)
      continue
    for k in range(8):
      kind = ['in', 'boundary', 'near', 'far', 'extreme', 'mixed', 'far', 'extreme'][k]
      arr, _ = c15.gen_array(c.rng, space, cfg, kind, 3e38 if f32 else 1e300)
      r = safe(real.decode, arr)
      c.traces += 1
      if isinstance(r, str):
        judge.refuse('DECODE', r)
        continue
      names = set(r)
      missing = [p['name'] for p in space if p['name'] not in names]
      if missing and not VARIANT['clipScaled'] and kind in ('far', 'extreme', 'mixed', 'near'):
        c.count(1, ('decode', i, k), kind='suggestion:DECODE:any-array')
        c.prop_fail(KEY_D11, 'to_parameters of the finite array %r drops %s: an incomplete suggestion' % (arr, missing), {'space': space, 'array': arr, 'decoded': cd.assignment_of(space, r)})
        continue
      judge.add(space, r, 'DECODE:any-array', {'array': arr, 'kind': kind, 'float32': f32})


# ------------------------------------------------------------------ designers used directly
def feed_back(vz, rng, suggestions, next_id, infeasible_rate=0.25, metrics=('obj',)):
  """complete suggestions (some infeasible), plus a duplicate of one of them"""
  completed = []
  for s in suggestions:
    t = s.to_trial(next_id); next_id += 1
    if rng.random() < infeasible_rate:
      t.complete(vz.Measurement(), infeasibility_reason='verif')
    else:
      t.complete(vz.Measurement(metrics={m: rng.uniform(-5, 5) for m in metrics}))
    completed.append(t)
  if completed and rng.random() < 0.7:
    src = rng.choice(completed)
    dup = vz.Trial(id=next_id, parameters=src.parameters); next_id += 1
    dup.complete(vz.Measurement(metrics={m: rng.uniform(-5, 5) for m in metrics}))
    completed.append(dup)
  return completed, next_id


def designers_stage(c, judge):
  from vizier import pyvizier as vz
  from vizier import algorithms as vza
  from vizier._src.algorithms.designers import random as random_designer, quasi_random, grid
  from vizier._src.algorithms.designers.eagle_strategy import eagle_strategy
  from vizier._src.algorithms.evolution import nsga2
  n = 6 if c.tier == 'quick' else 40
  rounds = 3 if c.tier == 'quick' else 6
  factories = {
      'RANDOM': lambda pr, s: random_designer.RandomDesigner(pr.search_space, seed=s),
      'QUASI_RANDOM': lambda pr, s: quasi_random.QuasiRandomDesigner(pr.search_space, seed=s, skip_points=c.rng.choice([0, 1000])),
      'GRID': lambda pr, s: grid.GridSearchDesigner(pr.search_space),
      'SHUFFLED_GRID': lambda pr, s: grid.GridSearchDesigner(pr.search_space, shuffle_seed=s),
      'NSGA2': lambda pr, s: nsga2.NSGA2Designer(pr, population_size=4, first_survival_after=4, seed=s),
      'EAGLE': lambda pr, s: eagle_strategy.EagleStrategyDesigner(pr, seed=s),
  }
  spaces = []
  for i in range(n):
    space = cd.gen_space(c.rng, f32=True, max_params=5, max_int_width=15)
    # ... followed by a second study of the same process whose parameters have the same names, types and
    # domain summaries (count, smallest, largest value) but other feasible values
    spaces += [space, cd.twin_space(c.rng, space)]
  for i, space in enumerate(spaces):
    goal = c.rng.choice(['MAXIMIZE', 'MINIMIZE'])
    problem = cd.build_problem(vz, space, (('obj', goal),))
    for name, fac in factories.items():
      seed = c.rng.randrange(1 << 20)
      d = safe(fac, problem, seed)
      if isinstance(d, str):
        judge.refuse(name, d)
        continue
      next_id = 1
      for r in range(rounds if name not in ('EAGLE',) else rounds + 3):
        count = c.rng.randrange(1, 6)
        sg = safe(d.suggest, count)
        c.traces += 1
        if isinstance(sg, str):
          judge.refuse(name, 'suggest: ' + sg)
          break
        for s in sg:
          judge.add(space, s.parameters, name + ':designer', {'round': r, 'count': count, 'seed': seed})
        completed, next_id = feed_back(vz, c.rng, sg, next_id, infeasible_rate=0.25 if i % 2 == 0 else 0.0)
        active = []
        if c.rng.random() < 0.5 and sg:
          active = [sg[0].to_trial(next_id)]; next_id += 1
        u = safe(d.update, vza.CompletedTrials(completed), vza.ActiveTrials(active))
        if isinstance(u, str):
          judge.refuse(name, 'update: ' + u)
          break


# ------------------------------------------------------------------ end to end through the service
def run_study(c, judge, algo, space, rounds, counts, defaults=None, goal='MAXIMIZE', note='', infeasible_rate=0.25, sv=None):
  from vcheck import svc
  from vizier import pyvizier as vz
  from vizier._src.pyvizier.oss import proto_converters as pc
  from vizier._src.pyvizier.oss import study_config as sc
  from vizier._src.service import vizier_service_pb2 as vsp, study_pb2
  problem = cd.build_problem(vz, space, (('obj', goal),), defaults)
  cfg = sc.StudyConfig.from_problem(problem)
  cfg.algorithm = algo
  if sv is None:
    sv = svc.make_servicer('ram')
  else:
    # a long-lived server: the study NAME is re-used (deleted, created again with another space), so anything the
    # server or its algorithms remember per study name is stale
    try:
      sv.DeleteStudy(vsp.DeleteStudyRequest(name='owners/o/studies/s'))
    except Exception:  # pylint: disable=broad-except
      pass
  study = svc.create_study(sv, spec=cfg.to_proto())
  outcome = {'suggested': 0, 'refused': None}
  for r in range(rounds):
    count = counts[r % len(counts)]
    try:
      op = sv.SuggestTrials(vsp.SuggestTrialsRequest(parent=study.name, suggestion_count=count, client_id='w%d' % r))
    except Exception as e:  # pylint: disable=broad-except
      outcome['refused'] = type(e).__name__ + ':' + str(e)[:200]
      break
    c.traces += 1
    if op.HasField('error'):
      outcome['refused'] = op.error.message[:300]
      break
    if not op.done:
      outcome['refused'] = 'operation not done'
      break
    resp = vsp.SuggestTrialsResponse.FromString(op.response.value)
    trials = list(resp.trials)
    for t in trials:
      pt = pc.TrialConverter.from_proto(t)
      judge.add(space, pt.parameters, algo + ':service' + note, {'round': r, 'count': count, 'trial': t.name})
      outcome['suggested'] += 1
    # history: complete (some infeasible), leave one active, add a duplicate of a completed trial
    for k, t in enumerate(trials):
      if k == 0 and r % 2 == 1:
        continue                                    # stays ACTIVE
      req = vsp.CompleteTrialRequest(name=t.name)
      if c.rng.random() < infeasible_rate:
        req.trial_infeasible = True
        req.infeasible_reason = 'verif'
      else:
        m = req.final_measurement.metrics.add(); m.metric_id = 'obj'; m.value = c.rng.uniform(-5, 5)
      sv.CompleteTrial(req)
    if trials and c.rng.random() < 0.7:
      dup = study_pb2.Trial(state=study_pb2.Trial.State.SUCCEEDED)
      dup.parameters.extend(trials[-1].parameters)
      m = dup.final_measurement.metrics.add(); m.metric_id = 'obj'; m.value = c.rng.uniform(-5, 5)
      sv.CreateTrial(vsp.CreateTrialRequest(parent=study.name, trial=dup))
  return outcome


def bool_space(rng):
  n = rng.randrange(2, 5)
  return [{'name': 'b%d' % i, 't': 'C', 'cats': ['False', 'True'], 'sc': None, 'bool': True} for i in range(n)]


def service_stage(c, judge):
  quick = c.tier == 'quick'
  refused = {}
  executed = {}

  def record(algo, out, space):
    executed[algo] = executed.get(algo, 0) + out['suggested']
    if out['refused']:
      refused.setdefault(algo, []).append(out['refused'][:160])

  n_spaces = 6 if quick else 40
  rounds = 3 if quick else 5
  for i in range(n_spaces):
    space = cd.gen_space(c.rng, f32=True, max_params=5, max_int_width=15)
    for algo in FAST_ALGOS:
      out = run_study(c, judge, algo, space, rounds, [c.rng.randrange(1, 6) for _ in range(rounds)], goal=c.rng.choice(['MAXIMIZE', 'MINIMIZE']),
                      infeasible_rate=0.25 if i % 2 == 0 else 0.0)
      record(algo, out, space)
    twin = cd.twin_space(c.rng, space)
    for algo in FAST_ALGOS[:3] if quick else FAST_ALGOS:
      out = run_study(c, judge, algo, twin, 2, [c.rng.randrange(1, 6) for _ in range(2)], note=':twin-study')
      record(algo, out, twin)
    # one long-lived server, one study name: the space, its twin, then an unrelated space
    from vcheck import svc as _svc
    other = cd.gen_space(c.rng, f32=True, max_params=4, max_int_width=15)
    for algo in (FAST_ALGOS[1:4] if quick else FAST_ALGOS):
      shared = _svc.make_servicer('ram')
      for sp, nt in ((space, ':recreated-0'), (twin, ':recreated-twin'), (other, ':recreated-other')):
        out = run_study(c, judge, algo, sp, 2, [c.rng.randrange(1, 4) for _ in range(2)], note=nt, sv=shared)
        record(algo, out, sp)
  # ranges only float64 can hold (a bound above the float32 maximum, a width that overflows in float32, a LOG
  # range below the float32 subnormals): every algorithm must refuse them or answer inside the space
  extreme = [
      # logarithmic scaling over a range that contains no positive lower bound (the search-space builders accept
      # it): log(0) / log of a negative number - refused, or answered completely and inside
      [{'name': 'x', 't': 'D', 'lo': 0.0, 'hi': 1.0, 'sc': 'LOG'}, {'name': 'k', 't': 'C', 'cats': ['a', 'b'], 'sc': None}],
      [{'name': 'x', 't': 'D', 'lo': -2.0, 'hi': -1.0, 'sc': 'RLOG'}, {'name': 'y', 't': 'D', 'lo': 0.0, 'hi': 1.0, 'sc': 'LIN'}],
      # a range whose WIDTH overflows float64
      [{'name': 'x', 't': 'D', 'lo': -1.7e308, 'hi': 1.7e308, 'sc': 'LIN'}, {'name': 'y', 't': 'D', 'lo': 0.0, 'hi': 1.0, 'sc': 'LIN'}],
      [{'name': 'x', 't': 'D', 'lo': 0.0, 'hi': 1e39, 'sc': 'LIN'}, {'name': 'y', 't': 'D', 'lo': 0.0, 'hi': 1.0, 'sc': 'LIN'}],
      [{'name': 'x', 't': 'D', 'lo': -3e38, 'hi': 3e38, 'sc': 'LIN'}, {'name': 'y', 't': 'D', 'lo': 0.0, 'hi': 1.0, 'sc': 'LIN'}],
      [{'name': 'x', 't': 'D', 'lo': 1e-50, 'hi': 1e-40, 'sc': 'LOG'}, {'name': 'y', 't': 'D', 'lo': 0.0, 'hi': 1.0, 'sc': 'LIN'}],
      [{'name': 'x', 't': 'D', 'lo': 1e300, 'hi': 1.5e300, 'sc': 'LIN'}, {'name': 'k', 't': 'C', 'cats': ['a', 'b'], 'sc': None}],
  ]
  for ei, space in enumerate(extreme if not quick else extreme[:6]):
    for algo in FAST_ALGOS + (['GAUSSIAN_PROCESS_BANDIT'] if (not quick and ei in (0, 3)) else []):
      out = run_study(c, judge, algo, space, 2, [2, 1], note=':float64-only-range')
      record(algo, out, space)
      c.count(1, ('extreme-range', algo, ei), kind='extreme-range:' + algo)
  # default / centre seeding through the seeded policies: first suggestion of an empty study
  for i in range(6 if quick else 30):
    space = cd.gen_space(c.rng, f32=True, max_params=5, max_int_width=15)
    defaults = {p['name']: (c.rng.choice(cd.feasible_values(p)) if p['t'] != 'D' else p['lo'] + (p['hi'] - p['lo']) * c.rng.random())
                for p in space if c.rng.random() < 0.4}
    for p in space:
      if p['name'] in defaults and p['t'] == 'D':
        defaults[p['name']] = min(max(defaults[p['name']], p['lo']), p['hi'])
    algo = SEEDED_ALGOS[i % 4]
    out = run_study(c, judge, algo, space, 1, [1], defaults=defaults, note=':seed')
    record(algo, out, space)
  # the FIRST BATCH of an empty study (the policy's default point, the designer's own centre point, quasi-random seeds)
  # on spaces with more categorical than numeric parameters, and purely categorical ones
  catty = [
      [{'name': 'lr', 't': 'D', 'lo': 1e-4, 'hi': 0.1, 'sc': 'LOG'}, {'name': 'act', 't': 'C', 'cats': ['gelu', 'relu', 'tanh'], 'sc': None},
       {'name': 'opt', 't': 'C', 'cats': ['adam', 'sgd'], 'sc': None}, {'name': 'norm', 't': 'C', 'cats': ['batch', 'layer', 'none'], 'sc': None}],
      [{'name': 'a', 't': 'C', 'cats': ['x', 'y', 'z'], 'sc': None}, {'name': 'b', 't': 'C', 'cats': ['p', 'q'], 'sc': None}],
  ]
  for si, space in enumerate(catty):
    for algo in (['DEFAULT', 'GAUSSIAN_PROCESS_BANDIT'] if (quick and si == 0) else ['DEFAULT'] if quick else ['DEFAULT', 'GP_UCB_PE', 'GAUSSIAN_PROCESS_BANDIT']):
      out = run_study(c, judge, algo, space, 1, [3], note=':first-batch')
      record(algo, out, space)
      c.count(1, ('first-batch', algo, si), kind='first-batch:' + algo)
  # boolean-only algorithms
  for algo in BOOL_ALGOS:
    for i in range(1 if quick else 4):
      space = bool_space(c.rng)
      # 13 rounds: these designers answer from a random designer for their first 10 trials; the model
      # phase (the algorithm proper) only starts after that
      out = run_study(c, judge, algo, space, 13 if (i == 0) else 6, [1], infeasible_rate=0.0)     # batches are refused by these designers
      record(algo, out, space)
    # a boolean restricted to ONE value, and a two-valued categorical that is not a boolean: the model
    # phase only knows 'True' / 'False' - such spaces must be refused or answered inside the domain
    for variant in ('singleton-bool', 'two-valued-categorical'):
      space = bool_space(c.rng)[:2]
      if variant == 'singleton-bool':
        space.append({'name': 'only', 't': 'C', 'cats': [c.rng.choice(['True', 'False'])], 'sc': None, 'bool': True})
      else:
        space.append({'name': 'act', 't': 'C', 'cats': ['relu', 'tanh'], 'sc': None})
      out = run_study(c, judge, algo, space, 13, [1], infeasible_rate=0.0, note=':' + variant)
      record(algo, out, space)
      c.count(1, ('bool-variant', algo, variant), kind='malformed:' + variant)
      out = run_study(c, judge, algo, space, 2, [1, 3], note=':batch')                       # seed, then a batch: refused
      record(algo, out, space)
  # malformed stream: spaces an algorithm does not document must be refused, not answered
  mixed = [{'name': 'x', 't': 'D', 'lo': 0.0, 'hi': 1.0, 'sc': 'LIN'}, {'name': 'k', 't': 'C', 'cats': ['a', 'b'], 'sc': None}]
  # ... the unsupported kind first, in the middle and last (a decoder that slices an array positionally loses
  # what FOLLOWS the unsupported parameter), and integer / discrete parameters
  mixed_first = [{'name': 'k', 't': 'C', 'cats': ['a', 'b', 'c'], 'sc': None}, {'name': 'x', 't': 'D', 'lo': 0.0, 'hi': 1.0, 'sc': 'LIN'},
                 {'name': 'y', 't': 'D', 'lo': -2.0, 'hi': 2.0, 'sc': 'LIN'}]
  mixed_mid = [{'name': 'lr', 't': 'D', 'lo': 1e-4, 'hi': 0.1, 'sc': 'LOG'}, {'name': 'opt', 't': 'C', 'cats': ['adam', 'sgd'], 'sc': None},
               {'name': 'wd', 't': 'D', 'lo': 0.0, 'hi': 1.0, 'sc': 'LIN'}]
  mixed_num = [{'name': 'n', 't': 'I', 'lo': 1, 'hi': 6, 'sc': None}, {'name': 'd', 't': 'S', 'vals': [0.1, 0.5, 2.0], 'sc': None},
               {'name': 'x', 't': 'D', 'lo': 0.0, 'hi': 1.0, 'sc': 'LIN'}]
  for algo in BOOL_ALGOS + ['CMA_ES']:
    for tag, sp in (('last', mixed), ('first', mixed_first), ('middle', mixed_mid), ('numeric', mixed_num)):
      if tag != 'last' and quick and algo != 'CMA_ES':
        continue
      out = run_study(c, judge, algo, sp, 2, [2, 1], note=':undocumented-space:' + tag)
      record(algo, out, sp)
      c.count(1, ('malformed', algo, tag), kind='malformed:undocumented-space')
  # CMA_ES on the space it documents (continuous only): cannot run in this sandbox (evojax vs jax)
  cont = [{'name': 'x', 't': 'D', 'lo': -1.0, 'hi': 3.0, 'sc': 'LIN'}, {'name': 'y', 't': 'D', 'lo': 1e-3, 'hi': 10.0, 'sc': 'LOG'}]
  out = run_study(c, judge, 'CMA_ES', cont, 2, [2])
  record('CMA_ES', out, cont)
  c.flags['CMA_ES_executed'] = out['suggested'] > 0
  if not out['suggested']:
    c.notes.append('CMA_ES not executed in this sandbox (%s); covered by c03_decode_in_space / c03_decode_never_outside only' % (out['refused'] or '')[:120])
  # GP designers
  gp_plan = [('GAUSSIAN_PROCESS_BANDIT', 2, [2, 2])] if quick else [('GAUSSIAN_PROCESS_BANDIT', 3, [2, 3, 1]), ('GAUSSIAN_PROCESS_BANDIT', 3, [3, 2, 5]), ('GAUSSIAN_PROCESS_BANDIT', 2, [1, 4]), ('DEFAULT', 3, [2, 2, 3]), ('DEFAULT', 2, [3, 1]), ('DEFAULT', 3, [1, 5, 2]), ('GP_UCB_PE', 2, [2, 2])]
  for algo, rnds, counts in gp_plan:
    space = cd.gen_space(c.rng, f32=True, max_params=4, max_int_width=15)
    out = run_study(c, judge, algo, space, rnds, counts)
    record(algo, out, space)
  c.flags['shuffledGridSearchWorks'] = executed.get('SHUFFLED_GRID_SEARCH', 0) > 0
  if not c.flags['shuffledGridSearchWorks']:
    c.notes.append('SHUFFLED_GRID_SEARCH refused every request with an error (defect D10: policy_factory passes shuffle_seed= to from_problem(seed=)); refusal is acceptable for C03, the defect is C13\'s')
  c.coverage_extra['suggestions_per_algorithm_via_service'] = executed
  c.coverage_extra['service_refusals'] = {k: [len(v)] + sorted(set(v))[:3] for k, v in refused.items()}
  # an algorithm that never answers makes the membership claim vacuous: report it
  expected = ['RANDOM_SEARCH', 'QUASI_RANDOM_SEARCH', 'GRID_SEARCH', 'NSGA2', 'EAGLE_STRATEGY', 'GAUSSIAN_PROCESS_BANDIT', 'BOCS', 'HARMONICA'] + ([] if quick else ['DEFAULT'])
  for algo in expected:
    if executed.get(algo, 0) == 0:
      c.prop_fail('no-suggestions:' + algo, '%s never produced a suggestion on the spaces it documents: %s' % (algo, refused.get(algo, ['?'])[:1]), {'algorithm': algo})


def run(c):
  c.proof_stage()
  identify_variants(c)
  judge = Judge(c)
  grid_stage(c, judge)
  default_stage(c, judge)
  sampling_stage(c, judge)
  eagle_stage(c, judge)
  decode_stage(c, judge)
  acquisition_stage(c, judge)
  designers_stage(c, judge)
  service_stage(c, judge)
  judge.flush()
  c.coverage_extra['suggestions_judged_per_source'] = judge.produced
  c.coverage_extra['refusals_outside_service'] = {k: [len(v)] + sorted(set(v))[:2] for k, v in judge.refusals.items()}
  for name in ('RANDOM', 'QUASI_RANDOM', 'GRID', 'SHUFFLED_GRID', 'NSGA2', 'EAGLE', 'SEED', 'random_sample', 'DECODE', 'ACQUISITION'):
    if judge.produced.get(name, 0) == 0:
      c.prop_fail('no-suggestions:' + name, '%s (used directly) never produced a suggestion: %s' % (name, judge.refusals.get(name, ['?'])[:1]), {'source': name})
  from vcheck import svc
  svc.cleanup()
  return c.finish(
      level='proof',
      rule='every evaluation is one REAL suggestion (or mechanism output) judged by the Lean inSpace predicate; it counts as non-trivial when the space has a LOG / REVERSE_LOG, singleton-domain or >10-valued numeric parameter; mechanism ties are keyed by their input (grid indices at or beyond the last grid point, defaults, variates)',
      assumptions=[
          'flat spaces as the designers document; LOG / REVERSE_LOG with positive bounds; float32-representable bounds (the designers use float32 converters by default)',
          'algorithms proper (GP, firefly dynamics, NSGA-II selection, Halton, PRNGs) are not modelled: the theorems hold for every array / variate they can produce, and every real suggestion is judged',
          'CMA_ES cannot run in this sandbox (evojax vs jax); BOCS / HARMONICA run on boolean spaces only and refuse others',
          'an error (refusal) is an acceptable answer; refusals are listed in coverage.refusals',
          'DOUBLE values compared with the model under eps*magnitude (1e-9, 1e-5 for float32 converters); all other values exactly',
      ])
