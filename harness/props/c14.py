"""C14 — seeded algorithms and benchmark runs are reproducible.

Three cooperating parts (DESIGN.md section 6 / C14):
(1) proof stage: Props/C14.lean (noninterference / seed-threading theorems over the
    provenance mini-language) and Props/C14Sites.lean (obligations about the GENERATED site
    tables, decided by the kernel);
(2) tie: translator translators/rng_provenance.py re-reads the anchored Python sources on
    every run and rewrites Generated/RngSites.lean (when changed) BEFORE the build; the same
    tables are judged through the Lean driver so that a broken obligation is named site by
    site; the model's verdict per designer (reproducible / seed used) is compared with what
    the real runs show;
(3) property stage: every designer (random, quasi-random, shuffled grid, eagle, NSGA-II,
    GP bandit, GP-UCB-PE; CMA-ES cannot run here) and a seeded benchmark run are executed on
    the real code twice with the same seed / problem / history — in-process after perturbing
    np.random / random / the clock / running an unrelated study, and in a FRESH PROCESS with
    another PYTHONHASHSEED — outputs must be bitwise identical; with different seeds they
    must differ."""
import json
import os
import subprocess
import sys
import time

from vcheck import core
from translators import rng_provenance as tr
from props import c14_worker as W

NONGP = ['random', 'quasi_random', 'grid', 'eagle', 'nsga2']
LABEL = {'random': 'RandomDesigner', 'quasi_random': 'QuasiRandomDesigner', 'grid': 'GridSearchDesigner',
         'eagle': 'EagleStrategyDesigner', 'nsga2': 'NSGA2Designer', 'gp_bandit': 'VizierGPBandit',
         'gp_ucb_pe': 'VizierGPUCBPEBandit', 'scalarizing': 'GaussianScalarizingEnsemble'}
# tables a designer's behaviour depends on besides its own (for the model's verdict)
DEPENDS = {'scalarizing': ['scalarizing_designer.ScalarizingDesigner', 'random.RandomDesigner'],
           'nsga2': ['numpy_populations.UniformRandomSampler', 'numpy_populations.LinfMutation',
                     'templates.CanonicalEvolutionDesigner'],
           'eagle': ['eagle_strategy_utils.EagleStrategyUtils', 'eagle_strategy_utils.FireflyPool',
                     'random_sample.functions', 'quasi_random.QuasiRandomDesigner'],
           'gp_bandit': ['vectorized_base.VectorizedOptimizer', 'optimizers_eagle_strategy.VectorizedEagleStrategy',
                         'quasi_random.QuasiRandomDesigner'],
           'gp_ucb_pe': ['vectorized_base.VectorizedOptimizer', 'optimizers_eagle_strategy.VectorizedEagleStrategy',
                         'quasi_random.QuasiRandomDesigner']}
CHAIN_TABLES = ['benchmark_state.ExperimenterDesignerBenchmarkStateFactory', 'benchmark_state.DesignerBenchmarkStateFactory',
                'benchmark_state.PolicySuggester', 'designer_policy.InRamDesignerPolicy',
                'designer_policy._SerializableDesignerPolicyBase', 'benchmark_runner.BenchmarkRunner',
                'benchmark_runner.GenerateSuggestions', 'benchmark_runner.GenerateAndEvaluate',
                'benchmark_runner.EvaluateActiveTrials', 'benchmark_runner.FillActiveTrials']


# ------------------------------------------------------------------ part 2: translator
def site_str(s):
  p = s['prov']
  return '%s %s [guard=%s, seed/key from %s%s] in %s' % (
      s['kind'], s['api'], s['guard'], json.dumps(p) if not isinstance(p, str) else p,
      '' if s['effect'] == 'output' else ', ' + s['effect'], s.get('where', '?').split(' <- ')[0])


def translator_stage(c):
  try:
    res, summ, changed, path = tr.generate(core.REPO, core.LEAN_DIR)
  except SyntaxError as e:
    raise core.InfraError('anchored source does not parse: %s' % e)
  c.flags['generated_file_rewritten'] = changed
  c.coverage_extra['translator'] = {
      'files': [f for f in tr.ANCHORED + tr.FOLLOWED if f not in summ['missing_files']],
      'tables': len(summ['tables']), 'sites': sum(len(t['sites']) for t in summ['tables'].values()),
      'generated': os.path.relpath(path, core.VERIF)}
  if summ['missing_files']:
    anchored_missing = [f for f in summ['missing_files'] if f in tr.ANCHORED]
    c.add_obligation('anchored files present', not anchored_missing, 'missing: %s' % anchored_missing)
  # --- the model judges the extracted tables (same criterion the kernel decides on the generated file)
  keys = sorted(summ['tables'])
  reqs = [{'op': 'table', 'sites': [{k: s[k] for k in ('kind', 'api', 'guard', 'prov', 'effect')} for s in summ['tables'][k]['sites']]}
          for k in keys]
  reqs.append({'op': 'chain', 'links': [l for l in summ['links'] if not l['side']]})
  reqs.append({'op': 'chain', 'links': [l for l in summ['links'] if l['side']]})
  # cross-check of the Python flattening against the model's inlineSites
  inl = []
  for name in res.order:
    for i in res.defs[name]['inlines']:
      inl.append((name, i))
  for name, i in inl:
    reqs.append({'op': 'inline', 'guard': i.guard, 'prov': tr.prov_json(i.prov),
                 'sites': [{k: s.as_dict()[k] for k in ('kind', 'api', 'guard', 'prov', 'effect')} for s in res.flat(i.callee)]})
  ans = c.lean('C14', reqs)
  verdict = {}
  for k, a in zip(keys, ans):
    t = summ['tables'][k]
    if 'error' in a:
      raise core.InfraError('driver C14: %s' % a)
    py_allowed = [s not in t['disallowed'] for s in t['sites']]
    if a['allowed'] != py_allowed or a['seedUsed'] != t['seed_used']:
      c.tie_break('translator criterion vs model `allowed`/`seedUsed`', {'table': k}, {'allowed': py_allowed, 'seedUsed': t['seed_used']},
                  {'allowed': a['allowed'], 'seedUsed': a['seedUsed']})
    bad = [s for s, ok in zip(t['sites'], a['allowed']) if not ok]
    verdict[k] = {'ok': a['allAllowed'], 'seed_used': a['seedUsed'], 'bad': bad, 'n': len(t['sites'])}
    if t['sites']:
      c.add_obligation('sites_ok[%s]' % k, a['allAllowed'],
                       '; '.join(site_str(s) for s in bad[:4]) if bad else '%d sites' % len(t['sites']))
      c.count(len(t['sites']), ('table', k), kind='translator:sites')
  seeded = dict(summ['designers'])
  for k in summ['also_seed_used']:
    seeded[k.split('.')[1]] = k
  for label, k in sorted(seeded.items()):
    ok = k in verdict and verdict[k]['seed_used']
    c.add_obligation('seed_used[%s]' % label, ok, '' if ok else 'no site that reaches the output reads the seed argument (table %s)' % k)
  main, side = ans[len(keys)], ans[len(keys) + 1]
  bad_links = [l for l in summ['links'] if l['prov'] != 'seedArg']
  c.add_obligation('chain_threaded[BenchmarkStateFactory -> designer_factory]', main['threaded'] and side['threaded'],
                   '; '.join('%s hands %s to %s' % (l['caller'], json.dumps(l['prov']), l['callee']) for l in bad_links))
  for (name, i), a in zip(inl, ans[len(keys) + 2:]):
    # provenance sets are compared up to the translator's normal form (order / duplicates / const inside derived)
    got = [(s['kind'], s['api'], s['guard'], json.dumps(tr.prov_json(tr.norm(prov_of_json(s['prov']))), sort_keys=True), s['effect'])
           for s in a['sites']]
    want = []
    for s in res.flat(i.callee):
      g = tr.g_and(i.guard, tr.g_resolve(s.guard, i.prov))
      want.append((s.kind, s.api, g, json.dumps(tr.prov_json(tr.subst(s.prov, i.prov)), sort_keys=True), s.effect))
    c.count(1, kind='translator:inline-crosscheck')
    if got != want:
      c.tie_break('translator inlining vs model inlineSites', {'def': name, 'callee': i.callee}, want[:6], got[:6])
  c.coverage_extra['not_executed'] = ['CMA_ES (evojax does not run under the installed jax): generic theorems + translator table cmaes.CMAESDesigner only']
  c.flags['model_says_reproducible'] = {d: model_says_reproducible(verdict, d, summ)[0] for d in LABEL}
  c.flags['model_says_seed_used'] = {d: bool(verdict.get(summ['designers'][LABEL[d]], {}).get('seed_used')) for d in LABEL}
  c.sample({'table': 'quasi_random.QuasiRandomDesigner', 'sites': [site_str(s) for s in summ['tables'].get('quasi_random.QuasiRandomDesigner', {'sites': []})['sites']]})
  return summ, verdict, not (main['threaded'] and side['threaded'])


def prov_of_json(j):
  return j if isinstance(j, str) else ('derived', tuple(prov_of_json(x) for x in j['derived']))


def model_says_reproducible(verdict, designer, summ):
  keys = [summ['designers'][LABEL[designer]]] + DEPENDS.get(designer, [])
  bad = []
  for k in keys:
    if k in verdict and not verdict[k]['ok']:
      bad += ['%s: %s' % (k, site_str(s)) for s in verdict[k]['bad']]
  return not bad, bad


# ------------------------------------------------------------------ part 3: case generation
def gen_problem(rng, kinds=None, n_metrics=1):
  n = rng.choice([2, 3, 3, 4])
  params = []
  for i in range(n):
    t = rng.choice(kinds or ['double', 'double', 'dlog', 'int', 'discrete', 'cat'])
    name = 'p%d' % i
    if t == 'double':
      lo = rng.choice([-5.0, 0.0, -1.0])
      params.append({'name': name, 'type': 'double', 'lo': lo, 'hi': lo + rng.choice([1.0, 3.5, 10.0]), 'scale': 'linear'})
    elif t == 'dlog':
      params.append({'name': name, 'type': 'double', 'lo': 1e-3, 'hi': 10.0, 'scale': 'log'})
    elif t == 'int':
      lo = rng.choice([0, 1, -3])
      params.append({'name': name, 'type': 'int', 'lo': lo, 'hi': lo + rng.choice([4, 7, 12])})
    elif t == 'discrete':
      params.append({'name': name, 'type': 'discrete', 'values': rng.choice([[0.5, 1.0, 4.0], [1.0, 2.0, 3.0, 8.0], [-1.0, 0.0, 2.5]])})
    else:
      params.append({'name': name, 'type': 'cat', 'values': rng.choice([['a', 'b', 'c'], ['x', 'y'], ['r', 's', 't', 'u']])})
  if not any(p['type'] == 'double' for p in params):
    params[0] = {'name': 'p0', 'type': 'double', 'lo': 0.0, 'hi': 1.0, 'scale': 'linear'}
  metrics = [{'name': 'obj', 'goal': rng.choice(['max', 'min'])}]
  if n_metrics == 2:
    metrics.append({'name': 'obj2', 'goal': 'max'})
  return {'params': params, 'metrics': metrics}


def gen_prefix(rng, spec, k):
  out = []
  for _ in range(k):
    ps = {}
    for q in spec['params']:
      if q['type'] == 'double':
        u = rng.random()
        if q.get('scale') == 'log':
          import math
          ps[q['name']] = math.exp(math.log(q['lo']) + u * (math.log(q['hi']) - math.log(q['lo'])))
        else:
          ps[q['name']] = q['lo'] + u * (q['hi'] - q['lo'])
      elif q['type'] == 'int':
        ps[q['name']] = rng.randrange(q['lo'], q['hi'] + 1)
      else:
        ps[q['name']] = rng.choice(q['values'])
    ms = W.objective(spec, ps)
    out.append({'params': ps, 'metrics': {m: v + rng.uniform(-0.01, 0.01) for m, v in ms.items()}})
  return out


FIXED_PROBLEM = {'params': [{'name': 'x', 'type': 'double', 'lo': -1.0, 'hi': 2.0, 'scale': 'linear'},
                            {'name': 'lr', 'type': 'double', 'lo': 1e-4, 'hi': 1.0, 'scale': 'log'},
                            {'name': 'n', 'type': 'int', 'lo': 1, 'hi': 6},
                            {'name': 'c', 'type': 'cat', 'values': ['a', 'b', 'c']},
                            {'name': 'd', 'type': 'discrete', 'values': [0.5, 1.0, 4.0]}],
                 'metrics': [{'name': 'obj', 'goal': 'max'}]}
BBOB_PROBLEM = {'params': [{'name': 'x%d' % i, 'type': 'double', 'lo': -5.0, 'hi': 5.0, 'scale': 'linear'} for i in range(3)],
                'metrics': [{'name': 'bbob_eval', 'goal': 'min'}]}
GP_PROBLEM = {'params': [{'name': 'x', 'type': 'double', 'lo': -1.0, 'hi': 2.0, 'scale': 'linear'},
                         {'name': 'y', 'type': 'double', 'lo': 0.0, 'hi': 1.0, 'scale': 'linear'},
                         {'name': 'c', 'type': 'cat', 'values': ['a', 'b']}],
              'metrics': [{'name': 'obj', 'goal': 'max'}]}


def designer_case(designer, seed, spec, prefix, opts=None):
  shape = {'eagle': (6, 5), 'nsga2': (4, 4), 'gp_bandit': (3, 2), 'gp_ucb_pe': (3, 2)}.get(designer, (3, 3))
  return {'kind': 'designer', 'designer': designer, 'seed': seed, 'problem': spec, 'prefix': prefix,
          'rounds': shape[0], 'count': shape[1], 'leave_active': designer in ('eagle', 'gp_ucb_pe', 'nsga2'),
          'opts': opts or {}}


def benchmark_case(designer, seed, spec, exp_seed, experimenter='custom', opts=None, repeats=3):
  return {'kind': 'benchmark', 'designer': designer, 'seed': seed, 'problem': spec, 'exp_seed': exp_seed,
          'experimenter': experimenter, 'repeats': repeats, 'opts': opts or {}}


def gen_cases(c, level, focus=None):
  """level 0 = quick, 1 = thorough, 2 = enlarged search (after a broken obligation / tie)."""
  rng = c.rng
  cases = []
  n_prob = [3, 6, 10][level]
  probs = [FIXED_PROBLEM] + [gen_problem(rng) for _ in range(n_prob)]
  seeds = [0] + [rng.randrange(1, 2 ** 31 - 1) for _ in range([2, 3, 5][level])]
  for d in NONGP:
    for pi, spec in enumerate(probs):
      for s in seeds:
        if level == 0 and pi > 0 and s != 0 and rng.random() < 0.4:
          continue
        k = rng.choice([0, 0, 3, 5])
        opts = {'direct': True} if (d in ('random', 'quasi_random', 'grid') and rng.random() < 0.3) else {}
        cases.append(designer_case(d, s, spec, gen_prefix(rng, spec, k), opts))
        if d in ('eagle', 'quasi_random', 'nsga2', 'grid') and (pi == 0 or rng.random() < 0.5):
          # the same run with the designer persisted and restored into a new instance after every
          # round (the service's per-operation policy): the restore path must not read the ambient
          cases.append(dict(designer_case(d, s, spec, gen_prefix(rng, spec, k), opts), restore=True))
          if d in ('eagle', 'quasi_random', 'grid') and not opts.get('direct'):
            # ... and rebuilt without the seed, as the hosted policy does: the persisted state alone must carry it
            cases.append(dict(designer_case(d, s, spec, gen_prefix(rng, spec, k), opts), restore='seedless'))
    # multi-objective history for NSGA-II
    if d == 'nsga2':
      spec2 = gen_problem(rng, n_metrics=2)
      cases.append(designer_case(d, seeds[-1], spec2, gen_prefix(rng, spec2, 3)))
    for s in seeds[:2 + level]:
      cases.append(benchmark_case(d, s, rng.choice(probs), rng.randrange(0, 1000)))
    cases.append(benchmark_case(d, seeds[-1], BBOB_PROBLEM, rng.randrange(0, 1000), 'bbob'))
    if d in ('random', 'eagle') or level > 0:
      # seeded wrapper experimenters of the benchmark library in the loop
      cases.append(benchmark_case(d, seeds[0], BBOB_PROBLEM, rng.randrange(0, 1000), 'hashinf'))
      cases.append(benchmark_case(d, seeds[-1], BBOB_PROBLEM, rng.randrange(0, 1000), 'factory'))
  # the seeded scalarizing ensemble (two objectives): what the seed determines directly (the members' weights),
  # for seed 0 in particular
  mo = gen_problem(rng, n_metrics=2)
  for s in seeds[:2]:
    cases.append(designer_case('scalarizing', s, mo, [], {'weights_only': True}))
  gp_seed = rng.randrange(1, 2 ** 31 - 1)
  if level == 0:
    cases.append(designer_case('gp_bandit', gp_seed, GP_PROBLEM, [], {'small': True}))
  else:
    cases.append(designer_case('gp_bandit', gp_seed, GP_PROBLEM, [], {}))
    cases.append(designer_case('gp_bandit', 0, gen_problem(rng, ['double', 'dlog', 'int', 'cat']), gen_prefix(rng, GP_PROBLEM, 0), {'small': True}))
    cases.append(designer_case('gp_ucb_pe', gp_seed, GP_PROBLEM, gen_prefix(rng, GP_PROBLEM, rng.choice([0, 2])), {}))
    cases.append(benchmark_case('gp_bandit', gp_seed, GP_PROBLEM, 5, opts={'small': True}, repeats=1))
  if focus:
    cases = [x for x in cases if x['designer'] in focus]
  return cases


# ------------------------------------------------------------------ fresh process
def start_worker(cases, perturb, hashseed):
  env = dict(os.environ)
  env.update({'PYTHONHASHSEED': str(hashseed), 'JAX_PLATFORMS': 'cpu', 'TF_CPP_MIN_LOG_LEVEL': '3',
              'PYTHONDONTWRITEBYTECODE': '1', 'VERIF_REPO': core.REPO})
  # stdout / stderr go to temporary files: a pipe nobody drains would block a chatty worker
  import tempfile
  fin = tempfile.TemporaryFile('w+')
  fin.write(json.dumps({'perturb': perturb, 'cases': cases}))
  fin.seek(0)
  fout, ferr = tempfile.TemporaryFile('w+'), tempfile.TemporaryFile('w+')
  p = subprocess.Popen(['/venv/bin/python', '-W', 'ignore', os.path.abspath(W.__file__)], stdin=fin,
                       stdout=fout, stderr=ferr, text=True, env=env)
  p.c14_files = (fin, fout, ferr)
  return p


def join_worker(p, n, timeout):
  fin, fout, ferr = p.c14_files
  try:
    p.wait(timeout=timeout)
  except subprocess.TimeoutExpired:
    p.kill()
    raise core.InfraError('C14 worker timed out')
  fout.seek(0)
  out = fout.read()
  ferr.seek(0)
  err = ferr.read()
  for f in (fin, fout, ferr):
    f.close()
  i = out.rfind('@@C14@@')
  if p.returncode != 0 or i < 0:
    raise core.InfraError('C14 worker failed rc=%s: %s' % (p.returncode, (err or out)[-800:]))
  res = json.loads(out[i + 7:])
  if len(res['results']) != n:
    raise core.InfraError('C14 worker answered %d/%d cases' % (len(res['results']), n))
  return res


# ------------------------------------------------------------------ part 3: the differential check
def first_diff(a, b):
  la = a.get('suggestions') or a.get('trials') or [a]
  lb = b.get('suggestions') or b.get('trials') or [b]
  for i, (x, y) in enumerate(zip(la, lb)):
    if x != y:
      return {'index': i, 'run1': x, 'run2': y}
  return {'index': min(len(la), len(lb)), 'run1_len': len(la), 'run2_len': len(lb), 'run1_error': a.get('error'), 'run2_error': b.get('error')}


def short(case):
  return dict(case)      # the whole case (replayable): designer, seed, problem, given history, shape


def attribute(case, base, singles):
  """which part of the ambient does the run depend on?"""
  plain = W.run_case(case)
  if plain == base:
    cause = []
    for label, sp in singles.items():
      with W.perturbed(sp):
        if W.run_case(case) != base:
          cause.append(label)
    return cause
  cause = []
  for label, sp in (('np.random global state', {'np_seed': 1}), ('random (python) global state', {'py_seed': 1})):
    with W.perturbed(sp):
      r1 = W.run_case(case)
    with W.perturbed(sp):
      r2 = W.run_case(case)
    if r1 == r2:
      cause.append(label + ' (runs agree once it is pinned)')
  return cause or ['OS entropy or the clock advancing between two plain runs in one process (pinning np.random / random does not make them agree)']


def dynamic_stage(c, level, summ, verdict, focus=None, tag='', cases=None):
  rng = c.rng
  if cases is None:
    cases = gen_cases(c, level, focus)
  if not cases:
    return
  nongp = [x for x in cases if x['designer'] in NONGP]
  gp = [x for x in cases if x['designer'] not in NONGP]
  pert_sub = {'np_seed': rng.randrange(2 ** 31), 'py_seed': rng.randrange(2 ** 31), 'burn': rng.randrange(1, 50),
              'clock_offset': float(rng.randrange(10 ** 6, 10 ** 8)), 'unrelated': rng.randrange(1, 1000)}
  hs = rng.randrange(1, 4000000000)
  workers = []
  if gp:
    workers.append((gp, start_worker(gp, pert_sub, hs)))
  if nongp:
    workers.append((nongp, start_worker(nongp, pert_sub, hs + 1)))
  c.flags['fresh_process_perturbation' + tag] = dict(pert_sub, PYTHONHASHSEED=[hs, hs + 1])

  singles = {'np.random global state': {'np_seed': 12345, 'burn': 7},
             'random (python) global state': {'py_seed': 54321, 'burn': 3},
             'wall clock (time.time / datetime.now)': {'clock_offset': 7.5e6},
             'an unrelated study ran first': {'unrelated': 77},
             'another seeded study stepped alongside in the same process': {'alongside': True}}
  base_results = {}
  for idx, case in enumerate(cases):
    d = case['designer']
    kind = case['kind']
    name = '%s:%s' % (kind, d)
    base = W.run_case(case)
    base_results[idx] = base
    pert = {'np_seed': rng.randrange(2 ** 31), 'py_seed': rng.randrange(2 ** 31), 'burn': rng.randrange(1, 50),
            'clock_offset': float(rng.randrange(10 ** 6, 10 ** 8)), 'unrelated': rng.randrange(1, 1000), 'alongside': True}
    with W.perturbed(pert):
      again = W.run_case(case)
    c.traces += 1
    items = base.get('suggestions') or base.get('trials') or []
    nontrivial = 'error' not in base and len(items) >= 2
    c.count(1, (name, idx, case['seed'], level) if nontrivial else None, kind=name)
    if 'error' in base:
      c.notes.append('%s seed=%s raised %s (both runs compared as errors)' % (name, case['seed'], base['error'][:120]))
    predicted, why = model_says_reproducible(verdict, d, summ)
    obs = c.flags.setdefault('observed_reproducible', {})
    obs.setdefault(name, True)
    if again != base:
      obs[name] = False
      cause = attribute(case, base, singles)
      what = ('%s(seed=%s): two runs with the same seed, problem and history differ in-process; depends on: %s' % (
          LABEL[d] if kind == 'designer' else 'benchmark run with ' + LABEL[d], case['seed'], ' / '.join(cause) or 'the perturbed ambient (np.random, random, clock, unrelated study together)'))
      c.prop_fail('nonreproducible-in-process:%s:%s' % (kind, d), what,
                  {'case': short(case), 'perturbation': pert, 'depends_on': cause, 'first_difference': first_diff(base, again)})
      if predicted and (kind == 'designer' or not summ.get('_chain_broken')):
        c.tie_break('model verdict vs real runs', {'designer': d, 'kind': kind}, 'not reproducible', 'all sites allowed')
    # different seeds are actually used
    if 'error' not in base:
      differs = False
      for alt in range(3):
        other_seed = (case['seed'] + 1 + alt * 7919) % (2 ** 31 - 1)
        other = W.run_case(dict(case, seed=other_seed))
        c.traces += 1
        if other != base:
          differs = True
          break
      if not differs:
        c.prop_fail('seed-ignored:%s:%s' % (kind, d),
                    '%s: seeds %s, %s, … give the same %s — the seed argument does not change the stream' % (
                        LABEL[d] if kind == 'designer' else 'benchmark run with ' + LABEL[d], case['seed'], case['seed'] + 1,
                        'suggestions' if kind == 'designer' else 'trial sequence'),
                    {'case': short(case), 'seeds_tried': [case['seed'], case['seed'] + 1]})
        if verdict.get(summ['designers'][LABEL[d]], {}).get('seed_used') and kind == 'designer':
          c.tie_break('model seedUsed vs real runs', {'designer': d}, 'seed ignored', 'seedUsed = true')
    if idx < 2:
      c.sample({'case': {k: case[k] for k in case if k != 'prefix'}, 'given_history_len': len(case.get('prefix', [])),
                'first_outputs': items[:2]})
  # fresh processes
  for batch, p in workers:
    res = join_worker(p, len(batch), timeout=1500)
    for case, fresh in zip(batch, res['results']):
      idx = cases.index(case)
      base = base_results[idx]
      c.traces += 1
      c.count(1, kind='fresh-process:%s:%s' % (case['kind'], case['designer']))
      if fresh != base:
        d, kind = case['designer'], case['kind']
        c.flags.setdefault('observed_reproducible', {})['%s:%s' % (kind, d)] = False
        what = ('%s(seed=%s): a fresh process (pid %s, PYTHONHASHSEED=%s, other global RNG state and clock, an unrelated study first) '
                'does not reproduce the run of this process' % (
                    LABEL[d] if kind == 'designer' else 'benchmark run with ' + LABEL[d], case['seed'], res['pid'], res['hashseed']))
        c.prop_fail('nonreproducible-fresh-process:%s:%s' % (kind, d), what,
                    {'case': short(case), 'perturbation': pert_sub, 'first_difference': first_diff(base, fresh)})
        predicted, _ = model_says_reproducible(verdict, d, summ)
        if predicted:
          c.tie_break('model verdict vs real runs (fresh process)', {'designer': d, 'kind': kind}, 'not reproducible', 'all sites allowed')


def run(c):
  summ, verdict, chain_broken = translator_stage(c)
  summ['_chain_broken'] = chain_broken
  c.proof_stage()
  level = 0 if c.tier == 'quick' else 1
  if getattr(c, 'replay_path', None):
    obj = json.load(open(c.replay_path))
    case = (obj.get('case') or {}).get('case')
    if case and 'designer' in case and 'problem' in case:
      c.notes.append('replay of %s' % c.replay_path)
      dynamic_stage(c, level, summ, verdict, tag=':replay', cases=[case])
    else:
      # a replay that names a broken obligation only: run the normal search
      dynamic_stage(c, level, summ, verdict)
  else:
    dynamic_stage(c, level, summ, verdict)

  def search():
    # enlarged budget; GP designers only when their own tables are involved (cost)
    broken = ' '.join(c.proof_broken) + ' '.join(b['where'] + json.dumps(b['case']) for b in c.tie_breaks)
    focus = list(NONGP)
    gp_tables = {'gp_bandit': ['gp_bandit', 'vectorized_base', 'optimizers_eagle_strategy', 'VizierGPBandit'],
                 'gp_ucb_pe': ['gp_ucb_pe', 'vectorized_base', 'optimizers_eagle_strategy', 'VizierGPUCBPEBandit']}
    for d, pats in gp_tables.items():
      if any(p in broken for p in pats):
        focus.append(d)
    c.flags['enlarged_search'] = focus
    dynamic_stage(c, 2, summ, verdict, focus=focus, tag=':search')
  return c.finish(
      level='proof',
      rule=('a case = (designer | seeded benchmark run, problem, given trial history, seed); seeds always include 0; '
            'each case is executed plain, again in-process after perturbing np.random / random / time.time / datetime.now and '
            'running an unrelated study, in a fresh process with another PYTHONHASHSEED, and with up to 3 other seeds; '
            'non-trivial = the plain run raised no exception and produced >= 2 suggestions / trials; translator tables count '
            'one evaluation per extracted site'),
      assumptions=['library RNG constructors / samplers are deterministic functions of their seed or key (trusted; sampled by the real runs)',
                   'translator completeness is trusted: RNG use inside libraries (evojax, tfp, jaxopt), dynamic dispatch through objects of unknown class and data flow through containers are not followed',
                   'CMA-ES cannot be executed here (evojax vs jax): covered by the generic theorems and the translator only (CMAESDesigner has no generator of its own and hands **cma_kwargs, seed included, to evojax)',
                   'XLA / BLAS numerical determinism across processes is outside the model and only sampled by the fresh-process runs',
                   'a designer object re-seeded by load(metadata) right after construction is recorded as seeded from the history (restart behaviour itself is property C13)'],
      search=search)
