"""C12 — algorithms get each completed trial exactly once, and all active trials.

Proof stage: Props/C12.lean (model Model/Loader.lean).

Tie: a RECORDING designer (records the arguments of every `Designer.update`, keeps its own
lineage number and what it was given in its dumped state, suggests tokenised points) is hosted
  * in the REAL service (RAM and SQLite) through a custom PolicyFactory behind the real
    PythiaServicer — by PartiallySerializableDesignerPolicy, SerializableDesignerPolicy (the
    service builds a new policy per request; state travels through the study metadata) or the
    stateless DesignerPolicy;
  * with InRamPolicySupporter — by InRamDesignerPolicy / PartiallySerializableDesignerPolicy kept
    alive, rebuilt from the supporter's metadata, rebuilt after the metadata was wiped, or DesignerPolicy.
Histories are generated at the API level (suggest 1-4 for several workers, out-of-order and
infeasible completion, add completed trial, request, StopTrial, deletions, metadata wipes).  After
every API call the trial table is diffed into model operations (create / set status / delete /
update with the policy mode); the Lean model (Drivers/C12.lean) replays them and its trial table,
its delivery log and the persisted id list are compared with the real ones.

Property stage: the Lean predicates `UpdateExact`, `ActiveExact`, `ExactlyOnce` evaluated by the
driver on the REAL delivery log (real snapshots of the trial table taken inside `update`)."""
import json

from vcheck import core

KEY_REUSE = 'id-reuse-after-max-id-deletion'
KEY_SHORTCUT = 'shortcut-after-max-id-deletion'
XMAX = 1000000.0
NS_ROOT = 'designer_policy_v0'
CACHE_KEY = 'incorporated_completed_trials_ids'
STATE_KEY = 'rec_state'


# ---------------------------------------------------------------------------- recording designer
class Recorder:
  """Harness-side sink shared by every designer instance of one history."""

  def __init__(self):
    self.events = []          # raw update events of the API call in progress
    self.next_token = 0
    self.next_lineage = 0
    self.snapshot_fn = None   # () -> [(id, token, status)] : the trial table right now
    self.mode_fn = None       # () -> the policy mode of the request being served (model vocabulary)
    self.sync_errors = []

  def token(self):
    self.next_token += 1
    return self.next_token

  def lineage(self):
    self.next_lineage += 1
    return self.next_lineage


def _tok(trial):
  return int(round(trial.parameters['x'].value))


def make_designers(rec):
  from vizier import algorithms as vza
  from vizier import pyvizier as vz
  from vizier.interfaces import serializable

  class _Base:
    def __init__(self, problem=None, **kwargs):
      del problem, kwargs
      self.lineage = None
      self.given = []

    def update(self, completed, all_active):
      if self.lineage is None:
        self.lineage = rec.lineage()
      comp = [(t.id, _tok(t)) for t in completed.trials]
      act = [(t.id, _tok(t)) for t in all_active.trials]
      rec.events.append({'lineage': self.lineage, 'given_before': list(self.given), 'completed': comp,
                         'active': act, 'table': rec.snapshot_fn(), 'mode': rec.mode_fn()})
      self.given = self.given + [list(p) for p in comp]

    def suggest(self, count=None):
      return [vz.TrialSuggestion({'x': float(rec.token())}) for _ in range(count or 1)]

    def dump(self):
      md = vz.Metadata()
      md[STATE_KEY] = json.dumps({'lineage': self.lineage, 'given': self.given})
      return md

    def _load(self, md):
      if STATE_KEY not in md:
        raise serializable.HarmlessDecodeError('no recorded state')
      try:
        d = json.loads(md[STATE_KEY])
        self.lineage, self.given = d['lineage'], [list(p) for p in d['given']]
      except (ValueError, KeyError, TypeError) as e:
        raise serializable.HarmlessDecodeError('undecodable recorded state') from e

  class PartialRec(_Base, vza.PartiallySerializableDesigner):
    def load(self, md):
      self._load(md)

  class SerialRec(_Base, vza.SerializableDesigner):
    @classmethod
    def recover(cls, md):
      d = cls()
      d._load(md)
      return d

  class PlainRec(_Base, vza.Designer):
    pass

  return PartialRec, SerialRec, PlainRec


def make_policy(kind, problem, supporter, designers, ns_root):
  from vizier._src.algorithms.policies import designer_policy as dp
  partial_cls, serial_cls, plain_cls = designers
  if kind == 'partial':
    return dp.PartiallySerializableDesignerPolicy(problem, supporter, partial_cls, ns_root=ns_root)
  if kind == 'serial':
    return dp.SerializableDesignerPolicy(problem, supporter, serial_cls, serial_cls, ns_root=ns_root)
  if kind == 'inram':
    return dp.InRamDesignerPolicy(problem, supporter, plain_cls)
  if kind == 'stateless':
    return dp.DesignerPolicy(supporter, plain_cls, use_seeding=False)
  raise ValueError(kind)


# ---------------------------------------------------------------------------- runners
class RunnerBase:
  """Executes API operations on the real code and derives the model-level history by observation."""

  def __init__(self):
    self.rec = Recorder()
    self.designers = make_designers(self.rec)
    self.rec.snapshot_fn = self.table
    self.rec.mode_fn = self.mode
    self.canon = {}            # token -> canonical uid (creation order)
    self.lin = {}              # real lineage -> canonical lineage (order of first update)
    self.model_ops = []
    self.checkpoints = []      # (index of last model op, canonical table) after every API call
    self.real_log = []         # canonical entries
    self.api_log = []
    self.errors = []           # unexpected failures inside the policy
    self.ns_root = NS_ROOT
    self.fresh_state = True    # the next rebuilt stateful policy finds no usable state
    self.max_deleted = False
    self.reused = False
    self.ever_ids = set()

  # -- to be provided: table(), stored_ids(), do(op)
  def _canon_table(self, table):
    for i, tok, _ in sorted(table):
      if tok not in self.canon:
        self.canon[tok] = len(self.canon) + 1
    return sorted(([i, self.canon[tok], st] for i, tok, st in table), key=lambda r: r[1])

  def _diff(self, before, after):
    """model operations turning table `before` into `after` (lists of (id, token, status))."""
    b = {tok: (i, st) for i, tok, st in before}
    a = {tok: (i, st) for i, tok, st in after}
    ops = []
    for tok, (i, st) in b.items():
      if tok not in a:
        if i == max(x[0] for x in before):
          self.max_deleted = True
        ops.append({'k': 'delete', 'id': i})
    for tok, (i, st) in a.items():
      if tok in b and b[tok][1] != st:
        ops.append({'k': 'set', 'id': i, 'st': st})
    for i, tok, st in sorted(after):
      if tok not in b:
        if i in self.ever_ids:
          self.reused = True
        self.ever_ids.add(i)
        ops.append({'k': 'create', 'st': st})
    return ops

  def api(self, op):
    """Run one API operation on the real code and append the model operations it amounts to."""
    before = self.table()
    self._canon_table(before)
    del self.rec.events[:]
    stored = self.stored_ids()
    try:
      res = self.do(op)
    except Exception as e:  # pylint: disable=broad-except
      res = 'EXC:%s:%s' % (type(e).__name__, str(e)[:200])
      if op['op'] == 'suggest':
        self.errors.append({'op': op, 'error': res})
    after = self.table()
    cur = before
    for ev in self.rec.events:
      self.model_ops += self._diff(cur, ev['table'])
      cur = ev['table']
      mode = ev['mode']
      mop = {'k': 'update', 'mode': mode}
      if mode == 'restored' and stored is not None:
        mop['stored'] = stored
      self.model_ops.append(mop)
      self.real_log.append(ev)
    self.model_ops += self._diff(cur, after)
    self.checkpoints.append((len(self.model_ops) - 1, self._canon_table(after)))
    self.api_log.append(dict(op, result=res if isinstance(res, str) else 'ok', updates=len(self.rec.events)))
    return res

  def canon_log(self):
    out = []
    for ev in self.real_log:
      if ev['lineage'] not in self.lin:
        self.lin[ev['lineage']] = len(self.lin)
      ck = lambda ps: sorted(([i, self.canon.setdefault(tok, len(self.canon) + 1)] for i, tok in ps), key=lambda r: r[1])
      out.append({'inst': self.lin[ev['lineage']], 'env': self._canon_table(ev['table']),
                  'completed': ck(ev['completed']), 'active': ck(ev['active']),
                  'given_before': ck(ev['given_before'])})
    return out


SERVICE_STATUS = {'REQUESTED': 'requested', 'ACTIVE': 'active', 'STOPPING': 'stopping',
                  'SUCCEEDED': 'completed', 'INFEASIBLE': 'completed'}


class ServiceRunner(RunnerBase):
  """The real VizierServicer + real PythiaServicer + a PolicyFactory hosting the recording designer."""

  def __init__(self, backend, kind):
    super().__init__()
    from vcheck import svc
    from vizier._src.service import pythia_service
    self.svc = svc
    self.kind = kind
    self.backend = backend
    self.sv = svc.make_servicer(backend)
    self.sv.default_pythia_service = pythia_service.PythiaServicer(self.sv, policy_factory=self._factory)
    spec = svc.study_pb2.StudySpec(algorithm='RANDOM_SEARCH')
    p = spec.parameters.add(parameter_id='x')
    p.double_value_spec.min_value = 0.0
    p.double_value_spec.max_value = XMAX
    spec.metrics.add(metric_id='obj', goal=svc.study_pb2.StudySpec.MetricSpec.GoalType.MAXIMIZE)
    self.sn = svc.create_study(self.sv, spec=spec).name
    # neighbours: studies of the same owner whose names extend the study's name ('s' -> 's1', 's_'), holding
    # completed and waiting trials with ids the study also uses - none of them may ever reach this study's algorithm
    for dname in ('s1', 's_', 'S'):
      dn = svc.create_study(self.sv, display=dname, spec=spec).name
      for st, tok in ((svc.study_pb2.Trial.State.SUCCEEDED, 900), (svc.study_pb2.Trial.State.REQUESTED, 901), (svc.study_pb2.Trial.State.SUCCEEDED, 902)):
        t = svc.study_pb2.Trial(state=st)
        t.parameters.add(parameter_id='x').value.number_value = float(tok)
        if st == svc.study_pb2.Trial.State.SUCCEEDED:
          t.final_measurement.metrics.add(metric_id='obj', value=1.0)
        self.sv.CreateTrial(svc.vsp.CreateTrialRequest(parent=dn, trial=t))

  def _factory(self, problem_statement, algorithm, policy_supporter, study_name):
    return make_policy(self.kind, problem_statement, policy_supporter, self.designers, self.ns_root)

  def table(self):
    st = self.svc.study_pb2.Trial.State
    out = []
    for t in self.sv.datastore.list_trials(self.sn):
      tok = -1
      for par in t.parameters:
        if par.parameter_id == 'x':
          tok = int(round(par.value.number_value))
      out.append((int(t.id), tok, SERVICE_STATUS[st.Name(t.state)]))
    return out

  def _md(self):
    return self.sv.GetStudy(self.svc.vsp.GetStudyRequest(name=self.sn)).study_spec.metadata

  def stored_ids(self):
    for kv in self._md():
      if kv.key == CACHE_KEY and kv.ns == ':%s:cache' % self.ns_root:
        try:
          v = json.loads(kv.value)
          return v if isinstance(v, list) and all(isinstance(x, int) for x in v) else None
        except ValueError:
          return None
    return None

  def mode(self):
    if self.kind == 'stateless':
      return 'stateless'
    m = 'lost' if self.fresh_state else 'restored'
    self.fresh_state = False     # the request dumps a complete state again
    return m

  def tname(self, i):
    return '%s/trials/%d' % (self.sn, i)

  def do(self, op):
    vsp, study_pb2 = self.svc.vsp, self.svc.study_pb2
    k = op['op']
    if k == 'suggest':
      o = self.sv.SuggestTrials(vsp.SuggestTrialsRequest(parent=self.sn, suggestion_count=op['count'], client_id=op['worker']))
      if o.HasField('error'):
        self.errors.append({'op': op, 'error': o.error.message[:300]})
        return 'operation-error:' + o.error.message[:200]
      if not o.done:
        return 'not-done'
      return 'ok'
    if k == 'complete':
      req = vsp.CompleteTrialRequest(name=self.tname(op['id']), trial_infeasible=bool(op.get('infeasible')),
                                     infeasible_reason=('bad' if op['id'] % 2 else '') if op.get('infeasible') else '')   # even ids: infeasible WITHOUT a reason text
      if not op.get('infeasible'):
        req.final_measurement.metrics.add(metric_id='obj', value=1.0)
      self.sv.CompleteTrial(req)
    elif k == 'add_completed':
      t = study_pb2.Trial(state=study_pb2.Trial.State.SUCCEEDED)
      t.parameters.add(parameter_id='x').value.number_value = float(self.rec.token())
      t.final_measurement.metrics.add(metric_id='obj', value=2.0)
      self.sv.CreateTrial(vsp.CreateTrialRequest(parent=self.sn, trial=t))
    elif k == 'request':
      t = study_pb2.Trial()
      t.parameters.add(parameter_id='x').value.number_value = float(self.rec.token())
      self.sv.CreateTrial(vsp.CreateTrialRequest(parent=self.sn, trial=t))
    elif k == 'stop':
      self.sv.StopTrial(vsp.StopTrialRequest(name=self.tname(op['id'])))
    elif k == 'delete':
      self.sv.DeleteTrial(vsp.DeleteTrialRequest(name=self.tname(op['id'])))
    elif k == 'wipe':
      if op['how'] == 'newns':
        self.ns_root = 'designer_policy_v%d' % (len(self.api_log) + 1)
      else:
        ns, key = {'cache': (':%s:cache' % self.ns_root, CACHE_KEY),
                   'designer': (':%s:designer' % self.ns_root, STATE_KEY)}[op['how']]
        req = vsp.UpdateMetadataRequest(name=self.sn)
        d = req.delta.add()
        d.metadatum.CopyFrom(self.svc.kv_list([[ns, key, op.get('value', 'not json {')]])[0])
        r = self.sv.UpdateMetadata(req)
        if r.error_details:
          return 'EXC:' + r.error_details
      self.fresh_state = True
    else:
      raise ValueError(k)
    return 'ok'


class InRamRunner(RunnerBase):
  """InRamPolicySupporter with a policy object kept alive / rebuilt / rebuilt after a wipe."""

  def __init__(self, kind):
    super().__init__()
    import shim
    shim.install()
    from vizier import pyvizier as vz
    from vizier import pythia
    self.vz = vz
    self.kind = kind
    problem = vz.ProblemStatement()
    problem.search_space.root.add_float_param('x', 0.0, XMAX)
    problem.metric_information.append(vz.MetricInformation(name='obj', goal=vz.ObjectiveMetricGoal.MAXIMIZE))
    self.sup = pythia.InRamPolicySupporter(problem)
    self.policy = None
    self.policy_used = False

  def table(self):
    st = {'REQUESTED': 'requested', 'ACTIVE': 'active', 'STOPPING': 'stopping', 'COMPLETED': 'completed'}
    return [(t.id, _tok(t), st[t.status.name]) for t in self.sup.trials]

  def stored_ids(self):
    md = self.sup.study_config.metadata.ns(self.ns_root).ns('cache')
    if CACHE_KEY in md:
      try:
        v = json.loads(md[CACHE_KEY])
        return v if isinstance(v, list) else None
      except ValueError:
        return None
    return None

  def mode(self):
    if self.kind == 'stateless':
      return 'stateless'
    if self.policy_used:
      return 'live'
    m = 'lost' if (self.fresh_state or self.kind == 'inram') else 'restored'
    self.fresh_state = False
    return m

  def _trial(self, i):
    for t in self.sup.trials:
      if t.id == i:
        return t
    raise KeyError(i)

  def do(self, op):
    vz = self.vz
    k = op['op']
    if k == 'suggest':
      if self.policy is None or op.get('rebuild'):
        self.policy = make_policy(self.kind, self.sup.study_config, self.sup, self.designers, self.ns_root)
        self.policy_used = False
      got = self.sup.SuggestTrials(self.policy, count=op['count'])
      self.policy_used = True
      if len(got) != op['count']:
        return 'short:%d' % len(got)
    elif k == 'complete':
      reason = ('bad' if op['id'] % 2 else '') if op.get('infeasible') else None
      if op.get('via') == 'copy':
        # the documented hand-back: a completed COPY given to AddTrials replaces the ACTIVE trial of the same id
        import copy as _copy
        t = _copy.deepcopy(self._trial(op['id']))
        t.complete(vz.Measurement({'obj': 1.0}), infeasibility_reason=reason)
        self.sup.AddTrials([t])
      else:
        self._trial(op['id']).complete(vz.Measurement({'obj': 1.0}), infeasibility_reason=reason)
    elif k == 'add_completed':
      t = vz.Trial(parameters={'x': float(self.rec.token())})
      t.complete(vz.Measurement({'obj': 2.0}))
      self.sup.AddTrials([t])
    elif k == 'request':
      self.sup.AddTrials([vz.Trial(parameters={'x': float(self.rec.token())}, is_requested=True)])
    elif k == 'activate':
      self._trial(op['id']).is_requested = False
    elif k == 'stop':
      self._trial(op['id']).stopping_reason = 'stop'
    elif k == 'wipe':
      if op['how'] == 'newns':
        self.ns_root = 'designer_policy_v%d' % (len(self.api_log) + 1)
      else:
        ns, key = {'cache': ('cache', CACHE_KEY), 'designer': ('designer', STATE_KEY)}[op['how']]
        self.sup.study_config.metadata.ns(self.ns_root).ns(ns)[key] = 'not json {'
      self.fresh_state = True
      self.policy = None          # a wipe only matters to a policy object built afterwards
    else:
      raise ValueError(k)
    return 'ok'


# ---------------------------------------------------------------------------- generators
def gen_service_history(rng, rr, length, max_del):
  """Adaptive generation against the live table; every op is executed through rr.api."""
  workers = ['w1', 'w2', 'w3']
  just_deleted_max = False
  for step in range(length):
    tab = rr.table()
    ids = [i for i, _, _ in tab]
    by = lambda *sts: [i for i, _, st in tab if st in sts]
    r = rng.random()
    op = None
    stored = (rr.stored_ids() or []) if max_del and ids else []
    top_st = next((st for i, _, st in tab if i == max(ids)), None) if ids else None
    if max_del and ids and max(ids) in stored and rng.random() < 0.5:
      # the top trial has been given to the algorithm: deleting it now frees an incorporated id
      op = {'op': 'delete', 'id': max(ids)}
      just_deleted_max = True
    elif max_del and top_st == 'completed' and max(ids) not in stored and rng.random() < 0.4:
      op = {'op': 'suggest', 'worker': 'w%d' % (4 + step), 'count': 1}
    elif just_deleted_max and rng.random() < 0.7:
      # steer towards the two defect classes: hand the freed id out again / ask the algorithm right away
      just_deleted_max = False
      cand = by('active', 'stopping')
      op = rng.choice([{'op': 'add_completed'}, {'op': 'suggest', 'worker': 'w%d' % (4 + step), 'count': 1}] +
                      ([{'op': 'complete', 'id': rng.choice(cand)}] if cand else []))
    elif r < 0.30 or not tab:
      w = rng.choice(workers + (['w%d' % (4 + step)] if rng.random() < 0.35 else []))
      op = {'op': 'suggest', 'worker': w, 'count': rng.choice([1, 1, 2, 2, 3, 4])}
    elif r < 0.56:
      cand = by('active', 'stopping')
      if cand:
        op = {'op': 'complete', 'id': max(cand) if max_del and rng.random() < 0.4 else rng.choice(cand), 'infeasible': rng.random() < 0.25}
    elif r < 0.63:
      op = {'op': 'add_completed'}
    elif r < 0.70:
      op = {'op': 'request'}
    elif r < 0.76:
      cand = by('active')
      if cand:
        op = {'op': 'stop', 'id': rng.choice(cand)}
    elif r < 0.90:
      if max_del and rng.random() < 0.6:
        op = {'op': 'delete', 'id': max(ids)}
        just_deleted_max = True
      else:
        cand = [i for i in ids if i != max(ids)]
        if cand:
          op = {'op': 'delete', 'id': rng.choice(cand)}
    elif r < 0.96:
      op = {'op': 'wipe', 'how': rng.choice(['cache', 'designer', 'newns'])}
    if op is None:
      op = {'op': 'suggest', 'worker': rng.choice(workers), 'count': rng.choice([1, 2, 3])}
    rr.api(op)
  # closing request by a fresh worker: every history ends with an update
  rr.api({'op': 'suggest', 'worker': 'wz', 'count': 1})


def scenario_prefix(rng, rr):
  """A randomised neighbourhood of the two counterexample witnesses: n trials, a subset containing the top one is
  completed and given to the algorithm, the top trials are deleted, then either a trial that was never given completes
  (shortcut class) or the freed id is handed out again (re-use class)."""
  n = rng.randrange(2, 7)
  if rng.random() < 0.5:
    for _ in range(n):
      rr.api({'op': 'request'})
    rr.api({'op': 'suggest', 'worker': 'w1', 'count': n})
  else:
    left = n
    while left > 0:
      k = min(left, rng.choice([1, 2, 3, 4]))
      rr.api({'op': 'suggest', 'worker': 'p%d' % left, 'count': k})
      left -= k
  subset = [i for i in range(1, n) if rng.random() < 0.6] + [n]
  rng.shuffle(subset)
  for i in subset:
    rr.api({'op': 'complete', 'id': i, 'infeasible': rng.random() < 0.2})
  rr.api({'op': 'suggest', 'worker': 'w2', 'count': 1})        # gives `subset`, creates n+1
  rr.api({'op': 'delete', 'id': n + 1})
  rr.api({'op': 'delete', 'id': n})
  if rng.random() < 0.3 and n - 1 in subset:
    rr.api({'op': 'delete', 'id': n - 1})
  rest = [i for i, _, st in rr.table() if st in ('active', 'stopping')]
  if rest and rng.random() < 0.6:
    rr.api({'op': 'complete', 'id': rng.choice(rest)})
  else:
    rr.api({'op': 'add_completed'})
  rr.api({'op': 'suggest', 'worker': 'w3', 'count': rng.choice([1, 2])})


def gen_inram_history(rng, rr, length):
  for step in range(length):
    tab = rr.table()
    by = lambda *sts: [i for i, _, st in tab if st in sts]
    r = rng.random()
    op = None
    if r < 0.34 or not tab:
      op = {'op': 'suggest', 'count': rng.choice([1, 1, 2, 3, 4]), 'rebuild': rr.kind in ('partial', 'serial') and rng.random() < 0.4}
    elif r < 0.62:
      cand = by('active', 'stopping')
      if cand:
        op = {'op': 'complete', 'id': rng.choice(cand), 'infeasible': rng.random() < 0.25}
        if rng.random() < 0.4:
          op['via'] = 'copy'
    elif r < 0.70:
      op = {'op': 'add_completed'}
    elif r < 0.77:
      op = {'op': 'request'}
    elif r < 0.84:
      cand = by('requested')
      if cand:
        op = {'op': 'activate', 'id': rng.choice(cand)}
    elif r < 0.91:
      cand = by('active')
      if cand:
        op = {'op': 'stop', 'id': rng.choice(cand)}
    elif r < 0.97 and rr.kind in ('partial', 'serial'):
      op = {'op': 'wipe', 'how': rng.choice(['cache', 'designer', 'newns'])}
    if op is None:
      op = {'op': 'suggest', 'count': rng.choice([1, 2]), 'rebuild': False}
    rr.api(op)
  rr.api({'op': 'suggest', 'count': 1, 'rebuild': False})


# ---------------------------------------------------------------------------- witnesses (API scripts)
W_SHORTCUT = [{'op': 'request'}, {'op': 'request'}, {'op': 'request'},
              {'op': 'suggest', 'worker': 'w1', 'count': 3},           # takes the three requested trials, no algorithm call
              {'op': 'complete', 'id': 1}, {'op': 'complete', 'id': 3},
              {'op': 'suggest', 'worker': 'w2', 'count': 1},           # update 1: given {1,3}; creates trial 4
              {'op': 'delete', 'id': 4}, {'op': 'delete', 'id': 3},    # max id is 2 now
              {'op': 'complete', 'id': 2},
              {'op': 'suggest', 'worker': 'w3', 'count': 1}]           # update 2: len(inc)=2=max -> nothing, trial 2 missed
W_REUSE = [{'op': 'request'}, {'op': 'request'}, {'op': 'request'},
           {'op': 'suggest', 'worker': 'w1', 'count': 3},
           {'op': 'complete', 'id': 1}, {'op': 'complete', 'id': 2}, {'op': 'complete', 'id': 3},
           {'op': 'suggest', 'worker': 'w2', 'count': 1},              # update 1: given {1,2,3}; creates 4
           {'op': 'delete', 'id': 4}, {'op': 'delete', 'id': 3},
           {'op': 'add_completed'},                                    # gets id 3 again
           {'op': 'suggest', 'worker': 'w3', 'count': 1}]              # update 2: id 3 is in inc -> the new trial is never given


def run_script(backend, kind, script):
  rr = ServiceRunner(backend, kind)
  for op in script:
    rr.api(dict(op))
  return rr


# ---------------------------------------------------------------------------- judging
FAILS = []     # (number of API calls, key, what, case): reported shortest history first


def fail(key, what, case):
  FAILS.append((len(case.get('api_ops', [])), len(FAILS), key, what, case))


def flush_fails(c):
  for _, _, key, what, case in sorted(FAILS, key=lambda f: f[:2]):
    c.prop_fail(key, what, case)
  del FAILS[:]


def case_of(rr, extra=None):
  d = {'runner': type(rr).__name__, 'backend': getattr(rr, 'backend', 'inram'), 'policy': rr.kind,
       'api_ops': rr.api_log, 'model_ops': rr.model_ops}
  d.update(extra or {})
  return d


def classify(entry, prior_same_lineage):
  """Why is this real update not exact?  entry: canonical real entry + 'expected' from the Lean judge."""
  got = [tuple(p) for p in entry['completed']]
  want = [tuple(p) for p in entry['expected']]
  missing = [p for p in want if p not in got]
  extra = [p for p in got if p not in want] + (['dup'] if len(set(got)) != len(got) else [])
  given = [tuple(p) for e in prior_same_lineage for p in e['completed']]
  given_ids = set(i for i, _ in given)
  max_id = max([r[0] for r in entry['env']] + [0])
  if extra or not missing:
    return 'update-not-exact:extra-or-repeated-delivery', missing, extra
  if all(i in given_ids and (i, u) not in given for i, u in missing):
    return KEY_REUSE, missing, extra
  unexplained = [(i, u) for i, u in missing if i not in given_ids]
  if unexplained and len(given_ids) == max_id:
    return KEY_SHORTCUT, missing, extra
  return 'update-not-exact:completed-trial-not-delivered', missing, extra


def judge_and_compare(c, runs, shortcut, stream):
  """runs: finished runners.  Model replay + tie + Lean predicates on the real logs."""
  if not runs:
    return
  model = c.lean('C12', [{'op': 'run', 'shortcut': shortcut, 'ops': rr.model_ops} for rr in runs])
  logs = [rr.canon_log() for rr in runs]
  judged = c.lean('C12', [{'op': 'judge', 'log': [{k: e[k] for k in ('inst', 'env', 'completed', 'active')} for e in lg]} for lg in logs])
  for hidx, (rr, m, lg, j) in enumerate(zip(runs, model, logs, judged)):
    if 'error' in m or 'error' in j:
      raise core.InfraError('driver C12: %s %s' % (m.get('error'), j.get('error')))
    c.traces += 1
    nontrivial = rr.max_deleted or any(o['op'] in ('delete', 'wipe') for o in rr.api_log) or len(lg) >= 3
    c.count(len(lg), (stream, hidx) if nontrivial else None, kind='updates:' + stream)
    for o in rr.api_log:
      c.dist['api:' + o['op']] = c.dist.get('api:' + o['op'], 0) + 1
    for o in rr.model_ops:
      if o['k'] == 'update':
        c.dist['mode:' + o['mode']] = c.dist.get('mode:' + o['mode'], 0) + 1
    if rr.max_deleted:
      c.dist['histories-with-max-id-deletion'] = c.dist.get('histories-with-max-id-deletion', 0) + 1
    if rr.reused:
      c.dist['histories-with-id-reuse'] = c.dist.get('histories-with-id-reuse', 0) + 1
    case = case_of(rr, {'stream': stream, 'real_log': lg})
    # ---- tie: trial table after every API call, persisted id list, delivery log
    tie_ok = True
    for idx, tab in rr.checkpoints:
      menv = m['envs'][idx] if idx >= 0 else []
      if menv != tab:
        c.tie_break('trial table after API call (ids are max+1, statuses, deletions)', case, tab, menv)
        tie_ok = False
        break
    if not m['wf']:
      c.tie_break('incorporated ids persisted in study metadata are not the model\'s set', case,
                  [o.get('stored') for o in rr.model_ops if o['k'] == 'update'], m['incs'])
      tie_ok = False
    mlog = m['log']
    # canonical lineage numbers: order of first appearance on both sides
    ren = {}
    for e in mlog:
      ren.setdefault(e['inst'], len(ren))
    mcanon = [{'inst': ren[e['inst']], 'env': e['env'], 'completed': e['completed'], 'active': e['active']} for e in mlog]
    rcanon = [{k: e[k] for k in ('inst', 'env', 'completed', 'active')} for e in lg]
    if mcanon != rcanon:
      first = next((i for i, (a, b) in enumerate(zip(mcanon, rcanon)) if a != b), min(len(mcanon), len(rcanon)))
      c.tie_break('delivery log (update #%d of %d real / %d model)' % (first, len(rcanon), len(mcanon)), case,
                  rcanon[first] if first < len(rcanon) else None, mcanon[first] if first < len(mcanon) else None)
      tie_ok = False
    if tie_ok and (m['top'] != (not rr.max_deleted) or m['fresh'] != (not rr.reused)):
      c.tie_break('history class (top kept / ids fresh) seen by harness vs model', case,
                  {'top': not rr.max_deleted, 'fresh': not rr.reused}, {'top': m['top'], 'fresh': m['fresh']})
    # ---- property on the REAL log (Lean predicates)
    if not j['snapshotsWF']:
      # the study's own trial table (datastore.list_trials) holds two trials with one identity: whatever is built on
      # it (the policy supporter's GetTrials, hence every update) cannot be exact
      fail('study-trial-table-duplicate-identity', 'list_trials of the study returns two trials with the same id: the table the algorithm is fed from is not the study\'s', case)
      continue
    for e in rr.errors:
      fail('algorithm-invocation-failed', 'a suggest request failed inside the hosted policy, the algorithm was not updated: %s' % e['error'], case)
    for i, e in enumerate(lg):
      prior = [p for p in lg[:i] if p['inst'] == e['inst']]
      if not j['activeFlags'][i]:
        fail('active-not-exact', 'update #%d: active list %s is not the ACTIVE trials of that moment (table %s)' % (i, e['active'], e['env']), dict(case, update=i))
      if not j['exactFlags'][i]:
        key, missing, extra = classify(dict(e, expected=j['expected'][i]), prior)
        c.dist['fail:%s:%s' % (stream, key)] = c.dist.get('fail:%s:%s' % (stream, key), 0) + 1
        fail(key, 'update #%d to designer lineage %d: completed list %s, but the completed trials not given before are %s (missing [id,uid] %s, unexpected %s)' % (
            i, e['inst'], e['completed'], j['expected'][i], missing, extra), dict(case, update=i, missing=missing, extra=extra))
      given_log = sorted((p for q in prior for p in q['completed']), key=lambda r: r[1])
      if sorted(e['given_before'], key=lambda r: r[1]) != given_log:
        fail('designer-state-out-of-sync', 'update #%d: the restored designer remembers being given %s, the deliveries to its lineage were %s' % (i, e['given_before'], given_log), dict(case, update=i))
    if j['updateExact'] and not j['exactlyOnce']:
      raise core.InfraError('Lean judge: exact updates but not exactly-once (contradicts c12_exact_implies_once)')
    if (not j['updateExact']) != (not all(j['exactFlags'])):
      raise core.InfraError('Lean judge: flags inconsistent')
    # the theorem's reading of this run: side condition true -> real log must be exact
    if m['wf'] and (m['top'] if shortcut else m['fresh']) and not j['updateExact'] and tie_ok:
      raise core.InfraError('model agrees with the real log, side condition holds, yet the log is not exact: contradicts c12_update_exact')
  if len(c.samples) < 4:
    rr = runs[0]
    c.sample({'stream': stream, 'api_ops': rr.api_log[:12], 'real_log': logs[0][:3]})


def identify(c):
  """Replay the two counterexample witnesses on the real service (RAM and SQLite)."""
  lean_w = c.lean('C12', [{'op': 'witness', 'name': 'shortcut'}, {'op': 'witness', 'name': 'idreuse'}])
  lean_runs = c.lean('C12', [{'op': 'run', 'shortcut': True, 'ops': lean_w[0]['ops']},
                             {'op': 'run', 'shortcut': False, 'ops': lean_w[0]['ops']},
                             {'op': 'run', 'shortcut': True, 'ops': lean_w[1]['ops']},
                             {'op': 'run', 'shortcut': False, 'ops': lean_w[1]['ops']}])
  c.add_obligation('driver reproduces the counterexample theorems on their witnesses', [r['updateExact'] for r in lean_runs] == [False, True, False, False],
                   str([r['updateExact'] for r in lean_runs]))
  shortcut_votes = []
  corpus = []
  for backend in ('ram', 'sqlmem'):
    for kind in ('partial', 'serial'):
      rr = run_script(backend, kind, W_SHORTCUT)
      lg = rr.canon_log()
      if len(lg) == 2 and not rr.errors:
        missed = lg[1]['completed'] == [] and any(r[2] == 'completed' and r[0] == 2 for r in lg[1]['env'])
        shortcut_votes.append(missed)
      rr2 = run_script(backend, kind, W_REUSE)
      lg2 = rr2.canon_log()
      corpus += [rr, rr2]
      if len(lg2) == 2 and not rr2.errors:
        c.flags.setdefault('idReuseLosesTrial', True)
        if lg2[1]['completed'] != []:
          c.flags['idReuseLosesTrial'] = False
  if not shortcut_votes:
    # the witness could not be replayed (the hosted policy fails): reported by the property stage on the corpus
    c.notes.append('witness (a) could not be replayed on the real service; comparing against the loader as written')
    shortcut_votes = [True]
  if len(set(shortcut_votes)) != 1:
    c.tie_break('shortcut variant differs between deployments', {'votes': shortcut_votes}, shortcut_votes, None)
  shortcut = shortcut_votes[0]
  c.flags['loaderLengthShortcut'] = shortcut
  return shortcut, corpus


def replay_case(case):
  """Re-execute the API calls of a replay / corpus file on the deployment it names."""
  if case.get('runner') == 'InRamRunner':
    rr = InRamRunner(case['policy'])
  else:
    rr = ServiceRunner(case.get('backend', 'ram'), case['policy'])
  for op in case['api_ops']:
    rr.api({k: v for k, v in op.items() if k not in ('result', 'updates')})
  return rr


def streams(c, shortcut, scale, tag=''):
  quick = c.tier == 'quick'
  # ---- stream 1: real service, the top trial is never deleted (the theorem's side condition)
  n1 = int((100 if quick else 900) * scale)
  runs = []
  for i in range(n1):
    kind = ['partial', 'serial', 'partial', 'stateless'][i % 4]
    rr = ServiceRunner(['ram', 'sqlmem'][(i // 4) % 2], kind)
    gen_service_history(c.rng, rr, c.rng.randrange(6, 22), max_del=False)
    runs.append(rr)
  judge_and_compare(c, runs, shortcut, 'service:top-kept' + tag)
  # ---- stream 2: real service, deletions of the max-id trial (id re-use, shortcut); every other history starts
  #      in a randomised neighbourhood of the counterexample witnesses
  n2 = int((120 if quick else 1100) * scale)
  runs = []
  for i in range(n2):
    kind = ['partial', 'serial', 'partial', 'stateless'][i % 4]
    rr = ServiceRunner(['ram', 'sqlmem'][(i // 4) % 2], kind)
    if i % 2:
      scenario_prefix(c.rng, rr)
    gen_service_history(c.rng, rr, c.rng.randrange(2, 12) if i % 2 else c.rng.randrange(6, 22), max_del=True)
    runs.append(rr)
  judge_and_compare(c, runs, shortcut, 'service:max-id-deleted' + tag)
  # ---- stream 3: InRamPolicySupporter, policy kept alive / rebuilt / wiped / stateless
  n3 = int((100 if quick else 900) * scale)
  runs = []
  for i in range(n3):
    rr = InRamRunner(['inram', 'partial', 'serial', 'stateless', 'partial'][i % 5])
    gen_inram_history(c.rng, rr, c.rng.randrange(6, 24))
    runs.append(rr)
  judge_and_compare(c, runs, shortcut, 'inram' + tag)
  if not quick:
    # sqlite file backend, a few long histories
    runs = []
    for i in range(int(20 * scale)):
      rr = ServiceRunner('sqlfile', ['partial', 'serial'][i % 2])
      gen_service_history(c.rng, rr, 60, max_del=(i % 4 == 3))
      runs.append(rr)
    judge_and_compare(c, runs, shortcut, 'service:sqlfile-long' + tag)
  return n1, n2, n3


def filter_stage(c):
  """`PolicySupporter.GetTrials` on both real supporters (ServicePolicySupporter over the real servicer and
  InRamPolicySupporter) with random tables and random combinations of trial_ids / min / max / status, vs
  `getTrialsF` (c12_get_trials_filter)."""
  import shim
  shim.install()
  from vcheck import svc
  from vizier import pythia
  from vizier import pyvizier as vz
  from vizier._src.service import service_policy_supporter, vizier_service_pb2 as vsp
  rng = c.rng
  ST = {'requested': vz.TrialStatus.REQUESTED, 'active': vz.TrialStatus.ACTIVE, 'stopping': vz.TrialStatus.STOPPING,
        'completed': vz.TrialStatus.COMPLETED}
  n_tables = 4 if c.tier == 'quick' else 25
  reqs, ctx = [], []
  for ti in range(n_tables):
    n = rng.randrange(0, 9)
    states = [rng.choice(['requested', 'active', 'stopping', 'completed', 'completed-infeasible']) for _ in range(n)]
    # ---- service table (ids 1..n; some deleted afterwards)
    sv = svc.make_servicer('ram')
    spec = svc.study_pb2.StudySpec(algorithm='RANDOM_SEARCH')
    p = spec.parameters.add(parameter_id='x')
    p.double_value_spec.min_value, p.double_value_spec.max_value = 0.0, XMAX
    spec.metrics.add(metric_id='obj', goal=svc.study_pb2.StudySpec.MetricSpec.GoalType.MAXIMIZE)
    sn = svc.create_study(sv, spec=spec).name
    TS = svc.study_pb2.Trial.State
    for i, st in enumerate(states):
      # CreateTrial stores unfinished trials as REQUESTED; ACTIVE / STOPPING are reached through the API below
      t = svc.study_pb2.Trial(state={'completed': TS.SUCCEEDED, 'completed-infeasible': TS.INFEASIBLE}.get(st, TS.REQUESTED))
      t.parameters.add(parameter_id='x').value.number_value = float(i + 1)
      if st == 'completed':
        t.final_measurement.metrics.add(metric_id='obj', value=1.0)
      if st == 'completed-infeasible':
        t.infeasible_reason = 'bad' if i % 2 else ''
      sv.CreateTrial(vsp.CreateTrialRequest(parent=sn, trial=t))
    want_out = sum(1 for st in states if st in ('active', 'stopping'))
    if want_out:
      sv.SuggestTrials(vsp.SuggestTrialsRequest(parent=sn, suggestion_count=want_out, client_id='w'))   # served from the queue
    for tp in list(sv.datastore.list_trials(sn)):
      if tp.state == TS.ACTIVE and rng.random() < 0.5:
        sv.StopTrial(vsp.StopTrialRequest(name=tp.name))
    deleted = [i + 1 for i in range(n) if rng.random() < 0.2]
    for d in deleted:
      sv.DeleteTrial(vsp.DeleteTrialRequest(name='%s/trials/%d' % (sn, d)))
    ssup = service_policy_supporter.ServicePolicySupporter(sn, sv)
    names = {TS.REQUESTED: 'requested', TS.ACTIVE: 'active', TS.STOPPING: 'stopping', TS.SUCCEEDED: 'completed', TS.INFEASIBLE: 'completed'}
    env_service = [[int(tp.id), int(tp.id), names[tp.state]] for tp in sv.datastore.list_trials(sn)]     # the table as stored
    # ---- in-RAM table (ids 1..n, never removed)
    problem = vz.ProblemStatement()
    problem.search_space.root.add_float_param('x', 0.0, XMAX)
    problem.metric_information.append(vz.MetricInformation(name='obj', goal=vz.ObjectiveMetricGoal.MAXIMIZE))
    isup = pythia.InRamPolicySupporter(problem)
    for i, st in enumerate(states):
      t = vz.Trial(parameters={'x': float(i + 1)})
      if st == 'requested':
        t.is_requested = True
      elif st == 'stopping':
        t.stopping_reason = 'stop'
      elif st == 'completed':
        t.complete(vz.Measurement({'obj': 1.0}))
      elif st == 'completed-infeasible':
        t.complete(vz.Measurement(), infeasibility_reason='bad' if i % 2 else '')
      isup.AddTrials([t])
    env_inram = [[i + 1, i + 1, states[i].split('-')[0]] for i in range(n)]
    for fi in range(10 if c.tier == 'quick' else 30):
      f = {}
      if rng.random() < 0.5:
        f['ids'] = sorted(set(rng.randrange(0, n + 3) for _ in range(rng.randrange(0, 5))))
        if rng.random() < 0.3:
          rng.shuffle(f['ids'])
      if rng.random() < 0.5:
        f['min'] = rng.randrange(0, n + 2)
      if rng.random() < 0.5:
        f['max'] = rng.randrange(0, n + 2)
      if rng.random() < 0.6:
        f['st'] = rng.choice(sorted(ST))
      kw = dict(trial_ids=f.get('ids'), min_trial_id=f.get('min'), max_trial_id=f.get('max'),
                status_matches=ST[f['st']] if 'st' in f else None)
      for name, sup, env in (('ServicePolicySupporter', ssup, env_service), ('InRamPolicySupporter', isup, env_inram)):
        try:
          got = [t.id for t in sup.GetTrials(**kw)]
        except Exception as e:  # pylint: disable=broad-except
          got = 'raised %s: %s' % (type(e).__name__, e)
        reqs.append(dict(f, op='filter', env=env))
        ctx.append((name, env, f, got))
  outs = c.lean('C12', reqs)
  for (name, env, f, got), m in zip(ctx, outs):
    c.traces += 1
    nconds = sum(1 for k in ('ids', 'min', 'max', 'st') if k in f)
    c.count(1, ('filter', name, json.dumps(env), json.dumps(f, sort_keys=True)) if nconds >= 2 and len(env) >= 3 else None,
            kind='GetTrials:%s:%d-conditions' % (name, nconds))
    if 'error' in m:
      raise core.InfraError('C12 driver: %s' % m)
    if got != m['ids']:
      fail('GetTrials-filter-wrong:' + name,
                    '%s.GetTrials(%s) on the trial table %s returned ids %s; the trials meeting every given condition are %s' % (
                        name, json.dumps(f, sort_keys=True), env, got, m['ids']),
                    {'supporter': name, 'table [id, uid, status]': env, 'filter': f, 'real': got, 'expected': m['ids']})


def run(c):
  import glob
  import os
  # translator: the keys of every SQL query (what the policy supporter's GetTrials is built on), kernel-checked
  from vcheck import sqlkeyscheck
  sqlkeyscheck.translate(c)
  from vcheck import pythiashapecheck
  pythiashapecheck.translate(c)
  c.proof_stage()
  pythiashapecheck.stage(c)
  sqlkeyscheck.stage(c)
  from vcheck import svc
  shortcut, corpus = identify(c)
  # ---- corpus: the witnesses (and any stored case), judged like every other history — the findings are
  #      reported from a concrete replay
  for path in ([c.replay_path] if getattr(c, 'replay_path', None) else []) + sorted(glob.glob(os.path.join(core.VERIF, 'corpus', 'C12', '*.json'))):
    blob = json.load(open(path))
    corpus.append(replay_case(blob.get('case', blob)))
  judge_and_compare(c, corpus, shortcut, 'witness')
  n1, n2, n3 = streams(c, shortcut, 1.0)
  filter_stage(c)
  flush_fails(c)
  c.coverage_extra['streams'] = {'witness/corpus histories': len(corpus), 'service top-kept': n1, 'service max-id-deleted': n2, 'inram': n3}
  c.coverage_extra['theorem_to_check'] = {
      'c12_update_exact / c12_exactly_once': 'real logs of histories whose model replay reports top=true must be exact (any other outcome is a violation or, if the tie holds, an internal contradiction)',
      'c12_update_exact_noshortcut': 'same with fresh=true when the current tree has no length shortcut',
      'c12_restored_equals_live': 'service (restored per request, real JSON list from the metadata) and in-RAM (live) runs are compared with the same model',
      'c12_shortcut_counterexample / c12_idreuse_counterexample': 'API-level witnesses replayed on RAM and SQLite with both serializable policy classes'}

  def search():
    streams(c, shortcut, 5.0 if c.tier == 'quick' else 2.0, tag=':search')
    flush_fails(c)
  code = c.finish(
      level='proof',
      rule='one evaluation = one real Designer.update judged by the Lean predicates (UpdateExact, ActiveExact, ExactlyOnce); '
           'a history counts as non-trivial when it contains a deletion, a metadata wipe / namespace switch or at least 3 updates; '
           'streams: real service RAM/SQLite with PartiallySerializable / Serializable / stateless DesignerPolicy (new policy per request, state through study metadata), '
           'the same with deletions of the max-id trial, InRamPolicySupporter with the policy kept alive / rebuilt / rebuilt after a wipe',
      assumptions=['trial identity is a token carried in parameter x (harness-created and designer-suggested trials); lineage = number kept in the recording designer\'s dumped state',
                   'status of a trial = proto state in the service table (SUCCEEDED/INFEASIBLE = completed) resp. vz.Trial.status with InRamPolicySupporter; completed trials always carry a final measurement or are infeasible',
                   'InRamPolicySupporter: no deletions (documented: trials are never removed)',
                   'DesignerPolicy is built with use_seeding=False (with seeding the first request of an empty study with count 1 never reaches the designer)',
                   'a metadata wipe overwrites the policy\'s reserved keys with undecodable text or switches ns_root; writing a valid foreign id list into the reserved namespace is out of scope',
                   'model variant (loaderLengthShortcut) identified by replaying witness (a) on the real service'],
      search=search)
  svc.cleanup()
  return code
